#!/usr/bin/env python3
# applies one seeded breakage at a time to the scratch worktree, runs bin/check C14, reverts
import subprocess, sys, os, re, json
R='/work/conv/repo-mut'
V='/work/conv/verif'
env=dict(os.environ, GOFLAGS='-mod=mod', GOPROXY='off', GOSUMDB='off', GOTOOLCHAIN='local', VERIF_REPO=R)
M=[
 ('copy-drops-swap','pkg/api/resources.go','			Swap:             Int64(r.Memory.GetSwap()),\n',''),
 ('copy-shares-unified','pkg/api/resources.go','''	if len(r.Unified) != 0 {
		o.Unified = make(map[string]string)
		for k, v := range r.Unified {
			o.Unified[k] = v
		}
	}
	if r.Pids != nil {
		o.Pids = &LinuxPids{''','''	o.Unified = r.Unified
	if r.Pids != nil {
		o.Pids = &LinuxPids{'''),
 ('copy-shares-hugepage-elems','pkg/api/resources.go','''		o.HugepageLimits = append(o.HugepageLimits, &HugepageLimit{
			PageSize: l.PageSize,
			Limit:    l.Limit,
		})
	}
	if len(r.Unified) != 0 {
		o.Unified = make(map[string]string)
		for k, v := range r.Unified {
			o.Unified[k] = v
		}
	}
	if r.Pids != nil {
		o.Pids = &LinuxPids{''','''		o.HugepageLimits = append(o.HugepageLimits, l)
	}
	if len(r.Unified) != 0 {
		o.Unified = make(map[string]string)
		for k, v := range r.Unified {
			o.Unified[k] = v
		}
	}
	if r.Pids != nil {
		o.Pids = &LinuxPids{'''),
 ('copy-shares-blockio','pkg/api/resources.go','	o.BlockioClass = String(r.BlockioClass)','	o.BlockioClass = r.BlockioClass'),
 ('fromoci-zero-limit-unset','pkg/api/resources.go','''			Limit:            Int64(m.Limit),
			Reservation:      Int64(m.Reservation),''','''			Limit:            nonZero(m.Limit),
			Reservation:      Int64(m.Reservation),''', '''
func nonZero(p *int64) *OptionalInt64 {
	if p == nil || *p == 0 {
		return nil
	}
	return Int64(p)
}
'''),
 ('tooci-zero-shares-unset','pkg/api/optional.go','''func (o *OptionalUInt64) Get() *uint64 {
	if o == nil {
		return nil
	}''','''func (o *OptionalUInt64) Get() *uint64 {
	if o == nil || o.Value == 0 {
		return nil
	}'''),
 ('parse-table-swap','pkg/api/event.go','''		"startcontainer":       Event_START_CONTAINER,''','''		"startcontainer":       Event_STOP_CONTAINER,'''),
 ('pretty-table-swap','pkg/api/event.go','''		Event_UPDATE_POD_SANDBOX:      "UpdatePodSandbox",
		Event_POST_UPDATE_POD_SANDBOX: "PostUpdatePodSandbox",''','''		Event_UPDATE_POD_SANDBOX:      "PostUpdatePodSandbox",
		Event_POST_UPDATE_POD_SANDBOX: "UpdatePodSandbox",'''),
 ('device-loses-filemode','pkg/api/device.go','			FileMode: FileMode(d.FileMode),\n',''),
 ('device-tooci-gid-from-uid','pkg/api/device.go','		GID:      d.Gid.Get(),','		GID:      d.Uid.Get(),'),
 ('env-split-last-eq','pkg/api/env.go','''		split := strings.SplitN(keyval, "=", 2)''','''		split := []string{keyval}
		if i := strings.LastIndex(keyval, "="); i >= 0 {
			split = []string{keyval[:i], keyval[i+1:]}
		}'''),
 ('hook-timeout-zero-unset','pkg/api/hooks.go','''		Timeout: h.Timeout.Get(),''','''		Timeout: nonZeroInt(h.Timeout.Get()),''','''
func nonZeroInt(p *int) *int {
	if p == nil || *p == 0 {
		return nil
	}
	return p
}
'''),
 ('mount-tooci-aliases-options','pkg/api/mount.go','''	for _, opt := range m.Options {
		o.Options = append(o.Options, opt)''','''	o.Options = m.Options
	for _, opt := range m.Options {'''),
 ('get-returns-internal-pointer','pkg/api/optional.go','''func (o *OptionalInt64) Get() *int64 {
	if o == nil {
		return nil
	}
	v := o.Value
	return &v''','''func (o *OptionalInt64) Get() *int64 {
	if o == nil {
		return nil
	}
	return &o.Value'''),
 ('tooci-pids-always','pkg/api/resources.go','''	if r.Pids != nil {
		o.Pids = &rspec.LinuxPids{
			Limit: r.Pids.Limit,
		}
	}
	return o''','''	o.Pids = &rspec.LinuxPids{Limit: r.GetPids().GetLimit()}
	return o'''),
 ('valid-events-off-by-one','pkg/api/event.go','ValidEvents = EventMask((1 << (Event_LAST - 1)) - 1)','ValidEvents = EventMask((1 << (Event_LAST - 2)) - 1)'),
 ('uint64-ctor-from-pint64-abs','pkg/api/optional.go','''		value = uint64(*o)
	case *uint64:''','''		value = uint64(*o)
		if *o < 0 {
			value = uint64(-*o)
		}
	case *uint64:'''),
 ('dupstringslice-aliases','pkg/api/helpers.go','''	out := make([]string, len(in))
	copy(out, in)
	return out''','''	return in[:len(in):len(in)]'''),
 # ---- follow-up round (review findings F1, F2, nil flags)
 ('copy-appends-nil-hugepage','pkg/api/resources.go',"""	if len(r.Unified) != 0 {
		o.Unified = make(map[string]string)
		for k, v := range r.Unified {
			o.Unified[k] = v
		}
	}
	if r.Pids != nil {
		o.Pids = &LinuxPids{""","""	o.HugepageLimits = append(o.HugepageLimits, nil)
	if len(r.Unified) != 0 {
		o.Unified = make(map[string]string)
		for k, v := range r.Unified {
			o.Unified[k] = v
		}
	}
	if r.Pids != nil {
		o.Pids = &LinuxPids{"""),
 ('copy-make-then-append-hugepages','pkg/api/resources.go',"""	for _, l := range r.HugepageLimits {
		o.HugepageLimits = append(o.HugepageLimits, &HugepageLimit{
			PageSize: l.PageSize,
			Limit:    l.Limit,
		})
	}
	if len(r.Unified) != 0 {
		o.Unified = make(map[string]string)
		for k, v := range r.Unified {
			o.Unified[k] = v
		}
	}
	if r.Pids != nil {
		o.Pids = &LinuxPids{""","""	if n := len(r.HugepageLimits); n > 0 {
		o.HugepageLimits = make([]*HugepageLimit, n)
	}
	for _, l := range r.HugepageLimits {
		o.HugepageLimits = append(o.HugepageLimits, &HugepageLimit{
			PageSize: l.PageSize,
			Limit:    l.Limit,
		})
	}
	if len(r.Unified) != 0 {
		o.Unified = make(map[string]string)
		for k, v := range r.Unified {
			o.Unified[k] = v
		}
	}
	if r.Pids != nil {
		o.Pids = &LinuxPids{"""),
 ('fromoci-devices-make-then-append','pkg/api/device.go',"""	var devices []*LinuxDevice
	for _, d := range o {""","""	devices := make([]*LinuxDevice, len(o))
	for _, d := range o {"""),
 ('fromocihookslice-make-then-append','pkg/api/hooks.go',"""	var hooks []*Hook
	for _, h := range o {""","""	hooks := make([]*Hook, len(o))
	for _, h := range o {"""),
 ('fromoci-resources-appends-nil-device','pkg/api/resources.go',"""	if p := o.Pids; p != nil {
		l.Pids = &LinuxPids{""","""	if len(o.Devices) > 0 {
		l.Devices = append(l.Devices, nil)
	}
	if p := o.Pids; p != nil {
		l.Pids = &LinuxPids{"""),
 ('int64-ctor-nil-is-zero','pkg/api/optional.go',"""	switch o := v.(type) {
	case int:
		value = int64(o)
	case uint:
		value = int64(o)
	case uint64:
		value = int64(o)
	case int64:
		value = o""","""	switch o := v.(type) {
	case nil:
		value = 0
	case int:
		value = int64(o)
	case uint:
		value = int64(o)
	case uint64:
		value = int64(o)
	case int64:
		value = o"""),
 ('bool-ctor-nil-is-false','pkg/api/optional.go',"""	switch o := v.(type) {
	case bool:
		value = o""","""	switch o := v.(type) {
	case nil:
		value = false
	case bool:
		value = o"""),
 ('filemode-ctor-nil-is-zero','pkg/api/optional.go',"""	switch o := v.(type) {
	case *os.FileMode:""","""	switch o := v.(type) {
	case nil:
		value = 0
	case *os.FileMode:"""),
 ('fromocimounts-options-never-nil','pkg/api/mount.go',"""			Options:     DupStringSlice(m.Options),""","""			Options:     append([]string{}, m.Options...),"""),
 ('hook-tooci-args-never-nil','pkg/api/hooks.go',"""	return rspec.Hook{
		Path:    h.Path,
		Args:    DupStringSlice(h.Args),""","""	return rspec.Hook{
		Path:    h.Path,
		Args:    append([]string{}, h.Args...),"""),
]
only=sys.argv[1:] 
res=[]
for m in M:
    name,f,old,new=m[0],m[1],m[2],m[3]
    extra=m[4] if len(m)>4 else ''
    if only and name not in only: continue
    p=os.path.join(R,f)
    subprocess.check_call(['git','-C',R,'checkout','-q','.'])
    s=open(p).read()
    if s.count(old)!=1:
        print(name,'PATTERN COUNT',s.count(old)); continue
    s=s.replace(old,new)+extra
    open(p,'w').write(s)
    b=subprocess.run(['go','build','./pkg/api/'],cwd=R,env=env,capture_output=True,text=True)
    if b.returncode!=0:
        print(name,'DOES NOT BUILD',b.stderr[:400]); continue
    t=subprocess.run(['go','test','-vet=off','-count=1','./pkg/api/...'],cwd=R,env=env,capture_output=True,text=True)
    tests='repo-tests-pass' if t.returncode==0 else 'repo-tests-FAIL'
    r=subprocess.run(['bin/check','C14','--seed','1'],cwd=V,env=env,capture_output=True,text=True)
    out=r.stdout
    viol=[l for l in out.splitlines() if l.startswith('VIOLATION')]
    why=[l.strip()[:260] for l in out.splitlines() if 'spec predicate false' in l]
    last=out.strip().splitlines()[-1] if out.strip() else ''
    print('==',name,tests,'exit',r.returncode,'|',len(viol),'violation line(s)')
    for w in why[:3]: print('    ',w)
    print('    ',last[:200])
    res.append((name,r.returncode,tests))
subprocess.check_call(['git','-C',R,'checkout','-q','.'])
subprocess.run(['git','-C',V,'checkout','harness/go.mod'])
print(json.dumps(res))
