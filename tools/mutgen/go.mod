module mutgen

go 1.21
