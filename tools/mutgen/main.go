// mutgen lists or applies single-point syntactic mutations of one Go source file.
//
//	mutgen list  <file.go>            -> one line per mutation: "<id>\t<line>\t<operator>\t<detail>"
//	mutgen apply <file.go> <id> <out> -> writes the mutated source to <out>
//
// Operators: negate an if condition; swap a comparison / logical operator; delete a statement
// (call, plain assignment, inc/dec, break/continue, defer/go); replace `return <err>` by
// `return nil` in the last result position is NOT attempted (types unknown). Mutants that do
// not compile or fail the existing tests are filtered by the caller.
package main

import (
	"fmt"
	"go/ast"
	"go/parser"
	"go/printer"
	"go/token"
	"os"
	"strconv"
	"strings"
)

type mutation struct {
	line   int
	op     string
	detail string
	apply  func()
}

var swaps = map[token.Token]token.Token{
	token.EQL: token.NEQ, token.NEQ: token.EQL, token.LSS: token.LEQ, token.LEQ: token.LSS,
	token.GTR: token.GEQ, token.GEQ: token.GTR, token.LAND: token.LOR, token.LOR: token.LAND,
}

func exprStr(fset *token.FileSet, n ast.Node) string {
	var sb strings.Builder
	printer.Fprint(&sb, fset, n)
	s := strings.Join(strings.Fields(sb.String()), " ")
	if len(s) > 90 {
		s = s[:90] + "…"
	}
	return s
}

func collect(fset *token.FileSet, f *ast.File) []mutation {
	var ms []mutation
	add := func(pos token.Pos, op, detail string, ap func()) {
		ms = append(ms, mutation{fset.Position(pos).Line, op, detail, ap})
	}
	var inLog func(n ast.Node) bool
	inLog = func(n ast.Node) bool {
		// statements that only log are not interesting
		es, ok := n.(*ast.ExprStmt)
		if !ok {
			return false
		}
		c, ok := es.X.(*ast.CallExpr)
		if !ok {
			return false
		}
		if se, ok := c.Fun.(*ast.SelectorExpr); ok {
			if id, ok := se.X.(*ast.Ident); ok && id.Name == "log" {
				return true
			}
		}
		return false
	}
	mutateList := func(list []ast.Stmt) {
		for i := range list {
			i := i
			st := list[i]
			switch s := st.(type) {
			case *ast.ExprStmt:
				if inLog(s) {
					continue
				}
				add(s.Pos(), "del-call", exprStr(fset, s), func() { list[i] = &ast.EmptyStmt{Semicolon: s.Pos()} })
			case *ast.AssignStmt:
				if s.Tok == token.DEFINE {
					continue
				}
				add(s.Pos(), "del-assign", exprStr(fset, s), func() { list[i] = &ast.EmptyStmt{Semicolon: s.Pos()} })
			case *ast.IncDecStmt:
				add(s.Pos(), "del-incdec", exprStr(fset, s), func() { list[i] = &ast.EmptyStmt{Semicolon: s.Pos()} })
			case *ast.BranchStmt:
				if s.Tok == token.BREAK || s.Tok == token.CONTINUE {
					add(s.Pos(), "del-branch", s.Tok.String(), func() { list[i] = &ast.EmptyStmt{Semicolon: s.Pos()} })
				}
			case *ast.DeferStmt:
				add(s.Pos(), "del-defer", exprStr(fset, s), func() { list[i] = &ast.EmptyStmt{Semicolon: s.Pos()} })
			case *ast.GoStmt:
				// keep the call, drop the concurrency: not attempted
			}
		}
	}
	ast.Inspect(f, func(n ast.Node) bool {
		switch x := n.(type) {
		case *ast.IfStmt:
			c := x.Cond
			add(x.Pos(), "negate-if", exprStr(fset, c), func() { x.Cond = &ast.UnaryExpr{Op: token.NOT, X: &ast.ParenExpr{X: c}} })
		case *ast.BinaryExpr:
			if to, ok := swaps[x.Op]; ok {
				from := x.Op
				add(x.OpPos, "swap-op", fmt.Sprintf("%s -> %s in %s", from, to, exprStr(fset, x)), func() { x.Op = to })
			}
		case *ast.BlockStmt:
			mutateList(x.List)
		case *ast.CaseClause:
			mutateList(x.Body)
		case *ast.CommClause:
			mutateList(x.Body)
		}
		return true
	})
	return ms
}

func main() {
	if len(os.Args) < 3 {
		fmt.Fprintln(os.Stderr, "usage: mutgen list <file> | mutgen apply <file> <id> <out>")
		os.Exit(2)
	}
	fset := token.NewFileSet()
	f, err := parser.ParseFile(fset, os.Args[2], nil, parser.ParseComments)
	if err != nil {
		fmt.Fprintln(os.Stderr, err)
		os.Exit(1)
	}
	ms := collect(fset, f)
	switch os.Args[1] {
	case "list":
		for i, m := range ms {
			fmt.Printf("%d\t%d\t%s\t%s\n", i, m.line, m.op, m.detail)
		}
	case "apply":
		id, _ := strconv.Atoi(os.Args[3])
		if id < 0 || id >= len(ms) {
			fmt.Fprintln(os.Stderr, "no such mutation")
			os.Exit(1)
		}
		ms[id].apply()
		out, err := os.Create(os.Args[4])
		if err != nil {
			fmt.Fprintln(os.Stderr, err)
			os.Exit(1)
		}
		defer out.Close()
		if err := printer.Fprint(out, fset, f); err != nil {
			fmt.Fprintln(os.Stderr, err)
			os.Exit(1)
		}
	}
}
