/-
Composition of the two models for property C03: the collector (`Nri.Result`, types
`Nri.NApi.*`) produces the combined reply; the OCI spec generator (`Nri.Generate`, types
`Nri.Api.*` / `Nri.Oci.*`) applies an adjustment to a spec.  The two models carry two
parallel families of data types; this file holds

  * the (obvious, field-by-field) conversions `toGen : NApi.Adjustment → Api.Adjustment` and
    its pieces, `hasLinux` + flattened linux section ↦ `linux : Option …`;
  * `toSpec : NApi.Container → Oci.Spec`, the OCI spec the original container is derived from
    (what `FromOCI*` reads back: args, env, mounts, annotations, hooks, rlimits, devices with
    one cgroup allow rule each, resources, cgroups path, OOM score);
  * `seqAdjust`: `Generator.Adjust` applied to each plugin's own adjustment in plugin order;
  * `adjsOf`: the adjustments of a chain, in plugin order;
  * `replyStep`: the effect of one plugin's adjustment on the reply collected so far, as a
    function of that reply alone (the collector's reply never reads the container or the
    ledger; proved equal to `(adjustData Quirks.fixed st a).reply` in `Lemmas/ComposeReply`);
  * the guards of C03 as decidable predicates: `WellFormed` (one plugin's adjustment) and
    `SpecWF` (the original spec).

Core Lean only.
-/
import NriModel.Result
import NriModel.Generate

namespace Nri.Compose
open Nri

/-! ### conversions of the pieces -/

def toGenMount (m : NApi.Mount) : Api.Mount :=
  { destination := m.destination, type := m.type, source := m.source, options := m.options }

def toGenKV (e : NApi.KeyValue) : Api.KeyValue := { key := e.key, value := e.value }

def toGenDevice (d : NApi.Device) : Api.LinuxDevice :=
  { path := d.path, type := d.type, major := d.major, minor := d.minor,
    fileMode := d.fileMode, uid := d.uid, gid := d.gid }

def toGenHook (h : NApi.Hook) : Api.Hook :=
  { path := h.path, args := h.args, env := h.env, timeout := h.timeout }

def toGenHooks (h : NApi.Hooks) : Api.Hooks :=
  { prestart := h.prestart.map toGenHook, createRuntime := h.createRuntime.map toGenHook,
    createContainer := h.createContainer.map toGenHook,
    startContainer := h.startContainer.map toGenHook,
    poststart := h.poststart.map toGenHook, poststop := h.poststop.map toGenHook }

def toGenRlimit (l : NApi.Rlimit) : Api.POSIXRlimit := { type := l.type, hard := l.hard, soft := l.soft }

def toGenHugepage (h : NApi.Hugepage) : Api.HugepageLimit := { pageSize := h.pageSize, limit := h.limit }

def toGenCpu (c : NApi.Cpu) : Api.LinuxCPU :=
  { shares := c.shares, quota := c.quota, period := c.period, realtimeRuntime := c.realtimeRuntime,
    realtimePeriod := c.realtimePeriod, cpus := c.cpus, mems := c.mems }

def toGenMemory (m : NApi.Memory) : Api.LinuxMemory :=
  { limit := m.limit, reservation := m.reservation, swap := m.swap, kernel := m.kernel,
    kernelTcp := m.kernelTcp, swappiness := m.swappiness, disableOomKiller := m.disableOomKiller,
    useHierarchy := m.useHierarchy }

def toGenResources (r : NApi.Resources) : Api.LinuxResources :=
  { memory := r.memory.map toGenMemory, cpu := r.cpu.map toGenCpu,
    hugepageLimits := r.hugepages.map toGenHugepage, blockioClass := r.blockioClass,
    rdtClass := r.rdtClass, unified := r.unified, pids := r.pids }

/-- The adjustment as the generator model reads it. -/
def toGen (a : NApi.Adjustment) : Api.Adjustment :=
  { annotations := a.annotations
    mounts := a.mounts.map toGenMount
    env := a.env.map toGenKV
    hooks := a.hooks.map toGenHooks
    linux := if a.hasLinux then
        some { devices := a.devices.map toGenDevice, resources := a.resources.map toGenResources,
               cgroupsPath := a.cgroupsPath, oomScoreAdj := a.oomScoreAdj }
      else none
    rlimits := a.rlimits.map toGenRlimit
    cdiDevices := a.cdiDevices
    args := a.args }

/-! ### the spec of the original container -/

def ociCpu (c : NApi.Cpu) : Oci.CPU :=
  { shares := c.shares, quota := c.quota, period := c.period, realtimeRuntime := c.realtimeRuntime,
    realtimePeriod := c.realtimePeriod, cpus := c.cpus, mems := c.mems }

def ociMemory (m : NApi.Memory) : Oci.Memory :=
  { limit := m.limit, reservation := m.reservation, swap := m.swap, kernel := m.kernel,
    kernelTCP := m.kernelTcp, swappiness := m.swappiness, disableOOMKiller := m.disableOomKiller,
    useHierarchy := m.useHierarchy }

def ociHooks (h : NApi.Hooks) : Oci.Hooks :=
  { prestart := h.prestart.map (fun x => (toGenHook x).toOCI)
    createRuntime := h.createRuntime.map (fun x => (toGenHook x).toOCI)
    createContainer := h.createContainer.map (fun x => (toGenHook x).toOCI)
    startContainer := h.startContainer.map (fun x => (toGenHook x).toOCI)
    poststart := h.poststart.map (fun x => (toGenHook x).toOCI)
    poststop := h.poststop.map (fun x => (toGenHook x).toOCI) }

/-- The OCI spec the NRI container `c` is derived from (the inverse reading of the
    `FromOCI*` functions on the modelled fields).  Every device comes with its cgroup allow
    rule.  The class NAMES of block I/O / RDT are not part of a spec (only their resolved
    parameters are, which the runtime does not hand to NRI), so `blockio`/`rdt` start unset;
    `rootfsPropagation` and the ghost field `cdi` start empty. -/
def toSpec (c : NApi.Container) : Oci.Spec :=
  { annotations := c.annotations
    args := c.args
    env := c.env
    rlimits := c.rlimits.map (fun l => (toGenRlimit l).toOCI)
    oomScoreAdj := c.oomScoreAdj
    mounts := c.mounts.map (fun m => (toGenMount m).toOCI)
    devices := c.devices.map (fun d => (toGenDevice d).toOCI)
    devRules := c.devices.map (fun d => (toGenDevice d).cgroupRule)
    cpu := ociCpu (c.resources.cpu.getD {})
    memory := ociMemory (c.resources.memory.getD {})
    hugepages := c.resources.hugepages.map (fun h => { pageSize := h.pageSize, limit := h.limit })
    unified := c.resources.unified
    pids := c.resources.pids
    blockio := none
    rdt := none
    cgroupsPath := c.cgroupsPath
    rootfsPropagation := []
    hooks := ociHooks c.hooks
    cdi := [] }

/-! ### sequential application -/

/-- `Generator.Adjust` applied to each adjustment in turn (a fresh generator on the spec the
    previous one produced); the first error aborts. -/
def seqAdjust (ext : Generate.Externals) : Oci.Spec → List Api.Adjustment → Except Generate.GenError Oci.Spec
  | s, [] => .ok s
  | s, a :: rest =>
    match Generate.adjust ext s a with
    | .ok s' => seqAdjust ext s' rest
    | .error e => .error e

/-- the adjustment a chain element contributes (creation requests) -/
def adjOf : Result.Plugin × Option Result.Response → Option NApi.Adjustment
  | (_, some r) => r.adjust
  | (_, none) => none

/-- the plugins' own adjustments, in plugin order -/
def adjsOf (rs : List (Result.Plugin × Option Result.Response)) : List NApi.Adjustment :=
  rs.filterMap adjOf

/-! ### the collector's reply as a fold -/

/-- keys marked for removal that are not set again in the same response, one entry per key
    (the re-emitted lone removal markers) -/
def loneOf {α : Type} (key : α → Str) (L : List α) : List α :=
  let mod := (L.filter fun x => !(NApi.isMarked (key x)).2).map key
  (L.filter fun x => (NApi.isMarked (key x)).2 && !mod.contains (NApi.clearMarker (key x))).foldr
    (fun x acc => if acc.any (fun y => key y = key x) then acc else x :: acc) []

/-- `reply.adjust.{Mounts,Env,Linux.Devices}` after one response `L`: entries of keys the
    response removes are dropped, its sets appended, its lone removal markers re-emitted. -/
def keyedStep {α : Type} (key : α → Str) (R L : List α) : List α :=
  (R.filter fun x => !(Result.delKeys (L.map key)).contains (key x)) ++
    (L.filter fun x => !(NApi.isMarked (key x)).2) ++ loneOf key L

def annStep (R a : AList Str Str) : AList Str Str :=
  let del := Result.annDel a
  let set := Result.annSet a
  let lone := del.filter fun k => !(set.any fun (k', _) => k' = k)
  let both := set.filter fun (k, _) => del.contains k
  let r1 := both.foldl (fun m (k, _) => AList.insert m (NApi.markForRemoval k) []) R
  let r2 := set.foldl (fun m (k, v) => AList.insert m k v) r1
  let r3 := lone.foldl (fun m k => AList.insert m (NApi.markForRemoval k) []) r2
  lone.foldl (fun m k => AList.erase m k) r3

def argsStep (R a : List Str) : List Str :=
  match a with
  | [] => R
  | x :: rest => if x = [] then rest else x :: rest

def hooksStep (R : Option NApi.Hooks) (h : Option NApi.Hooks) : Option NApi.Hooks :=
  match h with
  | none => R
  | some h => some ((R.getD {}).append h)

def resStep (R : Option NApi.Resources) (r : Option NApi.Resources) : Option NApi.Resources :=
  match r with
  | none => R
  | some r => some (Result.overlayRes (R.getD (Result.normRes {})) r r.pids)

/-- `reply.adjust` after one plugin's adjustment `a`, given the reply `R` collected so far
    (`result.adjust` when every claim succeeds). -/
def replyStep (R a : NApi.Adjustment) : NApi.Adjustment :=
  { annotations := annStep R.annotations a.annotations
    mounts := keyedStep (·.destination) R.mounts a.mounts
    env := keyedStep (·.key) R.env a.env
    hooks := hooksStep R.hooks a.hooks
    hasLinux := R.hasLinux
    devices := if a.hasLinux then keyedStep (·.path) R.devices a.devices else R.devices
    resources := if a.hasLinux then resStep R.resources a.resources else R.resources
    cgroupsPath := if a.hasLinux && a.cgroupsPath ≠ [] then a.cgroupsPath else R.cgroupsPath
    oomScoreAdj := if a.hasLinux then a.oomScoreAdj.orElse (fun _ => R.oomScoreAdj) else R.oomScoreAdj
    rlimits := R.rlimits ++ a.rlimits
    cdiDevices := R.cdiDevices ++ a.cdiDevices
    args := argsStep R.args a.args }

/-- the reply a creation request starts from (`collectCreateContainerResult`) -/
def reply0 : NApi.Adjustment :=
  { hooks := some {}, hasLinux := true, resources := some (Result.normRes {}) }

/-! ### guards -/

/-- a key as a plugin may name it: after dropping one removal marker it does not itself
    start with the marker (no `--k`) -/
def keyOk (k : Str) : Bool :=
  match NApi.clearMarker k with
  | [] => true
  | c :: _ => c != '-'

/-- raw keys of one response: each acceptable (a set and the removal of the same key may both
    be present, in either order; the same key set twice is rejected by the ledger itself) -/
def keysOk (keys : List Str) : Bool := keys.all keyOk

/-- the args of one response: empty (not requested), or — after the `UpdateArgs` marker, if
    present — a non-empty command line whose first word is not the empty string -/
def argsOk (args : List Str) : Bool :=
  match args with
  | [] => true
  | [] :: [] => false
  | [] :: [] :: _ => false
  | _ => true

/-- no mount option asks for a mount propagation mode -/
def noPropagation (m : NApi.Mount) : Bool := m.options.all fun o => !Api.isPropagationOpt o

/-- **Guard on one plugin's adjustment**, the part every family needs (each clause is
    forced; witnesses in `Props/C03.lean`). -/
def wellFormedCore (a : NApi.Adjustment) : Bool :=
  keysOk (a.annotations.map (·.1)) &&
  keysOk (a.mounts.map (·.destination)) &&
  keysOk (a.env.map (·.key)) &&
  (a.env.all fun e => !(e.key.contains '=')) &&
  keysOk (a.devices.map (·.path)) &&
  argsOk a.args

abbrev WellFormedCore (a : NApi.Adjustment) : Prop := wellFormedCore a = true

/-- **Guard of C03**: the core guard, and no mount asks for a propagation mode (with such an
    option `AdjustMounts` can fail and raises the rootfs propagation; see
    `C03_propagation` for what holds without this clause). -/
def wellFormed (a : NApi.Adjustment) : Bool :=
  wellFormedCore a && (a.mounts.all noPropagation)

abbrev WellFormed (a : NApi.Adjustment) : Prop := wellFormed a = true

/-- **Guard on the original spec**: distinct mount destinations, distinct device paths, every
    environment entry is `NAME=value` with distinct non-empty names. -/
def specWF (s : Oci.Spec) : Bool :=
  decide (s.mounts.map (·.destination)).Nodup &&
  decide (s.devices.map (·.path)).Nodup &&
  (s.env.all fun e => match Generate.Env.splitEq e with | some (n, _) => n != [] | none => false) &&
  decide (s.env.map Generate.Env.nameOf).Nodup

abbrev SpecWF (s : Oci.Spec) : Prop := specWF s = true

end Nri.Compose
