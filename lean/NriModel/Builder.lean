/-
Model of the plugin-author helper API: pkg/api/adjustment.go (helpers of `*ContainerAdjustment`)
and pkg/api/update.go (helpers of `*ContainerUpdate`).

What a plugin author writes is a PROGRAM of helper calls on a fresh message —
`adjust.RemoveEnv("X"); adjust.AddEnv("X","v"); adjust.SetLinuxCPUShares(5)` — and the message
that results is what the collector (`Nri.Result`) receives. `AOp` / `UOp` have one constructor per
exported helper; `runA` / `runU` fold a program over the empty message, transcribing each Go
helper as it is (removal markers, lazily created sub-messages, map assignment vs slice append,
`Int(nil)`, `slices.Clone`, `uint64(int64)`).

The 21 resource helpers (`SetLinuxMemoryLimit` … `AddLinuxUnified`) exist twice in Go with the
same body up to the receiver (adjustment.go:150-272, update.go:25-147); they are the type `ROp`,
embedded as `AOp.res` and `UOp.res`, and `AOp.setLinuxMemoryLimit` … are match-pattern
abbreviations so that every exported helper has its own name here.

Representation (NriModel/ApiTypes.lean): `Adjustment` flattens `LinuxContainerAdjustment`
(`hasLinux` = the `Linux` pointer is non-nil), `Update` flattens `linux.resources`; Go maps are
association lists; nil and empty slices/maps are identified; an unallocated `*LinuxMemory`,
`*LinuxCPU`, `*LinuxResources`, `*Hooks` is `none`.

The syntactic readings `progSets`, `progClears`, `progVals` (which items a program sets /
releases / with which value) are folds over the program that never build a message; the
theorems of Props/Builder.lean relate them to `Result.adjustSets`, `Ledger.removesAdj`,
`Ledger.setsUpd` of the message `runA`/`runU` builds. They live here because the driver
evaluates them on the implementation's observation.

`AddHooks(nil)` dereferences the nil pointer (adjustment.go:99 — unlike `Hooks.Append`, which
returns early on nil): that call is not an `AOp`; it is the fault of `ACall.addHooksNil`
(`runCalls`), observed by the harness as a crashed handler.

Core Lean only.
-/
import NriModel.Ledger

namespace Nri.Builder
open Nri Nri.NApi Nri.Result

/-- Go `uint64(v)` for `v int64` (`UInt64(value)` in `SetLinuxCPUPeriod`, whose parameter is
    `int64` while the field is `OptionalUInt64`): two's complement wrap. -/
def u64OfInt (v : Int) : Nat := (v % 18446744073709551616).toNat

/-! ### resource helpers, common to both receivers -/

/-- one constructor per `SetLinux*` / `AddLinux*` resource helper -/
inductive ROp
  | memLimit (v : Int) | memReservation (v : Int) | memSwap (v : Int) | memKernel (v : Int)
  | memKernelTcp (v : Int) | memSwappiness (v : Nat) | memDisableOom | memUseHierarchy
  | cpuShares (v : Nat) | cpuQuota (v : Int) | cpuPeriod (v : Int) | cpuRtRuntime (v : Int)
  | cpuRtPeriod (v : Nat) | cpus (s : Str) | mems (s : Str) | pids (v : Int)
  | hugepage (size : Str) (v : Nat) | blockio (s : Str) | rdt (s : Str) | unified (k v : Str)
  deriving DecidableEq, Repr, Inhabited

/-- `initLinuxResourcesMemory` + assignment: the memory section is allocated if nil -/
def withMem (r : Resources) (f : Memory → Memory) : Resources :=
  { r with memory := some (f (r.memory.getD {})) }

/-- `initLinuxResourcesCPU` + assignment -/
def withCpu (r : Resources) (f : Cpu → Cpu) : Resources :=
  { r with cpu := some (f (r.cpu.getD {})) }

/-- the effect of one resource helper on `Linux.Resources` (already allocated) -/
def stepR (r : Resources) : ROp → Resources
  | .memLimit v => withMem r fun m => { m with limit := some v }
  | .memReservation v => withMem r fun m => { m with reservation := some v }
  | .memSwap v => withMem r fun m => { m with swap := some v }
  | .memKernel v => withMem r fun m => { m with kernel := some v }
  | .memKernelTcp v => withMem r fun m => { m with kernelTcp := some v }
  | .memSwappiness v => withMem r fun m => { m with swappiness := some v }
  | .memDisableOom => withMem r fun m => { m with disableOomKiller := some true }
  | .memUseHierarchy => withMem r fun m => { m with useHierarchy := some true }
  | .cpuShares v => withCpu r fun c => { c with shares := some v }
  | .cpuQuota v => withCpu r fun c => { c with quota := some v }
  | .cpuPeriod v => withCpu r fun c => { c with period := some (u64OfInt v) }
  | .cpuRtRuntime v => withCpu r fun c => { c with realtimeRuntime := some v }
  | .cpuRtPeriod v => withCpu r fun c => { c with realtimePeriod := some v }
  | .cpus s => withCpu r fun c => { c with cpus := s }
  | .mems s => withCpu r fun c => { c with mems := s }
  -- `initLinuxResourcesPids` allocates `LinuxPids`, so the limit counts as set whatever its value
  | .pids v => { r with pids := some v }
  | .hugepage size v => { r with hugepages := r.hugepages ++ [{ pageSize := size, limit := v }] }
  -- `String(value)` never returns nil for a `string` argument: an empty class is still "set"
  | .blockio s => { r with blockioClass := some s }
  | .rdt s => { r with rdtClass := some s }
  | .unified k v => { r with unified := AList.insert r.unified k v }

/-! ### `*ContainerAdjustment` -/

inductive AOp
  | addAnnotation (k v : Str) | removeAnnotation (k : Str)
  | addMount (m : Mount) | removeMount (path : Str)
  | addEnv (k v : Str) | removeEnv (k : Str)
  | setArgs (args : List Str) | updateArgs (args : List Str)
  | addHooks (h : Hooks)
  | addRlimit (type : Str) (hard soft : Nat)
  | addDevice (d : Device) | removeDevice (path : Str)
  | addCDIDevice (name : Str)
  | res (r : ROp)
  | setLinuxCgroupsPath (s : Str)
  | setLinuxOomScoreAdj (v : Option Int)
  deriving DecidableEq, Repr, Inhabited

namespace AOp
@[match_pattern] abbrev setLinuxMemoryLimit (v : Int) : AOp := .res (.memLimit v)
@[match_pattern] abbrev setLinuxMemoryReservation (v : Int) : AOp := .res (.memReservation v)
@[match_pattern] abbrev setLinuxMemorySwap (v : Int) : AOp := .res (.memSwap v)
@[match_pattern] abbrev setLinuxMemoryKernel (v : Int) : AOp := .res (.memKernel v)
@[match_pattern] abbrev setLinuxMemoryKernelTCP (v : Int) : AOp := .res (.memKernelTcp v)
@[match_pattern] abbrev setLinuxMemorySwappiness (v : Nat) : AOp := .res (.memSwappiness v)
@[match_pattern] abbrev setLinuxMemoryDisableOomKiller : AOp := .res .memDisableOom
@[match_pattern] abbrev setLinuxMemoryUseHierarchy : AOp := .res .memUseHierarchy
@[match_pattern] abbrev setLinuxCPUShares (v : Nat) : AOp := .res (.cpuShares v)
@[match_pattern] abbrev setLinuxCPUQuota (v : Int) : AOp := .res (.cpuQuota v)
@[match_pattern] abbrev setLinuxCPUPeriod (v : Int) : AOp := .res (.cpuPeriod v)
@[match_pattern] abbrev setLinuxCPURealtimeRuntime (v : Int) : AOp := .res (.cpuRtRuntime v)
@[match_pattern] abbrev setLinuxCPURealtimePeriod (v : Nat) : AOp := .res (.cpuRtPeriod v)
@[match_pattern] abbrev setLinuxCPUSetCPUs (s : Str) : AOp := .res (.cpus s)
@[match_pattern] abbrev setLinuxCPUSetMems (s : Str) : AOp := .res (.mems s)
@[match_pattern] abbrev setLinuxPidLimits (v : Int) : AOp := .res (.pids v)
@[match_pattern] abbrev addLinuxHugepageLimit (size : Str) (v : Nat) : AOp := .res (.hugepage size v)
@[match_pattern] abbrev setLinuxBlockIOClass (s : Str) : AOp := .res (.blockio s)
@[match_pattern] abbrev setLinuxRDTClass (s : Str) : AOp := .res (.rdt s)
@[match_pattern] abbrev addLinuxUnified (k v : Str) : AOp := .res (.unified k v)
end AOp

/-- one helper call on the message built so far -/
def stepA (a : Adjustment) : AOp → Adjustment
  -- `initAnnotations(); a.Annotations[key] = value`
  | .addAnnotation k v => { a with annotations := AList.insert a.annotations k v }
  -- `a.Annotations[MarkForRemoval(key)] = ""`
  | .removeAnnotation k => { a with annotations := AList.insert a.annotations (markForRemoval k) [] }
  | .addMount m => { a with mounts := a.mounts ++ [m] }
  -- a marker mount: only the destination is filled
  | .removeMount p => { a with mounts := a.mounts ++ [{ destination := markForRemoval p }] }
  | .addEnv k v => { a with env := a.env ++ [{ key := k, value := v }] }
  | .removeEnv k => { a with env := a.env ++ [{ key := markForRemoval k }] }
  -- `slices.Clone(args)`: whatever was there is replaced, a marker included
  | .setArgs args => { a with args := args }
  -- `append([]string{""}, args...)`: the empty first element is the replace marker
  | .updateArgs args => { a with args := [] :: args }
  -- `initHooks()` + per-kind append (appending a nil slice appends nothing)
  | .addHooks h => { a with hooks := some ((a.hooks.getD {}).append h) }
  | .addRlimit t hard soft => { a with rlimits := a.rlimits ++ [{ type := t, hard := hard, soft := soft }] }
  -- `initLinux()` allocates the linux section
  | .addDevice d => { a with hasLinux := true, devices := a.devices ++ [d] }
  | .removeDevice p => { a with hasLinux := true, devices := a.devices ++ [{ path := markForRemoval p }] }
  | .addCDIDevice n => { a with cdiDevices := a.cdiDevices ++ [n] }
  -- `initLinuxResources…()`: linux and linux.resources allocated, then the field
  | .res r => { a with hasLinux := true, resources := some (stepR (a.resources.getD {}) r) }
  | .setLinuxCgroupsPath s => { a with hasLinux := true, cgroupsPath := s }
  -- `Int(value)`: nil pointer ↦ nil (the score is unset again)
  | .setLinuxOomScoreAdj v => { a with hasLinux := true, oomScoreAdj := v }

/-- the message a program of helper calls leaves in a fresh `&api.ContainerAdjustment{}` -/
def runA (prog : List AOp) : Adjustment := prog.foldl stepA {}

/-- a call as a plugin may write it: an `AOp`, or `AddHooks(nil)` -/
inductive ACall
  | op (o : AOp) | addHooksNil
  deriving DecidableEq, Repr, Inhabited

/-- `none` = the handler panicked (nil pointer dereference in `AddHooks`) -/
def runCalls : List ACall → Option (List AOp)
  | [] => some []
  | .op o :: rest => (runCalls rest).map (o :: ·)
  | .addHooksNil :: _ => none

/-! ### `*ContainerUpdate` -/

inductive UOp
  | setContainerId (id : Str)
  | res (r : ROp)
  | setIgnoreFailure
  deriving DecidableEq, Repr, Inhabited

namespace UOp
@[match_pattern] abbrev setLinuxMemoryLimit (v : Int) : UOp := .res (.memLimit v)
@[match_pattern] abbrev setLinuxMemoryReservation (v : Int) : UOp := .res (.memReservation v)
@[match_pattern] abbrev setLinuxMemorySwap (v : Int) : UOp := .res (.memSwap v)
@[match_pattern] abbrev setLinuxMemoryKernel (v : Int) : UOp := .res (.memKernel v)
@[match_pattern] abbrev setLinuxMemoryKernelTCP (v : Int) : UOp := .res (.memKernelTcp v)
@[match_pattern] abbrev setLinuxMemorySwappiness (v : Nat) : UOp := .res (.memSwappiness v)
@[match_pattern] abbrev setLinuxMemoryDisableOomKiller : UOp := .res .memDisableOom
@[match_pattern] abbrev setLinuxMemoryUseHierarchy : UOp := .res .memUseHierarchy
@[match_pattern] abbrev setLinuxCPUShares (v : Nat) : UOp := .res (.cpuShares v)
@[match_pattern] abbrev setLinuxCPUQuota (v : Int) : UOp := .res (.cpuQuota v)
@[match_pattern] abbrev setLinuxCPUPeriod (v : Int) : UOp := .res (.cpuPeriod v)
@[match_pattern] abbrev setLinuxCPURealtimeRuntime (v : Int) : UOp := .res (.cpuRtRuntime v)
@[match_pattern] abbrev setLinuxCPURealtimePeriod (v : Nat) : UOp := .res (.cpuRtPeriod v)
@[match_pattern] abbrev setLinuxCPUSetCPUs (s : Str) : UOp := .res (.cpus s)
@[match_pattern] abbrev setLinuxCPUSetMems (s : Str) : UOp := .res (.mems s)
@[match_pattern] abbrev setLinuxPidLimits (v : Int) : UOp := .res (.pids v)
@[match_pattern] abbrev addLinuxHugepageLimit (size : Str) (v : Nat) : UOp := .res (.hugepage size v)
@[match_pattern] abbrev setLinuxBlockIOClass (s : Str) : UOp := .res (.blockio s)
@[match_pattern] abbrev setLinuxRDTClass (s : Str) : UOp := .res (.rdt s)
@[match_pattern] abbrev addLinuxUnified (k v : Str) : UOp := .res (.unified k v)
end UOp

def stepU (u : Update) : UOp → Update
  | .setContainerId id => { u with containerId := id }
  -- `initLinuxResources…()`: linux and linux.resources allocated, then the field
  | .res r => { u with resources := some (stepR (u.resources.getD {}) r) }
  | .setIgnoreFailure => { u with ignoreFailure := true }

/-- the message a program leaves in a fresh `&api.ContainerUpdate{}` -/
def runU (prog : List UOp) : Update := prog.foldl stepU { containerId := [] }

/-! ### the syntactic reading of a program

Each helper call does one of four things to the list of items the message names:
`append` one more mention (slice families: a second `AddEnv("X",…)` is a second mention, which
the collector reports as a conflict of the plugin with itself), `put` the item (map entries and
scalar fields: assigned, so named once however often the helper is called), `drop` it
(`SetLinuxCPUSetCPUs("")`, `SetLinuxCgroupsPath("")`, `SetLinuxOomScoreAdj(nil)`, `SetArgs(nil)`
leave the field in the state the collector reads as "not set"), or nothing. The value rides
along for `progVals`. -/

/-- values of items, as far as a reply lets them be read back -/
inductive Val
  | str (s : Str) | int (v : Int) | nat (v : Nat) | bool (b : Bool) | strs (l : List Str)
  | mount (m : Mount) | device (d : Device) | rlimit (hard soft : Nat) | unit
  deriving DecidableEq, Repr, Inhabited

inductive Eff
  | append (it : Item) (v : Val) | put (it : Item) (v : Val) | drop (it : Item) | nop
  deriving DecidableEq, Repr, Inhabited

def unmarked (k : Str) : Bool := !(isMarked k).2

/-- which resource item a resource helper writes, and whether it leaves it set -/
def resEff : ROp → Eff
  | .memLimit v => .put .memLimit (.int v)
  | .memReservation v => .put .memReservation (.int v)
  | .memSwap v => .put .memSwap (.int v)
  | .memKernel v => .put .memKernel (.int v)
  | .memKernelTcp v => .put .memKernelTcp (.int v)
  | .memSwappiness v => .put .memSwappiness (.nat v)
  | .memDisableOom => .put .memDisableOom (.bool true)
  | .memUseHierarchy => .put .memUseHierarchy (.bool true)
  | .cpuShares v => .put .cpuShares (.nat v)
  | .cpuQuota v => .put .cpuQuota (.int v)
  | .cpuPeriod v => .put .cpuPeriod (.nat (u64OfInt v))
  | .cpuRtRuntime v => .put .cpuRtRuntime (.int v)
  | .cpuRtPeriod v => .put .cpuRtPeriod (.nat v)
  | .cpus s => if s = [] then .drop .cpusetCpus else .put .cpusetCpus (.str s)
  | .mems s => if s = [] then .drop .cpusetMems else .put .cpusetMems (.str s)
  | .pids v => .put .pids (.int v)
  | .hugepage size v => .append (.hugepage size) (.nat v)
  | .blockio s => .put .blockio (.str s)
  | .rdt s => .put .rdt (.str s)
  | .unified k v => .put (.unified k) (.str v)

/-- what a helper call does to the items the adjustment SETS -/
def setEff : AOp → Eff
  -- a key that itself begins with '-' is read by the collector as a removal, not a set
  | .addAnnotation k v => if unmarked k then .put (.annotation k) (.str v) else .nop
  | .removeAnnotation _ => .nop
  | .addMount m => if unmarked m.destination then .append (.mount m.destination) (.mount m) else .nop
  | .removeMount _ => .nop
  | .addEnv k v => if unmarked k then .append (.env k) (.str v) else .nop
  | .removeEnv _ => .nop
  | .setArgs args => if args = [] then .drop .args else .put .args (.strs args)
  | .updateArgs args => .put .args (.strs ([] :: args))
  | .addHooks _ => .nop
  | .addRlimit t hard soft => .append (.rlimit t) (.rlimit hard soft)
  | .addDevice d => if unmarked d.path then .append (.device d.path) (.device d) else .nop
  | .removeDevice _ => .nop
  | .addCDIDevice n => .append (.cdi n) .unit
  | .res r => resEff r
  | .setLinuxCgroupsPath s => if s = [] then .drop .cgroupsPath else .put .cgroupsPath (.str s)
  | .setLinuxOomScoreAdj v => match v with | some x => .put .oomScoreAdj (.int x) | none => .drop .oomScoreAdj

/-- what a helper call does to the items the adjustment RELEASES (marks for removal) -/
def clearEff : AOp → Eff
  | .addAnnotation k _ => if unmarked k then .nop else .put (.annotation (isMarked k).1) .unit
  | .removeAnnotation k => .put (.annotation k) .unit
  | .addMount m => if unmarked m.destination then .nop else .put (.mount (isMarked m.destination).1) .unit
  | .removeMount p => .put (.mount p) .unit
  | .addEnv k _ => if unmarked k then .nop else .put (.env (isMarked k).1) .unit
  | .removeEnv k => .put (.env k) .unit
  -- the command line is one field: the last call decides whether it carries the marker
  | .setArgs args => match args with | [] :: _ => .put .args .unit | _ => .drop .args
  | .updateArgs _ => .put .args .unit
  | .addDevice d => if unmarked d.path then .nop else .put (.device (isMarked d.path).1) .unit
  | .removeDevice p => .put (.device p) .unit
  | _ => .nop

def applyEff (acc : List Item) : Eff → List Item
  | .append it _ => acc ++ [it]
  | .put it _ => if it ∈ acc then acc else acc ++ [it]
  | .drop it => acc.filter (· ≠ it)
  | .nop => acc

def applyEffV (acc : List (Item × Val)) : Eff → List (Item × Val)
  | .append it v => acc ++ [(it, v)]
  | .put it v => if acc.any (·.1 = it) then acc.map fun x => if x.1 = it then (it, v) else x else acc ++ [(it, v)]
  | .drop it => acc.filter (·.1 ≠ it)
  | .nop => acc

/-- the items a program sets, with multiplicity (slice families) — no message is built -/
def progSets (prog : List AOp) : List Item := prog.foldl (fun acc op => applyEff acc (setEff op)) []

/-- the items a program releases -/
def progClears (prog : List AOp) : List Item := prog.foldl (fun acc op => applyEff acc (clearEff op)) []

/-- the items a program sets, each with the value the program gives it -/
def progVals (prog : List AOp) : List (Item × Val) := prog.foldl (fun acc op => applyEffV acc (setEff op)) []

def setEffU : UOp → Eff
  | .res r => resEff r
  | _ => .nop

def progSetsU (prog : List UOp) : List Item := prog.foldl (fun acc op => applyEff acc (setEffU op)) []
def progValsU (prog : List UOp) : List (Item × Val) := prog.foldl (fun acc op => applyEffV acc (setEffU op)) []

/-- the target a program names: the last `SetContainerId` (none: the empty id) -/
def progTarget (prog : List UOp) : Str :=
  prog.foldl (fun acc op => match op with | .setContainerId id => id | _ => acc) []

def progIgnore (prog : List UOp) : Bool := prog.any fun op => op = .setIgnoreFailure

/-- all hooks a program adds, kind by kind in call order -/
def progHooks (prog : List AOp) : Hooks :=
  prog.foldl (fun acc op => match op with | .addHooks h => acc.append h | _ => acc) {}

/-! ### a plugin's response as programs -/

/-- what a plugin handler runs: one program for the adjustment (creation requests; `none` = the
    handler returns a nil adjustment) and one per update it returns -/
structure PluginProg where
  adjust : Option (List AOp) := none
  updates : List (List UOp) := []
  deriving Repr, Inhabited

def PluginProg.response (p : PluginProg) : Response :=
  { adjust := p.adjust.map runA, updates := p.updates.map runU }

/-- the items plugin programs `pp` set on container `c` in a request of kind `k`, read off the
    programs (`strict`: updates that call `SetIgnoreFailure` are left out, as in `Ledger.setsOn`) -/
def progSetsOn (strict : Bool) (k : Kind) (pp : PluginProg) (c : Cid) : List Item :=
  (match k, pp.adjust with
   | .create id, some prog => if id = c then progSets prog else []
   | _, _ => []) ++
  (pp.updates.filter fun u => progTarget u = c && !(strict && progIgnore u)).flatMap progSetsU

/-- the items plugin programs `pp` release on container `c` -/
def progRemovesOn (k : Kind) (pp : PluginProg) (c : Cid) : List Item :=
  match k, pp.adjust with
  | .create id, some prog => if id = c then progClears prog else []
  | _, _ => []

/-- "every Add of a removable kind is preceded by the matching Remove": each item the program
    sets among annotations, mounts, environment, devices and the command line is also released
    by it (`RemoveX(k)` somewhere in the program — before or after, the collector does not care —
    or `UpdateArgs` as the last args call) -/
def removable : Item → Bool
  | .annotation _ | .mount _ | .env _ | .device _ | .args => true
  | _ => false

def removeThenAdd (prog : List AOp) : Bool :=
  (progSets prog).all fun it => !removable it || (progClears prog).contains it

end Nri.Builder
