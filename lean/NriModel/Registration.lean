/-
Model of how the runtime side of NRI admits an external plugin (property C17):

  * `checkIndex`        – `api.CheckPluginIndex` (pkg/api/plugin.go),
  * `registerPlugin`    – `(*plugin).RegisterPlugin` (pkg/adaptation/plugin.go),
  * `configureMask`     – the event-mask check at the end of `(*plugin).configure`,
  * `handle`            – one pass of the accept loop for one connection:
                          `newExternalPlugin` → `start` (registration raced against the
                          connection closing and the registration timeout, then `configure`
                          under the request timeout) → `syncFn(p.synchronize)` → append to
                          `r.plugins`  (pkg/adaptation/adaptation.go `acceptPluginConnections`),
  * `acceptAll`         – the loop itself, one connection after the other,
  * `recipients`        – which active plugins an event is relayed to (`p.events.IsSet`),
  * `mkdirMode`, `mkdirAll`, `startListener` – `os.MkdirAll(filepath.Dir(socketPath), 0700)` and the
                          `dontListen` switch (adaptation.go `startListener`).

Time is a natural number of abstract ticks. A plugin's behaviour says at which tick (counted
from the moment the runtime starts waiting) each of its answers arrives, `none` = never.
Where Go's `select` finds two channels ready in the same instant it picks at random; the
model resolves such ties against the plugin (the answer counts as late). The correspondence
harness keeps every scripted delay far from the boundary.
Core Lean only.
-/
import NriModel.Events

namespace Nri.Registration
open Nri.Events

/-! ## Name and index -/

def isDigit (c : Char) : Bool := decide ('0' ≤ c) && decide (c ≤ '9')

/-- Go `len(s)`: the number of bytes of the UTF-8 encoding -/
def utf8Len : Str → Nat
  | [] => 0
  | c :: cs => c.utf8Size + utf8Len cs

inductive IdxErr
  | length      -- "invalid plugin index %q, must be 2 digits"
  | notDigits   -- "invalid plugin index %q (not [0-9][0-9])"
  deriving DecidableEq, Repr

/-- `api.CheckPluginIndex`. Go tests `len(idx) != 2` on bytes, then the two bytes. A string
    of byte length two is either two one-byte characters or one two-byte character, whose
    bytes are ≥ 0x80 and therefore no digits. -/
def checkIndex (idx : Str) : Except IdxErr Unit :=
  if utf8Len idx ≠ 2 then .error .length
  else match idx with
    | [a, b] => if isDigit a && isDigit b then .ok () else .error .notDigits
    | _ => .error .notDigits

/-- the index is two ASCII digits -/
def TwoDigits (idx : Str) : Prop := ∃ a b, idx = [a, b] ∧ isDigit a = true ∧ isDigit b = true

inductive RegErr
  | emptyName
  | badIndex (e : IdxErr)
  deriving DecidableEq, Repr

/-- `(*plugin).RegisterPlugin`: an external plugin is named by what it registers; a plugin
    launched by NRI keeps the identity (`preset`) it was launched under. Result `(idx, name)`. -/
def registerPlugin (external : Bool) (preset : Str × Str) (name idx : Str) : Except RegErr (Str × Str) :=
  if external then
    if name = [] then .error .emptyName
    else match checkIndex idx with
      | .error e => .error (.badIndex e)
      | .ok () => .ok (idx, name)
  else .ok preset

/-! ## Event mask -/

inductive CfgErr
  | invalidEvents (extra : Mask)     -- "invalid plugin events: 0x%x"
  deriving DecidableEq, Repr

/-- end of `(*plugin).configure`: an empty answer subscribes everything, anything outside
    `ValidEvents` is refused -/
def configureMask (events : Mask) : Except CfgErr Mask :=
  if events ≠ 0#32 then
    let extra := events &&& ~~~valid
    if extra ≠ 0#32 then .error (.invalidEvents extra) else .ok events
  else .ok valid

/-! ## The handshake -/

structure Timeouts where
  /-- `pluginRegistrationTimeout` -/
  reg : Nat
  /-- `pluginRequestTimeout` (bounds Configure and Synchronize) -/
  req : Nat
  deriving Repr

/-- What a connecting plugin does, as the runtime sees it. -/
structure Behaviour where
  /-- tick at which `RegisterPlugin` arrives (`none` = never registers) -/
  regAt : Option Nat
  name : Str
  idx : Str
  /-- tick at which the plugin drops the connection while the runtime waits for the
      registration (`none` = keeps it open) -/
  closeAt : Option Nat
  /-- ticks the plugin takes to answer `Configure` (`none` = never answers) -/
  cfgAt : Option Nat
  /-- the `Configure` answer is an error -/
  cfgErr : Bool
  /-- `ConfigureResponse.Events` -/
  events : Mask
  /-- ticks the plugin takes to answer `Synchronize` (`none` = never) -/
  syncAt : Option Nat
  /-- the `Synchronize` answer is an error -/
  syncErr : Bool
  deriving Repr

inductive Outcome
  | closedEarly                         -- "failed to register plugin, connection closed"
  | regTimeout                          -- "plugin registration timed out"
  | regRejected (e : RegErr)            -- "failed to register plugin: …"
  | cfgTimeout                          -- Configure not answered within the request timeout
  | cfgError                            -- Configure answered with an error
  | invalidEvents (extra : Mask)
  | syncFailed                          -- Synchronize timed out or failed
  | activated (idx name : Str) (events : Mask)
  deriving DecidableEq, Repr

structure Handled where
  outcome : Outcome
  /-- a `Configure` request was sent to the plugin -/
  configured : Bool
  /-- a `Synchronize` request was sent to the plugin -/
  synced : Bool
  /-- ticks the accept loop spent on this connection -/
  elapsed : Nat
  /-- the runtime closed the plugin's connection (`p.close()`) -/
  closed : Bool
  deriving DecidableEq, Repr

/-- `syncFn(ctx, p.synchronize)` for a configured plugin, then activation -/
def syncPhase (to : Timeouts) (b : Behaviour) (idx name : Str) (events : Mask) (t : Nat) : Handled :=
  match b.syncAt with
  | some d =>
    if d < to.req then
      if b.syncErr then ⟨.syncFailed, true, true, t + d, true⟩
      else ⟨.activated idx name events, true, true, t + d, false⟩
    else ⟨.syncFailed, true, true, t + to.req, true⟩
  | none => ⟨.syncFailed, true, true, t + to.req, true⟩

/-- `p.configure(…)` for a registered plugin -/
def configurePhase (to : Timeouts) (b : Behaviour) (idx name : Str) (t : Nat) : Handled :=
  match b.cfgAt with
  | some d =>
    if d < to.req then
      if b.cfgErr then ⟨.cfgError, true, false, t + d, true⟩
      else match configureMask b.events with
        | .error (.invalidEvents x) => ⟨.invalidEvents x, true, false, t + d, true⟩
        | .ok m => syncPhase to b idx name m (t + d)
    else ⟨.cfgTimeout, true, false, t + to.req, true⟩
  | none => ⟨.cfgTimeout, true, false, t + to.req, true⟩

/-- the registration did not win the `select`: either the plugin hung up first or the timer fired -/
def regLost (to : Timeouts) (b : Behaviour) : Handled :=
  match b.closeAt with
  | some c => if c < to.reg then ⟨.closedEarly, false, false, c, false⟩
              else ⟨.regTimeout, false, false, to.reg, true⟩
  | none => ⟨.regTimeout, false, false, to.reg, true⟩

/-- the instant after which a registration is too late -/
def regLimit (to : Timeouts) (b : Behaviour) : Nat :=
  match b.closeAt with
  | some c => min c to.reg
  | none => to.reg

/-- One connection through `newExternalPlugin`, `start`, `syncFn`, activation. -/
def handle (to : Timeouts) (b : Behaviour) : Handled :=
  match b.regAt with
  | some r =>
    if r < regLimit to b then
      match registerPlugin true ([], []) b.name b.idx with
      | .error e => ⟨.regRejected e, false, false, r, false⟩
      | .ok (idx, name) => configurePhase to b idx name r
    else regLost to b
  | none => regLost to b

/-- an entry of `r.plugins`; `conn` numbers the accepted connections -/
structure Active where
  conn : Nat
  idx : Str
  name : Str
  events : Mask
  deriving DecidableEq, Repr

structure State where
  /-- `r.plugins` (the order – sorted by index – is not this model's concern: C06) -/
  plugins : List Active := []
  /-- number of connections accepted so far -/
  accepted : Nat := 0
  /-- ticks spent -/
  clock : Nat := 0
  deriving Repr

/-- one iteration of the loop in `acceptPluginConnections` -/
def accept (to : Timeouts) (s : State) (b : Behaviour) : State × Handled :=
  let h := handle to b
  let plugins := match h.outcome with
    | .activated idx name ev => s.plugins ++ [⟨s.accepted, idx, name, ev⟩]
    | _ => s.plugins
  (⟨plugins, s.accepted + 1, s.clock + h.elapsed⟩, h)

/-- the accept loop over the connections in arrival order -/
def acceptAll (to : Timeouts) : State → List Behaviour → State × List Handled
  | s, [] => (s, [])
  | s, b :: bs =>
    let (s1, h) := accept to s b
    let (s2, hs) := acceptAll to s1 bs
    (s2, h :: hs)

/-- connections an event is relayed to: the active plugins subscribed to it -/
def recipients (s : State) (e : EventNo) : List Nat :=
  (s.plugins.filter (fun p => isSet p.events e)).map (·.conn)

/-! ## Socket directory -/

/-- permission bits of a file mode (rwx for user, group, other + setuid/setgid/sticky) -/
abbrev Mode := BitVec 12

/-- the mode `mkdir(2)` gives a directory requested with 0700 under `umask` inside a
    directory of mode `parent` (Linux: the set-group-ID bit of the parent is inherited) -/
def mkdirMode (umask parent : Mode) : Mode := (0o700#12 &&& ~~~umask) ||| (parent &&& 0o2000#12)

/-- `os.MkdirAll(dir, 0700)` over the chain of path components of `dir` below a directory of
    mode `parent`: `some m` is a component that exists already (with mode `m`, left alone),
    `none` one that is missing (created). The result is the mode of every component afterwards. -/
def mkdirAll (umask : Mode) : Mode → List (Option Mode) → List Mode
  | _, [] => []
  | _, some m :: rest => m :: mkdirAll umask m rest
  | parent, none :: rest => mkdirMode umask parent :: mkdirAll umask (mkdirMode umask parent) rest

/-- `startListener`: `none` = nothing is created and no socket is served
    (`WithDisabledExternalConnections`) -/
def startListener (dontListen : Bool) (umask parent : Mode) (chain : List (Option Mode)) : Option (List Mode) :=
  if dontListen then none else some (mkdirAll umask parent chain)

end Nri.Registration
