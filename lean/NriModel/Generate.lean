/-
Model of `pkg/runtime-tools/generate/generate.go` (`Generator.Adjust` and the per-field
`Adjust*` functions) together with the `opencontainers/runtime-tools` generator operations
they call (pinned module version, `generate/generate.go`):
`AddAnnotation/RemoveAnnotation`, `ClearProcessEnv/AddProcessEnv/addEnv`, `SetProcessArgs`,
`Add*Hook`, `RemoveDevice/AddDevice/AddLinuxResourcesDevice`, `SetLinuxCgroupsPath`,
`SetProcessOOMScoreAdj`, `SetLinuxResourcesCPU*`, `SetLinuxResourcesMemory{Limit,Swap}`,
`AddLinuxResourcesHugepageLimit`, `AddLinuxResourcesUnified`, `SetLinuxResourcesPidsLimit`,
`RemoveMount/AddMount/Mounts/ClearMounts`, `SetLinuxRootPropagation`.

The main definitions transcribe the REPAIRED code:
  * `AdjustAnnotations` makes two passes over the map, removals then sets
    (/repo commit 1f50159 "fix: apply annotation removals before additions");
  * `AdjustArgs` drops the leading `""` marker written by `UpdateArgs`
    (/repo commit ad4e689 "fix: strip the UpdateArgs() replace marker");
  * `AdjustEnv`, `AdjustDevices`, `AdjustMounts` process every removal before any set
    (/repo commit 6eaf34c "fix: process removals before additions of env, devices and mounts").
The `…Unfixed` definitions transcribe the code before each of these repairs; they are used by
the `unfixed_*` witness theorems and by the driver's diagnosis.

One function per field family, each a record update of `Oci.Spec` built from a *core*
function on the field alone (`Annotations.apply`, `Env.apply`, `Devices.apply`,
`Mounts.apply`, …), so that a family's theorems are about the core function and lift through
`adjust` by the projection lemmas in `Lemmas/GenerateFrame.lean`.

Go map iteration is modelled as iteration over the entry list in the order given; the
determinism theorems quantify over every permutation of that list.

External calls are parameters (`Externals`): the CDI injector, the block-I/O and RDT class
resolvers, and `getPropagation` of the host (`helpers_linux.go`, reads /proc/self/mountinfo).
`filepath.Clean` is transcribed (`cleanPath`).  Not modelled: the optional
`filterAnnotations`/`checkResources` callbacks (left at their defaults), specs without a
`Process` or `Linux` section.
Core Lean only.
-/
import NriModel.Api

namespace Nri.Generate
open Nri.Api
open Nri.Oci (Spec)

/-! ## Keyed lists: the runtime-tools operations on `[]Mount` / `[]LinuxDevice` -/

section Keyed
variable {α : Type} (key : α → Str)

/-- `RemoveMount(dest)` / `RemoveDevice(path)`: delete the FIRST element whose key is `k`
    (the Go loops `return` after the first match). -/
def removeFirst (k : Str) : List α → List α
  | [] => []
  | x :: r => if key x = k then r else x :: removeFirst k r

/-- `AddDevice(dev)`: overwrite the first element with the same key in place, else append. -/
def addOrReplace (x : α) : List α → List α
  | [] => [x]
  | y :: r => if key y = key x then x :: r else y :: addOrReplace x r

/-- The first element with key `k` (how a consumer of the spec looks an item up). -/
def find (k : Str) (l : List α) : Option α := l.find? (fun x => key x == k)

/-- No two elements share a key. -/
def NodupKeys (l : List α) : Prop := (l.map key).Nodup

instance (l : List α) : Decidable (NodupKeys key l) := by unfold NodupKeys; infer_instance

end Keyed

/-- Stable reordering "removals first, then sets" of an entry list (`rawKey` is the field that
    may carry the removal marker). The repaired list families behave as the unrepaired code
    run on this reordering (`Lemmas/Generate*.lean`). -/
def removalsFirst {ε : Type} (rawKey : ε → Str) (L : List ε) : List ε :=
  L.filter (fun e => isMarked (rawKey e)) ++ L.filter (fun e => !isMarked (rawKey e))

/-! ## Annotations (`AdjustAnnotations`) -/

namespace Annotations

/-- First pass of the repaired `AdjustAnnotations`: `RemoveAnnotation(key)` for every marked
    entry (Go `delete`). -/
def removals (ann : AList Str Str) (entries : List (Str × Str)) : AList Str Str :=
  entries.foldl (fun m e => if isMarked e.1 then AList.erase m (stripMarker e.1) else m) ann

/-- Second pass: `AddAnnotation(k, v)` for every unmarked entry (Go `m[k] = v`). -/
def sets (ann : AList Str Str) (entries : List (Str × Str)) : AList Str Str :=
  entries.foldl (fun m e => if isMarked e.1 then m else AList.insert m e.1 e.2) ann

/-- Repaired `AdjustAnnotations` on the annotation map when both `range` loops yield the map in
    the same order `entries` (the executable form used by `adjust`; see `applyOrders`). -/
def apply (ann : AList Str Str) (entries : List (Str × Str)) : AList Str Str :=
  sets (removals ann entries) entries

/-- Repaired `AdjustAnnotations` as Go really runs it: the two `for … range annotations` loops
    draw two INDEPENDENT iteration orders `π1` (removal loop) and `π2` (set loop) of the same
    map.  `apply ann E = applyOrders ann E E`; `Lemmas/GenerateAnnotations.lean` shows that
    every pair of orders gives the same map (`lookup_applyOrders`). -/
def applyOrders (ann : AList Str Str) (π1 π2 : List (Str × Str)) : AList Str Str :=
  sets (removals ann π1) π2

/-- `AdjustAnnotations` before commit 1f50159: ONE loop, each entry removed or set as it comes. -/
def applyUnfixed (ann : AList Str Str) (entries : List (Str × Str)) : AList Str Str :=
  entries.foldl
    (fun m e => if isMarked e.1 then AList.erase m (stripMarker e.1) else AList.insert m e.1 e.2) ann

end Annotations

/-- `Generator.AdjustAnnotations` (repaired). -/
def adjustAnnotations (s : Spec) (entries : AList Str Str) : Spec :=
  { s with annotations := Annotations.apply s.annotations entries }

/-- `Generator.AdjustAnnotations` at the original snapshot (before the repair), for the iteration order `entries`. -/
def adjustAnnotationsUnfixed (s : Spec) (entries : AList Str Str) : Spec :=
  { s with annotations := Annotations.applyUnfixed s.annotations entries }

/-! ## Environment (`AdjustEnv`, `ClearProcessEnv`, `AddProcessEnv`, `addEnv`) -/

namespace Env

/-- `strings.SplitN(e, "=", 2)` when it yields two pieces: name before the first `'='`, value
    after it; `none` when there is no `'='`. -/
def splitEq : Str → Option (Str × Str)
  | [] => none
  | c :: r =>
    if c = '=' then some ([], r)
    else match splitEq r with
      | some (n, v) => some (c :: n, v)
      | none => none

/-- The generator state `(Config.Process.Env, envMap)` after `ClearProcessEnv`, as the list of
    `(name, value)` pairs added so far: `Env[i] = name_i ++ "=" ++ value_i` and
    `envMap[name_i] = i`.  `AddProcessEnv(name, value)`: ignored for the empty name; replaces
    the entry of `name` in place if `envMap` knows it, else appends. -/
def addProcessEnv (acc : AList Str Str) (name value : Str) : AList Str Str :=
  if name = [] then acc else AList.insert acc name value

/-- `Config.Process.Env` of a generator state. -/
def render (acc : AList Str Str) : List Str := acc.map (fun e => e.1 ++ '=' :: e.2)

/-- The `mod` map of `AdjustEnv` at the original snapshot (before the repair): stripped key ↦ LAST entry for it. -/
def modUnfixed (env : List KeyValue) : AList Str KeyValue :=
  env.foldl (fun m e => AList.insert m (stripMarker e.key) e) []

/-- The `mod` map of the repaired `AdjustEnv`: all removals are entered first, then all sets,
    so a key that is set anywhere maps to its last set. -/
def mod (env : List KeyValue) : AList Str KeyValue :=
  modUnfixed (removalsFirst KeyValue.key env)

/-- "first modify existing environment": walk the old entries; entries without `'='` are
    skipped (dropped); a name found in `mod` is deleted from `mod` and replaced by the
    adjustment's entry unless that is a removal; other entries are re-added. -/
def phase1 : AList Str KeyValue × AList Str Str → List Str → AList Str KeyValue × AList Str Str
  | st, [] => st
  | (md, acc), e :: r =>
    match splitEq e with
    | none => phase1 (md, acc) r
    | some (n, v) =>
      match AList.lookup md n with
      | some m =>
        phase1 (AList.erase md n, if isMarked m.key then acc else addProcessEnv acc m.key m.value) r
      | none => phase1 (md, addProcessEnv acc n v) r

/-- "then append remaining unprocessed adjustments": every unmarked entry whose key is still in
    `mod`, in list order. -/
def phase2 (md : AList Str KeyValue) (acc : AList Str Str) (env : List KeyValue) : AList Str Str :=
  env.foldl (fun acc e =>
    if isMarked e.key then acc
    else if AList.contains md e.key then addProcessEnv acc e.key e.value else acc) acc

/-- `AdjustEnv` with a given `mod` map.  `len(mod) > 0` iff the adjustment list is non-empty;
    with an empty list neither loop does anything and the environment is left as it is. -/
def applyWith (md : AList Str KeyValue) (old : List Str) (env : List KeyValue) : List Str :=
  if env.isEmpty then old
  else
    let st := phase1 (md, []) old
    render (phase2 st.1 st.2 env)

/-- Repaired `AdjustEnv` on `Config.Process.Env`. -/
def apply (old : List Str) (env : List KeyValue) : List Str := applyWith (mod env) old env

/-- `AdjustEnv` at the original snapshot (before the repair). -/
def applyUnfixed (old : List Str) (env : List KeyValue) : List Str :=
  applyWith (modUnfixed env) old env

/-- Value of variable `k` in an OCI environment: the first entry `k=…`. -/
def lookup (env : List Str) (k : Str) : Option Str :=
  match env with
  | [] => none
  | e :: r =>
    match splitEq e with
    | some (n, v) => if n = k then some v else lookup r k
    | none => lookup r k

/-- Name of an OCI environment entry (the whole entry when it has no `'='`). -/
def nameOf (e : Str) : Str := match splitEq e with | some (n, _) => n | none => e

end Env

/-- `Generator.AdjustEnv` (repaired). -/
def adjustEnv (s : Spec) (env : List KeyValue) : Spec := { s with env := Env.apply s.env env }

/-- `Generator.AdjustEnv` at the original snapshot (before the repair). -/
def adjustEnvUnfixed (s : Spec) (env : List KeyValue) : Spec :=
  { s with env := Env.applyUnfixed s.env env }

/-! ## Args (`AdjustArgs`, `SetProcessArgs`) -/

namespace Args
/-- Repaired `AdjustArgs`: drop the leading `""` marker, then replace the command line unless
    nothing is left. -/
def apply (old : List Str) (args : List Str) : List Str :=
  let args := match args with | [] :: r => r | a => a
  if args.isEmpty then old else args

/-- `AdjustArgs` at the original snapshot (before the repair): any non-empty list replaces the command line as is. -/
def applyUnfixed (old : List Str) (args : List Str) : List Str :=
  if args.isEmpty then old else args
end Args

/-- `Generator.AdjustArgs` (repaired). -/
def adjustArgs (s : Spec) (args : List Str) : Spec := { s with args := Args.apply s.args args }
/-- `Generator.AdjustArgs` at the original snapshot (before the repair). -/
def adjustArgsUnfixed (s : Spec) (args : List Str) : Spec :=
  { s with args := Args.applyUnfixed s.args args }

/-! ## Hooks (`AdjustHooks`, `Add*Hook`) -/

namespace Hooks
/-- Each NRI hook list is converted and appended to the OCI list OF THE SAME NAME. -/
def apply (old : Oci.Hooks) (h : Api.Hooks) : Oci.Hooks :=
  { prestart := old.prestart ++ h.prestart.map Hook.toOCI
    poststart := old.poststart ++ h.poststart.map Hook.toOCI
    poststop := old.poststop ++ h.poststop.map Hook.toOCI
    createRuntime := old.createRuntime ++ h.createRuntime.map Hook.toOCI
    createContainer := old.createContainer ++ h.createContainer.map Hook.toOCI
    startContainer := old.startContainer ++ h.startContainer.map Hook.toOCI }
end Hooks

/-- `Generator.AdjustHooks`: nothing for a `nil` `*Hooks`. -/
def adjustHooks (s : Spec) (h : Option Api.Hooks) : Spec :=
  match h with
  | none => s
  | some h => { s with hooks := Hooks.apply s.hooks h }

/-! ## External functions handed to the generator -/

/-- Why `Adjust` returned an error. -/
inductive GenError
  | cdi               -- the CDI injector failed
  | blockio           -- the block-I/O class resolver failed
  | rdt               -- the RDT class resolver failed
  | mountPropagation  -- `ensurePropagation`: the host mount of a source is not shared enough
  deriving DecidableEq, Repr, Inhabited

/-- The functions a runtime configures with `With…` options, plus the host's mount table.
    `none` = option not given (the corresponding adjustment is then silently skipped, as in
    the Go code).  Their behaviour is ASSUMED, not modelled. -/
structure Externals where
  /-- `WithCDIDeviceInjector`: edits the spec for the given fully qualified names. -/
  injectCDI : Option (Spec → List Str → Except Unit Spec) := none
  /-- `WithBlockIOResolver`: class name ↦ block-I/O parameters (a tag here). -/
  resolveBlockIO : Option (Str → Except Unit Nat) := none
  /-- `WithRdtResolver`: class name ↦ `LinuxIntelRdt` (its `ClosID` here). -/
  resolveRdt : Option (Str → Except Unit Str) := none
  /-- `getPropagation(source)`: `"rshared"`, `"rslave"` or `""` for the host mount that
      contains `source`. -/
  hostPropagation : Str → Str := fun _ => []

/-- The CDI injector used by the correspondence harness: records the names, touches nothing
    else; fails when one of `bad` is requested. -/
def recordingInjector (bad : List Str) : Spec → List Str → Except Unit Spec :=
  fun s names => if names.any (fun n => bad.contains n) then .error () else .ok { s with cdi := s.cdi ++ names }

/-- `Generator.InjectCDIDevices`: nothing for an empty list or without an injector; otherwise
    ONE call with all names in list order. -/
def injectCDI (ext : Externals) (s : Spec) (names : List Str) : Except GenError Spec :=
  match ext.injectCDI with
  | none => .ok s
  | some inj =>
    if names.isEmpty then .ok s
    else match inj s names with
      | .ok s' => .ok s'
      | .error _ => .error .cdi

/-! ## Devices (`AdjustDevices`, `RemoveDevice`, `AddDevice`, `AddLinuxResourcesDevice`) -/

namespace Devices

/-- `(Linux.Devices, Linux.Resources.Devices)`. -/
abbrev State := List Oci.Device × List Oci.DeviceCgroup

/-- First loop of the repaired `AdjustDevices`: `RemoveDevice(key)` for every marked entry. -/
def removals (devs : List Oci.Device) (L : List LinuxDevice) : List Oci.Device :=
  L.foldl (fun ds d =>
    if isMarked d.path then removeFirst Oci.Device.path (stripMarker d.path) ds else ds) devs

/-- `AddDevice(ToOCI)` and `AddLinuxResourcesDevice(true, type, &major, &minor, access)` (the
    cgroup rule is always appended). -/
def addStep (st : State) (d : LinuxDevice) : State :=
  (addOrReplace Oci.Device.path d.toOCI st.1, st.2 ++ [d.cgroupRule])

/-- Body of the second loop for one unmarked entry: `RemoveDevice(path)`, then `addStep`. -/
def setStep (st : State) (d : LinuxDevice) : State :=
  addStep (removeFirst Oci.Device.path d.path st.1, st.2) d

/-- Second loop: every unmarked entry in list order. -/
def sets (st : State) (L : List LinuxDevice) : State :=
  L.foldl (fun st d => if isMarked d.path then st else setStep st d) st

/-- Repaired `AdjustDevices`. -/
def apply (st : State) (L : List LinuxDevice) : State := sets (removals st.1 L, st.2) L

/-- `AdjustDevices` before the repair: one loop; `RemoveDevice(stripped key)` for every entry,
    then the add for unmarked ones. -/
def applyUnfixed (st : State) (L : List LinuxDevice) : State :=
  L.foldl (fun st d =>
    if isMarked d.path then (removeFirst Oci.Device.path (stripMarker d.path) st.1, st.2)
    else addStep (removeFirst Oci.Device.path (stripMarker d.path) st.1, st.2) d) st

end Devices

/-- `Generator.AdjustDevices` (repaired). -/
def adjustDevices (s : Spec) (L : List LinuxDevice) : Spec :=
  let st := Devices.apply (s.devices, s.devRules) L
  { s with devices := st.1, devRules := st.2 }

/-- `Generator.AdjustDevices` at the original snapshot (before the repair). -/
def adjustDevicesUnfixed (s : Spec) (L : List LinuxDevice) : Spec :=
  let st := Devices.applyUnfixed (s.devices, s.devRules) L
  { s with devices := st.1, devRules := st.2 }

/-! ## Cgroups path, OOM score, rlimits -/

/-- `Generator.AdjustCgroupsPath`: `""` means "not requested". -/
def adjustCgroupsPath (s : Spec) (path : Str) : Spec :=
  if path = [] then s else { s with cgroupsPath := path }

/-- `Generator.AdjustOomScoreAdj`. -/
def adjustOomScoreAdj (s : Spec) (score : Option Int) : Spec :=
  match score with
  | none => s
  | some v => { s with oomScoreAdj := some v }

/-- `Generator.AdjustRlimits`: every entry is appended (no replacement of an existing type). -/
def adjustRlimits (s : Spec) (L : List POSIXRlimit) : Spec :=
  { s with rlimits := s.rlimits ++ L.map POSIXRlimit.toOCI }

/-! ## Resources (`AdjustResources`, `AdjustBlockIOClass`, `AdjustRdtClass`) -/

namespace Resources

/-- The seven `SetLinuxResourcesCPU*` calls, each guarded by "field present" (`!= nil`,
    `!= ""`), in the order period, quota, shares, cpus, mems, rt-runtime, rt-period. -/
def applyCpu (c : Oci.CPU) (r : LinuxCPU) : Oci.CPU :=
  let c := match r.period with | some v => { c with period := some v } | none => c
  let c := match r.quota with | some v => { c with quota := some v } | none => c
  let c := match r.shares with | some v => { c with shares := some v } | none => c
  let c := if r.cpus = [] then c else { c with cpus := r.cpus }
  let c := if r.mems = [] then c else { c with mems := r.mems }
  let c := match r.realtimeRuntime with | some v => { c with realtimeRuntime := some v } | none => c
  match r.realtimePeriod with | some v => { c with realtimePeriod := some v } | none => c

/-- `if l := r.Memory.GetLimit().GetValue(); l != 0 { SetLinuxResourcesMemoryLimit(l);
    SetLinuxResourcesMemorySwap(l) }` — an unset limit and a limit of 0 are both skipped, and
    no other memory field of the adjustment is applied. -/
def applyMemory (m : Oci.Memory) (r : LinuxMemory) : Oci.Memory :=
  match r.limit with
  | none => m
  | some l => if l = 0 then m else { m with limit := some l, swap := some l }

/-- `AddLinuxResourcesHugepageLimit(pageSize, limit)`: overwrite the limit of the first entry
    with that page size, else append. -/
def addHugepage (l : List Oci.HugepageLimit) (h : Api.HugepageLimit) : List Oci.HugepageLimit :=
  match l with
  | [] => [{ pageSize := h.pageSize, limit := h.limit }]
  | x :: r =>
    if x.pageSize = h.pageSize then { x with limit := h.limit } :: r else x :: addHugepage r h

/-- `for _, l := range r.HugepageLimits { AddLinuxResourcesHugepageLimit(…) }`. -/
def applyHugepages (l : List Oci.HugepageLimit) (hs : List Api.HugepageLimit) :
    List Oci.HugepageLimit := hs.foldl addHugepage l

/-- `for k, v := range r.Unified { AddLinuxResourcesUnified(k, v) }` for the iteration order
    `entries`. -/
def applyUnified (u : AList Str Str) (entries : List (Str × Str)) : AList Str Str :=
  entries.foldl (fun m e => AList.insert m e.1 e.2) u

end Resources

/-- `Generator.AdjustResources` (without a `checkResources` callback). -/
def adjustResources (s : Spec) (r : Option LinuxResources) : Spec :=
  match r with
  | none => s
  | some r =>
    let s := match r.cpu with
      | some c => { s with cpu := Resources.applyCpu s.cpu c }
      | none => s
    let s := match r.memory with
      | some m => { s with memory := Resources.applyMemory s.memory m }
      | none => s
    let s := { s with hugepages := Resources.applyHugepages s.hugepages r.hugepageLimits }
    let s := { s with unified := Resources.applyUnified s.unified r.unified }
    match r.pids with
    | some v => { s with pids := some v }
    | none => s

namespace Resources

/-- `AdjustBlockIOClass` on `Linux.Resources.BlockIO`: nothing without a class or without a
    resolver; class `""` clears; otherwise the resolver's answer is installed, or its error
    returned. -/
def applyBlockIO (resolve : Option (Str → Except Unit Nat)) (old : Option Nat) (c : Option Str) :
    Except GenError (Option Nat) :=
  match c, resolve with
  | none, _ => .ok old
  | some _, none => .ok old
  | some c, some f =>
    if c = [] then .ok none
    else match f c with
      | .ok b => .ok (some b)
      | .error _ => .error .blockio

/-- `AdjustRdtClass` on `Linux.IntelRdt` (same shape). -/
def applyRdt (resolve : Option (Str → Except Unit Str)) (old : Option Str) (c : Option Str) :
    Except GenError (Option Str) :=
  match c, resolve with
  | none, _ => .ok old
  | some _, none => .ok old
  | some c, some f =>
    if c = [] then .ok none
    else match f c with
      | .ok b => .ok (some b)
      | .error _ => .error .rdt

end Resources

/-- `Generator.AdjustBlockIOClass`. -/
def adjustBlockIOClass (ext : Externals) (s : Spec) (c : Option Str) : Except GenError Spec :=
  match Resources.applyBlockIO ext.resolveBlockIO s.blockio c with
  | .ok b => .ok { s with blockio := b }
  | .error e => .error e

/-- `Generator.AdjustRdtClass`. -/
def adjustRdtClass (ext : Externals) (s : Spec) (c : Option Str) : Except GenError Spec :=
  match Resources.applyRdt ext.resolveRdt s.rdt c with
  | .ok b => .ok { s with rdt := b }
  | .error e => .error e

/-! ## Mounts (`AdjustMounts`, `sortMounts`, `orderedMounts`) -/

namespace Mounts

/-- `strings.Split(p, "/")`. -/
def splitSlash : Str → List Str
  | [] => [[]]
  | c :: r =>
    if c = '/' then [] :: splitSlash r
    else match splitSlash r with
      | [] => [[c]]            -- unreachable: `splitSlash` never returns `[]`
      | x :: xs => (c :: x) :: xs

/-- One component of `filepath.Clean`'s scan, on the stack of components kept so far (top
    first): empty and `.` are skipped; `..` pops a real component, is kept at the front of a
    relative path, and is dropped at the root. -/
def cleanStep (rooted : Bool) (stack : List Str) (c : Str) : List Str :=
  if c = [] || c = str "." then stack
  else if c = str ".." then
    match stack with
    | top :: rest => if top = str ".." then c :: stack else rest
    | [] => if rooted then [] else [c]
  else c :: stack

/-- Join components with `/`. -/
def joinSlash : List Str → Str
  | [] => []
  | [x] => x
  | x :: y :: r => x ++ '/' :: joinSlash (y :: r)

/-- `filepath.Clean` (Unix): lexical normalisation; `""` ↦ `"."`. -/
def cleanPath (p : Str) : Str :=
  let rooted := match p with | '/' :: _ => true | _ => false
  let comps := ((splitSlash p).foldl (cleanStep rooted) []).reverse
  let body := joinSlash comps
  if rooted then '/' :: body else if body = [] then str "." else body

/-- `orderedMounts.parts`: `strings.Count(filepath.Clean(dest), "/")`. -/
def parts (dest : Str) : Nat := (cleanPath dest).count '/'

/-- Go's `<` on strings (bytewise on UTF-8 = by code point). -/
def strLt : Str → Str → Bool
  | [], [] => false
  | [], _ :: _ => true
  | _ :: _, [] => false
  | a :: as, b :: bs =>
    if a.toNat < b.toNat then true else if a.toNat = b.toNat then strLt as bs else false

/-- `orderedMounts.Less`: fewer path separators first, ties by the raw destination string. -/
def mountLt (a b : Oci.Mount) : Bool :=
  parts a.destination < parts b.destination ||
    (parts a.destination = parts b.destination && strLt a.destination b.destination)

/-- Insert into a sorted list, after every element that is not greater. -/
def insertSorted (m : Oci.Mount) : List Oci.Mount → List Oci.Mount
  | [] => [m]
  | x :: r => if mountLt m x then m :: x :: r else x :: insertSorted m r

/-- `sort.Sort(orderedMounts(mounts))`.  `Less` is a strict total order on mounts with distinct
    destinations, so every correct sorting algorithm returns the same list; insertion sort is
    also literally what `sort.Sort` runs on slices of at most 12 elements. -/
def sortMounts (l : List Oci.Mount) : List Oci.Mount := l.foldl (fun acc m => insertSorted m acc) []

/-- Loop state of `AdjustMounts`: the mount list, `Linux.RootfsPropagation`, and the local
    variable `propagation` (declared outside the loop, so it carries over between entries). -/
structure State where
  mounts : List Oci.Mount
  rootfs : Str
  prop : Str
  deriving DecidableEq, Repr

/-- First loop of the repaired `AdjustMounts`: `RemoveMount(dest)` for every marked entry. -/
def removals (ms : List Oci.Mount) (L : List Api.Mount) : List Oci.Mount :=
  L.foldl (fun ms m =>
    if isMarked m.destination then removeFirst Oci.Mount.destination (stripMarker m.destination) ms
    else ms) ms

/-- Loop body for one unmarked entry: `RemoveMount(dest)`; `ToOCI(&propagation)`; for
    `rshared`/`rslave` check the host mount of the source (`ensurePropagation`) and raise the
    rootfs propagation; `AddMount` (append). -/
def setStep (hostProp : Str → Str) (st : State) (m : Api.Mount) : Except GenError State :=
  let ms := removeFirst Oci.Mount.destination m.destination st.mounts
  let prop := m.propagationQuery st.prop
  let mnt := m.toOCI
  if prop = str "rshared" then
    if hostProp mnt.source = str "rshared" then
      .ok { mounts := ms ++ [mnt], rootfs := str "rshared", prop := prop }
    else .error .mountPropagation
  else if prop = str "rslave" then
    if hostProp mnt.source = str "rshared" || hostProp mnt.source = str "rslave" then
      let rootfs := if st.rootfs ≠ str "rshared" && st.rootfs ≠ str "rslave"
                    then str "rslave" else st.rootfs
      .ok { mounts := ms ++ [mnt], rootfs := rootfs, prop := prop }
    else .error .mountPropagation
  else .ok { mounts := ms ++ [mnt], rootfs := st.rootfs, prop := prop }

/-- Second loop: every unmarked entry in list order; the first error aborts. -/
def sets (hostProp : Str → Str) : State → List Api.Mount → Except GenError State
  | st, [] => .ok st
  | st, m :: r =>
    if isMarked m.destination then sets hostProp st r
    else match setStep hostProp st m with
      | .ok st' => sets hostProp st' r
      | .error e => .error e

/-- The loop of `AdjustMounts` at the original snapshot (before the repair): marked entries remove, others set, in
    list order. -/
def loopUnfixed (hostProp : Str → Str) : State → List Api.Mount → Except GenError State
  | st, [] => .ok st
  | st, m :: r =>
    if isMarked m.destination then
      loopUnfixed hostProp
        { st with mounts := removeFirst Oci.Mount.destination (stripMarker m.destination) st.mounts } r
    else match setStep hostProp st m with
      | .ok st' => loopUnfixed hostProp st' r
      | .error e => .error e

/-- Repaired `AdjustMounts` on `(Mounts, RootfsPropagation)`; untouched for an empty list
    (in particular NOT re-sorted). -/
def apply (hostProp : Str → Str) (ms : List Oci.Mount) (rootfs : Str) (L : List Api.Mount) :
    Except GenError (List Oci.Mount × Str) :=
  if L.isEmpty then .ok (ms, rootfs)
  else match sets hostProp { mounts := removals ms L, rootfs := rootfs, prop := [] } L with
    | .ok st => .ok (sortMounts st.mounts, st.rootfs)
    | .error e => .error e

/-- `AdjustMounts` at the original snapshot (before the repair). -/
def applyUnfixed (hostProp : Str → Str) (ms : List Oci.Mount) (rootfs : Str) (L : List Api.Mount) :
    Except GenError (List Oci.Mount × Str) :=
  if L.isEmpty then .ok (ms, rootfs)
  else match loopUnfixed hostProp { mounts := ms, rootfs := rootfs, prop := [] } L with
    | .ok st => .ok (sortMounts st.mounts, st.rootfs)
    | .error e => .error e

end Mounts

/-- `Generator.AdjustMounts` (repaired). -/
def adjustMounts (ext : Externals) (s : Spec) (L : List Api.Mount) : Except GenError Spec :=
  match Mounts.apply ext.hostPropagation s.mounts s.rootfsPropagation L with
  | .ok r => .ok { s with mounts := r.1, rootfsPropagation := r.2 }
  | .error e => .error e

/-- `Generator.AdjustMounts` at the original snapshot (before the repair). -/
def adjustMountsUnfixed (ext : Externals) (s : Spec) (L : List Api.Mount) : Except GenError Spec :=
  match Mounts.applyUnfixed ext.hostPropagation s.mounts s.rootfsPropagation L with
  | .ok r => .ok { s with mounts := r.1, rootfsPropagation := r.2 }
  | .error e => .error e

/-! ## `Generator.Adjust` -/

/-- `Generator.Adjust`, repaired code: the families in the order of the Go function —
    annotations, env, args, hooks, CDI, devices, cgroups path, OOM score, resources, block-I/O
    class, RDT class, mounts, rlimits — stopping at the first error. -/
def adjust (ext : Externals) (s : Spec) (a : Adjustment) : Except GenError Spec := do
  let s := adjustAnnotations s a.annotations
  let s := adjustEnv s a.env
  let s := adjustArgs s a.args
  let s := adjustHooks s a.hooks
  let s ← injectCDI ext s a.cdiDevices
  let s := adjustDevices s a.linuxDevices
  let s := adjustCgroupsPath s a.cgroupsPath
  let s := adjustOomScoreAdj s a.oomScoreAdj
  let s := adjustResources s a.resources
  let s ← adjustBlockIOClass ext s a.blockioClass
  let s ← adjustRdtClass ext s a.rdtClass
  let s ← adjustMounts ext s a.mounts
  pure (adjustRlimits s a.rlimits)

/-- `Generator.Adjust` with every Go map iteration made explicit: `π1`, `π2` are the orders in
    which the removal loop and the set loop of `AdjustAnnotations` see the annotation map, `σ`
    the order in which `AdjustResources` sees the unified map (all other inputs are slices).
    `adjust ext s a` is the instance `π1 = π2 = a.annotations`, `σ =` the unified list as given
    (`Lemmas/GenerateFrame.lean`). -/
def adjustOrders (ext : Externals) (s : Spec) (a : Adjustment) (π1 π2 σ : List (Str × Str)) :
    Except GenError Spec := do
  let s := { s with annotations := Annotations.applyOrders s.annotations π1 π2 }
  let s := adjustEnv s a.env
  let s := adjustArgs s a.args
  let s := adjustHooks s a.hooks
  let s ← injectCDI ext s a.cdiDevices
  let s := adjustDevices s a.linuxDevices
  let s := adjustCgroupsPath s a.cgroupsPath
  let s := adjustOomScoreAdj s a.oomScoreAdj
  let s := adjustResources s (match a.resources with | some r => some { r with unified := σ } | none => none)
  let s ← adjustBlockIOClass ext s a.blockioClass
  let s ← adjustRdtClass ext s a.rdtClass
  let s ← adjustMounts ext s a.mounts
  pure (adjustRlimits s a.rlimits)

/-- `Generator.Adjust` before any of the repairs (annotations iterated in the order given). -/
def adjustUnfixed (ext : Externals) (s : Spec) (a : Adjustment) : Except GenError Spec := do
  let s := adjustAnnotationsUnfixed s a.annotations
  let s := adjustEnvUnfixed s a.env
  let s := adjustArgsUnfixed s a.args
  let s := adjustHooks s a.hooks
  let s ← injectCDI ext s a.cdiDevices
  let s := adjustDevicesUnfixed s a.linuxDevices
  let s := adjustCgroupsPath s a.cgroupsPath
  let s := adjustOomScoreAdj s a.oomScoreAdj
  let s := adjustResources s a.resources
  let s ← adjustBlockIOClass ext s a.blockioClass
  let s ← adjustRdtClass ext s a.rdtClass
  let s ← adjustMountsUnfixed ext s a.mounts
  pure (adjustRlimits s a.rlimits)

/-- `Generator.Adjust` as it stood after commits 1f50159 and ad4e689 but before 6eaf34c:
    annotations and args repaired, list families not. -/
def adjustListsUnfixed (ext : Externals) (s : Spec) (a : Adjustment) : Except GenError Spec := do
  let s := adjustAnnotations s a.annotations
  let s := adjustEnvUnfixed s a.env
  let s := adjustArgs s a.args
  let s := adjustHooks s a.hooks
  let s ← injectCDI ext s a.cdiDevices
  let s := adjustDevicesUnfixed s a.linuxDevices
  let s := adjustCgroupsPath s a.cgroupsPath
  let s := adjustOomScoreAdj s a.oomScoreAdj
  let s := adjustResources s a.resources
  let s ← adjustBlockIOClass ext s a.blockioClass
  let s ← adjustRdtClass ext s a.rdtClass
  let s ← adjustMountsUnfixed ext s a.mounts
  pure (adjustRlimits s a.rlimits)

end Nri.Generate
