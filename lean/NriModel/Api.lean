/-
Data types of the generator model (property C13; imported by the C03/C04 simulation).

Two vocabularies, both plain structures over `Str = List Char`, `Nat`, `Int`, `Option`, `List`:

* `Nri.Api.*`  — the NRI side (`pkg/api`): what a `ContainerAdjustment` carries, the removal
  marker (`helpers.go`), and the `ToOCI` conversions used by the generator
  (`env.go`, `mount.go`, `device.go`, `hooks.go`).
* `Nri.Oci.*`  — the part of `rspec.Spec` that `Generator.Adjust` reads or writes, flattened:
  `Process.{Args,Env,Rlimits,OOMScoreAdj}`, `Mounts`, `Annotations`, `Hooks`,
  `Linux.{Devices,CgroupsPath,RootfsPropagation,IntelRdt}`,
  `Linux.Resources.{Devices,CPU,Memory,HugepageLimits,Unified,Pids,BlockIO}`.

Conventions: Go `uint*` is `Nat`, Go `int*` is `Int` (widths play no role in C13), a Go
pointer/`Optional*` wrapper is `Option`, a Go map is `Nri.AList` (compared through
`AList.lookup`), `nil` and empty slices are identified.  The spec is assumed to HAVE a
`Process` and a `Linux` section (the property's stated domain); a `nil`
`Linux.Resources`/`Resources.CPU`/`Resources.Memory`/`Hooks` is identified with the
all-unset value, exactly as their `omitempty` JSON is.
Core Lean only.
-/
import NriModel.Basic

namespace Nri.Api

/-! ### Removal marker (`pkg/api/helpers.go`) -/

/-- Second component of `IsMarkedForRemoval(key)`: the key starts with `'-'`.
    (`""` is not marked.) -/
def isMarked : Str → Bool
  | '-' :: _ => true
  | _ => false

/-- First component of `IsMarkedForRemoval(key)`: the key without one leading `'-'`. -/
def stripMarker : Str → Str
  | '-' :: r => r
  | k => k

/-- `MarkForRemoval(key)`. -/
def markForRemoval (k : Str) : Str := '-' :: k

@[simp] theorem isMarked_mark (k : Str) : isMarked (markForRemoval k) = true := rfl
@[simp] theorem strip_mark (k : Str) : stripMarker (markForRemoval k) = k := rfl
theorem strip_of_not_marked {k : Str} (h : isMarked k = false) : stripMarker k = k := by
  unfold isMarked at h; unfold stripMarker; split <;> simp_all

/-! ### NRI-side messages (`api.proto`) -/

/-- `KeyValue`: one environment adjustment; `key` may carry the removal marker. -/
structure KeyValue where
  key : Str
  value : Str
  deriving DecidableEq, Repr, Inhabited

/-- `Mount`; `destination` may carry the removal marker. -/
structure Mount where
  destination : Str
  type : Str := []
  source : Str := []
  options : List Str := []
  deriving DecidableEq, Repr, Inhabited

/-- `LinuxDevice`; `path` may carry the removal marker. `fileMode/uid/gid` are the
    `OptionalFileMode/OptionalUInt32` wrappers. -/
structure LinuxDevice where
  path : Str
  type : Str := []
  major : Int := 0
  minor : Int := 0
  fileMode : Option Nat := none
  uid : Option Nat := none
  gid : Option Nat := none
  deriving DecidableEq, Repr, Inhabited

/-- `Hook`. -/
structure Hook where
  path : Str
  args : List Str := []
  env : List Str := []
  timeout : Option Int := none
  deriving DecidableEq, Repr, Inhabited

/-- `Hooks`: the six OCI hook lists. -/
structure Hooks where
  prestart : List Hook := []
  createRuntime : List Hook := []
  createContainer : List Hook := []
  startContainer : List Hook := []
  poststart : List Hook := []
  poststop : List Hook := []
  deriving DecidableEq, Repr, Inhabited

/-- `POSIXRlimit`. -/
structure POSIXRlimit where
  type : Str
  hard : Nat
  soft : Nat
  deriving DecidableEq, Repr, Inhabited

/-- `HugepageLimit`. -/
structure HugepageLimit where
  pageSize : Str
  limit : Nat
  deriving DecidableEq, Repr, Inhabited

/-- `LinuxCPU`: five optional scalars and the two cpuset strings (`""` = not requested). -/
structure LinuxCPU where
  shares : Option Nat := none
  quota : Option Int := none
  period : Option Nat := none
  realtimeRuntime : Option Int := none
  realtimePeriod : Option Nat := none
  cpus : Str := []
  mems : Str := []
  deriving DecidableEq, Repr, Inhabited

/-- `LinuxMemory`. The generator applies only `limit`; the other fields are carried so that
    an adjustment can be represented completely. -/
structure LinuxMemory where
  limit : Option Int := none
  reservation : Option Int := none
  swap : Option Int := none
  kernel : Option Int := none
  kernelTcp : Option Int := none
  swappiness : Option Nat := none
  disableOomKiller : Option Bool := none
  useHierarchy : Option Bool := none
  deriving DecidableEq, Repr, Inhabited

/-- `LinuxResources` as carried by an adjustment. `unified` is a Go map: its entries reach the
    generator in an arbitrary order. `pids` is `LinuxPids.limit`. -/
structure LinuxResources where
  memory : Option LinuxMemory := none
  cpu : Option LinuxCPU := none
  hugepageLimits : List HugepageLimit := []
  blockioClass : Option Str := none
  rdtClass : Option Str := none
  unified : AList Str Str := []
  pids : Option Int := none
  deriving DecidableEq, Repr, Inhabited

/-- `LinuxContainerAdjustment`. `cgroupsPath = ""` means "not requested". -/
structure LinuxContainerAdjustment where
  devices : List LinuxDevice := []
  resources : Option LinuxResources := none
  cgroupsPath : Str := []
  oomScoreAdj : Option Int := none
  deriving DecidableEq, Repr, Inhabited

/-- `ContainerAdjustment`. `annotations` is a Go map (arbitrary iteration order); `mounts`,
    `env`, `linux.devices` are lists whose entries are sets or, with the marker, removals;
    `args` may start with the `""` marker written by `UpdateArgs`; `cdiDevices` are the fully
    qualified CDI names. A `nil` adjustment is the all-empty one. -/
structure Adjustment where
  annotations : AList Str Str := []
  mounts : List Mount := []
  env : List KeyValue := []
  hooks : Option Hooks := none
  linux : Option LinuxContainerAdjustment := none
  rlimits : List POSIXRlimit := []
  cdiDevices : List Str := []
  args : List Str := []
  deriving DecidableEq, Repr, Inhabited

namespace Adjustment
/-- `adjust.GetLinux().GetDevices()` -/
def linuxDevices (a : Adjustment) : List LinuxDevice :=
  match a.linux with | some l => l.devices | none => []
/-- `adjust.GetLinux().GetCgroupsPath()` -/
def cgroupsPath (a : Adjustment) : Str :=
  match a.linux with | some l => l.cgroupsPath | none => []
/-- `adjust.GetLinux().GetOomScoreAdj()` -/
def oomScoreAdj (a : Adjustment) : Option Int :=
  match a.linux with | some l => l.oomScoreAdj | none => none
/-- `adjust.GetLinux().GetResources()` -/
def resources (a : Adjustment) : Option LinuxResources :=
  match a.linux with | some l => l.resources | none => none
/-- `resources.GetBlockioClass().Get()` -/
def blockioClass (a : Adjustment) : Option Str :=
  match a.resources with | some r => r.blockioClass | none => none
/-- `resources.GetRdtClass().Get()` -/
def rdtClass (a : Adjustment) : Option Str :=
  match a.resources with | some r => r.rdtClass | none => none
end Adjustment

end Nri.Api

namespace Nri.Oci

/-- `rspec.Mount` (the fields NRI knows). -/
structure Mount where
  destination : Str
  type : Str := []
  source : Str := []
  options : List Str := []
  deriving DecidableEq, Repr, Inhabited

/-- `rspec.LinuxDevice`. -/
structure Device where
  path : Str
  type : Str := []
  major : Int := 0
  minor : Int := 0
  fileMode : Option Nat := none
  uid : Option Nat := none
  gid : Option Nat := none
  deriving DecidableEq, Repr, Inhabited

/-- `rspec.LinuxDeviceCgroup`: one allow/deny rule of the device cgroup. -/
structure DeviceCgroup where
  allow : Bool
  type : Str := []
  major : Option Int := none
  minor : Option Int := none
  access : Str := []
  deriving DecidableEq, Repr, Inhabited

/-- `rspec.Hook`. -/
structure Hook where
  path : Str
  args : List Str := []
  env : List Str := []
  timeout : Option Int := none
  deriving DecidableEq, Repr, Inhabited

/-- `rspec.Hooks` (a `nil` `*Hooks` is the all-empty value). -/
structure Hooks where
  prestart : List Hook := []
  createRuntime : List Hook := []
  createContainer : List Hook := []
  startContainer : List Hook := []
  poststart : List Hook := []
  poststop : List Hook := []
  deriving DecidableEq, Repr, Inhabited

/-- `rspec.POSIXRlimit`. -/
structure Rlimit where
  type : Str
  hard : Nat
  soft : Nat
  deriving DecidableEq, Repr, Inhabited

/-- `rspec.LinuxHugepageLimit`. -/
structure HugepageLimit where
  pageSize : Str
  limit : Nat
  deriving DecidableEq, Repr, Inhabited

/-- `rspec.LinuxCPU` (the fields the generator can write; `Burst`/`Idle` are part of the
    unmodelled rest of the spec, whose invariance the harness checks byte-wise). -/
structure CPU where
  shares : Option Nat := none
  quota : Option Int := none
  period : Option Nat := none
  realtimeRuntime : Option Int := none
  realtimePeriod : Option Nat := none
  cpus : Str := []
  mems : Str := []
  deriving DecidableEq, Repr, Inhabited

/-- `rspec.LinuxMemory`. -/
structure Memory where
  limit : Option Int := none
  reservation : Option Int := none
  swap : Option Int := none
  kernel : Option Int := none
  kernelTCP : Option Int := none
  swappiness : Option Nat := none
  disableOOMKiller : Option Bool := none
  useHierarchy : Option Bool := none
  deriving DecidableEq, Repr, Inhabited

/-- The modelled part of `rspec.Spec`.

    `blockio` is the stand-in for `Linux.Resources.BlockIO`: the value the (external) class
    resolver returned, reduced to the tag the harness's resolver puts into `Weight`;
    `rdt` likewise is `Linux.IntelRdt.ClosID`.  `cdi` is a ghost field: the names the
    recording CDI injector was called with, in call order. -/
structure Spec where
  annotations : AList Str Str := []
  args : List Str := []
  env : List Str := []
  rlimits : List Rlimit := []
  oomScoreAdj : Option Int := none
  mounts : List Mount := []
  devices : List Device := []
  devRules : List DeviceCgroup := []
  cpu : CPU := {}
  memory : Memory := {}
  hugepages : List HugepageLimit := []
  unified : AList Str Str := []
  pids : Option Int := none
  blockio : Option Nat := none
  rdt : Option Str := none
  cgroupsPath : Str := []
  rootfsPropagation : Str := []
  hooks : Hooks := {}
  cdi : List Str := []
  deriving DecidableEq, Repr, Inhabited

end Nri.Oci

namespace Nri.Api

/-! ### `ToOCI` conversions used by the generator -/

/-- `(*KeyValue).ToOCI`: `key + "=" + value`. -/
def KeyValue.toOCI (e : KeyValue) : Str := e.key ++ '=' :: e.value

/-- The propagation options `(*Mount).ToOCI` reports through its `propagationQuery`. -/
def isPropagationOpt (o : Str) : Bool :=
  o == str "rprivate" || o == str "rshared" || o == str "rslave"

/-- `(*Mount).ToOCI(&propagation)`, first result: the OCI mount (options copied in order). -/
def Mount.toOCI (m : Mount) : Oci.Mount :=
  { destination := m.destination, type := m.type, source := m.source, options := m.options }

/-- `(*Mount).ToOCI(&propagation)`, effect on `*propagationQuery`: every propagation option
    overwrites it in turn (so the LAST one stays), and no such option leaves it as it was. -/
def Mount.propagationQuery (m : Mount) (prev : Str) : Str :=
  m.options.foldl (fun p o => if isPropagationOpt o then o else p) prev

/-- `(*LinuxDevice).ToOCI`. -/
def LinuxDevice.toOCI (d : LinuxDevice) : Oci.Device :=
  { path := d.path, type := d.type, major := d.major, minor := d.minor,
    fileMode := d.fileMode, uid := d.uid, gid := d.gid }

/-- `(*LinuxDevice).AccessString`: `r` and `w` are initialised to `"r"`/`"w"` and only ever
    re-assigned the same letters, so the result is `"rw"`, plus `"m"` for block devices. -/
def LinuxDevice.accessString (d : LinuxDevice) : Str :=
  str "rw" ++ (if d.type = str "b" then str "m" else [])

/-- The cgroup rule `AdjustDevices` adds for a device that is set. -/
def LinuxDevice.cgroupRule (d : LinuxDevice) : Oci.DeviceCgroup :=
  { allow := true, type := d.type, major := some d.major, minor := some d.minor,
    access := d.accessString }

/-- `(*Hook).ToOCI`. -/
def Hook.toOCI (h : Hook) : Oci.Hook :=
  { path := h.path, args := h.args, env := h.env, timeout := h.timeout }

/-- The `rspec.POSIXRlimit` literal built by `AdjustRlimits`. -/
def POSIXRlimit.toOCI (l : POSIXRlimit) : Oci.Rlimit :=
  { type := l.type, hard := l.hard, soft := l.soft }

end Nri.Api
