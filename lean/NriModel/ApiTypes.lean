/-
NRI-side data types mirroring pkg/api (api.proto) as far as result.go reads or writes them.
Optional scalars (`OptionalInt64` …) are `Option`; Go maps are association lists; nil and
empty collections are identified (protobuf does not distinguish them on the wire).
Core Lean only.
-/
import NriModel.Basic

namespace Nri.NApi

structure Mount where
  destination : Str
  type : Str := []
  source : Str := []
  options : List Str := []
  deriving DecidableEq, Repr, Inhabited

structure Hook where
  path : Str
  args : List Str := []
  env : List Str := []
  timeout : Option Int := none
  deriving DecidableEq, Repr, Inhabited

structure Hooks where
  prestart : List Hook := []
  createRuntime : List Hook := []
  createContainer : List Hook := []
  startContainer : List Hook := []
  poststart : List Hook := []
  poststop : List Hook := []
  deriving DecidableEq, Repr, Inhabited

structure Device where
  path : Str
  type : Str := []
  major : Int := 0
  minor : Int := 0
  fileMode : Option Nat := none
  uid : Option Nat := none
  gid : Option Nat := none
  deriving DecidableEq, Repr, Inhabited

structure KeyValue where
  key : Str
  value : Str := []
  deriving DecidableEq, Repr, Inhabited

structure Rlimit where
  type : Str
  hard : Nat := 0
  soft : Nat := 0
  deriving DecidableEq, Repr, Inhabited

structure Hugepage where
  pageSize : Str
  limit : Nat := 0
  deriving DecidableEq, Repr, Inhabited

structure Memory where
  limit : Option Int := none
  reservation : Option Int := none
  swap : Option Int := none
  kernel : Option Int := none
  kernelTcp : Option Int := none
  swappiness : Option Nat := none
  disableOomKiller : Option Bool := none
  useHierarchy : Option Bool := none
  deriving DecidableEq, Repr, Inhabited

structure Cpu where
  shares : Option Nat := none
  quota : Option Int := none
  period : Option Nat := none
  realtimeRuntime : Option Int := none
  realtimePeriod : Option Nat := none
  cpus : Str := []
  mems : Str := []
  deriving DecidableEq, Repr, Inhabited

/-- `LinuxResources`. `memory`/`cpu` are `Option` because the plugin-supplied messages may
    leave them nil; the collector normalises its own copies to `some {}`. -/
structure Resources where
  memory : Option Memory := none
  cpu : Option Cpu := none
  hugepages : List Hugepage := []
  blockioClass : Option Str := none
  rdtClass : Option Str := none
  unified : AList Str Str := []
  pids : Option Int := none
  deriving DecidableEq, Repr, Inhabited

/-- The part of `Container` the collector shows to plugins and mutates. Fields the
    collector never touches (pod id, name, labels, state, namespaces, timestamps …) are
    carried opaquely in `rest` so that "nothing else changed" is checkable. -/
structure Container where
  id : Str
  annotations : AList Str Str := []
  args : List Str := []
  env : List Str := []
  mounts : List Mount := []
  hooks : Hooks := {}
  rlimits : List Rlimit := []
  devices : List Device := []
  resources : Resources := {}
  oomScoreAdj : Option Int := none
  cgroupsPath : Str := []
  rest : Str := []
  deriving DecidableEq, Repr, Inhabited

/-- `ContainerAdjustment` (with `LinuxContainerAdjustment` flattened; `hasLinux` records
    whether the plugin's message carried a `linux` section at all). -/
structure Adjustment where
  annotations : AList Str Str := []
  mounts : List Mount := []
  env : List KeyValue := []
  hooks : Option Hooks := none
  hasLinux : Bool := false
  devices : List Device := []
  resources : Option Resources := none
  cgroupsPath : Str := []
  oomScoreAdj : Option Int := none
  rlimits : List Rlimit := []
  cdiDevices : List Str := []
  args : List Str := []
  deriving DecidableEq, Repr, Inhabited

/-- `ContainerUpdate` (`linux.resources` flattened: `none` = no linux section or no
    resources in it). -/
structure Update where
  containerId : Str
  resources : Option Resources := none
  ignoreFailure : Bool := false
  deriving DecidableEq, Repr, Inhabited

/-- `IsMarkedForRemoval`: `"-k"` ↦ `(k, true)`; `""` ↦ `("", false)`. -/
def isMarked : Str → Str × Bool
  | [] => ([], false)
  | c :: cs => if c = '-' then (cs, true) else (c :: cs, false)

def markForRemoval (k : Str) : Str := '-' :: k

/-- `ClearRemovalMarker` -/
def clearMarker : Str → Str
  | [] => []
  | c :: cs => if c = '-' then cs else c :: cs

/-- `splitEnvVar` of result.go: the name is everything before the first `=`. -/
def envKey : Str → Str
  | [] => []
  | c :: cs => if c = '=' then [] else c :: envKey cs

/-- `KeyValue.ToOCI` -/
def KeyValue.toOCI (e : KeyValue) : Str := e.key ++ ('=' :: e.value)

end Nri.NApi
