/-
Model of how NRI discovers, launches, configures, orders, skips and stops pre-installed
plugins:

  * pkg/api/plugin.go            `ParsePluginName`, `CheckPluginIndex`
  * pkg/adaptation/adaptation.go `discoverPlugins`, `startPlugins`, `sortPlugins`,
                                 `removeClosedPlugins`, `stopPlugins`
  * pkg/adaptation/plugin.go     `getPluginConfig`, `newLaunchedPlugin`, `start`, `stop`

The model is of the REPAIRED code (docs/fixes/C18-1.patch: a file whose name is not
`NN-name` is skipped with a warning; docs/fixes/C18-2.patch: a plugin that exits before
registering is reaped like every other dropped plugin). The transcription of the unrepaired
code is kept as `discoverUnfixed` / `startOneUnfixed` for the `unfixed_*` witnesses only.

What the operating system does (directory listing order, exec, descriptor inheritance,
kill, wait) is not modelled: the model says which files NRI tries to run, with what
environment and extra files, in which order, and on which code paths it kills and waits;
the probe campaign of the harness measures the rest. Core Lean only.
-/
import NriModel.Basic

namespace Nri.Launch
open Nri

/-! ## Names -/

def isDigit (c : Char) : Bool := '0' ≤ c ∧ c ≤ '9'

/-- `api.CheckPluginIndex`: exactly two ASCII digits. (Go tests `len(idx) == 2` on bytes
    and both bytes in `'0'..'9'`; a string of two bytes that are both ASCII digits is a
    string of two characters that are ASCII digits, and conversely.) -/
def checkIndex (idx : Str) : Bool :=
  match idx with
  | [a, b] => isDigit a && isDigit b
  | _ => false

/-- `strings.SplitN(name, "-", 2)`: the part before the first dash and the rest -/
def splitDash : Str → Option (Str × Str)
  | [] => none
  | c :: cs =>
    if c = '-' then some ([], cs)
    else match splitDash cs with
      | some (a, b) => some (c :: a, b)
      | none => none

/-- `api.ParsePluginName` -/
def parsePluginName (name : Str) : Option (Str × Str) :=
  match splitDash name with
  | none => none
  | some (idx, base) => if checkIndex idx then some (idx, base) else none

/-- numeric value of a two-digit index -/
def idxVal (idx : Str) : Nat :=
  match idx with
  | [a, b] => (a.toNat - 48) * 10 + (b.toNat - 48)
  | _ => 0

/-! ## Directory entries -/

inductive Kind where
  | file | dir | symlink | other
deriving DecidableEq, Repr

/-- how a launched process behaves towards the runtime (the last two act only at an `idle`
    step of a plan, see `runPlan`; without one they are indistinguishable from `ok`) -/
inductive Behaviour where
  | ok            -- registers, is configured, synchronises, answers every request
  | exitsAtOnce   -- exits before registering
  | neverRegisters
  | configFails   -- answers Configure with an error
  | syncFails     -- answers Synchronize with an error
  | diesLater     -- as `ok`, then dies after the first request
  | closesWhenIdle -- as `ok`, then closes its end of the connection while the runtime is idle, and keeps running
  | exitsWhenIdle  -- as `ok`, then exits while the runtime is idle
deriving DecidableEq, Repr

/-- what happens when NRI tries to run the file: the exec fails (not an executable format,
    dangling link, a directory, a WebAssembly header that does not load, no permission) or a
    process starts and behaves in one of six ways. A fact about the file, supplied with it. -/
inductive Exec where
  | cannot
  | runs (b : Behaviour)
deriving DecidableEq, Repr

structure Entry where
  name : Str
  kind : Kind
  /-- permission bits as `Lstat` reports them (a symlink reports 0777) -/
  mode : Nat
  exec : Exec
deriving DecidableEq, Repr

/-- `info.Mode()&0o111 != 0` -/
def hasExecBit (mode : Nat) : Bool := mode % 2 = 1 || (mode / 8) % 2 = 1 || (mode / 64) % 2 = 1

/-- lexicographic order on names (= bytewise order of valid UTF-8, the order of `os.ReadDir`) -/
def strLe : Str → Str → Bool
  | [], _ => true
  | _ :: _, [] => false
  | a :: as, b :: bs => a < b || (a = b && strLe as bs)

def insertByName (e : Entry) : List Entry → List Entry
  | [] => [e]
  | x :: xs => if strLe e.name x.name then e :: x :: xs else x :: insertByName e xs

/-- `os.ReadDir`: entries sorted by file name -/
def sortByName : List Entry → List Entry
  | [] => []
  | e :: es => insertByName e (sortByName es)

/-! ## Drop-in configuration -/

inductive Dropin where
  | file (content : Str)
  | dir                    -- reading it fails with an error that is not "does not exist"
deriving DecidableEq, Repr

abbrev Dropins := AList Str Dropin

def confSuffix : Str := ".conf".toList

inductive Err where
  | config        -- "failed to read configuration for plugin"
  | invalidName   -- unrepaired code only
deriving DecidableEq, Repr

/-- the loop of `getPluginConfig` over `[idx-base.conf, base.conf]` -/
def firstConfig (d : Dropins) : List Str → Except Err Str
  | [] => .ok []
  | p :: ps =>
    match AList.lookup d p with
    | some (.file c) => .ok c
    | some .dir => .error .config
    | none => firstConfig d ps

/-- `getPluginConfig(idx, base)` -/
def configFor (d : Dropins) (idx base : Str) : Except Err Str :=
  firstConfig d [idx ++ ('-' :: base) ++ confSuffix, base ++ confSuffix]

/-! ## Discovery -/

structure Found where
  idx : Str
  base : Str
  cfg : Str
  exec : Exec
deriving DecidableEq, Repr

def Found.fileName (f : Found) : Str := f.idx ++ ('-' :: f.base)

/-- is this directory entry a candidate at all: not a directory, some execute bit -/
def candidate (e : Entry) : Bool := e.kind ≠ .dir && hasExecBit e.mode

/-- the loop of `discoverPlugins` over the (sorted) entries — repaired: a candidate whose
    name does not parse is skipped -/
def discoverLoop (d : Dropins) : List Entry → Except Err (List Found)
  | [] => .ok []
  | e :: es =>
    if !candidate e then discoverLoop d es
    else match parsePluginName e.name with
      | none => discoverLoop d es                      -- C18-1: warn and skip
      | some (idx, base) =>
        match configFor d idx base with
        | .error err => .error err
        | .ok cfg =>
          match discoverLoop d es with
          | .error err => .error err
          | .ok fs => .ok ({ idx := idx, base := base, cfg := cfg, exec := e.exec } :: fs)

def discover (d : Dropins) (entries : List Entry) : Except Err (List Found) :=
  discoverLoop d (sortByName entries)

/-- the unrepaired loop: a candidate whose name does not parse aborts the whole discovery -/
def discoverLoopUnfixed (d : Dropins) : List Entry → Except Err (List Found)
  | [] => .ok []
  | e :: es =>
    if !candidate e then discoverLoopUnfixed d es
    else match parsePluginName e.name with
      | none => .error .invalidName
      | some (idx, base) =>
        match configFor d idx base with
        | .error err => .error err
        | .ok cfg =>
          match discoverLoopUnfixed d es with
          | .error err => .error err
          | .ok fs => .ok ({ idx := idx, base := base, cfg := cfg, exec := e.exec } :: fs)

def discoverUnfixed (d : Dropins) (entries : List Entry) : Except Err (List Found) :=
  discoverLoopUnfixed d (sortByName entries)

/-! ## Launch -/

def envName : Str := "NRI_PLUGIN_NAME".toList
def envIdx : Str := "NRI_PLUGIN_IDX".toList
def envSocket : Str := "NRI_PLUGIN_SOCKET".toList

/-- `cmd.Env` of `newLaunchedPlugin` -/
def childEnv (idx base : Str) : List (Str × Str) :=
  [(envName, base), (envIdx, idx), (envSocket, ['3'])]

/-- `cmd.ExtraFiles = []*os.File{peerFile}`: how many files beyond stdin/stdout/stderr -/
def extraFiles : Nat := 1

/-- descriptor numbers the child is given: 0, 1, 2 and 3 + i for the i-th extra file -/
def childFds : List Nat := List.range (3 + extraFiles)

/-- what the runtime did to / got from one plugin during start-up -/
structure Started where
  found : Found
  /-- a process was created (`cmd.Start` succeeded) -/
  process : Bool
  /-- the plugin received a Configure request carrying `found.cfg` -/
  configured : Bool
  /-- kept after `p.start` (goes on to synchronisation) -/
  kept : Bool
  /-- `p.stop()` (kill + wait) was called on a created process during start-up -/
  stopped : Bool
deriving DecidableEq, Repr

/-- `newLaunchedPlugin` + `p.start` for one discovered plugin (repaired: every path that
    drops a created process stops it) -/
def startOne (f : Found) : Started :=
  match f.exec with
  | .cannot => { found := f, process := false, configured := false, kept := false, stopped := false }
  | .runs .exitsAtOnce => { found := f, process := true, configured := false, kept := false, stopped := true }
  | .runs .neverRegisters => { found := f, process := true, configured := false, kept := false, stopped := true }
  | .runs .configFails => { found := f, process := true, configured := true, kept := false, stopped := true }
  | .runs _ => { found := f, process := true, configured := true, kept := true, stopped := false }

/-- unrepaired: the `<-p.closeC` branch of `start` returns without `p.stop()` -/
def startOneUnfixed (f : Found) : Started :=
  match f.exec with
  | .runs .exitsAtOnce => { found := f, process := true, configured := false, kept := false, stopped := false }
  | _ => startOne f

/-- the synchronisation pass of `startPlugins`: a kept plugin whose Synchronize fails is
    stopped and dropped -/
def syncOk (s : Started) : Bool := s.kept && s.found.exec ≠ .runs .syncFails

/-- `sort.Slice(r.plugins, idx <)` — not a stable sort: any permutation of the active
    plugins that is sorted by index may come out -/
def sortedByIdx : List Found → Bool
  | [] => true
  | [_] => true
  | a :: b :: rest => idxVal a.idx ≤ idxVal b.idx && sortedByIdx (b :: rest)

/-- outcome of `Adaptation.Start` for a plugin directory -/
structure StartUp where
  /-- every discovered plugin in launch order with what happened to it -/
  started : List Started
  /-- the plugins active after synchronisation, in launch order -/
  active : List Found
deriving Repr

def startUpOf (fs : List Found) (one : Found → Started) : StartUp :=
  let ss := fs.map one
  { started := ss, active := (ss.filter syncOk).map (·.found) }

def startUp (d : Dropins) (entries : List Entry) : Except Err StartUp :=
  match discover d entries with
  | .error e => .error e
  | .ok fs => .ok (startUpOf fs startOne)

def startUpUnfixed (d : Dropins) (entries : List Entry) : Except Err StartUp :=
  match discoverUnfixed d entries with
  | .error e => .error e
  | .ok fs => .ok (startUpOf fs startOneUnfixed)

/-- the plugins a request reaches: all active ones (each subscribes to everything here); a
    plugin that died after the first request is not among the active ones of later requests -/
def activeAfterFirst (active : List Found) : List Found :=
  active.filter fun f => f.exec ≠ .runs .diesLater

/-- which created processes have had `p.stop()` called by the time `Adaptation.Stop` returns
    and the reaper goroutines of dropped plugins have run: dropped during start-up
    (`stopped`), failed synchronisation, dropped after dying (removeClosedPlugins) or still
    active at `stopPlugins` — i.e. every created process, provided start-up stopped what it
    dropped -/
def stoppedEventually (s : Started) : Bool :=
  s.process && (s.stopped || s.kept)

/-! ## The events one plugin sees (what the probe records) -/

inductive Ev where
  | start | configure | synchronize | create (n : Nat)
deriving DecidableEq, Repr

/-- the events a plugin observes over: start-up, then `reqs` creation requests -/
def eventsOf (s : Started) (reqs : Nat) : List Ev :=
  if !s.process then []
  else
    [Ev.start] ++ (if s.configured then [Ev.configure] else []) ++
    (if s.kept then [Ev.synchronize] else []) ++
    (if syncOk s then
      (if s.found.exec = .runs .diesLater then (if reqs = 0 then [] else [Ev.create 1])
       else (List.range reqs).map fun i => Ev.create (i + 1))
     else [])

/-! ## After start-up: requests, idle periods, Stop

`r.plugins` with the `closed` flag of each plugin, and the plugins on which `p.stop()` (kill +
wait) has been called. A plugin whose connection closes is only *flagged*; it is removed and
stopped by `removeClosedPlugins`, which runs at the end of every relayed request — not while
the runtime is idle. `stopPlugins` stops whatever is still in the list, flagged or not. -/

inductive Step where
  | request   -- one CreateContainer relayed to the plugins
  | idle      -- the runtime is idle long enough for plugins that close / exit on their own to do so
deriving DecidableEq, Repr

structure RunState where
  /-- `r.plugins`: plugin and its `closed` flag -/
  plugins : List (Found × Bool)
  /-- plugins on which `p.stop()` has been called -/
  stopped : List Found
  /-- (file name, request number) for every request a plugin was handed -/
  log : List (Str × Nat)
  reqNo : Nat
deriving Repr

def initRun (active : List Found) : RunState :=
  { plugins := active.map fun f => (f, false), stopped := [], log := [], reqNo := 0 }

/-- leaves (closes or dies) when the runtime is idle -/
def leavesWhenIdle (f : Found) : Bool :=
  f.exec = .runs .closesWhenIdle || f.exec = .runs .exitsWhenIdle

/-- one relayed request: every plugin not flagged closed is handed it; one that dies after
    its first request gets flagged; then the deferred `removeClosedPlugins` removes and stops
    every flagged plugin -/
def stepRequest (st : RunState) : RunState :=
  let n := st.reqNo + 1
  let handed := (st.plugins.filter fun p => !p.2).map fun p => (p.1.fileName, n)
  let pl := st.plugins.map fun p => (p.1, p.2 || p.1.exec = .runs .diesLater)
  { plugins := pl.filter (fun p => !p.2),
    stopped := st.stopped ++ (pl.filter (fun p => p.2)).map (·.1),
    log := st.log ++ handed, reqNo := n }

/-- an idle period: plugins that close or exit on their own get flagged; nothing else happens -/
def stepIdle (st : RunState) : RunState :=
  { st with plugins := st.plugins.map fun p => (p.1, p.2 || leavesWhenIdle p.1) }

def step (st : RunState) : Step → RunState
  | .request => stepRequest st
  | .idle => stepIdle st

def runPlan (st : RunState) (plan : List Step) : RunState := plan.foldl step st

/-- `stopPlugins`: `p.stop()` on every plugin still in the list — whatever its `closed` flag -/
def stopAll (st : RunState) : RunState :=
  { st with plugins := [], stopped := st.stopped ++ st.plugins.map (·.1) }

/-- the seeded breakage seeded/C18-s1: `if p.isClosed() { continue }` in `stopPlugins` -/
def stopAllSkippingClosed (st : RunState) : RunState :=
  { st with plugins := [], stopped := st.stopped ++ (st.plugins.filter fun p => !p.2).map (·.1) }

end Nri.Launch
