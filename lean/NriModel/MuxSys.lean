/-
Part 4 of the multiplexer model: two mux ends (`MuxSt`, `NriModel/Mux.lean`) joined by a
trunk whose two directions pass through the harness's tap / fault point.  This is the model
of a *scripted, sequential* exchange (harness/c10/script.go): one goroutine issues the
operations; the hidden reader goroutines are the `deliver` / `overflow` / `readerFail`
events, fired by `settle`.  `Sys.apply` takes an operation together with the result the real
code produced and either accepts it (returning the successor state) or explains why no
behaviour of the model produces it — trace acceptance, one observed result at a time.
Every accepted run is, per end, a run of `Mux.step` (the end's trace is kept in `evs`), so
the theorems of `Props/C10.lean` and `Props/C11.lean` apply to it.
Core Lean only.
-/
import NriModel.Mux

namespace Nri.Mux

/-- one iteration of the reader loop -/
def decodeOne : Bytes → Option (Frame × Bytes)
  | a :: b :: c :: d :: e :: f :: g :: h :: rest =>
    let cnt := be32 e f g h
    let p := rest.take cnt
    if p.length = cnt then some (⟨be32 a b c d, p⟩, rest.drop cnt) else none
  | _ => none

/-- one direction of the trunk as seen through the tap -/
structure Wire where
  buf : Bytes := []            -- forwarded, not yet consumed by the receiver's reader
  sent : Bytes := []           -- everything forwarded so far (what the tap recorded)
  limit : Option Nat := none   -- fault point armed: forward this many more bytes
  cut : Bool := false          -- half-closed: the receiver reads EOF after `buf`
  tear : Option Nat := none    -- one-shot: the next trunk Write call sends only this many bytes
                               -- and fails with a transient error; the trunk keeps working
  exactUpTo : Option Nat := none  -- a trunk write failed half way (EPIPE towards a dead peer):
                               -- from this offset on the tap may hold a torn frame nobody reads

/-- `Tap.Write`: forward up to the armed limit, half-close when it is reached, swallow after -/
def Wire.push (w : Wire) (bs : Bytes) : Wire :=
  if w.cut then w else
  match w.limit with
  | none => { w with buf := w.buf ++ bs, sent := w.sent ++ bs }
  | some k =>
    if bs.length < k then { w with buf := w.buf ++ bs, sent := w.sent ++ bs, limit := some (k - bs.length) }
    else { w with buf := w.buf ++ bs.take k, sent := w.sent ++ bs.take k, limit := some 0, cut := true }

def Wire.arm (w : Wire) (k : Nat) : Wire :=
  if w.cut then w else if k = 0 then { w with limit := some 0, cut := true } else { w with limit := some k }

structure PendRead where
  op : Nat
  h : Nat
  blen : Nat
  bcap : Nat

structure End where
  st : MuxSt
  lsts : List Lst := []
  pend : List PendRead := []            -- background Reads now blocked, oldest first
  done : List (Nat × ReadRes) := []     -- background Reads the model completed (op index, result)
  pendAcc : List (Nat × Nat) := []      -- background Accepts now blocked (op index, listener)
  doneAcc : List (Nat × AcceptRes) := []
  evs : List Ev := []                   -- the end's trace, newest first

def End.fire (e : End) (ev : Ev) : Option End :=
  (step e.st ev).map fun st => { e with st := st, evs := ev :: e.evs }

/-- the result a Read that is blocked in `select` gets as soon as one becomes available -/
def readNow (st : MuxSt) (h blen bcap : Nat) : Option ReadRes :=
  match st.objs[h]? with
  | none => none
  | some c =>
    match c.queue with
    | q :: _ => if q.length ≤ bcap then some (.data (q.take blen) q.length) else some .enomem
    | [] => if c.closed then some (.err (st.err.getD .eof)) else none

/-- Background Reads are NOT completed by the hidden events: whether the goroutine was
    already parked in `select` when a frame arrived (direct hand-off) or starts later and finds
    the frame queued — possibly next to a closed `doneC`, where Go's `select` may pick either
    — is not observable.  A pending background Read is resolved when the script joins it (or
    at the end), against the state at that time and with the result the implementation
    reported.  (The generators send at most one frame to a connection with a pending
    background Read before joining it, so queue occupancy does not depend on this.) -/
def End.wake (e : End) : End := e

/-- the hidden reader goroutine of one end runs as far as it can: frames are routed, a full
    queue overflows, the end of the stream (cut, or the peer closed) is an error -/
def settleEnd : Nat → End → Wire → Bool → End × Wire
  | 0, y, w, _ => (y, w)
  | fuel + 1, y, w, peerClosed =>
    if y.st.readerDone then (y, w)
    else if y.st.closed then
      match y.fire (.readerFail .eof) with
      | some y' => (y'.wake, w)
      | none => (y, w)
    else
      match decodeOne w.buf with
      | some (f, rest) =>
        match y.fire (.deliver f) with
        | some y' => settleEnd fuel y'.wake { w with buf := rest } peerClosed
        | none =>
          match y.fire (.overflow f) with
          | some y' => (y'.wake, { w with buf := rest })
          | none => (y, w)
      | none =>
        if w.cut || peerClosed then
          match y.fire (.readerFail (readerEnd w.buf)) with
          | some y' => (y'.wake, w)
          | none => (y, w)
        else (y, w)

structure Sys where
  a : End
  b : End
  ab : Wire := {}
  ba : Wire := {}
  /-- how a Write that fails towards a dead peer is read: `false` = its header call failed before
      the first byte (the mux lives on), `true` = it failed later (header partly out, or in the
      payload call: the mux closes and latches the write error).  Not observable at the Write;
      the driver tries both readings. -/
  epipeCloses : Bool := false

def Sys.init (cfg : Cfg) : Sys := { a := { st := MuxSt.init cfg }, b := { st := MuxSt.init cfg } }

def Sys.settle (s : Sys) : Sys :=
  let pass (s : Sys) : Sys :=
    let (b', ab') := settleEnd (s.ab.buf.length / 8 + 2) s.b s.ab s.a.st.closed
    let (a', ba') := settleEnd (s.ba.buf.length / 8 + 2) s.a s.ba b'.st.closed
    { a := a', b := b', ab := ab', ba := ba' }
  pass (pass s)

/-- only the reader of end `x` runs (the other end has not noticed anything yet) -/
def Sys.settleOne (s : Sys) (x : Nat) : Sys :=
  if x = 0 then
    let (a', ba') := settleEnd (s.ba.buf.length / 8 + 2) s.a s.ba s.b.st.closed
    { s with a := a', ba := ba' }
  else
    let (b', ab') := settleEnd (s.ab.buf.length / 8 + 2) s.b s.ab s.a.st.closed
    { s with b := b', ab := ab' }

def Sys.getEnd (s : Sys) (x : Nat) : End := if x = 0 then s.a else s.b
def Sys.setEnd (s : Sys) (x : Nat) (e : End) : Sys := if x = 0 then { s with a := e } else { s with b := e }
def Sys.outWire (s : Sys) (x : Nat) : Wire := if x = 0 then s.ab else s.ba
def Sys.setOutWire (s : Sys) (x : Nat) (w : Wire) : Sys := if x = 0 then { s with ab := w } else { s with ba := w }

inductive OpKind
  | open | dial | listen | accept | acceptbg | lclose | write | read | readbg | join | closeconn
  | closemux | cut | tear
deriving DecidableEq, Repr

structure Op where
  kind : OpKind
  x : Nat          -- end: 0 = A, 1 = B
  h : Nat := 0     -- conn handle / listener index
  id : Nat := 0
  payload : Bytes := []
  blen : Nat := 0
  bcap : Nat := 0
  k : Nat := 0

/-- the result the real code produced -/
inductive Seen
  | ok (n : Nat)
  | conn (h : Nat)
  | lst (l : Nat)
  | data (p : Bytes) (n : Nat)
  | err (kind : String)
  | eof
  | blocked
  | pending
deriving DecidableEq, Repr

def Err.name : Err → String
  | .eof => "eof" | .hdr => "hdr" | .payload => "payload" | .overflow => "overflow"
  | .wfail => "wfail" | .reset => "reset"

/-- observed error kind vs the model's: equal, or "connection reset" where the model says
    EOF (the peer closed its socket while bytes it had not read were in flight — the kernel
    then reports ECONNRESET instead of EOF; documented tolerance) -/
def errOk (model : Err) (seen : String) : Bool :=
  seen == model.name || (model == .eof && seen == "reset")

def Seen.show : Seen → String
  | .ok n => s!"ok({n})" | .conn h => s!"conn({h})" | .lst l => s!"lst({l})"
  | .data p n => s!"data(len {p.length}, n {n})" | .err k => s!"err({k})" | .eof => "eof"
  | .blocked => "blocked" | .pending => "pending"

def expect (what : String) (model : String) (seen : Seen) (ok : Bool) : Except String Unit :=
  if ok then pure () else throw s!"{what}: model {model}, implementation {seen.show}"

/-- accept an observed Read result on the (settled) end -/
def End.readSeen (e : End) (h blen bcap : Nat) (seen : Seen) : Except String End := do
  match seen with
  | .data p n =>
    match e.fire (.read h blen bcap (.data p n)) with
    | some e' => pure e'
    | none => throw s!"read h={h}: implementation returned data (n={n}, {p.length} bytes copied) which no queued frame explains"
  | .err "enomem" =>
    match e.fire (.read h blen bcap .enomem) with
    | some e' => pure e'
    | none => throw s!"read h={h}: implementation returned ENOMEM, model has no frame longer than cap {bcap} at the head"
  | .err k =>
    let me := e.st.err.getD .eof
    if !errOk me k then throw s!"read h={h}: model error {me.name}, implementation {k}"
    match e.fire (.read h blen bcap (.err me)) with
    | some e' => pure e'
    | none => throw s!"read h={h}: implementation returned error {k} but the connection is open in the model"
  | .blocked =>
    match readNow e.st h blen bcap with
    | none => pure e
    | some _ => throw s!"read h={h}: blocked in the implementation, returns in the model"
  | other => throw s!"read h={h}: unexpected result {other.show}"

def lookupConn (e : End) (h : Nat) : Except String Conn :=
  match e.st.objs[h]? with
  | some c => pure c
  | none => throw s!"no conn object {h} in the model"

/-- wake background Accepts on listener `l` -/
def End.wakeAcc (e : End) : End :=
  let rec go (e : End) (todo still : List (Nat × Nat)) : End :=
    match todo with
    | [] => { e with pendAcc := still.reverse }
    | (op, l) :: rest =>
      match e.lsts[l]? with
      | none => go e rest ((op, l) :: still)
      | some lst =>
        match lst.accept with
        | none => go e rest ((op, l) :: still)
        | some (r, lst') =>
          go { e with lsts := e.lsts.set l lst', doneAcc := e.doneAcc ++ [(op, r)] } rest still
  go e e.pendAcc []

/-- accept one observed operation result.  `late` is the eventual result of a background
    operation (needed when the model says it completes at once). -/
def Sys.apply (s : Sys) (idx : Nat) (op : Op) (seen : Seen) (_late : Option Seen) :
    Except String Sys := do
  let x := op.x
  match op.kind with
  | .cut =>
    expect "cut" "ok" seen (seen == .ok 0)
    pure (s.setOutWire x ((s.outWire x).arm op.k))
  | .tear =>
    expect "tear" "ok" seen (seen == .ok 0)
    pure (s.setOutWire x { s.outWire x with tear := some op.k })
  | .write =>
    -- a Write does not wait for the hidden readers: try the state as it is, then settled
    let attempt (s : Sys) : Except String Sys := do
      let e := s.getEnd x
      let peer := s.getEnd (1 - x)
      -- a torn header: the first trunk Write of this conn.Write (its first header) sends only
      -- `k` bytes and fails.  k = 0: nothing went out, the Write fails, the mux lives on
      -- (mux.go: `if n != 0 { setError; Close }`); k ≥ 1: the error is recorded, the mux
      -- closes, the peer is left with `k` stray bytes and then the end of the stream.
      match (s.outWire x).tear, e.st.objs[op.h]? with
      | some k, some c =>
        if !c.closed && !e.st.closed && !(s.outWire x).cut then
          let w := { s.outWire x with tear := none }
          if seen != .err "wfail" then
            throw s!"write h={op.h}: the header write was torn after {k} bytes, implementation {seen.show}"
          let first := ((chunks e.st.cfg.mp op.payload).getD [[]]).headD []
          if k ≥ 8 then
            -- the header of the first frame went out whole, its PAYLOAD write was torn after
            -- k-8 bytes (k-8 < its length; the generators only arm such a tear).  Repaired code
            -- (NriModel/MuxWriter.lean, `fixed`): the mux closes whatever k-8 is — the orphan
            -- header must stay the last thing on the trunk.
            if k - 8 < first.length then
              match e.fire (.write op.h op.payload (.errTrunk true)) with
              | some e' => return (s.setEnd x e').setOutWire x (w.push ((encodeFrame ⟨c.id, first⟩).take k))
              | none => throw "write: errTrunk not enabled"
            else throw s!"write h={op.h}: a payload tear after {k - 8} bytes of a {first.length}-byte payload is not a tear"
          else if k = 0 then
            match e.fire (.write op.h op.payload (.errTrunk false)) with
            | some e' => return (s.setEnd x e').setOutWire x w
            | none => throw "write: errTrunk not enabled"
          else
            match e.fire (.write op.h op.payload (.errTrunk true)) with
            | some e' =>
              let hdr := (encodeFrame ⟨c.id, ((chunks e.st.cfg.mp op.payload).getD [[]]).headD []⟩).take k
              return (s.setEnd x e').setOutWire x (w.push hdr)
            | none => throw "write: errTrunk not enabled"
      | _, _ => pure ()
      match seen with
      | .ok n =>
        if n != op.payload.length then throw s!"write h={op.h}: returned n={n} for {op.payload.length} bytes"
        match e.fire (.write op.h op.payload .ok) with
        | none =>
          -- `mux.Close` closes the connections one by one and the trunk last: a Write on a
          -- connection it has not reached yet still goes out (or is swallowed by the tap)
          match e.st.objs[op.h]? with
          | some c =>
            if e.st.closed && c.closed && AList.lookup e.st.cmap c.id == some op.h then
              let w := s.outWire x
              return s.setOutWire x (if w.exactUpTo.isNone then { w with exactUpTo := some w.sent.length } else w)
          | none => pure ()
          throw s!"write h={op.h}: succeeded in the implementation, connection closed in the model"
        | some e' =>
          let c ← lookupConn e op.h
          match encodeWrite e.st.cfg.mp c.id op.payload with
          | none => throw "write: the write loop faults in the model"
          | some bs => pure ((s.setEnd x e').setOutWire x ((s.outWire x).push bs))
      | .err "eof" =>
        match e.fire (.write op.h op.payload .errEof) with
        | some e' => pure (s.setEnd x e')
        | none => throw s!"write h={op.h}: EOF in the implementation, connection open in the model"
      | .err "wfail" =>
        -- an empty payload is a complete frame as soon as its header is out: the peer's reader
        -- may route it, overflow and close before the (empty) payload write, which then fails
        let viaOwnFrame : Option Sys :=
          if op.payload.isEmpty && !peer.st.closed && !e.st.closed then
            match e.st.objs[op.h]? with
            | some c =>
              let s1 := (s.setOutWire x ((s.outWire x).push (encodeFrame ⟨c.id, []⟩))).settleOne (1 - x)
              if (s1.getEnd (1 - x)).st.closed then some s1 else none
            | none => none
          else none
        if let some s1 := viaOwnFrame then
          let e1 := s1.getEnd x
          match e1.fire (.write op.h op.payload (.errTrunk false)) with
          | some e' =>
            let w := s1.outWire x
            return (s1.setEnd x e').setOutWire x (if w.exactUpTo.isNone then { w with exactUpTo := some (w.sent.length - 8) } else w)
          | none => throw s!"write h={op.h}: trunk write error in the implementation, connection closed in the model"
        if !(peer.st.closed || e.st.closed) then
          throw s!"write h={op.h}: trunk write failed in the implementation, both muxes open in the model"
        -- `mux.Close` closes the connections one after the other and the trunk last: a Write on
        -- a connection it has not reached yet passes the `doneC` check and fails on the trunk
        match e.st.objs[op.h]? with
        | some c =>
          if e.st.closed && c.closed then
            let w := s.outWire x
            return s.setOutWire x (if w.exactUpTo.isNone then { w with exactUpTo := some w.sent.length } else w)
        | none => pure ()
        match e.fire (.write op.h op.payload (.errTrunk s.epipeCloses)) with
        | some e' =>
          let w := s.outWire x
          let w' := if w.exactUpTo.isNone then { w with exactUpTo := some w.sent.length } else w
          pure ((s.setEnd x e').setOutWire x w')
        | none => throw s!"write h={op.h}: trunk write error in the implementation, connection closed in the model"
      | other => throw s!"write h={op.h}: unexpected result {other.show}"
    match attempt s with
    | .ok s' => pure s'
    | .error _ =>
      match attempt (s.settleOne (1 - x)) with
      | .ok s' => pure s'
      | .error _ => attempt s.settle
  | _ =>
   -- an operation at end `x` waits at most for the hidden reader of `x`; what the other end
   -- has not yet noticed stays pending unless the observed result needs it.  A call that
   -- was seen blocked for the whole deadline is judged on the fully settled state.
   let body (s : Sys) : Except String Sys := do
    let e := s.getEnd x
    match op.kind with
    | .open | .dial | .listen =>
      if op.id = 0 then
        expect "open(0)" "error reserved" seen (seen == .err "reserved")
        match e.fire .openReserved with
        | some e' => pure (s.setEnd x e')
        | none => throw "openReserved not enabled"
      else
        let (ev, h) := match AList.lookup e.st.cmap op.id with
          | some h => (Ev.openOld op.id h, h)
          | none => (Ev.openNew op.id e.st.objs.length, e.st.objs.length)
        match e.fire ev with
        | none => throw s!"open({op.id}) not enabled in the model"
        | some e' =>
          if op.kind == .listen then
            expect "listen" s!"lst({e'.lsts.length})" seen (seen == .lst e'.lsts.length)
            pure (s.setEnd x { e' with lsts := e'.lsts ++ [{ conn := h }] })
          else
            expect "open" s!"conn({h})" seen (seen == .conn h)
            pure (s.setEnd x e')
    | .accept =>
      match e.lsts[op.h]? with
      | none => throw s!"no listener {op.h}"
      | some l =>
        match l.accept with
        | some (.conn h, l') =>
          expect "accept" s!"conn({h})" seen (seen == .conn h)
          pure (s.setEnd x { e with lsts := e.lsts.set op.h l' })
        | some (.eof, l') =>
          expect "accept" "eof" seen (seen == .eof)
          pure (s.setEnd x { e with lsts := e.lsts.set op.h l' })
        | none =>
          expect "accept" "blocked" seen (seen == .blocked)
          pure s
    | .acceptbg =>
      expect "acceptbg" "pending" seen (seen == .pending)
      pure (s.setEnd x { e with pendAcc := e.pendAcc ++ [(idx, op.h)] }.wakeAcc)
    | .lclose =>
      expect "listener close" "ok" seen (seen == .ok 0)
      match e.lsts[op.h]? with
      | none => throw s!"no listener {op.h}"
      | some l =>
        let (closes, l') := l.close
        let e1 := { e with lsts := e.lsts.set op.h l' }
        let e2 ← if closes then
            match e1.fire (.closeConn l.conn) with
            | some e2 => pure e2
            | none => throw "closeConn not enabled"
          else pure e1
        pure (s.setEnd x e2.wakeAcc.wake)
    | .read =>
      let e' ← e.readSeen op.h op.blen op.bcap seen
      pure (s.setEnd x e')
    | .readbg =>
      expect "readbg" "pending" seen (seen == .pending)
      let _ ← lookupConn e op.h
      pure (s.setEnd x { e with pend := e.pend ++ [{ op := idx, h := op.h, blen := op.blen, bcap := op.bcap }] })
    | .join =>
      -- the background Read issued as op `k` is resolved now, with the observed result
      match e.pend.find? (·.op == op.k) with
      | none => throw s!"join {op.k}: no such background Read pending in the model"
      | some p =>
        let e' ← e.readSeen p.h p.blen p.bcap seen
        if seen == .blocked then pure (s.setEnd x e')
        else pure (s.setEnd x { e' with pend := e'.pend.filter (·.op != op.k) })
    | .closeconn =>
      expect "conn close" "ok" seen (seen == .ok 0)
      match e.fire (.closeConn op.h) with
      | some e' => pure (s.setEnd x e'.wake)
      | none => throw s!"no conn object {op.h} in the model"
    | .closemux =>
      expect "mux close" "ok" seen (seen == .ok 0)
      match e.fire .closeMux with
      | some e' => pure (s.setEnd x e'.wake)
      | none => throw "closeMux not enabled"
    | .cut | .write | .tear => throw "unreachable"
   if seen == .blocked then body s.settle
   else
    match body (s.settleOne x) with
    | .ok s' => pure s'
    | .error _ => body s.settle

end Nri.Mux
