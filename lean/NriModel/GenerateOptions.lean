/-
Model of the two callbacks a runtime can hand to `generate.SpecGenerator`
(`pkg/runtime-tools/generate/generate.go`):

  * `WithAnnotationFilter(fn)` — `AdjustAnnotations` first replaces the adjustment's annotation
    map (removal markers included) by `fn(map)`; an error of `fn` is returned as it is, before
    anything of the spec has been touched.  Without the option the filter is `nopFilter`
    (identity), installed by `SpecGenerator` itself.
  * `WithResourceChecker(fn)` — `AdjustResources`, and only when the adjustment carries a
    `Linux.Resources` section, ends with `fn(g.Config.Linux.Resources)`; `fn` sees the resources
    AFTER the CPU / memory / hugepage / unified / pids setters of this adjustment, may edit them in
    place ("perform final resource adjustment"), and its error aborts `Adjust` (block-I/O class,
    RDT class, mounts and rlimits are then not applied).

`WithLabelFilter` stores a callback that no function of the package ever calls; it has no
behaviour to model.

`adjustWith` is `Generator.Adjust` of a generator built with these options; `Generate.adjust`
(the model all other C13 theorems are about) is the instance without options
(`Lemmas/GenerateOptions.lean: adjustWith_default`).  The callbacks themselves are parameters:
their behaviour is the runtime's, not NRI's.
Core Lean only.
-/
import NriModel.Generate

namespace Nri.Generate
open Nri.Api
open Nri.Oci (Spec)

/-- Why `Adjust` of a generator with callbacks returned an error. -/
inductive OptError
  | annotationFilter          -- the `WithAnnotationFilter` callback failed
  | resourceCheck             -- the `WithResourceChecker` callback failed
  | gen (e : GenError)        -- any of the errors `Generate.adjust` knows
  deriving DecidableEq, Repr, Inhabited

/-- The callbacks; `none` = option not given. -/
structure Options where
  /-- `WithAnnotationFilter`: the adjustment's annotation entries ↦ the entries to apply. -/
  filterAnnotations : Option (AList Str Str → Except Unit (AList Str Str)) := none
  /-- `WithResourceChecker`: handed the spec (it can reach `Linux.Resources` only), returns it
      possibly edited. -/
  checkResources : Option (Spec → Except Unit Spec) := none

def liftGen {α : Type} : Except GenError α → Except OptError α
  | .ok x => .ok x
  | .error e => .error (.gen e)

/-- `g.filterAnnotations(annotations)` at the head of `AdjustAnnotations`. -/
def filterStage (o : Options) (ann : AList Str Str) : Except OptError (AList Str Str) :=
  match o.filterAnnotations with
  | none => .ok ann
  | some f =>
    match f ann with
    | .ok ann' => .ok ann'
    | .error _ => .error .annotationFilter

/-- `Adjust` from `AdjustAnnotations` up to and including the setters of `AdjustResources`. -/
def adjustPre (ext : Externals) (s : Spec) (a : Adjustment) : Except GenError Spec := do
  let s := adjustAnnotations s a.annotations
  let s := adjustEnv s a.env
  let s := adjustArgs s a.args
  let s := adjustHooks s a.hooks
  let s ← injectCDI ext s a.cdiDevices
  let s := adjustDevices s a.linuxDevices
  let s := adjustCgroupsPath s a.cgroupsPath
  let s := adjustOomScoreAdj s a.oomScoreAdj
  pure (adjustResources s a.resources)

/-- The tail of `AdjustResources`: the checker runs iff the adjustment has a resources section
    (`if r == nil { return nil }` at the top of the Go function) and a checker was given. -/
def checkStage (o : Options) (a : Adjustment) (s : Spec) : Except OptError Spec :=
  match a.resources, o.checkResources with
  | some _, some chk =>
    (match chk s with
     | .ok s' => .ok s'
     | .error _ => .error .resourceCheck)
  | _, _ => .ok s

/-- `Adjust` after `AdjustResources`: block-I/O class, RDT class, mounts, rlimits. -/
def adjustPost (ext : Externals) (s : Spec) (a : Adjustment) : Except GenError Spec := do
  let s ← adjustBlockIOClass ext s a.blockioClass
  let s ← adjustRdtClass ext s a.rdtClass
  let s ← adjustMounts ext s a.mounts
  pure (adjustRlimits s a.rlimits)

/-- `Generator.Adjust` of a generator built with `o`. -/
def adjustWith (o : Options) (ext : Externals) (s : Spec) (a : Adjustment) : Except OptError Spec := do
  let ann ← filterStage o a.annotations
  let a' := { a with annotations := ann }
  let s ← liftGen (adjustPre ext s a')
  let s ← checkStage o a' s
  liftGen (adjustPost ext s a')

/-- What the checker is handed (for the correspondence: the harness records the resources its
    callback saw): the spec after `adjustPre`, or nothing when it is not called. -/
def checkerSees (o : Options) (ext : Externals) (s : Spec) (a : Adjustment) : Option Spec :=
  match filterStage o a.annotations with
  | .error _ => none
  | .ok ann =>
    let a' := { a with annotations := ann }
    match adjustPre ext s a', a'.resources, o.checkResources with
    | .ok s1, some _, some _ => some s1
    | _, _, _ => none

/-- The part of a spec a resource checker can reach (`Config.Linux.Resources`): blanking it. -/
def blankResources (s : Spec) : Spec :=
  { s with cpu := {}, memory := {}, hugepages := [], unified := [], pids := none, blockio := none,
           devRules := [] }

/-- A checker that edits nothing outside `Linux.Resources` (all it is handed in the Go code). -/
def ResourceOnly (chk : Spec → Except Unit Spec) : Prop :=
  ∀ s s', chk s = .ok s' → blankResources s' = blankResources s

end Nri.Generate
