/-
The NRI-level reading of a container adjustment, written without reference to the
collector's state: remove what is marked, set what is given. This is the specification side
of C04 ("the container presented to a plugin is the original with the adjustments of all
earlier plugins applied"). Core Lean only.
-/
import NriModel.Ledger

namespace Nri.Overlay
open Nri.NApi Nri.Result

/-- NRI-level reading of one plugin's adjustment on the container it was shown: the spec of
    "the container … with the adjustments of all earlier plugins applied" (C04), written
    without reference to the collector's state. -/
def overlayContainer (c : Container) (a : Adjustment) : Container :=
  let rmA := Ledger.markedKeys (a.annotations.map (·.1))
  let setA := a.annotations.filter fun (k, _) => !(isMarked k).2
  let ann := setA.foldl (fun m (k, v) => AList.insert m k v) (rmA.foldl (fun m k => AList.erase m k) c.annotations)
  -- keys a list-family adjustment removes / sets (unmarked form)
  let rmM := delKeys (a.mounts.map (·.destination))
  let setM := a.mounts.filter fun m => !(isMarked m.destination).2
  let rmE := delKeys (a.env.map (·.key))
  let setE := a.env.filter fun e => !(isMarked e.key).2
  let rmD := delKeys (a.devices.map (·.path))
  let setD := a.devices.filter fun d => !(isMarked d.path).2
  let res := match a.resources with
    | some r => if a.hasLinux then overlayRes c.resources r r.pids else c.resources
    | none => c.resources
  { c with
    annotations := ann,
    -- an entry whose key is removed or set again goes; the set entries are appended in order
    mounts := (c.mounts.filter fun m => !rmM.contains m.destination && !(setM.map (·.destination)).contains m.destination) ++ setM,
    env := (c.env.filter fun s => !rmE.contains (envKey s) && !(setE.map (·.key)).contains (envKey s)) ++ setE.map KeyValue.toOCI,
    args := (match a.args with | [] => c.args | x :: rest => if x = [] then rest else x :: rest),
    hooks := (match a.hooks with | some h => c.hooks.append h | none => c.hooks),
    devices := if a.hasLinux then (c.devices.filter fun d => !rmD.contains d.path && !(setD.map (·.path)).contains d.path) ++ setD else c.devices,
    resources := res,
    cgroupsPath := if a.hasLinux && a.cgroupsPath ≠ [] then a.cgroupsPath else c.cgroupsPath,
    oomScoreAdj := if a.hasLinux then a.oomScoreAdj.orElse (fun _ => c.oomScoreAdj) else c.oomScoreAdj,
    rlimits := c.rlimits ++ a.rlimits }

/-- the original with the adjustments of the first plugins applied in order -/
def overlayAll (c : Container) (as : List (Option Adjustment)) : Container :=
  as.foldl (fun c a => match a with | some a => overlayContainer c a | none => c) c

end Nri.Overlay
