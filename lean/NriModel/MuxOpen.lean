/-
`mux.Open` at the granularity of its lock (`pkg/net/multiplex/mux.go`).

`Mux.lean` treats `Open` as one atomic event (`openNew` / `openOld`), which is what the code does:
table lookup, creation, registration and the "is the mux closed already?" check all happen under
ONE acquisition of `connLock`, the lock `Close` holds while it closes the registered connections.
Two properties rest on exactly that atomicity, and two seeded breakages (C10-r6a, C11-r6b) showed
what happens without it; this file states both sides.

  * `OSt`, `openAtomic`, `closeMux`, `orun` — the code as it is.
  * `openCheck` / `openInsert` — an `Open` split into a read step (what the thread saw of the table
    and of the closed flag) and a later write step that trusts the stale read: what a "look up
    under the read lock, create under the write lock" or "check `doneC` before taking the lock"
    refactoring amounts to.
Core Lean only.
-/
import NriModel.Basic

namespace Nri.MuxOpen

/-- The part of a mux end `Open` and `Close` touch. Handles are `0 … nobjs-1` in creation order. -/
structure OSt where
  table : List (Nat × Nat) := []   -- id ↦ handle currently registered (`m.conns`)
  nobjs : Nat := 0
  closedObjs : List Nat := []      -- handles whose connection object is closed
  muxClosed : Bool := false
  deriving Repr, DecidableEq

def lookup (t : List (Nat × Nat)) (id : Nat) : Option Nat :=
  (t.find? (·.1 == id)).map (·.2)

/-- `Open(id)` as the code does it, under one lock: the registered connection if there is one,
    otherwise a new one — closed on the spot when the mux has closed already. -/
def openAtomic (s : OSt) (id : Nat) : OSt × Nat :=
  match lookup s.table id with
  | some h => (s, h)
  | none =>
    let h := s.nobjs
    ({ s with table := (id, h) :: s.table, nobjs := h + 1,
              closedObjs := if s.muxClosed then h :: s.closedObjs else s.closedObjs }, h)

/-- `Close()`: every registered connection is closed, then the mux is marked closed (same lock). -/
def closeMux (s : OSt) : OSt :=
  { s with muxClosed := true, closedObjs := s.table.map (·.2) ++ s.closedObjs }

inductive Ev
  | open (id : Nat)
  | close
  deriving Repr, DecidableEq

def ostep (s : OSt) : Ev → OSt
  | .open id => (openAtomic s id).1
  | .close => closeMux s

def orun (evs : List Ev) (s : OSt := {}) : OSt := evs.foldl ostep s

/-- Invariant of the atomic code: handles in the table are handles that exist, ids are registered
    at most once, and on a closed mux every registered connection is closed. -/
structure OInv (s : OSt) : Prop where
  bound : ∀ p ∈ s.table, p.2 < s.nobjs
  nodup : (s.table.map (·.1)).Nodup
  closed : s.muxClosed = true → ∀ p ∈ s.table, p.2 ∈ s.closedObjs

/-! ### the split `Open` (NOT the code: what the breakages turned it into) -/

/-- what a thread saw in its read step -/
structure Seen where
  id : Nat
  found : Option Nat
  sawClosed : Bool
  deriving Repr, DecidableEq

def openCheck (s : OSt) (id : Nat) : Seen := { id := id, found := lookup s.table id, sawClosed := s.muxClosed }

/-- the write step, acting on what was SEEN (no re-check): registers a new object when the read
    step found none, closes it only if the read step saw the mux closed -/
def openInsert (s : OSt) (v : Seen) : OSt × Nat :=
  match v.found with
  | some h => (s, h)
  | none =>
    let h := s.nobjs
    ({ s with table := (v.id, h) :: s.table.filter (·.1 != v.id), nobjs := h + 1,
              closedObjs := if v.sawClosed then h :: s.closedObjs else s.closedObjs }, h)

end Nri.MuxOpen
