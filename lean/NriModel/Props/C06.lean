import NriModel.Basic
/-! Property theorems for C06 — placeholder until the model is written. -/
namespace Nri.Props.C06
end Nri.Props.C06
