import NriModel.Lemmas.DispatchMask
import NriModel.Lemmas.DispatchHistory
import NriModel.Lemmas.DispatchFine
/-!
Property C06 — subscribed plugins get each event once, in index order, in one common order.

Model: `NriModel/Dispatch.lean` (plugin list, `sortPlugins`, subscription test, request loop,
interleaving semantics of the adaptation mutex). Only the property theorems and, after each,
an `example` showing its hypotheses can be met; lemmas are in `NriModel/Lemmas/Dispatch*.lean`.
-/
namespace Nri.Props.C06
open Nri Nri.Events Nri.Dispatch

variable {ρ σ ο ε : Type}

/-- For indices that pass `CheckPluginIndex` (exactly two digits) the string comparison
    `sortPlugins` uses IS the comparison of the numbers they denote; different strings denote
    different numbers; all lie in 0…99. -/
theorem idx_order (a b : Str) (ha : twoDigits a = true) (hb : twoDigits b = true) :
    (strLt a b = true ↔ idxNat a < idxNat b) ∧ (idxNat a = idxNat b → a = b) ∧ idxNat a < 100 :=
  ⟨strLt_iff_idxNat_lt a b ha hb, idxNat_inj a b ha hb, idxNat_lt_100 a ha⟩

example : twoDigits (str "07") = true ∧ twoDigits (str "10") = true ∧ strLt (str "07") (str "10") = true ∧
    idxNat (str "07") = 7 ∧ twoDigits (str "7") = false ∧ twoDigits (str "1a") = false := by decide

/-- `IsSet` on the effective mask, for ALL 2³² masks and the thirteen events: a plugin is
    subscribed to event `e` iff it answered Configure with 0 ("everything") or with bit `e-1`
    set. -/
theorem C06_mask (m : BitVec 32) (e : Nat) (h1 : 1 ≤ e) (h13 : e ≤ 13) :
    isSet (effective m) e = true ↔ (m = 0#32 ∨ m.getLsbD (e - 1) = true) := by
  have hlt : e - 1 < 32 := by omega
  rw [isSet_eq_getLsbD (effective m) e hlt]
  by_cases hm : m = 0#32
  · subst hm
    simp only [effective, if_true, true_or, iff_true]
    exact valid_getLsbD (e - 1) (by omega)
  · simp [effective, hm]

example : isSet (effective 0#32) 13 = true ∧ isSet (effective 0x8#32) 4 = true ∧
    isSet (effective 0x8#32) 5 = false := by decide

/-- Every plugin list reachable in the interleaving model — by activations in ANY arrangement
    `sort.Slice` may choose, disconnects, and requests by any callers in any order — is sorted
    by index. -/
theorem sorted_invariant (Mof : Nat → EventNo → Merger ρ σ ο ε) (T : Nat) (h : List (Ev ρ))
    (s : LState ρ ο ε) (hr : run? Mof T LState.init h = some s) : Sorted s.plugins :=
  (WF.run Mof T h _ _ (WF.init Mof T) hr).sorted

/-- `activate` (the arrangement the driver starts from) is one of the admitted arrangements. -/
theorem activate_admitted (ps : List Plugin) (p : Plugin) (h : Sorted ps) : IsActivation ps p (activate ps p) :=
  activate_isActivation ps p h

section examples
def pA : Plugin := ⟨0, str "10", str "a", 0x1fff#32, false⟩
def pB : Plugin := ⟨1, str "05", str "b", 0x8#32, false⟩
def pC : Plugin := ⟨2, str "10", str "c", 0x1fff#32, false⟩
def okCall : Call Nat := ⟨.ok 1, true, 1⟩
def unitM : Merger Nat Nat Nat Unit := ⟨0, fun a _ r => .ok (a + r), id⟩

/-- two plugins with the same index may stand either way round -/
example : isActivation [pB, pA] pC [pB, pA, pC] = true ∧ isActivation [pB, pA] pC [pB, pC, pA] = true ∧
    isActivation [pB, pA] pC [pA, pB, pC] = false := by decide
example : ∃ s : LState Nat Nat Unit,
    run? (fun _ _ => unitM) 5 LState.init
      [.activate pA [pA], .activate pB [pB, pA], .inv 7 1 4, .run 7 [okCall, okCall], .ret 7] = some s := ⟨_, rfl⟩
end examples

/-- **Exactly once, in index order, subscribed only.** For one request on plugin list `pcs`
    (each plugin paired with what its call yields):
    * the plugins called are a PREFIX of the subscribed plugins in list order — so nobody
      unsubscribed is called and no list position is used twice;
    * if the request is not aborted, it is ALL of them;
    * if it is aborted, the last plugin called is the one whose answer aborted it, and unless
      result collection refused a response the calls are the subscribed plugins up to and
      including the first that answered with its own error;
    * on an index-sorted list the calls are in index order, and with distinct plugin identities
      no plugin is called twice;
    * absent faults (every plugin open, every request reaching its handler) the handlers that
      ran are exactly the calls made. -/
theorem C06_exactly_once (M : Merger ρ σ ο ε) (T : Nat) (ev : EventNo) (pcs : List (Plugin × Call ρ)) :
    let out := request M T ev pcs
    out.2.1.attempted <+: subscribers ev pcs ∧
    ((∃ o, out.1 = .ok o) → out.2.1.attempted = subscribers ev pcs) ∧
    (∀ e, out.1 = .error e → out.2.1.attempted.getLast? = some e.culprit) ∧
    ((∀ p e, out.1 ≠ .error (.merge p e)) → out.2.1.attempted = upToVeto T ev pcs) ∧
    (Sorted (pcs.map (·.1)) → Sorted out.2.1.attempted) ∧
    ((pcs.map (·.1.id)).Nodup → (out.2.1.attempted.map (·.id)).Nodup) ∧
    ((∀ pc ∈ pcs, handlerRan pc.1 pc.2 = true) → out.2.1.handled = out.2.1.attempted) := by
  have hpre := relay_attempted_prefix M T ev M.init pcs
  have hsub : (relayLoop M T ev M.init pcs).2.attempted.Sublist (pcs.map (·.1)) :=
    hpre.sublist.trans List.filter_sublist
  refine ⟨hpre, ?_, ?_, ?_, ?_, ?_, ?_⟩
  · rintro ⟨o, ho⟩
    simp only [request] at ho
    cases hr : (relayLoop M T ev M.init pcs).1 with
    | error e => rw [hr] at ho; cases ho
    | ok a => exact relay_ok_attempted M T ev M.init pcs a hr
  · intro e he
    simp only [request] at he
    cases hr : (relayLoop M T ev M.init pcs).1 with
    | ok a => rw [hr] at he; cases he
    | error e' =>
      rw [hr] at he
      simp only [Except.map, Except.error.injEq] at he
      subst he
      exact relay_error_last M T ev M.init pcs e' hr
  · intro hne
    apply relay_attempted_upToVeto
    intro p e hr
    apply hne p e
    simp [request, hr, Except.map]
  · intro hs
    exact hs.sublist hsub
  · intro hn
    have : (pcs.map (·.1.id)) = (pcs.map (·.1)).map (·.id) := by simp [List.map_map, Function.comp_def]
    rw [this] at hn
    exact (hsub.map _).nodup hn
  · intro hr
    exact relay_handled_eq M T ev M.init pcs hr

example :
    (request unitM 5 4 [(pB, okCall), (pA, okCall), (pC, ⟨.handlerErr [], true, 1⟩)]).2.1.attempted = [pB, pA, pC] ∧
    (request unitM 5 5 [(pB, okCall), (pA, okCall), (pC, okCall)]).2.1.attempted = [pA, pC] ∧
    (request unitM 5 4 [(pB, ⟨.handlerErr [], true, 1⟩), (pA, okCall), (pC, okCall)]).2.1.attempted = [pB] := by
  decide

/-- **One common order.** In every history the lock model accepts there is ONE sequence `σ` of
    relays — each of them `request` run on the caller's own request, on an index-sorted list —
    such that what EVERY plugin itself records (`handlerLog`: the requests its handler is invoked
    with, as the history unfolds) is `σ` filtered by "this plugin's handler ran". -/
theorem C06_common_order (Mof : Nat → EventNo → Merger ρ σ ο ε) (T : Nat) (h : List (Ev ρ))
    (s : LState ρ ο ε) (hr : run? Mof T LState.init h = some s) :
    ∃ σ' : List (Done ρ ο ε),
      (∀ d ∈ σ', LogOk Mof T d) ∧
      ∀ id, handlerLog Mof T id LState.init h = (σ'.filter (ranAt id)).map (·.rid) := by
  obtain ⟨new, hlog, hproj⟩ := handlerLog_projection Mof T h _ _ hr
  have hw := WF.run Mof T h _ _ (WF.init Mof T) hr
  refine ⟨new.reverse, ?_, hproj⟩
  intro d hd
  apply hw.log d
  rw [hlog]
  simp only [LState.init, List.append_nil]
  exact List.mem_reverse.1 hd

example : handlerLog (fun _ _ => unitM) 5 0 (LState.init : LState Nat Nat Unit)
      [.activate pA [pA], .activate pB [pB, pA], .inv 7 1 4, .inv 8 2 5, .run 8 [okCall, okCall],
       .run 7 [okCall, okCall], .ret 7, .ret 8] = [2, 1] ∧
    handlerLog (fun _ _ => unitM) 5 1 (LState.init : LState Nat Nat Unit)
      [.activate pA [pA], .activate pB [pB, pA], .inv 7 1 4, .inv 8 2 5, .run 8 [okCall, okCall],
       .run 7 [okCall, okCall], .ret 7, .ret 8] = [1] := by decide

/-- **… consistent with what callers can observe.** Cut any accepted history in two. A relay made
    before the cut (in particular: of any request that had already RETURNED to its caller, see
    `returned_has_relay`) stands in the common order before every relay made after the cut (in
    particular: of any request invoked after it). So the common order never contradicts the
    order in which callers saw their requests complete and start. -/
theorem C06_real_time_order (Mof : Nat → EventNo → Merger ρ σ ο ε) (T : Nat) (h1 h2 : List (Ev ρ))
    (s : LState ρ ο ε) (hr : run? Mof T LState.init (h1 ++ h2) = some s) :
    ∃ s1, run? Mof T LState.init h1 = some s1 ∧
      (∀ x ∈ s1.rets, ∃ d ∈ s1.log, d.tid = x.1 ∧ d.rid = x.2.1) ∧
      ∀ d ∈ s1.log, ∀ d' ∈ s.log, d' ∉ s1.log → [d, d'].Sublist (order s) := by
  rw [run_append] at hr
  cases h : run? Mof T LState.init h1 with
  | none => rw [h] at hr; simp at hr
  | some s1 =>
    rw [h] at hr
    simp only [Option.bind_some] at hr
    have hw := WF.run Mof T h1 _ _ (WF.init Mof T) h
    refine ⟨s1, rfl, ?_, ?_⟩
    · intro x hx
      obtain ⟨d, hd, h1', h2', _⟩ := hw.rets x hx
      exact ⟨d, hd, h1', h2'⟩
    · intro d hd d' hd' hnew
      exact order_respects_cut Mof T h2 s1 s hr d d' hd hd' hnew

example : ∃ s : LState Nat Nat Unit,
    run? (fun _ _ => unitM) 5 LState.init
      ([.activate pA [pA], .inv 7 1 4, .run 7 [okCall], .ret 7] ++ [.inv 8 2 4, .run 8 [okCall], .ret 8]) = some s ∧
    (order s).map (·.rid) = [1, 2] := ⟨_, rfl, by decide⟩

/-- **Own result.** Whatever a caller is handed back was computed by `request` from ITS request
    (`rid`, `ev` select the collector), the plugin list at the moment it held the mutex, and the
    calls made for it — nothing of any other caller's request enters. -/
theorem C06_own_result (Mof : Nat → EventNo → Merger ρ σ ο ε) (T : Nat) (h : List (Ev ρ))
    (s : LState ρ ο ε) (hr : run? Mof T LState.init h = some s) :
    ∀ x ∈ s.rets, ∃ d ∈ s.log, d.tid = x.1 ∧ d.rid = x.2.1 ∧
      x.2.2 = (request (Mof d.rid d.ev) T d.ev (d.before.zip d.calls)).1 := by
  have hw := WF.run Mof T h _ _ (WF.init Mof T) hr
  intro x hx
  obtain ⟨d, hd, h1, h2, h3⟩ := hw.rets x hx
  exact ⟨d, hd, h1, h2, h3 ▸ (hw.log d hd).2.2.1⟩

example : ∃ s : LState Nat Nat Unit,
    run? (fun rid _ => ⟨rid, fun a _ r => .ok (a + r), id⟩) 5 LState.init
      [.activate pA [pA], .inv 7 100 4, .inv 8 200 4, .run 8 [okCall], .run 7 [okCall], .ret 7, .ret 8] = some s ∧
    s.rets.map (fun x => (x.1, x.2.1)) = [(8, 200), (7, 100)] := ⟨_, rfl, by decide⟩

/-! ### what the mutex buys (fine-grained view: single plugin calls, explicit lock) -/

/-- With `Lock()`/`Unlock()` around the loop, in every reachable state at most ONE caller is
    inside its loop, and it is the holder of the mutex: no plugin call of another request can
    fall between two calls of a request — a relay is atomic, which is what the interleaving model
    (`step?`, event `run`) takes as its step. -/
theorem mutex_excludes (ps : List Plugin) (h : List FEv) (s : FState)
    (hr : frun? true (FState.start ps) h = some s) :
    s.walkers.length ≤ 1 ∧ (∀ w ∈ s.walkers, s.lock = some w.tid) ∧ (s.lock = none → s.walkers = []) := by
  obtain ⟨h1, h2, h3⟩ := frun_excl h _ _ (start_excl ps) hr
  refine ⟨h3, ?_, h1⟩
  intro w hw
  cases hl : s.lock with
  | none => rw [h1 hl] at hw; cases hw
  | some t => rw [h2 t hl w hw]

/-- Without them the same two requests can reach two plugins in opposite orders (plugin 0 sees
    request 1 then 2, plugin 1 sees 2 then 1: no common order) — a schedule the guarded model
    refuses. This is the history shape the concurrent stream of the check looks for. -/
theorem no_mutex_interleaves :
    ∃ h s, frun? false (FState.start [pB, pA]) h = some s ∧
      s.seenBy pB.id = [1, 2] ∧ s.seenBy pA.id = [2, 1] ∧
      frun? true (FState.start [pB, pA]) h = none :=
  ⟨[.enter 7 1, .call 7, .enter 8 2, .call 8, .call 8, .leave 8, .call 7, .leave 7], _, rfl, by decide, by decide, by decide⟩

end Nri.Props.C06
