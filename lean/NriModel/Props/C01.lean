import NriModel.Lemmas.ResultSteps
/-!
# C01 — two plugins setting the same container item is always flagged as a conflict

Model: `Nri.Result` (pkg/adaptation/result.go + the request loops of adaptation.go), with the
behaviour after the `fix:` commits (`Quirks.fixed`). Spec vocabulary: `Nri.Ledger`
(`setsOn`, `removesOn`: what a response sets / marks for removal, read off the response).

The statements quantify over every state the request can be in — any original container,
any runtime update request, any ledger, any reply collected so far — over every number of
plugins before, between and after the two colliding ones, and over every content of every
response. "Strictly sets" leaves out updates marked ignore-failure (C05: those are dropped
instead of failing the request).
-/
namespace Nri.Props.C01
open Nri Nri.NApi Nri.Result Nri.Ledger

/-- **C01.** If plugin `pi` and a later plugin `pj` both (strictly) set item `it` of
    container `c`, `pj` does not itself mark it for removal, and no plugin in between marks
    it for removal, the request fails — whatever the plugins before, between and after do
    and whatever the request contained. -/
theorem C01_collision_flagged (st : State)
    (pre mid post : List (Plugin × Option Response)) (pi pj : Plugin) (ri rj : Response)
    (c : Cid) (it : Item)
    (hsi : it ∈ setsOn true st.kind ri c) (hsj : it ∈ setsOn true st.kind rj c)
    (hnj : it ∉ removesOn st.kind rj c)
    (hmid : ∀ p r, (p, some r) ∈ mid → it ∉ removesOn st.kind r c) :
    ∃ e, run Quirks.fixed st (pre ++ (pi, some ri) :: (mid ++ (pj, some rj) :: post)) = .error e := by
  rw [run_append]
  cases h1 : run Quirks.fixed st pre with
  | error e => exact ⟨e, rfl⟩
  | ok st1 =>
    have hk1 := run_kind _ st st1 pre h1
    simp only [run]
    cases h2 : apply Quirks.fixed st1 pi ri with
    | error e => exact ⟨e, rfl⟩
    | ok st2 =>
      have hk2 := apply_kind _ st1 st2 pi ri h2
      obtain ⟨w, hw⟩ := apply_owns st1 st2 pi ri h2 c it (by rw [hk1]; exact hsi)
      simp only []
      rw [run_append]
      cases h3 : run Quirks.fixed st2 mid with
      | error e => exact ⟨e, rfl⟩
      | ok st3 =>
        have hk3 := run_kind _ st2 st3 mid h3
        have hw3 := run_keeps st2 st3 mid h3 c it w hw (by
          intro p r hm; rw [hk2, hk1]; exact hmid p r hm)
        simp only [run]
        obtain ⟨e, he⟩ := apply_fails_of_owned st3 pj rj c it w hw3
          (by rw [hk3, hk2, hk1]; exact hsj) (by rw [hk3, hk2, hk1]; exact hnj)
        exact ⟨e, by rw [he]⟩

/-- The same for the three request kinds the runtime can issue, from the state the collector
    starts in (`collectCreateContainerResult` …): every original container, every requested
    resources. -/
theorem C01_create (c0 : Container) (pre mid post) (pi pj ri rj) (c : Cid) (it : Item)
    (hsi : it ∈ setsOn true (.create c0.id) ri c) (hsj : it ∈ setsOn true (.create c0.id) rj c)
    (hnj : it ∉ removesOn (.create c0.id) rj c)
    (hmid : ∀ p r, (p, some r) ∈ mid → it ∉ removesOn (.create c0.id) r c) :
    ∃ e, run Quirks.fixed (initCreate c0) (pre ++ (pi, some ri) :: (mid ++ (pj, some rj) :: post)) = .error e :=
  C01_collision_flagged (initCreate c0) pre mid post pi pj ri rj c it hsi hsj hnj hmid

theorem C01_update (id : Cid) (req : Resources) (pre mid post) (pi pj ri rj) (c : Cid) (it : Item)
    (hsi : it ∈ setsOn true (.update id) ri c) (hsj : it ∈ setsOn true (.update id) rj c) :
    ∃ e, run Quirks.fixed (initUpdate id req) (pre ++ (pi, some ri) :: (mid ++ (pj, some rj) :: post)) = .error e :=
  C01_collision_flagged (initUpdate id req) pre mid post pi pj ri rj c it hsi hsj
    (by simp [removesOn, initUpdate]) (by intro p r _; simp [removesOn, initUpdate])

theorem C01_stop (pre mid post) (pi pj ri rj) (c : Cid) (it : Item)
    (hsi : it ∈ setsOn true .stop ri c) (hsj : it ∈ setsOn true .stop rj c) :
    ∃ e, run Quirks.fixed initStop (pre ++ (pi, some ri) :: (mid ++ (pj, some rj) :: post)) = .error e :=
  C01_collision_flagged initStop pre mid post pi pj ri rj c it hsi hsj
    (by simp [removesOn, initStop]) (by intro p r _; simp [removesOn, initStop])

/-- **No silent merge.** Read the other way round: when a request succeeds, no item was
    (strictly) set twice without a removal from the later setter back to the earlier one. -/
theorem C01_no_silent_merge (st st' : State)
    (pre mid post : List (Plugin × Option Response)) (pi pj : Plugin) (ri rj : Response)
    (c : Cid) (it : Item)
    (hok : run Quirks.fixed st (pre ++ (pi, some ri) :: (mid ++ (pj, some rj) :: post)) = .ok st')
    (hsi : it ∈ setsOn true st.kind ri c) (hsj : it ∈ setsOn true st.kind rj c) :
    it ∈ removesOn st.kind rj c ∨ ∃ p r, (p, some r) ∈ mid ∧ it ∈ removesOn st.kind r c := by
  by_cases hnj : it ∈ removesOn st.kind rj c
  · exact .inl hnj
  · by_cases hm : ∃ p r, (p, some r) ∈ mid ∧ it ∈ removesOn st.kind r c
    · exact .inr hm
    · exfalso
      obtain ⟨e, he⟩ := C01_collision_flagged st pre mid post pi pj ri rj c it hsi hsj hnj
        (fun p r hmem hrem => hm ⟨p, r, hmem, hrem⟩)
      rw [he] at hok; cases hok

/-! ### the hypotheses are satisfiable: concrete collisions, one per path -/

private def memAdj (v : Int) : Adjustment :=
  { hasLinux := true, resources := some { memory := some { limit := some v } } }
private def pidsUpd (id : Str) (v : Int) : Update :=
  { containerId := id, resources := some { pids := some v } }
private def isErr : Except Err State → Bool | .error _ => true | .ok _ => false

-- creation adjustment: non-adjacent plugins, an unrelated plugin in between
example : isErr (run Quirks.fixed (initCreate { id := str "c0" })
    [(str "10-a", some { adjust := some (memAdj 1) }),
     (str "20-b", some { adjust := some { annotations := [(str "k", str "v")] } }),
     (str "30-c", some { adjust := some (memAdj 2) })]) = true := by decide

-- update of a third-party container during an update request (the pids path of fix 1)
example : isErr (run Quirks.fixed (initUpdate (str "c0") { pids := some 7 })
    [(str "10-a", some { updates := [pidsUpd (str "other") 1] }),
     (str "20-b", some { updates := [pidsUpd (str "other") 2] })]) = true := by decide

-- with a removal by the later plugin the same chain succeeds (the hypothesis `hnj` matters)
example : isErr (run Quirks.fixed (initCreate { id := str "c0" })
    [(str "10-a", some { adjust := some { annotations := [(str "k", str "v")] } }),
     (str "20-b", some { adjust := some { annotations := [(str "-k", []), (str "k", str "w")] } })]) = false := by decide

end Nri.Props.C01

namespace Nri.Props.C01
open Nri Nri.NApi Nri.Result Nri.Ledger

/-- every plugin of the chain answers (the harness's chains: an unsubscribed or dropped
    plugin is simply absent) -/
def answered (rs : List (Plugin × Response)) : List (Plugin × Option Response) :=
  rs.map fun (p, r) => (p, some r)

/-- The decidable predicate the correspondence check evaluates on every generated chain
    (`Ledger.mustFail`) is sound for the model: whenever it says "must fail", `run` fails.
    So "mustFail ∧ the implementation succeeded" is a disagreement with a proved consequence
    of the model, not with a heuristic. -/
theorem C01_mustFail_sound (st : State) (rs : List (Plugin × Response))
    (h : mustFail st.kind rs = true) : ∃ e, run Quirks.fixed st (answered rs) = .error e := by
  unfold mustFail anyPair at h
  simp only [List.any_eq_true, List.mem_range] at h
  obtain ⟨c, _, i, _, h⟩ := h
  cases hri : rs[i]? with
  | none => rw [hri] at h; simp at h
  | some xi =>
    obtain ⟨pi, ri⟩ := xi
    rw [hri] at h
    simp only [List.any_eq_true, List.mem_range] at h
    obtain ⟨it, _, j, _, hp⟩ := h
    unfold unreleasedPair at hp
    simp only [Bool.and_eq_true, decide_eq_true_eq, hri, List.all_eq_true, List.mem_range] at hp
    obtain ⟨⟨⟨hij, hsi⟩, hsj⟩, hmid⟩ := hp
    cases hrj : rs[j]? with
    | none => rw [hrj] at hsj; simp at hsj
    | some xj =>
      obtain ⟨pj, rj⟩ := xj
      rw [hrj] at hsj
      have hsi' : it ∈ setsOn true st.kind ri c := by simpa using hsi
      have hsj' : it ∈ setsOn true st.kind rj c := by simpa using hsj
      -- split the chain at i and at j
      obtain ⟨pre, post1, hl1, hlen1⟩ := split_at_getElem? rs i (pi, ri) hri
      have hj1 : post1[j - i - 1]? = some (pj, rj) := by
        have := getElem?_append_cons_length pre post1 (pi, ri) (j - i - 1)
        rw [← hl1, hlen1] at this
        rw [← this, ← hrj]; congr 1; omega
      obtain ⟨mid, post, hl2, hlen2⟩ := split_at_getElem? post1 (j - i - 1) (pj, rj) hj1
      have hrs : answered rs = answered pre ++ (pi, some ri) :: (answered mid ++ (pj, some rj) :: answered post) := by
        rw [hl1, hl2]; simp [answered]
      rw [hrs]
      -- what the range condition says about an index i+1+d
      have hat : ∀ d, d < j - i → ∀ p r, rs[i + 1 + d]? = some (p, r) → it ∉ removesOn st.kind r c := by
        intro d hd p r hget
        have := hmid d hd
        rw [hget] at this
        simpa using this
      apply C01_collision_flagged st (answered pre) (answered mid) (answered post) pi pj ri rj c it hsi' hsj'
      · -- the later plugin itself: index j = i + 1 + (j - i - 1)
        apply hat (j - i - 1) (by omega) pj rj
        rw [← hrj]; congr 1; omega
      · intro p r hm
        simp only [answered, List.mem_map] at hm
        obtain ⟨⟨p', r'⟩, hmem, heq⟩ := hm
        simp only [Prod.mk.injEq, Option.some.injEq] at heq
        obtain ⟨rfl, rfl⟩ := heq
        obtain ⟨d, hget⟩ := List.getElem?_of_mem hmem
        have hd : d < mid.length := (List.getElem?_eq_some_iff.1 hget).1
        apply hat d (by omega) p' r'
        have := getElem?_append_cons_length pre post1 (pi, ri) d
        rw [← hl1, hlen1] at this
        rw [this, hl2, List.getElem?_append_left hd]; exact hget

-- the predicate is not vacuous: it fires on a three-plugin chain with an unrelated plugin between
example : mustFail (.create (str "c0"))
    [(str "10-a", { adjust := some (memAdj 1) }),
     (str "20-b", { adjust := some { annotations := [(str "k", str "v")] } }),
     (str "30-c", { adjust := some (memAdj 2) })] = true := by decide

end Nri.Props.C01
