import NriModel.Basic
/-! Property theorems for C01 — placeholder until the model is written. -/
namespace Nri.Props.C01
end Nri.Props.C01
