import NriModel.Stub
import NriModel.Registration
import NriModel.Lemmas.StubMask
import NriModel.Lemmas.Stub
/-!
Property C15 — the stub subscribes exactly the implemented events and dispatches faithfully.

All statements are about `Nri.Stub` (model of pkg/stub/stub.go) and quantify over every
plugin type `p : Plugin` (every subset of the thirteen event handlers × the three event-less
ones), every plugin behaviour `b`, every payload type `β` and every message content.
-/
namespace Nri.Props.C15
open Nri Nri.Events Nri.Stub Nri.Lemmas.StubMask Nri.Lemmas.Stub

/-- The subscription mask is the plugin's handler set and nothing else: it is the thirteen
    handler bits zero-extended to the 32-bit mask. -/
theorem C15_mask_eq (p : Plugin) : subscribe p = p.ev.setWidth 32 := subscribe_eq p

/-- Event `e` (any number ≥ 1, also those beyond the defined thirteen) is subscribed iff it
    is one of the thirteen and the plugin type has its handler. -/
theorem C15_mask (p : Plugin) (e : Nat) (h1 : 1 ≤ e) :
    isSet (subscribe p) e = true ↔ e ≤ 13 ∧ p.ev.getLsbD (e - 1) = true := by
  rw [isSet_eq_getLsbD, subscribe_eq, BitVec.getLsbD_setWidth]
  constructor
  · intro h
    simp only [Bool.and_eq_true, decide_eq_true_eq] at h
    have := BitVec.lt_of_getLsbD h.2
    exact ⟨by omega, h.2⟩
  · intro ⟨h13, hb⟩
    simp only [Bool.and_eq_true, decide_eq_true_eq]
    exact ⟨by omega, hb⟩

/-- The same, by handler slot: the bit of event `e` is set iff the plugin implements the
    interface that handles `e`. -/
theorem C15_mask_slot (p : Plugin) (e : Nat) (s : Slot) (hs : slotOfEvent e = some s) :
    isSet (subscribe p) e = p.has s := by
  have he := slotOfEvent_event.mp hs
  have hr := event_range he
  rw [has_of_event p he, isSet_eq_getLsbD, subscribe_eq, BitVec.getLsbD_setWidth]
  have : e - 1 < 32 := by omega
  simp [this]

example : isSet (subscribe ⟨0b0000000001001#13, true, false, false⟩) 4 = true ∧
          isSet (subscribe ⟨0b0000000001001#13, true, false, false⟩) 5 = false := by decide

/-- A plugin type without any event handler cannot get a stub — whatever else it implements
    (Configure, Synchronize, Shutdown) — and this is the only way creation fails. -/
theorem C15_none (p : Plugin) : p.ev = 0#13 ↔ setupHandlers p = .error .noHandlers := by
  constructor
  · intro h
    exact setup_of_eq ((subscribe_eq_zero_iff p).mpr h)
  · intro h
    exact (subscribe_eq_zero_iff p).mp (setup_error h).2

example : setupHandlers ⟨0#13, true, true, true⟩ = .error .noHandlers := by rfl

/-- With at least one event handler creation succeeds; the stub's mask is `subscribe p` and
    every slot of the handler table is bound to the plugin's own method for that slot
    exactly when the plugin implements it. -/
theorem C15_table (p : Plugin) (h : p.ev ≠ 0#13) :
    ∃ hd, setupHandlers p = .ok hd ∧ hd.events = subscribe p ∧
      ∀ s, hd.bound s = if p.has s = true then some s else none := by
  have hne : subscribe p ≠ 0#32 := fun hz => h ((subscribe_eq_zero_iff p).mp hz)
  exact ⟨_, setup_of_ne hne, events_of_new (setup_of_ne hne), bound_of_new (setup_of_ne hne)⟩

example : (0b1000000000000#13 : BitVec 13) ≠ 0#13 := by decide

/-- Configuration. Without a `Configure` method the stub answers with its own mask and calls
    nothing. Otherwise the method is called exactly once with the configuration, runtime name
    and version the runtime sent, and: its error is passed on; an empty mask means "all I
    implement"; a mask within the implemented set is returned as asked; a mask naming any
    event without a handler is refused, naming the offending bits. -/
theorem C15_configure {β : Type} (p : Plugin) (hd : Handlers) (hnew : setupHandlers p = .ok hd)
    (b : Behaviour β) (c r v : Str) :
    configure hd b c r v =
      if p.configure = true then
        let a : Args β := .config c r v
        let asked := b .configure a
        ([⟨.configure, a⟩],
          match asked.err with
          | some msg => .error (.handler msg)
          | none =>
            if asked.events = 0#32 then .ok (subscribe p)
            else if asked.events &&& ~~~subscribe p = 0#32 then .ok asked.events
            else .error (.unhandled (asked.events &&& ~~~subscribe p)))
      else ([], .ok (subscribe p)) := by
  have hb := bound_of_new hnew .configure
  have he := events_of_new hnew
  cases hp : p.configure with
  | false =>
    have : p.has .configure = false := hp
    simp [configure, hb, this, he]
  | true =>
    have : p.has .configure = true := hp
    simp only [configure, hb, this, if_true]
    cases herr : (b Slot.configure (Args.config c r v)).err with
    | some msg => simp
    | none =>
      simp only [clamp, he]
      by_cases hz : (b Slot.configure (Args.config c r v)).events = 0#32
      · simp [hz]
      · by_cases hx : (b Slot.configure (Args.config c r v)).events &&& ~~~subscribe p = 0#32
        · simp [hz, hx]
        · simp [hz, hx]

example : (configure (β := Nat) (setupOrder.foldl (setupStep ⟨0b11#13, true, false, false⟩) Handlers.empty)
            (fun _ _ => { events := 0b100#32 }) [] [] []).2 = .error (.unhandled 0b100#32) := by rfl

/-- Whatever the plugin asks for, a successful configuration answers with a non-empty mask
    that lies within the implemented events: every subscribed event has a handler. (A zero
    answer would be read by the runtime as "everything".) -/
theorem C15_configure_sound {β : Type} (p : Plugin) (hd : Handlers) (hnew : setupHandlers p = .ok hd)
    (b : Behaviour β) (c r v : Str) (m : Mask) (hm : (configure hd b c r v).2 = .ok m) :
    m ≠ 0#32 ∧ m &&& ~~~subscribe p = 0#32 ∧
      ∀ e, 1 ≤ e → isSet m e = true → e ≤ 13 ∧ p.ev.getLsbD (e - 1) = true := by
  have hne := (setup_ok hnew).2
  have key : m ≠ 0#32 ∧ m &&& ~~~subscribe p = 0#32 := by
    rw [C15_configure p hd hnew] at hm
    by_cases hp : p.configure = true
    · simp only [hp, if_true] at hm
      cases herr : (b Slot.configure (Args.config c r v)).err with
      | some msg => simp [herr] at hm
      | none =>
        simp only [herr] at hm
        by_cases hz : (b Slot.configure (Args.config c r v)).events = 0#32
        · simp only [hz, if_true] at hm
          injection hm with hm; subst hm
          exact ⟨hne, by simp⟩
        · by_cases hx : (b Slot.configure (Args.config c r v)).events &&& ~~~subscribe p = 0#32
          · simp only [hz, hx, if_true, if_false] at hm
            injection hm with hm; subst hm
            exact ⟨hz, hx⟩
          · simp [hz, hx] at hm
    · simp only [hp] at hm
      injection hm with hm; subst hm
      exact ⟨hne, by simp⟩
  refine ⟨key.1, key.2, ?_⟩
  intro e h1 hset
  apply (C15_mask p e h1).mp
  rw [isSet_eq_getLsbD] at hset ⊢
  have := congrArg (fun v => BitVec.getLsbD v (e - 1)) key.2
  simp only [BitVec.getLsbD_and, BitVec.getLsbD_not, hset, Bool.true_and, BitVec.getLsbD_zero] at this
  have hlt : e - 1 < 32 := BitVec.lt_of_getLsbD hset
  simpa [hlt] using this

/-- … and the runtime side of NRI (`(*plugin).configure`, model `Registration.configureMask`)
    accepts that answer and stores exactly it: what the runtime will relay is what the stub
    announced. -/
theorem C15_runtime_view {β : Type} (p : Plugin) (hd : Handlers) (hnew : setupHandlers p = .ok hd)
    (b : Behaviour β) (c r v : Str) (m : Mask) (hm : (configure hd b c r v).2 = .ok m) :
    Registration.configureMask m = .ok m := by
  obtain ⟨hne, _, hall⟩ := C15_configure_sound p hd hnew b c r v m hm
  have hv : m &&& ~~~valid = 0#32 := by
    rw [and_not_valid_eq_zero_iff]
    intro i hi
    have h13 : i + 1 ≤ 13 := (hall (i + 1) (Nat.le_add_left 1 i) (by rw [isSet_eq_getLsbD]; simpa using hi)).1
    omega
  simp [Registration.configureMask, hne, hv]

/-- Dispatch. For each of the thirteen events, the request the runtime sends for it invokes
    exactly one plugin method — the one for that event, with exactly the parts of the message
    that handler is to receive — if the plugin type implements it, and nothing otherwise.
    This does not depend on what was subscribed at configuration time. -/
theorem C15_dispatch {β : Type} (p : Plugin) (hd : Handlers) (hnew : setupHandlers p = .ok hd)
    (b : Behaviour β) (d : Dyn β) (e : Nat) (s : Slot) (hs : slotOfEvent e = some s) (m : Msg β) :
    (dispatch hd b d (requestFor e m)).calls =
      if p.has s = true then [⟨s, argsFor e m⟩] else [] := by
  rw [dispatch_event hnew b d hs m]
  split <;> rfl

example : (dispatch (β := Nat) (setupOrder.foldl (setupStep ⟨0b1000000000#13, false, false, false⟩) Handlers.empty)
            (fun _ _ => {}) {} (requestFor 10 ⟨some 1, some 2, some 3, some 4⟩)).calls =
          [⟨.stopContainer, .podCtr (some 1) (some 2)⟩] := by decide

/-- Pass-through. The runtime sees the handler's adjustment and updates exactly as returned,
    or — when the handler fails — its error and nothing else; without a handler it sees the
    empty reply. -/
theorem C15_passthrough {β : Type} (p : Plugin) (hd : Handlers) (hnew : setupHandlers p = .ok hd)
    (b : Behaviour β) (d : Dyn β) (e : Nat) (s : Slot) (hs : slotOfEvent e = some s) (m : Msg β) :
    (dispatch hd b d (requestFor e m)).result =
      if p.has s = true then
        match (b s (argsFor e m)).err with
        | some msg => .error (.handler msg)
        | none => .ok (replyFor e (b s (argsFor e m)))
      else .ok (emptyReplyFor e) := by
  rw [dispatch_event hnew b d hs m]
  split
  · cases herr : (b s (argsFor e m)).err <;> simp [reply, herr]
  · rfl

example : (dispatch (β := Nat) (setupOrder.foldl (setupStep ⟨0b1000#13, false, false, false⟩) Handlers.empty)
            (fun _ _ => { adjust := some 7, updates := [8, 9] }) {} (requestFor 4 ⟨some 1, some 2, none, none⟩)).result =
          .ok (.createContainer (some 7) [8, 9]) := by rfl

/-- A `StateChange` notification carrying anything but one of the nine notification events
    (the unknown event 0, numbers beyond the last, or one of the four request-type events that
    have their own RPC) invokes nothing and is answered with an empty reply. -/
theorem C15_foreign_event {β : Type} (hd : Handlers) (b : Behaviour β) (d : Dyn β) (e : Nat)
    (pod ctr : Option β)
    (he : e = 0 ∨ e = 4 ∨ e = 8 ∨ e = 10 ∨ e = 12 ∨ 14 ≤ e) :
    (dispatch hd b d (.stateChange e pod ctr)).calls = [] ∧
    (dispatch hd b d (.stateChange e pod ctr)).result = .ok .stateChange := by
  have : stateChange hd b d e pod ctr = ⟨[], .ok .stateChange, d⟩ := by
    unfold stateChange
    split <;> first | omega | rfl
  simp [dispatch, this]

/-- Dispatch never touches the stub's mutable state, except Configure (timeouts) and
    Synchronize (collected chunks). -/
theorem C15_dispatch_pure {β : Type} (p : Plugin) (hd : Handlers) (hnew : setupHandlers p = .ok hd)
    (b : Behaviour β) (d : Dyn β) (e : Nat) (s : Slot) (hs : slotOfEvent e = some s) (m : Msg β) :
    (dispatch hd b d (requestFor e m)).dyn = d := by
  rw [dispatch_event hnew b d hs m]
  split <;> rfl

/-- Split synchronisation: however the runtime cuts the state into `More` chunks, the plugin's
    `Synchronize` is invoked exactly once, with all pods and all containers in the order sent,
    when the final chunk arrives; the chunks before it are acknowledged with `More` and no
    updates; the final reply carries the handler's updates or error; nothing stays collected. -/
theorem C15_sync {β : Type} (p : Plugin) (hd : Handlers) (hnew : setupHandlers p = .ok hd)
    (hp : p.synchronize = true) (b : Behaviour β) (d : Dyn β) (hd0 : d.syncReq = none)
    (chunks : List (List β × List β)) (pods ctrs : List β) :
    let reqs := chunks.map (fun c => Request.synchronize c.1 c.2 true) ++ [Request.synchronize pods ctrs false]
    let a : Args β := .sync (podsOf chunks ++ pods) (ctrsOf chunks ++ ctrs)
    let outs := run hd b d reqs
    (outs.map (·.calls)).flatten = [⟨.synchronize, a⟩] ∧
    outs.length = chunks.length + 1 ∧
    (∀ o ∈ outs.take chunks.length, o.result = .ok (.synchronize [] true)) ∧
    (outs.getLast?.map (·.result)) = some (reply (b .synchronize a) (.synchronize (b .synchronize a).updates false)) ∧
    (outs.getLast?.map (·.dyn.syncReq)) = some none := by
  intro reqs a outs
  have hm : hd.bound .synchronize = some .synchronize := by
    rw [bound_of_new hnew]; simp [Plugin.has, hp]
  obtain ⟨d', hall, hrun, hnil, hne, _, _⟩ :=
    run_collect hd b .synchronize hm chunks [Request.synchronize pods ctrs false] d
  have hacc : accumulate d'.syncReq pods ctrs = (podsOf chunks ++ pods, ctrsOf chunks ++ ctrs) := by
    by_cases hc : chunks = []
    · subst hc; rw [hnil rfl, hd0]; simp [accumulate, podsOf, ctrsOf]
    · rw [hne hc, hd0]; simp [accumulate, accOf]
  have hlast : run hd b d' [Request.synchronize pods ctrs false] =
      [⟨[⟨.synchronize, a⟩], reply (b .synchronize a) (.synchronize (b .synchronize a).updates false),
        { d' with syncReq := none }⟩] := by
    simp [run, dispatch, synchronize, hm, hacc, a]
  have hlen : (run hd b d (chunks.map (fun c => Request.synchronize c.1 c.2 true))).length = chunks.length := by
    have : ∀ (d : Dyn β) (l : List (Request β)), (run hd b d l).length = l.length := by
      intro d l
      induction l generalizing d with
      | nil => rfl
      | cons r rs ih => simp [run, ih]
    rw [this]; simp
  have houts : outs = run hd b d (chunks.map (fun c => Request.synchronize c.1 c.2 true)) ++
      [⟨[⟨.synchronize, a⟩], reply (b .synchronize a) (.synchronize (b .synchronize a).updates false),
        { d' with syncReq := none }⟩] := by
    simp only [outs, reqs]; rw [hrun, hlast]
  refine ⟨?_, ?_, ?_, ?_, ?_⟩
  · rw [houts, List.map_append, List.flatten_append]
    have : ((run hd b d (chunks.map (fun c => Request.synchronize c.1 c.2 true))).map (·.calls)).flatten = [] := by
      rw [List.flatten_eq_nil_iff]
      intro l hl
      obtain ⟨o, ho, rfl⟩ := List.mem_map.mp hl
      exact (hall o ho).1
    rw [this]; simp
  · rw [houts, List.length_append, hlen]; rfl
  · intro o ho
    rw [houts, List.take_append_of_le_length (by omega), ← hlen, List.take_length] at ho
    exact (hall o ho).2
  · rw [houts]; simp
  · rw [houts]; simp

example : (run (β := Nat) (setupOrder.foldl (setupStep ⟨1#13, false, true, false⟩) Handlers.empty)
            (fun _ _ => {}) {} [.synchronize [1] [10] true, .synchronize [2] [] true, .synchronize [] [11] false]).map (·.calls) =
          [[], [], [⟨.synchronize, .sync [1, 2] [10, 11]⟩]] := by decide

/-- Without a `Synchronize` method every chunk is acknowledged by echoing `More`, with no
    updates and no call. -/
theorem C15_sync_none {β : Type} (p : Plugin) (hd : Handlers) (hnew : setupHandlers p = .ok hd)
    (hp : p.synchronize = false) (b : Behaviour β) (d : Dyn β) (pods ctrs : List β) (more : Bool) :
    (dispatch hd b d (.synchronize pods ctrs more)).calls = [] ∧
    (dispatch hd b d (.synchronize pods ctrs more)).result = .ok (.synchronize [] more) ∧
    (dispatch hd b d (.synchronize pods ctrs more)).dyn = d := by
  have hm : hd.bound .synchronize = none := by
    rw [bound_of_new hnew]; simp [Plugin.has, hp]
  simp [dispatch, synchronize, hm]

/-- Shutdown invokes the plugin's `Shutdown` once if there is one, and always succeeds. -/
theorem C15_shutdown {β : Type} (p : Plugin) (hd : Handlers) (hnew : setupHandlers p = .ok hd)
    (b : Behaviour β) (d : Dyn β) :
    (dispatch hd b d .shutdown).calls = (if p.shutdown = true then [⟨.shutdown, .none⟩] else []) ∧
    (dispatch hd b d .shutdown).result = .ok .shutdown := by
  have hb := bound_of_new hnew .shutdown
  cases hp : p.shutdown with
  | false => have : p.has .shutdown = false := hp; simp [dispatch, hb, this]
  | true => have : p.has .shutdown = true := hp; simp [dispatch, hb, this]

/-- Restart invariance. Reuse one stub for any number of sessions (Start, configuration,
    requests, Stop or connection loss, Start again …): everything visible of a session — the
    Configure invocation and its answer (the subscription), every handler invocation and every
    reply — is what a freshly created stub of the same plugin type would show in that session.
    It is independent of ALL earlier sessions: of the masks asked for, the timeouts passed, the
    errors returned and the requests handled. The handler table with the implemented-events
    mask is not changed by use. (The stub must have been created with a positive registration
    timeout — `New` sets 5 s — and nothing half-collected.) -/
theorem C15_restart_invariant {β : Type} (hd : Handlers) (d : Dyn β) (hd0 : d.syncReq = none)
    (hp : 0 < d.regTimeoutNs) (pre : List (Session β)) (s : Session β) :
    (∃ o, (runSessions ⟨hd, d⟩ (pre ++ [s])).1.getLast? = some o ∧
          o.visible = (runSession ⟨hd, {}⟩ s).1.visible) ∧
    (runSessions ⟨hd, d⟩ (pre ++ [s])).2.handlers = hd := by
  have hst := runSessions_state ⟨hd, d⟩ pre
  have hfresh : (0 : Int) < ({} : Dyn β).regTimeoutNs := by show (0 : Int) < 5000000000; omega
  refine ⟨⟨(runSession (runSessions ⟨hd, d⟩ pre).2 s).1, ?_, ?_⟩, (runSessions_state ⟨hd, d⟩ (pre ++ [s])).1⟩
  · rw [runSessions_append]
    simp only [List.getLast?_append, List.getLast?_singleton, Option.some_or]
  · exact (runSession_equiv (runSessions ⟨hd, d⟩ pre).2 ⟨hd, {}⟩ hst.1 (hst.2.1 hd0) (hst.2.2 hp)
      hfresh s).1

/-- In particular the configuration of a later session is the one `C15_configure` describes in
    terms of the plugin type alone: Configure is invoked (registration cannot fail on a zero
    deadline), an empty request again means everything implemented, a subset of the implemented
    events is granted even if an earlier session asked for less, an unimplemented event is
    refused. -/
theorem C15_restart_configure {β : Type} (p : Plugin) (hd : Handlers) (hnew : setupHandlers p = .ok hd)
    (d : Dyn β) (hd0 : d.syncReq = none) (hp : 0 < d.regTimeoutNs) (pre : List (Session β)) (s : Session β) :
    ∃ o, (runSessions ⟨hd, d⟩ (pre ++ [s])).1.getLast? = some o ∧
      o.cfg.visible =
        ((configure hd s.cfgB s.config s.runtime s.version).1,
         (configure hd s.cfgB s.config s.runtime s.version).2.map Reply.configure) ∧
      (p.configure = true → (s.cfgB .configure (.config s.config s.runtime s.version)).err = none →
        (s.cfgB .configure (.config s.config s.runtime s.version)).events = 0#32 →
        o.cfg.result = .ok (.configure (subscribe p))) := by
  obtain ⟨⟨o, hlast, hvis⟩, _⟩ := C15_restart_invariant hd d hd0 hp pre s
  have hfresh : (runSession ⟨hd, ({} : Dyn β)⟩ s).1.cfg.visible =
      ((configure hd s.cfgB s.config s.runtime s.version).1,
       (configure hd s.cfgB s.config s.runtime s.version).2.map Reply.configure) := by
    have hfresh : (0 : Int) < ({} : Dyn β).regTimeoutNs := by show (0 : Int) < 5000000000; omega
    rw [runSession_cfg _ _ hfresh]
    have := dispatch_configure_eq hd s.cfgB ({} : Dyn β) s.config s.runtime s.version s.regMs s.reqMs
    simp only [Outcome.visible, this.1, this.2.1]
  have hcfg : o.cfg.visible = (runSession ⟨hd, ({} : Dyn β)⟩ s).1.cfg.visible := congrArg Prod.fst hvis
  refine ⟨o, hlast, hcfg.trans hfresh, ?_⟩
  intro hpc herr hz
  have hres : o.cfg.result = (configure hd s.cfgB s.config s.runtime s.version).2.map Reply.configure :=
    congrArg Prod.snd (hcfg.trans hfresh)
  rw [hres, C15_configure p hd hnew s.cfgB s.config s.runtime s.version]
  simp [hpc, herr, hz, Except.map]

example : ((runSessions (β := Nat) ⟨setupOrder.foldl (setupStep ⟨0b111#13, true, false, false⟩) Handlers.empty, {}⟩
            [ ⟨fun _ _ => { events := 0b001#32 }, [], [], [], 0, 1, []⟩,
              ⟨fun _ _ => { events := 0#32 }, [], [], [], 1, 0, []⟩,
              ⟨fun _ _ => { events := 0b110#32 }, [], [], [], 1, 1, []⟩ ]).1.map (·.cfg.result)) =
          [.ok (.configure 0b001#32), .ok (.configure 0b111#32), .ok (.configure 0b110#32)] := by rfl

/-- Timeouts are sticky. Configure takes over (as nanoseconds) exactly the timeouts the runtime
    passes (> 0 ms) and keeps the stub's current value for each one it does not; no other
    request touches them; and the registration timeout therefore stays positive through any
    sequence of sessions, so that the stub can always register again. -/
theorem C15_timeouts_sticky {β : Type} (hd : Handlers) (b : Behaviour β) (d : Dyn β) :
    (∀ c r v regMs reqMs,
      (dispatch hd b d (.configure c r v regMs reqMs)).dyn.regTimeoutNs =
        (if regMs > 0 then regMs * 1000000 else d.regTimeoutNs) ∧
      (dispatch hd b d (.configure c r v regMs reqMs)).dyn.reqTimeoutNs =
        (if reqMs > 0 then reqMs * 1000000 else d.reqTimeoutNs)) ∧
    (∀ e s (m : Msg β), slotOfEvent e = some s →
      (dispatch hd b d (requestFor e m)).dyn.regTimeoutNs = d.regTimeoutNs ∧
      (dispatch hd b d (requestFor e m)).dyn.reqTimeoutNs = d.reqTimeoutNs) ∧
    (0 < d.regTimeoutNs → ∀ ss : List (Session β), 0 < (runSessions ⟨hd, d⟩ ss).2.dyn.regTimeoutNs) := by
  refine ⟨fun c r v regMs reqMs => ?_, fun e s m hs => ?_, fun hp ss => (runSessions_state ⟨hd, d⟩ ss).2.2 hp⟩
  · rw [(dispatch_configure_eq hd b d c r v regMs reqMs).2.2]
    exact ⟨rfl, rfl⟩
  · rcases event_cases hs with h|h|h|h|h|h|h|h|h|h|h|h|h <;> obtain ⟨he, hs'⟩ := h <;> subst he <;> subst hs' <;>
      simp only [requestFor, dispatch, stateChange, callPod, callPodCtr] <;>
      (split <;> exact ⟨rfl, rfl⟩)

example : (dispatch (β := Nat) Handlers.empty (fun _ _ => {}) {} (.configure [] [] [] 0 7)).dyn.regTimeoutNs = 5000000000 ∧
          (dispatch (β := Nat) Handlers.empty (fun _ _ => {}) {} (.configure [] [] [] 0 7)).dyn.reqTimeoutNs = 7000000 := by decide

/-- Witness for the defect repaired by fix 31d2c1d (the unrepaired `Configure` overwrote both
    timeouts unconditionally): a runtime that passes no registration timeout in the first session
    leaves the stub with a zero one, the second `Start` cannot register, and the plugin's
    `Configure` is never invoked again — whereas the repaired stub configures both times. -/
theorem unfixed_zero_registration_timeout_blocks_restart :
    let hd := setupOrder.foldl (setupStep ⟨0b11#13, true, false, false⟩) Handlers.empty
    let s1 : Session Nat := ⟨fun _ _ => { events := 0b01#32 }, [], [], [], 0, 2000, []⟩
    let s2 : Session Nat := ⟨fun _ _ => { events := 0#32 }, [], [], [], 5000, 2000, []⟩
    ((runSessionsUnfixed ⟨hd, {}⟩ [s1, s2]).1.map (·.cfg.calls) =
        [[⟨.configure, .config [] [] []⟩], []]) ∧
    ((runSessions ⟨hd, {}⟩ [s1, s2]).1.map (·.cfg.calls) =
        [[⟨.configure, .config [] [] []⟩], [⟨.configure, .config [] [] []⟩]]) := by
  decide

end Nri.Props.C15
