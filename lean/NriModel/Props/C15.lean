import NriModel.Basic
/-! Property theorems for C15 — placeholder until the model is written. -/
namespace Nri.Props.C15
end Nri.Props.C15
