import NriModel.Basic
/-! Property theorems for C19 — placeholder until the model is written. -/
namespace Nri.Props.C19
end Nri.Props.C19
