import NriModel.Lemmas.LocksMutex
/-!
Property C19 — unsolicited updates reach the runtime once, unchanged, and never concurrently.

Model: `Nri.Mutex` (`NriModel/Locks.lean`): (i) the wrapper chain of one unsolicited update —
`stub.UpdateContainers` (stub.go) → ttRPC → `plugin.UpdateContainers` (plugin.go) →
`Adaptation.updateContainers` (adaptation.go) → the runtime's `UpdateFn` — as total functions
over an arbitrary update type `α` and error type `ε`; (ii) the adaptation mutex as a labelled
transition system in which update calls of any number of plugins interleave with runtime
requests. The history theorems quantify over ALL histories `run init h = some s`; the ghost
logs `fnRuns u` / `rets u` record every `UpdateFn` invocation made for, and every value
returned to, call `u`.
-/
namespace Nri.Props.C19
open Nri.Mutex

variable {α ε : Type}

/-- **Pass-through (function level).** Through a started stub connected to an adaptation whose
    callback is `fn`, the callback is applied to exactly the list the plugin sent, and the plugin
    receives the callback's failed list when the callback succeeded … -/
theorem C19_passthrough_ok (fn : List α → FnResult α ε) (update : List α)
    (h : (fn update).err = none) :
    stubUpdate (some (connected fn)) update = ((fn update).failed, none) := by
  simp [stubUpdate, connected, transport, serviceUpdate, adaptationUpdate, h]

/-- … and the callback's error, and no failed list, when it failed. -/
theorem C19_passthrough_err (fn : List α → FnResult α ε) (update : List α) (e : ε)
    (h : (fn update).err = some e) :
    stubUpdate (some (connected fn)) update = ([], some (.rpc e)) := by
  simp [stubUpdate, connected, transport, serviceUpdate, adaptationUpdate, h]

/-- Both cases at once: the wrapper chain computes `expected`, the value the transition system
    demands of every `ret` event. -/
theorem C19_passthrough_fn (fn : List α → FnResult α ε) (update : List α) :
    stubUpdate (some (connected fn)) update = expected (fn update) := by
  cases h : (fn update).err with
  | none => rw [C19_passthrough_ok fn update h]; simp [expected, h]
  | some e => rw [C19_passthrough_err fn update e h]; simp [expected, h]

/-- **No service.** A stub that was never started answers at once with `ErrNoService` … -/
theorem C19_noservice (update : List α) :
    stubUpdate (none : Option (List α → Option (List α) × Option ε)) update =
      ([], some .noService) := rfl

/-- … also while its `Start()` is in progress but the runtime client does not exist yet
    (dialing, multiplexing): the answer depends on nothing else — in particular not on the stub
    lock `Start()` holds, which `UpdateContainers` does not take. (In the transition system this
    is the same `callUnstarted` step, enabled in every state by `C19_noservice_never_blocks`.) -/
theorem C19_noservice_starting (ph : StubPhase) (hph : ph = .fresh ∨ ph = .connecting)
    (client : List α → Option (List α) × Option ε) (update : List α) :
    stubUpdate (clientOf ph client) update = ([], some .noService) := by
  rcases hph with rfl | rfl <;> rfl

/-- Once the client exists — from the registering phase on, which is when the plugin's
    `Configure` handler runs — an update is passed through exactly like on a started stub. -/
theorem C19_passthrough_registering (ph : StubPhase) (hph : ph = .registering ∨ ph = .started)
    (fn : List α → FnResult α ε) (update : List α) :
    stubUpdate (clientOf ph (connected fn)) update = expected (fn update) := by
  rcases hph with rfl | rfl <;> exact C19_passthrough_fn fn update

variable [DecidableEq α] [DecidableEq ε]

/-- … in every state (whoever holds the adaptation mutex: it does not block), without touching
    the runtime; and no other answer is accepted. -/
theorem C19_noservice_never_blocks (s : State α ε) (p : Pid) (update : List α) :
    step? s (.callUnstarted p update ([], some .noService)) = some s ∧
    ∀ out, out ≠ ([], some .noService) → step? s (.callUnstarted p update out) = none := by
  constructor
  · simp [step?, stubUpdate]
  · intro out ho; simp [step?, stubUpdate, ho]

/-- **Pass-through (history level).** In every accepted history, whatever `UpdateFn` was invoked
    with on behalf of call `u` is exactly the list plugin `p` passed to its stub … -/
theorem C19_passthrough_arg {h : List (Ev α ε)} {s : State α ε} (hr : run init h = some s)
    (u : Uid) (arg : List α) (res : FnResult α ε) (hm : (arg, res) ∈ s.fnRuns u) :
    ∃ p ph, s.call u = some ⟨p, arg, ph⟩ := by
  have g := (goodM_run hr).calls u
  unfold callOk at g
  split at g <;> simp_all

/-- … and whatever was returned to the plugin for call `u` is the result of that one invocation:
    its failed list unchanged if it succeeded, its error (and nothing else) if it failed. -/
theorem C19_passthrough_result {h : List (Ev α ε)} {s : State α ε} (hr : run init h = some s)
    (u : Uid) (out : List α × Option (StubErr ε)) (hm : out ∈ s.rets u) :
    ∃ p update r, s.call u = some ⟨p, update, .returned r⟩ ∧ s.fnRuns u = [(update, r)] ∧
      (r.err = none → out = (r.failed, none)) ∧ (∀ e, r.err = some e → out = ([], some (.rpc e))) := by
  have g := (goodM_run hr).calls u
  unfold callOk at g
  split at g
  all_goals (try (simp_all; done))
  rename_i p L r hc
  refine ⟨p, L, r, hc, g.1, ?_, ?_⟩
  · intro he; rw [g.2] at hm; simp only [List.mem_singleton] at hm; simp [hm, expected, he]
  · intro e he; rw [g.2] at hm; simp only [List.mem_singleton] at hm; simp [hm, expected, he]

/-- **Once.** `UpdateFn` runs at most once per call in every accepted history, exactly once for
    a call that has returned, and a call returns at most once. -/
theorem C19_once {h : List (Ev α ε)} {s : State α ε} (hr : run init h = some s) (u : Uid) :
    (s.fnRuns u).length ≤ 1 ∧ (s.rets u).length ≤ 1 ∧
    (s.rets u ≠ [] → (s.fnRuns u).length = 1) := by
  have g := (goodM_run hr).calls u
  unfold callOk at g
  split at g <;> simp_all

/-- a call that was never made leaves no trace at the runtime (no spurious invocations) -/
theorem C19_no_spurious {h : List (Ev α ε)} {s : State α ε} (hr : run init h = some s) (u : Uid)
    (hn : s.call u = none) : s.fnRuns u = [] ∧ s.rets u = [] := by
  have g := (goodM_run hr).calls u
  unfold callOk at g
  rw [hn] at g
  exact g

/-- **The result does not depend on how long the call waited.** The stub's wait for the reply
    is not bounded by any time-out (`context.Background()`), and the model has no step by which a
    pending call could end other than `ret` with the callback's own result — or `gone`, the
    caller's going away, after which there is no `ret` (`C19_gone_no_result`): whatever happens
    between the plugin's call and its return — `mid` is ANY history, however long: other
    plugins' updates queued ahead, long runtime requests holding the mutex — the callback ran
    exactly once for it, with exactly the list sent, and the value returned is that result. -/
theorem C19_result_independent_of_wait {pre mid : List (Ev α ε)} {u : Uid} {p : Pid}
    {update : List α} {out : List α × Option (StubErr ε)} {s : State α ε}
    (hr : run init (pre ++ [.call u p update] ++ mid ++ [.ret u out]) = some s) :
    ∃ r, s.fnRuns u = [(update, r)] ∧ s.rets u = [out] ∧ out = expected r := by
  rw [List.append_assoc, List.append_assoc, run_append] at hr
  cases h0 : run init pre with
  | none => simp [h0] at hr
  | some s0 =>
    simp only [h0, Option.bind_some, List.cons_append, run] at hr
    split at hr
    · rename_i s1 hs1
      -- the call is registered with the list sent
      have hc1 : s1.call u = some ⟨p, update, .called⟩ := by
        simp only [step?] at hs1
        split at hs1
        · cases hs1
        · injection hs1 with hs1; subst hs1; simp
      cases h2 : run s1 mid with
      | none => rw [List.nil_append, run_append mid [.ret u out], h2] at hr; cases hr
      | some s2 =>
        rw [List.nil_append, run_append mid [.ret u out], h2] at hr
        simp only [Option.bind_some, run] at hr
        obtain ⟨c2, hc2, hu2, _⟩ := call_kept_run h2 hc1
        have hr2 : run init (pre ++ ([.call u p update] ++ mid)) = some s2 := by
          simp [run_append, h0, run, hs1, h2]
        have g2 := (goodM_run hr2).calls u
        split at hr
        · rename_i s3 hs3
          injection hr with hr; subst hr
          simp only [step?] at hs3
          split at hs3
          · rename_i p' upd' r hc
            split at hs3
            · rename_i ho
              injection hs3 with hs3; subst hs3
              rw [hc] at hc2; injection hc2 with hc2; subst hc2
              simp only at hu2
              rw [hc] at g2
              simp only [callOk] at g2
              refine ⟨r, ?_, ?_, ho.1⟩
              · simp only []; rw [g2.1, hu2]
              · simp [g2.2]
            · cases hs3
          · cases hs3
        · cases hr
    · cases hr

/-- **Exclusive (state form).** In every reachable state at most one of {a runtime request being
    processed, an `UpdateFn` invocation} is inside its section. `inside` is maintained by the
    begin/end events independently of the mutex word. -/
theorem C19_exclusive {h : List (Ev α ε)} {s : State α ε} (hr : run init h = some s) :
    s.inside.length ≤ 1 := by
  rw [(goodM_run hr).insideMu]
  cases s.mu <;> simp

/-- `UpdateFn` runs only while its own call is the one inside, a handler only while its own
    request is. -/
theorem C19_exclusive_fn {h : List (Ev α ε)} {s s' : State α ε} (hr : run init h = some s)
    (u : Uid) (arg : List α) (res : FnResult α ε) (he : step? s (.fn u arg res) = some s') :
    s.inside = [.upd u] := by
  rw [(goodM_run hr).insideMu]
  simp only [step?] at he
  split at he
  · split at he
    · rename_i hg; simp [hg.1]
    · cases he
  · cases he

theorem C19_exclusive_handler {h : List (Ev α ε)} {s s' : State α ε} (hr : run init h = some s)
    (r : Rid) (p : Pid) (he : step? s (.handler r p) = some s') :
    s.inside = [.req r] := by
  rw [(goodM_run hr).insideMu]
  simp only [step?] at he
  split at he
  · rename_i hg; simp [hg]
  · cases he

/-- **Exclusive (interval form).** Split an accepted history at the moment call `u` acquired the
    mutex: until `u` releases it, the history contains no event of any request's processing
    and no `enter`/`fn`/`leave` of another update. -/
theorem C19_exclusive_interval {pre m : List (Ev α ε)} {u : Uid} {s : State α ε}
    (hr : run init (pre ++ [.enter u] ++ m) = some s) (hnl : ∀ e ∈ m, releases (.upd u) e = false) :
    ∀ e ∈ m, foreignTo (.upd u) e = false := by
  rw [List.append_assoc, run_append] at hr
  cases h1 : run init pre with
  | none => simp [h1] at hr
  | some s1 =>
    simp only [h1, Option.bind_some, List.singleton_append, run] at hr
    split at hr
    · rename_i s2 hs2
      have hmu : s2.mu = some (.upd u) := by
        simp only [step?] at hs2
        split at hs2
        · injection hs2 with hs2; subst hs2; rfl
        · cases hs2
      exact (interval_exclusive hmu hr hnl).1
    · cases hr

/-- the same for a runtime request -/
theorem C19_exclusive_interval_req {pre m : List (Ev α ε)} {r : Rid} {s : State α ε}
    (hr : run init (pre ++ [.reqBegin r] ++ m) = some s) (hnl : ∀ e ∈ m, releases (.req r) e = false) :
    ∀ e ∈ m, foreignTo (.req r) e = false := by
  rw [List.append_assoc, run_append] at hr
  cases h1 : run init pre with
  | none => simp [h1] at hr
  | some s1 =>
    simp only [h1, Option.bind_some, List.singleton_append, run] at hr
    split at hr
    · rename_i s2 hs2
      have hmu : s2.mu = some (.req r) := by
        simp only [step?] at hs2
        split at hs2
        · injection hs2 with hs2; subst hs2; rfl
        · cases hs2
      exact (interval_exclusive hmu hr hnl).1
    · cases hr

/-! ### the caller goes away while its update is being processed -/

/-- **The caller's going away moves nothing on the runtime side.** When the connection of the
    plugin that sent call `u` is lost, or the caller stops waiting, the adaptation mutex stays
    where it is, whoever is inside stays inside, the call keeps its phase (a callback in progress
    stays in progress), and no invocation and no result is added or removed. In particular the
    mutex is NOT released on behalf of a callback that has not finished. -/
theorem C19_gone_keeps_lock {s s' : State α ε} {u : Uid} {e : StubErr ε}
    (he : step? s (.gone u e) = some s') :
    s'.mu = s.mu ∧ s'.inside = s.inside ∧ s'.call = s.call ∧ s'.fnRuns = s.fnRuns ∧
      s'.rets = s.rets := by
  simp only [step?] at he
  split at he
  · split at he
    · injection he with he; subst he; exact ⟨rfl, rfl, rfl, rfl, rfl⟩
    · cases he
  · cases he

/-- **Delivered at most once, unchanged, whatever becomes of the caller; a call ends once.** In
    every accepted history a call ends at most once — with the callback's result or with the
    transport's error because its caller went away, never both; a call whose caller went away
    gets no result, and its update still reaches the callback at most once, and then with exactly
    the list the plugin sent. -/
theorem C19_gone_no_result {h : List (Ev α ε)} {s : State α ε} (hr : run init h = some s)
    (u : Uid) :
    (s.lost u).length + (s.rets u).length ≤ 1 ∧
    (s.lost u ≠ [] → s.rets u = [] ∧ (s.fnRuns u).length ≤ 1 ∧
      ∀ arg res, (arg, res) ∈ s.fnRuns u → ∃ p ph, s.call u = some ⟨p, arg, ph⟩) := by
  have g := goodM_run hr
  refine ⟨g.ends u, ?_⟩
  intro hl
  refine ⟨?_, (C19_once hr u).1, fun arg res hm => C19_passthrough_arg hr u arg res hm⟩
  have := g.ends u
  cases hlu : s.lost u with
  | nil => exact absurd hlu hl
  | cons a t =>
    rw [hlu] at this
    cases hru : s.rets u with
    | nil => rfl
    | cons b t' => rw [hru] at this; simp at this; omega

/-- **Exclusive across the caller's going away (interval form).** After call `u` acquired the
    mutex, until `u` itself releases it, the history contains no event of anybody else's section —
    also when `u`'s caller goes away in the middle (`gone u` is not a release). -/
theorem C19_exclusive_gone {pre m₁ m₂ : List (Ev α ε)} {u : Uid} {e : StubErr ε} {s : State α ε}
    (hr : run init (pre ++ [.enter u] ++ (m₁ ++ [.gone u e] ++ m₂)) = some s)
    (hnl : ∀ x ∈ m₁ ++ m₂, releases (.upd u) x = false) :
    ∀ x ∈ m₁ ++ m₂, foreignTo (.upd u) x = false := by
  have hnl' : ∀ x ∈ m₁ ++ [.gone u e] ++ m₂, releases (.upd u) x = false := by
    intro x hx
    simp only [List.mem_append, List.mem_singleton] at hx
    rcases hx with (hx | rfl) | hx
    · exact hnl x (List.mem_append_left _ hx)
    · rfl
    · exact hnl x (List.mem_append_right _ hx)
  intro x hx
  refine C19_exclusive_interval hr hnl' x ?_
  simp only [List.mem_append, List.mem_singleton] at hx ⊢
  rcases hx with hx | hx
  · exact Or.inl (Or.inl hx)
  · exact Or.inr hx

/-! ### non-vacuity -/

/-- two plugins' updates and a request interleave (as far as the mutex allows); call 0 fails
    with error 7, call 1 succeeds with failed list `[20]` -/
def demo : List (Ev Nat Nat) :=
  [.call 0 1 [10, 11], .call 1 2 [20, 21], .reqBegin 5, .handler 5 1, .handler 5 2, .reqEnd 5,
   .enter 1, .fn 1 [20, 21] ⟨[20], none⟩, .leave 1,
   .enter 0, .ret 1 ([20], none), .fn 0 [10, 11] ⟨[10], some 7⟩, .leave 0,
   .ret 0 ([], some (.rpc 7)), .callUnstarted 3 [1] ([], some .noService)]

example : ∃ s, run init demo = some s ∧ s.rets 0 = [([], some (.rpc 7))] ∧
    s.rets 1 = [([20], none)] ∧ s.fnRuns 0 = [([10, 11], ⟨[10], some 7⟩)] ∧ s.inside = [] :=
  ⟨_, rfl, by decide, by decide, by decide, by decide⟩

/-- the model refuses: a second owner while the mutex is held; an altered argument; an altered
    result; a second invocation; a blocked or wrong answer from an unstarted stub -/
example : run init ([.call 0 1 [10], .reqBegin 5, .enter 0] : List (Ev Nat Nat)) = none := by decide
example : run init ([.call 0 1 [10], .enter 0, .reqBegin 5] : List (Ev Nat Nat)) = none := by decide
example : run init ([.call 0 1 [10], .enter 0, .fn 0 [11] ⟨[], none⟩] : List (Ev Nat Nat)) = none := by
  decide
example : run init ([.call 0 1 [10], .enter 0, .fn 0 [10] ⟨[10], none⟩, .leave 0,
    .ret 0 ([], none)] : List (Ev Nat Nat)) = none := by decide
example : run init ([.call 0 1 [10], .enter 0, .fn 0 [10] ⟨[], none⟩, .fn 0 [10] ⟨[], none⟩] :
    List (Ev Nat Nat)) = none := by decide
example : run init ([.callUnstarted 3 [1] ([], none)] : List (Ev Nat Nat)) = none := by decide

/-- plugin 1's connection is lost while the callback runs for its call 0: the call ends with the
    transport's error, the callback finishes under the mutex, and only then the request and
    plugin 2's update get in -/
def demoGone : List (Ev Nat Nat) :=
  [.call 0 1 [10, 11], .enter 0, .call 1 2 [20], .gone 0 (.rpc 99), .fn 0 [10, 11] ⟨[10], none⟩,
   .leave 0, .reqBegin 5, .handler 5 2, .reqEnd 5, .enter 1, .fn 1 [20] ⟨[], none⟩, .leave 1,
   .ret 1 ([], none)]

example : ∃ s, run init demoGone = some s ∧ s.lost 0 = [.rpc 99] ∧ s.rets 0 = [] ∧
    s.fnRuns 0 = [([10, 11], ⟨[10], none⟩)] ∧ s.rets 1 = [([], none)] ∧ s.inside = [] :=
  ⟨_, rfl, by decide, by decide, by decide, by decide, by decide⟩

/-- the model refuses: a request, or another plugin's update, getting in after the caller went
    away but before the callback finished (the lock released early); a result delivered to a
    caller that is gone; a caller going away twice, or after its call returned -/
example : run init ([.call 0 1 [10], .enter 0, .gone 0 (.rpc 99), .reqBegin 5] :
    List (Ev Nat Nat)) = none := by decide
example : run init ([.call 0 1 [10], .call 1 2 [20], .enter 0, .gone 0 (.rpc 99), .enter 1] :
    List (Ev Nat Nat)) = none := by decide
example : run init ([.call 0 1 [10], .enter 0, .gone 0 (.rpc 99), .fn 0 [10] ⟨[], none⟩, .leave 0,
    .ret 0 ([], none)] : List (Ev Nat Nat)) = none := by decide
example : run init ([.call 0 1 [10], .gone 0 (.rpc 99), .gone 0 (.rpc 99)] :
    List (Ev Nat Nat)) = none := by decide
example : run init ([.call 0 1 [10], .enter 0, .fn 0 [10] ⟨[], none⟩, .leave 0, .ret 0 ([], none),
    .gone 0 (.rpc 99)] : List (Ev Nat Nat)) = none := by decide

end Nri.Props.C19
