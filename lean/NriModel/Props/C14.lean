import NriModel.Events
/-! Property theorems for C14 (conversions, copies, optional constructors, event masks). -/
namespace Nri.Props.C14
open Nri.Events

/-- `ValidEvents` is the thirteen low bits. -/
theorem valid_eq : valid = 0x1fff#32 := by decide

end Nri.Props.C14
