import NriModel.Events
import NriModel.Convert
import NriModel.Lemmas.Events
import NriModel.Lemmas.Convert
/-!
Property theorems for C14 — "NRI/OCI conversions are lossless and copies share no state".

Reading guide.  `OciResources`/`NriResources` are the two representations; `Carried` is the flat
record of the fields BOTH carry, and `.carried` reads a value into it, a nil `Memory`/`CPU`
section reading as "every scalar of the section unset".  An optional scalar is an `Option`:
`none` = unset, `some 0` = set to zero — so an equation between `Option`s is exactly "unset
stays unset and a set value stays set to the same value, zero included".  Maps are association
lists with distinct keys (`AList.WF`), which is what a Go map is.

What is NOT here: "copies share no mutable state" is a statement about Go memory, which a
value model cannot express.  It is measured by the harness (differential mutation test, case
kind `alias`), not proved.
-/
namespace Nri.Props.C14
open Nri.Events Nri.Convert

/-! ## Event masks -/

/-- `ValidEvents` is the thirteen low bits. -/
theorem valid_eq : valid = 0x1fff#32 := Nri.Events.valid_eq

/-- **Printing a mask and parsing it back returns the mask** — for every non-empty mask within
`ValidEvents` (all 8191 of them, by a structural argument, not by enumeration):
`PrettyString` is the comma-join of the names of the set events in order; `ParseEventMask`
lower-cases, splits at commas, and folds the parse table over the pieces. -/
theorem C14_mask (m : BitVec 32) (h0 : m ≠ 0#32) (hv : m &&& ~~~valid = 0#32) :
    parse [pretty m] = some m := by
  have hes := evs_le_13 hv
  have hfold := foldl_set_evs_valid hv
  have hne : evs 14 1 m ≠ [] := by
    intro h
    rw [h] at hfold
    exact h0 hfold.symm
  have hlow : toLower (pretty m) = joinWith [','] ((evs 14 1 m).map lcName) := by
    rw [pretty_eq_of_valid hv, toLower_joinWith, List.map_map]
    rfl
  have hsplit : splitOnChar ',' (toLower (pretty m)) = (evs 14 1 m).map lcName := by
    rw [hlow]
    apply splitOnChar_joinWith
    · simpa using hne
    · intro x hx
      obtain ⟨e, he, rfl⟩ := List.mem_map.mp hx
      obtain ⟨h1, h13⟩ := hes e he
      exact (name_facts e (by rw [List.mem_range'_1]; omega)).1
  unfold parse
  simp only [List.foldlM_cons, List.foldlM_nil]
  unfold parseOne
  rw [hsplit, foldlM_parseName _ _ hes, hfold]
  rfl

example : (0x1555#32 : BitVec 32) ≠ 0#32 ∧ (0x1555#32 &&& ~~~valid = 0#32) ∧
    pretty 0x1555#32 = str "RunPodSandbox,RemovePodSandbox,PostCreateContainer,PostStartContainer,PostUpdateContainer,RemoveContainer,PostUpdatePodSandbox" := by
  decide +kernel

/-- The domain of `C14_mask` is exactly the 8191 masks 1 … 0x1fff. -/
theorem C14_mask_domain (m : BitVec 32) :
    (m ≠ 0#32 ∧ m &&& ~~~valid = 0#32) ↔ (1 ≤ m.toNat ∧ m.toNat ≤ 8191) := by
  rw [within_valid_iff]
  constructor
  · rintro ⟨h0, h⟩
    refine ⟨?_, h⟩
    rcases Nat.eq_zero_or_pos m.toNat with hz | hz
    · exact absurd (BitVec.eq_of_toNat_eq (by simpa using hz)) h0
    · exact hz
  · rintro ⟨h1, h⟩
    refine ⟨?_, h⟩
    intro hz
    rw [hz] at h1
    simp at h1

/-- The empty mask is the excluded point: it prints as "" and "" is not an event name. -/
theorem C14_mask_empty : pretty 0#32 = [] ∧ parse [pretty 0#32] = none := by decide

/-- Algebra of `IsSet`/`Set`/`Clear` for event numbers 1 … 32 (used by C06, C15, C17):
setting makes it set, clearing makes it unset, and neither touches any other event. -/
theorem C14_mask_algebra (m : BitVec 32) (e e' : Nat) (h1 : 1 ≤ e) (h32 : e ≤ 32) (h1' : 1 ≤ e') (hne : e ≠ e') :
    isSet (set m e) e = true ∧ isSet (clear m e) e = false ∧
    isSet (set m e) e' = isSet m e' ∧ isSet (clear m e) e' = isSet m e' :=
  ⟨isSet_set_self m h32, isSet_clear_self m e, isSet_set_other m h1 h1' hne, isSet_clear_other m h1 h1' hne⟩

example : isSet (set 0#32 4) 4 = true ∧ isSet (set 0#32 4) 5 = false := by decide

/-- `ValidEvents` contains exactly the events 1 … 13. -/
theorem C14_valid_events (e : Nat) (h : 1 ≤ e) : isSet valid e = decide (e ≤ 13) := isSet_valid h

/-! ## Resources -/

/-- **OCI → NRI → OCI.**  Exactly what comes back (`ociNorm`): every field both representations
carry, unchanged; the OCI-only fields (`CheckBeforeUpdate`, `Burst`, `Idle`, `BlockIO`,
`Network`, `Rdma`) dropped; and an absent `Memory`/`CPU` section returned as a present section
with every field unset.  Consequently the carried view is preserved. -/
theorem C14_resources_oci_nri_oci (o : OciResources) (hwf : AList.WF o.unified) :
    toOCIResources (fromOCIResources (some o)) = some (ociNorm o) ∧ (ociNorm o).carried = o.carried :=
  ⟨toOCI_fromOCI o hwf, ociNorm_carried o⟩

/-- **NRI → OCI → NRI.**  Exactly what comes back (`nriNorm`): every carried field unchanged;
the NRI-only `BlockioClass`/`RdtClass` dropped; nil `Memory`/`Cpu` sections returned as present
sections with every field unset. -/
theorem C14_resources_nri_oci_nri (r : NriResources) (hwf : AList.WF r.unified) :
    fromOCIResources (toOCIResources (some r)) = some (nriNorm r) ∧ (nriNorm r).carried = r.carried :=
  ⟨fromOCI_toOCI r hwf, nriNorm_carried r⟩

/-- a resources value with a limit SET TO ZERO next to an UNSET swap, hugepages, a unified map -/
def exampleNri : NriResources :=
  { memory := some { emptyNriMemory with limit := some (I64.ofInt 0), kernel := some (I64.ofInt (-1)) },
    cpu := none, hugepages := [⟨str "2MB", U64.ofNat 0⟩], blockioClass := some [], rdtClass := none,
    unified := [(str "memory.high", str "1")], devices := [⟨true, str "c", some (I64.ofInt 0), none, str "rwm"⟩],
    pids := some ⟨I64.ofInt 0⟩ }

example : AList.WF exampleNri.unified ∧ exampleNri.carried.memLimit = some (I64.ofInt 0) ∧
    exampleNri.carried.memSwap = none ∧ nriNorm exampleNri ≠ exampleNri :=
  ⟨by unfold AList.WF AList.keys; decide, by decide⟩

/-- Each single conversion already preserves the carried view (so does any composition). -/
theorem C14_resources_one_way (o : OciResources) (r : NriResources)
    (ho : AList.WF o.unified) (hr : AList.WF r.unified) :
    (∃ n, fromOCIResources (some o) = some n ∧ n.carried = o.carried) ∧
    (∃ o', toOCIResources (some r) = some o' ∧ o'.carried = r.carried) :=
  ⟨fromOCI_carried o ho, toOCI_carried r hr⟩

/-- nil converts to nil, in both directions and for `Copy`. -/
theorem C14_resources_nil :
    fromOCIResources none = none ∧ toOCIResources none = none ∧ copyResources none = none :=
  ⟨rfl, rfl, rfl⟩

/-- **Unset versus set-to-zero.**  For each of the thirteen optional scalars (and the optional
`Pids` section), whether it is unset, set to zero or set to any other value survives both round
trips: the equations are between `Option`s, so `none ↦ none` and `some v ↦ some v` for every
`v`, `0`/`false` included. -/
theorem C14_optional_preserved (o b : OciResources) (r n : NriResources)
    (ho : AList.WF o.unified) (hr : AList.WF r.unified)
    (hb : toOCIResources (fromOCIResources (some o)) = some b)
    (hn : fromOCIResources (toOCIResources (some r)) = some n) :
    (b.carried.memLimit = o.carried.memLimit ∧ b.carried.memReservation = o.carried.memReservation ∧
     b.carried.memSwap = o.carried.memSwap ∧ b.carried.memKernel = o.carried.memKernel ∧
     b.carried.memKernelTcp = o.carried.memKernelTcp ∧ b.carried.memSwappiness = o.carried.memSwappiness ∧
     b.carried.memDisableOom = o.carried.memDisableOom ∧ b.carried.memUseHierarchy = o.carried.memUseHierarchy ∧
     b.carried.cpuShares = o.carried.cpuShares ∧ b.carried.cpuQuota = o.carried.cpuQuota ∧
     b.carried.cpuPeriod = o.carried.cpuPeriod ∧ b.carried.cpuRtRuntime = o.carried.cpuRtRuntime ∧
     b.carried.cpuRtPeriod = o.carried.cpuRtPeriod ∧ b.carried.pids = o.carried.pids) ∧
    (n.carried.memLimit = r.carried.memLimit ∧ n.carried.memReservation = r.carried.memReservation ∧
     n.carried.memSwap = r.carried.memSwap ∧ n.carried.memKernel = r.carried.memKernel ∧
     n.carried.memKernelTcp = r.carried.memKernelTcp ∧ n.carried.memSwappiness = r.carried.memSwappiness ∧
     n.carried.memDisableOom = r.carried.memDisableOom ∧ n.carried.memUseHierarchy = r.carried.memUseHierarchy ∧
     n.carried.cpuShares = r.carried.cpuShares ∧ n.carried.cpuQuota = r.carried.cpuQuota ∧
     n.carried.cpuPeriod = r.carried.cpuPeriod ∧ n.carried.cpuRtRuntime = r.carried.cpuRtRuntime ∧
     n.carried.cpuRtPeriod = r.carried.cpuRtPeriod ∧ n.carried.pids = r.carried.pids) := by
  have e1 : b.carried = o.carried := by
    rw [toOCI_fromOCI o ho] at hb
    rw [← Option.some.inj hb, ociNorm_carried]
  have e2 : n.carried = r.carried := by
    rw [fromOCI_toOCI r hr] at hn
    rw [← Option.some.inj hn, nriNorm_carried]
  rw [e1, e2]
  simp

example : (fromOCIResources (toOCIResources (some exampleNri))).map (fun n => (n.carried.memLimit, n.carried.memSwap)) =
    some (some (I64.ofInt 0), none) := by decide

/-- The points where a round trip is NOT the identity, stated: NRI → OCI → NRI returns its
argument iff both sections were present and no class was set; OCI → NRI → OCI returns its
argument iff both sections were present and no OCI-only field was populated. -/
theorem C14_resources_not_carried (r : NriResources) (o : OciResources) :
    (nriNorm r = r ↔ r.memory.isSome ∧ r.cpu.isSome ∧ r.blockioClass = none ∧ r.rdtClass = none) ∧
    (ociNorm o = o ↔ (∃ m, o.memory = some m ∧ m.checkBeforeUpdate = none) ∧
                      (∃ c, o.cpu = some c ∧ c.burst = none ∧ c.idle = none) ∧ o.uncarried = []) := by
  constructor
  · obtain ⟨mem, cpu, hp, bc, rc, uni, dev, pids⟩ := r
    cases mem <;> cases cpu <;> simp [nriNorm, eq_comm]
  · obtain ⟨dev, mem, cpu, pids, hp, uni, unc⟩ := o
    cases mem with
    | none => cases cpu <;> simp [ociNorm]
    | some m =>
      cases cpu with
      | none => simp [ociNorm]
      | some c =>
        obtain ⟨a1, a2, a3, a4, a5, a6, a7, a8, a9⟩ := m
        obtain ⟨b1, b2, b3, b4, b5, b6, b7, b8, b9⟩ := c
        simp [ociNorm, eq_comm]

/-- The order in which Go's `range` happens to yield the entries of `Unified` is irrelevant:
copying any permutation of the entries yields the same map. -/
theorem C14_map_order_irrelevant (m perm : AList Str Str) (hwf : AList.WF m) (hp : perm.Perm m) :
    ∀ k, AList.lookup (dupMap perm) k = AList.lookup m k := dupMap_perm m perm hwf hp

example : AList.WF [(str "a", str "1"), (str "b", str "2")] ∧
    [(str "b", str "2"), (str "a", str "1")].Perm [(str "a", str "1"), (str "b", str "2")] :=
  ⟨by unfold AList.WF AList.keys; decide, List.Perm.swap _ _ _⟩

/-! ## Copy -/

/-- **`Copy` is equal to its source** on memory, CPU, hugepage limits, unified, pids and the two
class fields.  (It is the source with `Devices` dropped: the code does not copy the device
cgroup rules, and the property does not list them.) -/
theorem C14_copy_eq (r : NriResources) (hwf : AList.WF r.unified) :
    ∃ c, copyResources (some r) = some c ∧
      c.memory = r.memory ∧ c.cpu = r.cpu ∧ c.hugepages = r.hugepages ∧ c.unified = r.unified ∧
      c.pids = r.pids ∧ c.blockioClass = r.blockioClass ∧ c.rdtClass = r.rdtClass ∧ c.devices = [] :=
  ⟨_, copy_eq r hwf, rfl, rfl, rfl, rfl, rfl, rfl, rfl, rfl⟩

example : (copyResources (some exampleNri)).map (fun c => (c.memory, c.blockioClass, c.devices)) =
    some (exampleNri.memory, some [], []) := by decide

/-! ## Optional constructors -/

/-- **Constructors: nil ↦ unset, a value ↦ exactly that value** — for every constructor and every
dynamic argument type its type switch accepts.  For `Int64` given an unsigned argument and
`UInt64` given a signed one the stored bit pattern is the argument's, and the stored VALUE is
the argument's value exactly when it is representable (`< 2^63`, resp. `≥ 0`). -/
theorem C14_ctor :
    -- String, Int, Int32, UInt32, Bool share one shape
    (∀ (α : Type) (v : α), optOf (.val v) = some v ∧ optOf (.ptr (some v)) = some v ∧
        optOf (.opt (some v)) = some v ∧ optOf (Arg.ptr (none : Option α)) = none ∧
        optOf (Arg.opt (none : Option α)) = none) ∧
    -- Int64
    (∀ v : I64, optInt64 (.int v) = some v ∧ optInt64 (.int64 v) = some v ∧
        optInt64 (.pInt64 (some v)) = some v ∧ optInt64 (.opt (some v)) = some v) ∧
    (optInt64 (.pInt64 none) = none ∧ optInt64 (.pUint64 none) = none ∧ optInt64 (.opt none) = none) ∧
    (∀ u : U64, u.val < 2 ^ 63 → ∀ a ∈ [Int64Arg.uint u, .uint64 u, .pUint64 (some u)],
        ∃ w, optInt64 a = some w ∧ w.val = (u.val : Int)) ∧
    -- UInt64
    (∀ v : U64, optUInt64 (.uint v) = some v ∧ optUInt64 (.uint64 v) = some v ∧
        optUInt64 (.pUint64 (some v)) = some v ∧ optUInt64 (.opt (some v)) = some v) ∧
    (optUInt64 (.pInt64 none) = none ∧ optUInt64 (.pUint64 none) = none ∧ optUInt64 (.opt none) = none) ∧
    (∀ i : I64, 0 ≤ i.val → ∀ a ∈ [UInt64Arg.int i, .int64 i, .pInt64 (some i)],
        ∃ w, optUInt64 a = some w ∧ (w.val : Int) = i.val) ∧
    -- FileMode
    (∀ v : U32, optFileMode (.mode v) = some v ∧ optFileMode (.u32 v) = some v ∧
        optFileMode (.pMode (some v)) = some v ∧ optFileMode (.opt (some v)) = some v) ∧
    (optFileMode (.pMode none) = none ∧ optFileMode (.opt none) = none) ∧
    -- Get
    (∀ (α : Type) (o : Option α), optGet o = o) := by
  refine ⟨fun _ _ => ⟨rfl, rfl, rfl, rfl, rfl⟩, fun _ => ⟨rfl, rfl, rfl, rfl⟩, ⟨rfl, rfl, rfl⟩, ?_,
    fun _ => ⟨rfl, rfl, rfl, rfl⟩, ⟨rfl, rfl, rfl⟩, ?_, fun _ => ⟨rfl, rfl, rfl, rfl⟩, ⟨rfl, rfl⟩,
    fun _ o => optGet_eq o⟩
  · intro u hu a ha
    have := (U64.toI64_val u).mpr hu
    simp only [List.mem_cons, List.mem_nil_iff, or_false] at ha
    rcases ha with rfl | rfl | rfl <;> exact ⟨_, rfl, this⟩
  · intro i hi a ha
    have := (I64.toU64_val i).mpr hi
    simp only [List.mem_cons, List.mem_nil_iff, or_false] at ha
    rcases ha with rfl | rfl | rfl <;> exact ⟨_, rfl, this⟩

example : optInt64 (.pInt64 (some (I64.ofInt 0))) = some (I64.ofInt 0) ∧ optInt64 (.pInt64 none) = none ∧
    (some (I64.ofInt 0) : Option I64) ≠ none := by decide

/-- The excluded points of `C14_ctor`, stated.  (1) A value that the target type cannot
represent wraps: the stored value differs from the argument's exactly then.  (2) A dynamic type
the switch does not list (`int32` handed to `Int64`, `int64` handed to `Int`, …) falls to
`default: return nil` — a VALUE becomes UNSET. -/
theorem C14_ctor_excluded :
    (∀ u : U64, ¬ u.val < 2 ^ 63 → ∃ w, optInt64 (.uint64 u) = some w ∧ w.val ≠ (u.val : Int)) ∧
    (∀ i : I64, ¬ 0 ≤ i.val → ∃ w, optUInt64 (.int64 i) = some w ∧ (w.val : Int) ≠ i.val) ∧
    (optInt64 (.uint64 (U64.ofNat (2 ^ 63)))).map I64.val = some (-(2 ^ 63 : Int)) ∧
    (optUInt64 (.int64 (I64.ofInt (-1)))).map U64.val = some (2 ^ 64 - 1) ∧
    optInt64 .other = none ∧ optUInt64 .other = none ∧ optFileMode .other = none ∧
    (∀ α : Type, optOf (Arg.other : Arg α) = none) := by
  refine ⟨fun u hu => ⟨_, rfl, fun h => hu ((U64.toI64_val u).mp h)⟩,
    fun i hi => ⟨_, rfl, fun h => hi ((I64.toU64_val i).mp h)⟩, by decide, by decide, rfl, rfl, rfl, fun _ => rfl⟩

/-- **The literal `nil` ↦ unset.**  Every one of the eight constructors maps the untyped nil
interface value (`Int64(nil)`, `Bool(nil)`, …) to unset: no `case` of its type switch matches a
nil interface, so the `default` arm returns nil.  (Nil POINTERS of each accepted pointer type are
covered by `C14_ctor`.) -/
theorem C14_ctor_nil :
    (∀ α : Type, optOf (Arg.nil : Arg α) = none) ∧
    optString .nil = none ∧ optInt .nil = none ∧ optInt32 .nil = none ∧ optUInt32 .nil = none ∧
    optBool .nil = none ∧ optInt64 .nil = none ∧ optUInt64 .nil = none ∧ optFileMode .nil = none :=
  ⟨fun _ => rfl, rfl, rfl, rfl, rfl, rfl, rfl, rfl, rfl⟩

example : optInt64 .nil = none ∧ optInt64 (.int64 (I64.ofInt 0)) = some (I64.ofInt 0) ∧
    optBool .nil = none ∧ optBool (.val false) = some false := by decide

/-! ## Mounts, devices, hooks -/

/-- **Mounts.**  OCI → NRI → OCI returns every mount with its destination, type, source and
options (the OCI-only id mappings dropped); NRI → OCI → NRI is the identity, whatever the
propagation query; the query pointer, when given, ends up holding the last of
`rprivate`/`rshared`/`rslave` among the options, else keeps its content. -/
theorem C14_mounts (ms : List OciMount) (ns : List NriMount) (q : Option Str) (init : Str) :
    (fromOCIMounts ms).map (fun m => (mountToOCI m none).1) = ms.map (fun m => { m with idMapped := false }) ∧
    fromOCIMounts (ns.map (fun m => (mountToOCI m q).1)) = ns ∧
    (∀ m : NriMount, (mountToOCI m none).2 = none ∧
      (mountToOCI m (some init)).2 = some (m.options.foldl (fun a o => if isPropagation o then o else a) init)) := by
  refine ⟨?_, ?_, fun m => ⟨?_, ?_⟩⟩
  · induction ms with
    | nil => rfl
    | cons m rest ih =>
      simp only [fromOCIMounts, List.map_cons, List.map_map] at ih ⊢
      rw [ih]
      simp [mountToOCI_fst]
  · induction ns with
    | nil => rfl
    | cons m rest ih =>
      simp only [fromOCIMounts, List.map_cons, List.map_map] at ih ⊢
      rw [ih]
      simp [mountToOCI_fst]
  · unfold mountToOCI
    have := mountOptLoop_snd_none m.options []
    cases h : mountOptLoop m.options [] none with
    | mk a b => simp [h] at this ⊢; exact this
  · unfold mountToOCI
    have := mountOptLoop_snd_some m.options [] init
    cases h : mountOptLoop m.options [] (some init) with
    | mk a b => simp [h] at this ⊢; exact this

example : (mountToOCI ⟨str "/d", str "bind", str "/s", [str "ro", str "rshared", str "rslave", str "x"]⟩ (some [])).2 =
    some (str "rslave") := by decide

/-- **Devices.**  Both round trips are the identity, file mode / uid / gid included with their
unset-versus-zero status; a nil `*LinuxDevice` converts to the zero device. -/
theorem C14_devices (ds : List Device) :
    (fromOCIDevices ds).map (fun d => deviceToOCI (some d)) = ds ∧
    fromOCIDevices (ds.map (fun d => deviceToOCI (some d))) = ds ∧
    deviceToOCI none = zeroDevice := by
  refine ⟨?_, ?_, rfl⟩
  · induction ds with
    | nil => rfl
    | cons d rest ih =>
      simp only [fromOCIDevices, List.map_cons, List.map_map] at ih ⊢
      rw [ih]
      cases d; simp [deviceToOCI, optUInt32]
  · induction ds with
    | nil => rfl
    | cons d rest ih =>
      simp only [fromOCIDevices, List.map_cons, List.map_map] at ih ⊢
      rw [ih]
      cases d; simp [deviceToOCI, optUInt32]

example : fromOCIDevices [⟨str "/dev/x", str "c", I64.ofInt 1, I64.ofInt 2, some (U32.ofNat 0), none, some (U32.ofNat 0)⟩] =
    [⟨str "/dev/x", str "c", I64.ofInt 1, I64.ofInt 2, some (U32.ofNat 0), none, some (U32.ofNat 0)⟩] := by decide

/-- **Hooks.**  Both round trips are the identity on every hook (path, args, env, and the timeout
with its unset-versus-zero status), list by list; `FromOCIHooks(nil) = nil`. -/
theorem C14_hooks (hs : List Hook) (h : Hooks) :
    (fromOCIHookSlice hs).map hookToOCI = hs ∧ fromOCIHookSlice (hs.map hookToOCI) = hs ∧
    fromOCIHooks (some h) = some h ∧ fromOCIHooks none = none := by
  have key : ∀ l : List Hook, fromOCIHookSlice l = l := by
    intro l
    induction l with
    | nil => rfl
    | cons x rest ih =>
      simp only [fromOCIHookSlice, List.map_cons] at ih ⊢
      rw [ih]
      cases x; simp [optInt]
  have key2 : ∀ l : List Hook, l.map hookToOCI = l := by
    intro l
    induction l with
    | nil => rfl
    | cons x rest ih =>
      simp only [List.map_cons]
      rw [ih]
      cases x; simp [hookToOCI]
  refine ⟨by rw [key, key2], by rw [key2, key], ?_, rfl⟩
  cases h; simp [fromOCIHooks, key]

example : fromOCIHookSlice [⟨str "/h", [str "a"], [], some (I64.ofInt 0)⟩, ⟨str "/g", [], [str "K=V"], none⟩] =
    [⟨str "/h", [str "a"], [], some (I64.ofInt 0)⟩, ⟨str "/g", [], [str "K=V"], none⟩] := by decide

/-! ## Environment -/

/-- **Environment.**  A key without `=` round-trips NRI → OCI → NRI (whatever the value, `=`s
included); an OCI entry that contains `=` round-trips OCI → NRI → OCI, split at the FIRST `=`. -/
theorem C14_env (kvs : List KeyValue) (env : List Str)
    (hk : ∀ kv ∈ kvs, '=' ∉ kv.key) (he : ∀ s ∈ env, '=' ∈ s) :
    fromOCIEnv (kvs.map kvToOCI) = kvs ∧ (fromOCIEnv env).map kvToOCI = env := by
  constructor
  · induction kvs with
    | nil => rfl
    | cons kv rest ih =>
      simp only [fromOCIEnv, List.map_cons, List.map_map] at ih ⊢
      rw [ih (fun x hx => hk x (by simp [hx])), fromOCIEnvEntry_kvToOCI kv (hk kv (by simp))]
  · induction env with
    | nil => rfl
    | cons s rest ih =>
      simp only [fromOCIEnv, List.map_cons, List.map_map] at ih ⊢
      rw [ih (fun x hx => he x (by simp [hx])), kvToOCI_fromOCIEnvEntry, joinKV_splitFirstEq]
      simp [he s (by simp)]

example : fromOCIEnv [str "PATH=/bin:/usr/bin", str "A=b=c", str "E="] =
    [⟨str "PATH", str "/bin:/usr/bin"⟩, ⟨str "A", str "b=c"⟩, ⟨str "E", []⟩] := by decide

/-- The excluded point of `C14_env`, stated: an OCI entry WITHOUT `=` comes back with `=`
appended (NRI cannot tell `NAME` from `NAME=`). -/
theorem C14_env_noeq (s : Str) (h : '=' ∉ s) : (fromOCIEnv [s]).map kvToOCI = [s ++ ['=']] := by
  simp only [fromOCIEnv, List.map_cons, List.map_nil]
  rw [kvToOCI_fromOCIEnvEntry, joinKV_splitFirstEq]
  simp [h]

example : (fromOCIEnv [str "NAME"]).map kvToOCI = [str "NAME="] := by decide

/-- The other excluded point: a KEY containing `=` does not round-trip (the split moves the
tail of the key into the value). -/
theorem C14_env_eqkey : fromOCIEnv [kvToOCI ⟨str "a=b", str "c"⟩] = [⟨str "a", str "b=c"⟩] := by decide

end Nri.Props.C14
