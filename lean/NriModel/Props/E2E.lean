import NriModel.Lemmas.DispatchResult
import NriModel.Props.C07
import NriModel.Props.C01
import NriModel.Props.C02
import NriModel.Props.C15
import NriModel.Props.C17
/-!
# End to end: the request loop (C06/C07) composed with the response collector (C01–C05)

`Nri.Dispatch.request` models the loop of `Adaptation.CreateContainer / UpdateContainer /
StopContainer` over the registered plugins — subscription filter, per-plugin call with its
fault outcomes, veto, deferred pruning — with result collection abstracted as a `Merger`.
`Nri.Result` models what the collector does with one response. Here the two are plugged
together: the merger IS the collector, so the theorems of C01–C05, which speak about chains of
responses, apply to what the runtime's loop actually feeds the collector: the responses of the
subscribed plugins whose call succeeded, in index order.
-/
namespace Nri.Props.E2E
open Nri Nri.NApi Nri.Result Nri.Ledger Nri.Dispatch Nri.Events

/-- the name the collector knows a plugin by: `p.name()` = index-name -/
def fullName (p : Dispatch.Plugin) : Result.Plugin := p.idx ++ '-' :: p.name

/-- result.go as the loop's merger, for a request that starts the collector in `st0`
    (`collectCreateContainerResult` …): `apply` = `result.apply(rpl, plugin.name())`, the reply
    = the adjustment and the update list handed to the runtime. -/
def collector (st0 : State) : Merger Response State (Adjustment × List (Option Update)) Result.Err :=
  { init := st0,
    apply := fun st p r => Result.apply Quirks.fixed st (fullName p) r,
    finish := fun st => (st.reply, replyUpdates st) }

/-- the chain the collector sees: responses of subscribed, non-failing plugins, by name -/
def chainOf (rs : List (Dispatch.Plugin × Response)) : List (Result.Plugin × Option Response) :=
  rs.map fun (p, r) => (fullName p, some r)

theorem combine_collector (st0 : State) (rs : List (Dispatch.Plugin × Response)) :
    (∀ st, combine (collector st0) st rs = .ok st' → run Quirks.fixed st (chainOf rs) = .ok st') ∧
    (∀ st, (∃ pe, combine (collector st0) st rs = .error pe) ↔ (∃ e, run Quirks.fixed st (chainOf rs) = .error e)) := by
  induction rs with
  | nil =>
    constructor
    · intro st h; simpa [combine, chainOf, run] using h
    · intro st; simp [combine, chainOf, run]
  | cons x rest ih =>
    obtain ⟨p, r⟩ := x
    constructor
    · intro st h
      simp only [combine, collector] at h
      simp only [chainOf, List.map_cons, run]
      cases ha : Result.apply Quirks.fixed st (fullName p) r with
      | error e => rw [ha] at h; cases h
      | ok st1 => rw [ha] at h; exact ih.1 st1 h
    · intro st
      simp only [combine, collector, chainOf, List.map_cons, run]
      cases ha : Result.apply Quirks.fixed st (fullName p) r with
      | error e => simp
      | ok st1 => exact ih.2 st1

/-- **End to end (success).** When no subscribed plugin answers with its own error, a request
    succeeds exactly when the collector accepts the chain of ok responses, and then its reply is
    the collector's reply for that chain: plugins that are unsubscribed, disconnected, time out
    or break the protocol are as if absent. -/
theorem E2E_reply (st0 : State) (T : Nat) (ev : EventNo) (pcs : List (Dispatch.Plugin × Call Response))
    (hv : hasVeto T ev pcs = false) :
    (∀ st', run Quirks.fixed st0 (chainOf (okResponses T ev pcs)) = .ok st' →
        (request (collector st0) T ev pcs).1 = .ok (st'.reply, replyUpdates st')) ∧
    ((∃ e, run Quirks.fixed st0 (chainOf (okResponses T ev pcs)) = .error e) →
        ∃ p e, (request (collector st0) T ev pcs).1 = .error (.merge p e)) := by
  have h := (C07.C07_result (collector st0) T ev pcs hv).1
  constructor
  · intro st' hr
    rw [h]
    cases hc : combine (collector st0) (collector st0).init (okResponses T ev pcs) with
    | ok st2 =>
      have := (combine_collector (st' := st2) st0 (okResponses T ev pcs)).1 st0 hc
      rw [hr] at this; cases this
      rfl
    | error pe =>
      exfalso
      have := ((combine_collector (st' := st') st0 (okResponses T ev pcs)).2 st0).1 ⟨pe, hc⟩
      obtain ⟨e, he⟩ := this
      rw [hr] at he; cases he
  · intro he
    rw [h]
    cases hc : combine (collector st0) (collector st0).init (okResponses T ev pcs) with
    | ok st2 =>
      exfalso
      have := (combine_collector (st' := st2) st0 (okResponses T ev pcs)).1 st0 hc
      obtain ⟨e, he⟩ := he
      rw [this] at he; cases he
    | error pe => exact ⟨pe.1, pe.2, rfl⟩

/-- **End to end (C01).** If two subscribed, answering plugins both strictly set one item of
    one container and no answering plugin from the later one back to the earlier one marks it
    for removal, the runtime's request fails — whatever unsubscribed, failing or timed-out
    plugins sit before, between or after them. -/
theorem E2E_collision_fails (st0 : State) (T : Nat) (ev : EventNo) (pcs : List (Dispatch.Plugin × Call Response))
    (hv : hasVeto T ev pcs = false)
    (pre mid post : List (Dispatch.Plugin × Response)) (pi pj : Dispatch.Plugin) (ri rj : Response)
    (hok : okResponses T ev pcs = pre ++ (pi, ri) :: (mid ++ (pj, rj) :: post))
    (c : Cid) (it : Item)
    (hsi : it ∈ setsOn true st0.kind ri c) (hsj : it ∈ setsOn true st0.kind rj c)
    (hnj : it ∉ removesOn st0.kind rj c)
    (hmid : ∀ x ∈ mid, it ∉ removesOn st0.kind x.2 c) :
    ∃ p e, (request (collector st0) T ev pcs).1 = .error (.merge p e) := by
  apply (E2E_reply st0 T ev pcs hv).2
  rw [hok]
  have : chainOf (pre ++ (pi, ri) :: (mid ++ (pj, rj) :: post)) =
      chainOf pre ++ (fullName pi, some ri) :: (chainOf mid ++ (fullName pj, some rj) :: chainOf post) := by
    simp [chainOf]
  rw [this]
  apply C01.C01_collision_flagged st0 (chainOf pre) (chainOf mid) (chainOf post) (fullName pi) (fullName pj) ri rj c it hsi hsj hnj
  intro p r hm
  simp only [chainOf, List.mem_map] at hm
  obtain ⟨x, hx, heq⟩ := hm
  obtain ⟨xp, xr⟩ := x
  simp only [Prod.mk.injEq, Option.some.injEq] at heq
  obtain ⟨_, rfl⟩ := heq
  exact hmid (xp, xr) hx

/-- **End to end (C02).** If the abstract ledger accepts the ok responses of a request (no two
    answering plugins set the same item unless released), the request succeeds with the
    collector's reply. -/
theorem E2E_disjoint_succeeds (st0 : State) (hfresh : st0.owners = []) (T : Nat) (ev : EventNo)
    (pcs : List (Dispatch.Plugin × Call Response)) (hv : hasVeto T ev pcs = false)
    (owned : List (Cid × Item))
    (habs : absRun st0.kind [] ((okResponses T ev pcs).map fun (p, r) => (fullName p, r)) = some owned) :
    ∃ st', (request (collector st0) T ev pcs).1 = .ok (st'.reply, replyUpdates st') := by
  obtain ⟨st', hr⟩ := C02.C02_disjoint st0 hfresh _ owned habs
  refine ⟨st', (E2E_reply st0 T ev pcs hv).1 st' ?_⟩
  have : answeredAll ((okResponses T ev pcs).map fun (p, r) => (fullName p, r)) = chainOf (okResponses T ev pcs) := by
    simp [answeredAll, chainOf, List.map_map, Function.comp_def]
  rw [← this]; exact hr

end Nri.Props.E2E

namespace Nri.Props.E2E
open Nri Nri.NApi Nri.Result Nri.Ledger Nri.Dispatch Nri.Events

/-! ### non-vacuity: a concrete request -/

private def plug (id : Nat) (idx name : String) (events : Mask := Events.valid) (closed := false) : Dispatch.Plugin :=
  { id := id, idx := str idx, name := str name, events := events, closed := closed }
private def memAdj (v : Int) : Response :=
  { adjust := some { hasLinux := true, resources := some { memory := some { limit := some v } } } }
private def okCall (r : Response) (cost : Nat := 1) : Call Response := { out := .ok r, reached := true, cost := cost }

/-- four plugins on a CreateContainer (event 4): 10-a sets the memory limit; 20-b is not
    subscribed; 30-c would take longer than the timeout; 40-d sets the memory limit too -/
private def demo : List (Dispatch.Plugin × Call Response) :=
  [(plug 1 "10" "a", okCall (memAdj 1)),
   (plug 2 "20" "b" (events := Events.bit 1), okCall (memAdj 7)),
   (plug 3 "30" "c", okCall (memAdj 9) (cost := 50)),
   (plug 4 "40" "d", okCall (memAdj 2))]

private def isMergeErr : Except (Dispatch.Err Result.Err) α → Bool
  | .error (.merge _ _) => true
  | _ => false

-- only 10-a and 40-d reach the collector, and their collision fails the request
example : (okResponses 10 4 demo).map (fun x => Str.toS (fullName x.1)) = ["10-a", "40-d"] := by decide
example : isMergeErr (request (collector (initCreate { id := str "c0" })) 10 4 demo).1 = true := by decide
example : hasVeto 10 4 demo = false := by decide

end Nri.Props.E2E

/-! ## Subscription end to end: handler set (stub) → Configure answer → runtime's mask → relay

`Nri.Stub` (C15) says what mask a stub-built plugin answers Configure with, `Nri.Registration`
(C17) what the runtime stores for an answer, `Nri.Dispatch` (C06) which plugins the relay loop
calls for an event. Composed: a plugin is called for exactly the events it implements (or the
subset its Configure handler asked for). -/
namespace Nri.Props.E2E.Subscription
open Nri Nri.Events Nri.Props

/-- A stub-built plugin of type `p` (no Configure handler, or one that asks for nothing) is
    called by the runtime's relay loop for lifecycle event `e` iff it implements the handler
    for `e`: the stub's answer is accepted unchanged by the runtime's mask validation, and the
    loop's subscription test on the stored mask is the handler bit. -/
theorem E2E_subscription_default {β : Type} (p : Stub.Plugin) (hd : Stub.Handlers)
    (hnew : Stub.setupHandlers p = .ok hd) (b : Stub.Behaviour β) (c r v : Str)
    (hask : p.configure = true → (b .configure (.config c r v)).err = none ∧ (b .configure (.config c r v)).events = 0#32)
    (q : Dispatch.Plugin) (e : Nat) (h1 : 1 ≤ e) (h13 : e ≤ 13) :
    ∃ m, (Stub.configure hd b c r v).2 = .ok m ∧ Registration.configureMask m = .ok m ∧
      (q.events = m → (Dispatch.subscribed e q = true ↔ p.ev.getLsbD (e - 1) = true)) := by
  have hcfg := C15.C15_configure p hd hnew b c r v
  have hm : (Stub.configure hd b c r v).2 = .ok (Stub.subscribe p) := by
    rw [hcfg]
    by_cases hc : p.configure = true
    · obtain ⟨he, hz⟩ := hask hc
      simp [hc, he, hz]
    · simp [hc]
  refine ⟨Stub.subscribe p, hm, C15.C15_runtime_view p hd hnew b c r v _ hm, ?_⟩
  intro hq
  unfold Dispatch.subscribed
  rw [hq, C15.C15_mask p e h1]
  constructor
  · exact fun h => h.2
  · exact fun h => ⟨h13, h⟩

end Nri.Props.E2E.Subscription
