import NriModel.Basic
/-! Property theorems for C08 — placeholder until the model is written. -/
namespace Nri.Props.C08
end Nri.Props.C08
