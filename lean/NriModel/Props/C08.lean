import NriModel.Lemmas.LocksProgress
/-!
Property C08 — a registering plugin learns of each container exactly once; sync blocks hold it.

Model: `Nri.Locks` (`NriModel/Locks.lean`), the labelled transition system of the plugin-sync
RW lock of `pkg/adaptation/adaptation.go`. Every theorem quantifies over ALL histories
`run init h = some s` (any number of plugins, blocks, goroutines and containers, any
interleaving the lock protocol admits); all follow from the one inductive invariant
`Nri.Locks.Good` (`Lemmas/Locks.lean`).

The proviso of the property ("the runtime performs each creation together with its own
bookkeeping inside a plugin-sync block") is the shape of the events `relay b c` / `record b c`
(either order, both inside block `b`) and the guard of `unblock b`. A container whose creation
is half done (relayed but not yet recorded, or the reverse) is "in flight"; a container is
*settled* when it is in the store and its request has been relayed (`c ∈ s.sent`).
-/
namespace Nri.Props.C08
open Nri.Locks

/-- **Exactly once.** In every reachable state, every active plugin learnt of every settled
    container of the runtime's store exactly once: through its snapshot or through a creation
    request, never both and never neither. -/
theorem C08_exactly_once {h : List Ev} {s : State} (hr : run init h = some s)
    (p : Pid) (hp : (s.pl p).phase = .active) (c : Cid) (hc : c ∈ s.store) (hs : c ∈ s.sent) :
    (c ∈ (s.pl p).snap ∧ c ∉ (s.pl p).got) ∨ (c ∉ (s.pl p).snap ∧ c ∈ (s.pl p).got) := by
  have g := good_run hr
  have _ := hc
  by_cases hsn : c ∈ (s.pl p).snap
  · exact Or.inl ⟨hsn, fun hg => ((g.gotIff p hp c).1 hg).2 hsn⟩
  · exact Or.inr ⟨hsn, (g.gotIff p hp c).2 ⟨hs, hsn⟩⟩

/-- … and with no sync block held every container of the store is settled, so the statement
    holds for the whole store (this is what the harness evaluates on the real code's final
    state). -/
theorem C08_exactly_once_quiescent {h : List Ev} {s : State} (hr : run init h = some s)
    (hq : s.readers = 0) (p : Pid) (hp : (s.pl p).phase = .active) (c : Cid) (hc : c ∈ s.store) :
    ExactlyOnce (s.pl p) c := by
  have g := good_run hr
  have hh : s.holding = [] := List.eq_nil_of_length_eq_zero hq
  exact C08_exactly_once hr p hp c hc ((g.quiescent hh c).1 hc)

/-- The literal reading of "exactly once": the container occurs once in the concatenation of
    what the plugin was given (no duplicate inside the snapshot or among the requests either). -/
theorem C08_exactly_once_count {h : List Ev} {s : State} (hr : run init h = some s)
    (p : Pid) (hp : (s.pl p).phase = .active) (c : Cid) (hc : c ∈ s.store) (hs : c ∈ s.sent) :
    ((s.pl p).snap ++ (s.pl p).got).count c = 1 := by
  have g := good_run hr
  rw [List.count_append, (g.snapNodup p hp).count, (g.gotNodup p hp).count]
  rcases C08_exactly_once hr p hp c hc hs with ⟨h1, h2⟩ | ⟨h1, h2⟩ <;> simp [h1, h2]

/-- "Never both" holds for every container at every moment, in flight or not. -/
theorem C08_never_both {h : List Ev} {s : State} (hr : run init h = some s)
    (p : Pid) (hp : (s.pl p).phase = .active) (c : Cid) :
    ¬ (c ∈ (s.pl p).snap ∧ c ∈ (s.pl p).got) := by
  intro ⟨h1, h2⟩
  exact (((good_run hr).gotIff p hp c).1 h2).2 h1

/-- A plugin is told only of containers that exist or are being created right now. -/
theorem C08_only_real {h : List Ev} {s : State} (hr : run init h = some s)
    (p : Pid) (hp : (s.pl p).phase = .active) (c : Cid)
    (hk : c ∈ (s.pl p).snap ∨ c ∈ (s.pl p).got) :
    c ∈ s.store ∨ ∃ b, b ∈ s.holding ∧ (b, c) ∈ s.half := by
  have g := good_run hr
  rcases hk with hk | hk
  · exact Or.inl (g.snapStore p hp c hk)
  · have hs := ((g.gotIff p hp c).1 hk).1
    rcases g.settled c with h1 | ⟨b, hb⟩
    · exact Or.inl (h1.2 hs)
    · exact Or.inr ⟨b, g.halfHeld _ hb, hb⟩

/-- **Blocks hold.** While any sync block is held there is no writer and no plugin is between
    the start of its synchronisation and its activation. -/
theorem C08_blocks_hold {h : List Ev} {s : State} (hr : run init h = some s)
    (hb : s.readers > 0) :
    s.writer = none ∧ ∀ p, (s.pl p).phase ≠ .syncing ∧ (s.pl p).phase ≠ .snapped := by
  have g := good_run hr
  have hne : s.holding ≠ [] := by
    intro h0; simp [State.readers, h0] at hb
  obtain ⟨b, hbm⟩ := List.exists_mem_of_ne_nil _ hne
  refine ⟨?_, fun p => g.noSyncWhileHeld hbm p⟩
  cases hw : s.writer with
  | none => rfl
  | some q => exact absurd (g.excl q hw) hne

/-- Conversely a plugin inside the exclusive section excludes every block. -/
theorem C08_writer_excludes_blocks {h : List Ev} {s : State} (hr : run init h = some s)
    (p : Pid) (hw : s.writer = some p ∨ (s.pl p).phase = .syncing ∨ (s.pl p).phase = .snapped) :
    s.readers = 0 := by
  have g := good_run hr
  have : s.writer = some p := by
    rcases hw with hw | hw | hw
    · exact hw
    · exact g.inSection p (Or.inl hw)
    · exact g.inSection p (Or.inr hw)
  simp [State.readers, g.excl p this]

/-- Step form of "while any sync block is held no plugin is synchronised or becomes active":
    after any step taken from a reachable state with a held block, whoever is active was active
    before with the same snapshot, and nobody is inside a synchronisation. -/
theorem C08_blocks_hold_step {h : List Ev} {s s' : State} {e : Ev} (hr : run init h = some s)
    (hb : s.readers > 0) (he : step? s e = some s') (p : Pid) :
    ((s'.pl p).phase = .active → (s.pl p).phase = .active ∧ (s'.pl p).snap = (s.pl p).snap) ∧
    (s'.pl p).phase ≠ .syncing ∧ (s'.pl p).phase ≠ .snapped := by
  obtain ⟨hw, hph⟩ := C08_blocks_hold hr hb
  have hne : s.holding ≠ [] := by
    intro h0; simp [State.readers, h0] at hb
  have base := hph p
  cases e with
  | block b =>
    simp only [step?] at he
    split at he
    · injection he with he; subst he; exact ⟨fun h => ⟨h, rfl⟩, base⟩
    · cases he
  | relay b c =>
    simp only [step?] at he
    split at he
    · split at he
      · split at he
        · injection he with he; subst he; simpa using base
        · cases he
      · injection he with he; subst he; simpa using base
    · cases he
  | record b c =>
    simp only [step?] at he
    split at he
    · split at he
      · split at he
        · injection he with he; subst he; exact ⟨fun h => ⟨h, rfl⟩, base⟩
        · cases he
      · injection he with he; subst he; exact ⟨fun h => ⟨h, rfl⟩, base⟩
    · cases he
  | unblock b =>
    simp only [step?] at he
    split at he
    · split at he
      · injection he with he; subst he; exact ⟨fun h => ⟨h, rfl⟩, base⟩
      · cases he
    · injection he with he; subst he; exact ⟨fun h => ⟨h, rfl⟩, base⟩
  | syncBegin q => simp only [step?] at he; split at he <;> simp_all
  | snapshot q => simp only [step?] at he; split at he <;> simp_all
  | activate q => simp only [step?] at he; split at he <;> simp_all
  | syncEnd q => simp only [step?] at he; split at he <;> simp_all
  | abort q => simp only [step?] at he; split at he <;> simp_all
  | drop q =>
    simp only [step?] at he
    split at he
    · injection he with he; subst he
      by_cases hpq : p = q
      · subst hpq; simp
      · simpa [setP, hpq] using base
    · cases he

/-- **Unblock is idempotent.** `Unblock()` is documented "safe to call multiple times": once a
    block has been released, releasing it again changes nothing — in particular it does not
    release anybody else's block … -/
theorem C08_unblock_idempotent {h : List Ev} {s s₁ : State} (hr : run init h = some s)
    (b : Bid) (h1 : step? s (.unblock b) = some s₁) :
    step? s₁ (.unblock b) = some s₁ := by
  have g := good_run hr
  have hnot : b ∉ s₁.holding := by
    simp only [step?] at h1
    split at h1
    · split at h1
      · injection h1 with h1; subst h1
        exact fun hm => (List.Nodup.mem_erase_iff g.holdNodup).1 hm |>.1 rfl
      · cases h1
    · rename_i hb; injection h1 with h1; subst h1; exact hb
  simp [step?, hnot]

/-- … a release of a block that is not held (already released, or never taken) is a no-op in
    every state, so the other holders keep their blocks … -/
theorem C08_unblock_released_noop (s : State) (b : Bid) (hb : b ∉ s.holding) :
    step? s (.unblock b) = some s := by
  simp [step?, hb]

/-- … and a (first) release removes exactly that block: every other held block is still held,
    hence `C08_blocks_hold` keeps protecting the other holders. -/
theorem C08_unblock_others_keep {h : List Ev} {s s₁ : State} (hr : run init h = some s)
    (b b' : Bid) (h1 : step? s (.unblock b) = some s₁) (hne : b' ≠ b) (hb' : b' ∈ s.holding) :
    b' ∈ s₁.holding ∧ s₁.writer = none ∧
      ∀ p, (s₁.pl p).phase ≠ .syncing ∧ (s₁.pl p).phase ≠ .snapped := by
  have hr1 : run init (h ++ [.unblock b]) = some s₁ := by
    simp [run_append, hr, run, h1]
  have hm : b' ∈ s₁.holding := by
    simp only [step?] at h1
    split at h1
    · split at h1
      · injection h1 with h1; subst h1; exact (List.mem_erase_of_ne hne).2 hb'
      · cases h1
    · injection h1 with h1; subst h1; exact hb'
  have hpos : s₁.readers > 0 := by
    simp only [State.readers]
    exact List.length_pos_of_mem hm
  exact ⟨hm, C08_blocks_hold hr1 hpos⟩

/-- **Progress.** From every reachable state with no block held, an idle (pending) plugin can
    complete its registration — whoever occupies the exclusive section at that moment can leave
    it first — and it is then active with the current store as its snapshot. `completion s p`
    is the explicit continuation. -/
theorem C08_progress {h : List Ev} {s : State} (hr : run init h = some s)
    (hq : s.readers = 0) (p : Pid) (hp : (s.pl p).phase = .idle) :
    ∃ s', run s (completion s p) = some s' ∧ (s'.pl p).phase = .active ∧
      (s'.pl p).snap = s.store ∧ s'.writer = none ∧ s'.readers = 0 := by
  have hh : s.holding = [] := List.eq_nil_of_length_eq_zero hq
  obtain ⟨s', h1, c⟩ := progress_one (good_run hr) hh hp
  exact ⟨s', h1, c.active, c.snap, c.writer, by simp [State.readers, c.holding]⟩

/-- … for any number of pending registrations at once, without deactivating anybody. -/
theorem C08_progress_all {h : List Ev} {s : State} (hr : run init h = some s)
    (hq : s.readers = 0) (ps : List Pid) (hnd : ps.Nodup)
    (hp : ∀ p ∈ ps, (s.pl p).phase = .idle) :
    ∃ h' s', run s h' = some s' ∧ (∀ p ∈ ps, (s'.pl p).phase = .active) ∧
      (∀ r, (s.pl r).phase = .active → (s'.pl r).phase = .active) ∧ s'.writer = none := by
  have hh : s.holding = [] := List.eq_nil_of_length_eq_zero hq
  obtain ⟨h', s', h1, a, k, w, _, _⟩ := progress_all (good_run hr) hh ps hnd hp
  exact ⟨h', s', h1, a, k, w⟩

/-- "Once the last block is released pending registrations complete": releasing the last block
    is enabled as soon as its creations are complete, and the registration then goes through. -/
theorem C08_progress_after_last_unblock {h : List Ev} {s : State} (hr : run init h = some s)
    (b : Bid) (hb : s.holding = [b]) (hdone : ∀ x ∈ s.half, x.1 ≠ b)
    (p : Pid) (hp : (s.pl p).phase = .idle) :
    ∃ h' s', run s (.unblock b :: h') = some s' ∧ (s'.pl p).phase = .active := by
  have e : step? s (.unblock b) = some { s with holding := [] } := by
    have h1 : b ∈ s.holding := by rw [hb]; exact List.mem_cons_self
    simp only [step?]
    rw [if_pos h1, if_pos hdone]
    simp [hb]
  have hr1 : run init (h ++ [.unblock b]) = some { s with holding := [] } := by
    simp [run_append, hr, run, e]
  obtain ⟨s', h1, ha, _⟩ := C08_progress hr1 (by simp [State.readers]) p hp
  exact ⟨_, s', by simp only [run, e]; exact h1, ha⟩

/-- **No deadlock.** From EVERY reachable state — blocks held, creations half done, another
    plugin inside the exclusive section — a pending registration can still complete: what is in
    flight can finish, the blocks can be released, the section can be left, the plugin registers.
    (Enabledness: a continuation exists; fairness of the Go scheduler is not modelled.) -/
theorem C08_no_deadlock {h : List Ev} {s : State} (hr : run init h = some s)
    (p : Pid) (hp : (s.pl p).phase = .idle) :
    ∃ h' s', run s h' = some s' ∧ (s'.pl p).phase = .active ∧ s'.writer = none ∧ s'.readers = 0 := by
  obtain ⟨h', s', r, a, w, h0⟩ := no_deadlock (good_run hr) hp
  exact ⟨h', s', r, a, w, by simp [State.readers, h0]⟩

/-- The lock is never stuck: whoever is in the exclusive section can leave it. -/
theorem C08_section_terminates {h : List Ev} {s : State} (hr : run init h = some s)
    (q : Pid) (hw : s.writer = some q) :
    ∃ s', run s (finish q (s.pl q).phase) = some s' ∧ s'.writer = none ∧
      (s'.pl q).phase = .active := by
  obtain ⟨s', h1, f⟩ := run_finish (good_run hr) hw
  exact ⟨s', h1, f.writer, f.active⟩

/-! ### the hypotheses are satisfiable by non-trivial histories -/

/-- container 1 created (record first) before plugin 7 registers, container 2 created (relay
    first) after: 1 comes with the snapshot, 2 with a request, each exactly once. -/
def demo : List Ev :=
  [.block 0, .record 0 1, .relay 0 1, .unblock 0] ++ register 7 ++
  [.block 1, .relay 1 2, .record 1 2, .unblock 1]

example : ∃ s, run init demo = some s ∧ (s.pl 7).phase = .active ∧ s.store = [2, 1] ∧
    (s.pl 7).snap = [1] ∧ (s.pl 7).got = [2] ∧ s.readers = 0 :=
  ⟨_, rfl, by decide, by decide, by decide, by decide, by decide⟩

/-- the lock protocol refuses a synchronisation while a block is held, and a block while a
    plugin is being synchronised -/
example : run init [.block 0, .syncBegin 7] = none := by decide
example : run init [.syncBegin 7, .block 0] = none := by decide
/-- the realistic double release `b := BlockPluginSync(); defer b.Unblock(); …; b.Unblock()`
    while another goroutine is mid-creation under its own block: accepted, the other block is
    still held afterwards, and a synchronisation is still refused -/
example : ∃ s, run init [.block 0, .block 1, .record 1 5, .unblock 0, .unblock 0] = some s ∧
    s.holding = [1] ∧ run s [.syncBegin 7] = none :=
  ⟨_, rfl, by decide, by decide⟩
/-- … and refuses releasing a block that has a creation half done (the proviso) -/
example : run init [.block 0, .relay 0 1, .unblock 0] = none := by decide

/-- a state with a held block and an in-flight creation is reachable (hypothesis of
    `C08_blocks_hold`, and the in-flight case excluded from `C08_exactly_once`) -/
example : ∃ s, run init (register 7 ++ [.block 0, .record 0 1]) = some s ∧ s.readers > 0 ∧
    (s.pl 7).phase = .active ∧ 1 ∈ s.store ∧ 1 ∉ s.sent ∧ ¬ ExactlyOnce (s.pl 7) 1 :=
  ⟨_, rfl, by decide, by decide, by decide, by decide, by decide⟩

/-- two blocks held, one creation recorded but not relayed, one relayed but not recorded, and a
    plugin pending (a state `C08_no_deadlock` speaks about) -/
example : ∃ s, run init [.block 0, .block 1, .record 0 1, .relay 1 2] = some s ∧ s.readers = 2 ∧
    s.half = [(1, 2), (0, 1)] ∧ (s.pl 7).phase = .idle :=
  ⟨_, rfl, by decide, by decide, by decide⟩

/-- a pending registration behind an occupied exclusive section (hypothesis of `C08_progress`) -/
example : ∃ s, run init [.syncBegin 3, .snapshot 3] = some s ∧ s.readers = 0 ∧
    s.writer = some 3 ∧ (s.pl 7).phase = .idle :=
  ⟨_, rfl, by decide, by decide, by decide⟩

end Nri.Props.C08
