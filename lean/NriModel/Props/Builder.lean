import NriModel.Lemmas.BuilderChain
import NriModel.Props.C01
import NriModel.Props.C02
import NriModel.Props.C05
/-!
# The plugin-author helper API (pkg/api/adjustment.go, pkg/api/update.go) — program level

Model: `Nri.Builder` (`lean/NriModel/Builder.lean`): `AOp`/`UOp` = one constructor per exported
helper, `runA`/`runU` = the message a PROGRAM of helper calls leaves in a fresh
`ContainerAdjustment` / `ContainerUpdate`. The collector theorems C01/C02/C05 start from such a
message; the theorems here start from the program, for ALL programs (induction over the list
of calls), through the same vocabulary (`Result.adjustSets`, `Ledger.removesAdj/setsOn/removesOn`,
`Result.run`, `UpdateWalk.walk`).

The syntactic reading of a program — `progSets` (items it sets), `progClears` (items it
releases), `progVals` (with values) — is a fold over the calls that never builds a message:
each call appends a mention (slice families), puts an item (map entries, scalar fields),
drops it (`SetLinuxCPUSetCPUs("")`, `SetLinuxCgroupsPath("")`, `SetLinuxOomScoreAdj(nil)`,
`SetArgs(nil)`) or does nothing to the list.

Which relation, and why.
* sets: `List.Perm` (`builder_sets_eq`). The order of `adjustSets` is the fixed order in which
  `result.adjust` claims the families, that of `progSets` the order of the calls; the ledger's
  verdict (`claimAll`) does not depend on the order, only which conflict is reported first
  does. Multiplicity DOES matter: `AddEnv("X",…)` twice is two mentions and the collector
  reports a conflict of the plugin with itself, whereas `AddAnnotation("k",…)` twice or
  `SetLinuxCPUShares` twice is one map entry / one field. `Perm` keeps exactly that.
* clears: equality as sets (`builder_clears_eq`). Releasing a claim is idempotent
  (`Result.clearAll`): how often and in which order a key is marked has no effect.

Guards. None on the programs: keys that begin with '-' (an `AddEnv("-X",…)` is read by the
collector as a removal of X) and empty keys are covered by the reading (`unmarked`). The one
call that is not a program step is `AddHooks(nil)`: it panics (`Builder.ACall.addHooksNil`).
-/
namespace Nri.Props.Builder
open Nri Nri.NApi Nri.Result Nri.Ledger Nri.UpdateWalk Nri.Builder

/-! ## what a program sets and releases -/

/-- **Sets.** The items the message built by ANY program sets are, up to order, the items the
    syntactic reading lists — with the same multiplicities. -/
theorem builder_sets_eq (prog : List AOp) : (adjustSets (runA prog)).Perm (progSets prog) :=
  runA_sets_perm prog

/-- hence membership and "names nothing twice" can be read off the program -/
theorem builder_sets_mem (prog : List AOp) (it : Item) : it ∈ adjustSets (runA prog) ↔ it ∈ progSets prog :=
  (runA_sets_perm prog).mem_iff

theorem builder_sets_nodup (prog : List AOp) : (adjustSets (runA prog)).Nodup ↔ (progSets prog).Nodup :=
  (runA_sets_perm prog).nodup_iff

-- removal marker, lazily allocated linux section, a map entry assigned twice, a slice entry
-- appended twice, a scalar set and unset again, an annotation key that is itself a marker
example :
    progSets [.removeEnv (str "X"), .addEnv (str "X") (str "v"), .setLinuxCPUShares 5,
              .addAnnotation (str "k") (str "1"), .addAnnotation (str "k") (str "2"),
              .addEnv (str "X") (str "w"), .setLinuxCPUSetCPUs (str "0-3"), .setLinuxCPUSetCPUs [],
              .addAnnotation (str "-gone") (str "ignored"), .updateArgs [str "sh"]]
      = [.env (str "X"), .cpuShares, .annotation (str "k"), .env (str "X"), .args] ∧
    adjustSets (runA [.removeEnv (str "X"), .addEnv (str "X") (str "v"), .setLinuxCPUShares 5,
              .addAnnotation (str "k") (str "1"), .addAnnotation (str "k") (str "2"),
              .addEnv (str "X") (str "w"), .setLinuxCPUSetCPUs (str "0-3"), .setLinuxCPUSetCPUs [],
              .addAnnotation (str "-gone") (str "ignored"), .updateArgs [str "sh"]])
      = [.annotation (str "k"), .env (str "X"), .env (str "X"), .args, .cpuShares] := by decide

/-- **Clears.** The items the message built by ANY program marks for removal are, as a set, the
    items the syntactic reading lists. -/
theorem builder_clears_eq (prog : List AOp) (it : Item) : it ∈ removesAdj (runA prog) ↔ it ∈ progClears prog :=
  runA_clears_mem prog it

/-- the owners the collector actually clears for it are among them, whatever the state -/
theorem builder_adjustClears_sub (st : State) (prog : List AOp) (it : Item)
    (h : it ∈ adjustClears Quirks.fixed st (runA prog)) : it ∈ progClears prog :=
  (runA_clears_mem prog it).1 (adjustClears_subset_removes st _ it h)

-- `UpdateArgs` marks the command line, a later `SetArgs` takes the mark away again;
-- `SetArgs(["", …])` is indistinguishable from `UpdateArgs([…])`
example :
    progClears [.removeMount (str "/m"), .updateArgs [str "a"], .removeAnnotation (str "k"), .removeMount (str "/m")]
      = [.mount (str "/m"), .args, .annotation (str "k")] ∧
    progClears [.updateArgs [str "a"], .setArgs [str "b"]] = [] ∧
    progClears [.setArgs [[], str "b"]] = [.args] ∧
    removesAdj (runA [.removeMount (str "/m"), .updateArgs [str "a"], .removeAnnotation (str "k"), .removeMount (str "/m")])
      = [.annotation (str "k"), .mount (str "/m"), .mount (str "/m"), .args] := by decide

/-- **Update programs.** What `updateResources` claims for the update a program builds is, up
    to order and with multiplicities, what the program names — in every collector state. -/
theorem builder_updSets_eq (st : State) (prog : List UOp) :
    (updSets Quirks.fixed st (runU prog)).Perm (progSetsU prog) := by
  rw [updSets_fixed]; exact runU_sets_perm prog

/-- target and ignore flag of the update a program builds: the last `SetContainerId`, and
    whether `SetIgnoreFailure` was called at all -/
theorem builder_update_header (prog : List UOp) :
    (runU prog).containerId = progTarget prog ∧ (runU prog).ignoreFailure = progIgnore prog :=
  ⟨runU_target prog, runU_ignore prog⟩

example :
    progSetsU [.setContainerId (str "a"), .setLinuxMemoryLimit 1, .addLinuxHugepageLimit (str "2M") 4,
               .setContainerId (str "b"), .setLinuxMemoryLimit 2, .addLinuxUnified (str "u") (str "1"),
               .setIgnoreFailure, .addLinuxUnified (str "u") (str "2")]
      = [.memLimit, .hugepage (str "2M"), .unified (str "u")] ∧
    progTarget [.setContainerId (str "a"), .setLinuxMemoryLimit 1, .setContainerId (str "b")] = str "b" ∧
    runU [.setContainerId (str "a"), .setLinuxMemoryLimit 1, .setContainerId (str "b"), .setIgnoreFailure,
          .setLinuxMemoryLimit 2]
      = { containerId := str "b", ignoreFailure := true, resources := some { memory := some { limit := some 2 } } } := by
  decide

/-- **Responses.** `Ledger.setsOn` / `removesOn` — the vocabulary C01 and C02 are stated in — of
    the response a plugin's programs build, read off the programs. -/
theorem builder_setsOn (strict : Bool) (k : Kind) (pp : PluginProg) (c : Cid) (it : Item) :
    it ∈ setsOn strict k pp.response c ↔ it ∈ progSetsOn strict k pp c := mem_progSetsOn strict k pp c it

theorem builder_removesOn (k : Kind) (pp : PluginProg) (c : Cid) (it : Item) :
    it ∈ removesOn k pp.response c ↔ it ∈ progRemovesOn k pp c := mem_progRemovesOn k pp c it

/-! ## C01 at program level -/

/-- **Two programs setting the same item ⇒ the request fails.** Plugin `pi`'s programs and a
    later plugin `pj`'s programs both (strictly) set `it` on `c`; `pj`'s adjustment program does
    not release it and no response in between does: `run` fails — for every state, every chain
    before, between and after. -/
theorem builder_collision_flagged (st : State) (pre mid post : List (Plugin × Option Response))
    (pi pj : Plugin) (ppi ppj : PluginProg) (c : Cid) (it : Item)
    (hsi : it ∈ progSetsOn true st.kind ppi c) (hsj : it ∈ progSetsOn true st.kind ppj c)
    (hnj : it ∉ progRemovesOn st.kind ppj c)
    (hmid : ∀ p r, (p, some r) ∈ mid → it ∉ removesOn st.kind r c) :
    ∃ e, run Quirks.fixed st (pre ++ (pi, some ppi.response) :: (mid ++ (pj, some ppj.response) :: post)) = .error e :=
  C01.C01_collision_flagged st pre mid post pi pj ppi.response ppj.response c it
    ((builder_setsOn _ _ _ _ _).2 hsi) ((builder_setsOn _ _ _ _ _).2 hsj)
    (fun h => hnj ((builder_removesOn _ _ _ _).1 h)) hmid

/-- the same with the plugins in between given as programs too -/
theorem builder_collision_flagged_progs (st : State) (pre post : List (Plugin × Option Response))
    (mid : List (Plugin × PluginProg)) (pi pj : Plugin) (ppi ppj : PluginProg) (c : Cid) (it : Item)
    (hsi : it ∈ progSetsOn true st.kind ppi c) (hsj : it ∈ progSetsOn true st.kind ppj c)
    (hnj : it ∉ progRemovesOn st.kind ppj c)
    (hmid : ∀ x ∈ mid, it ∉ progRemovesOn st.kind x.2 c) :
    ∃ e, run Quirks.fixed st (pre ++ (pi, some ppi.response) ::
      ((mid.map fun x => (x.1, some x.2.response)) ++ (pj, some ppj.response) :: post)) = .error e := by
  apply builder_collision_flagged st pre _ post pi pj ppi ppj c it hsi hsj hnj
  intro p r hm hr
  obtain ⟨x, hx, heq⟩ := List.mem_map.1 hm
  cases heq
  exact hmid x hx ((builder_removesOn _ _ _ _).1 hr)

private def isErr : Except Err State → Bool | .error _ => true | .ok _ => false

-- 10-a: AddEnv X; 20-b: an unrelated annotation; 30-c: AddEnv X without RemoveEnv ⇒ failure;
-- with `RemoveEnv X` anywhere in 30-c's program the same chain succeeds
example :
    Item.env (str "X") ∈ progSetsOn true (.create (str "c0")) { adjust := some [.addEnv (str "X") (str "a")] } (str "c0") ∧
    Item.env (str "X") ∉ progRemovesOn (.create (str "c0")) { adjust := some [.addEnv (str "X") (str "c")] } (str "c0") ∧
    isErr (run Quirks.fixed (initCreate { id := str "c0" })
      [(str "10-a", some (PluginProg.response { adjust := some [.addEnv (str "X") (str "a")] })),
       (str "20-b", some (PluginProg.response { adjust := some [.addAnnotation (str "k") (str "v")] })),
       (str "30-c", some (PluginProg.response { adjust := some [.addEnv (str "X") (str "c")] }))]) = true ∧
    isErr (run Quirks.fixed (initCreate { id := str "c0" })
      [(str "10-a", some (PluginProg.response { adjust := some [.addEnv (str "X") (str "a")] })),
       (str "20-b", some (PluginProg.response { adjust := some [.addAnnotation (str "k") (str "v")] })),
       (str "30-c", some (PluginProg.response { adjust := some [.addEnv (str "X") (str "c"), .removeEnv (str "X")] }))]) = false := by
  decide

/-! ## C02 at program level -/

/-- **A released item never raises a conflict with an earlier plugin.** After ANY earlier plugins
    (any chain `pre` from the fresh state of any request), the adjustment a program builds does
    not fail on an item the program releases and mentions at most once — whoever owned it.
    (Mentioned twice, it is the plugin's conflict with itself: `builder_released_conflict_is_own`.) -/
theorem builder_released_never_conflicts (st0 st : State) (hfresh : st0.owners = [])
    (pre : List (Plugin × Option Response)) (hpre : run Quirks.fixed st0 pre = .ok st)
    (p : Plugin) (prog : List AOp) (it : Item) (hrel : it ∈ progClears prog)
    (hone : (progSets prog).count it ≤ 1) (c : Cid) (p' q : Plugin) :
    adjust Quirks.fixed st p (some (runA prog)) ≠ .error (.conflict c it p' q) := by
  intro herr
  have rh := replyHolds_run pre st0 st (replyHolds_fresh st0 hfresh) hpre
  obtain ⟨_, h2⟩ := released_conflict_is_own st rh p (runA prog) c it p' q herr ((builder_clears_eq prog it).2 hrel)
  rw [(builder_sets_eq prog).count_eq] at h2
  omega

theorem builder_released_conflict_is_own (st0 st : State) (hfresh : st0.owners = [])
    (pre : List (Plugin × Option Response)) (hpre : run Quirks.fixed st0 pre = .ok st)
    (p : Plugin) (prog : List AOp) (it : Item) (hrel : it ∈ progClears prog) (c : Cid) (p' q : Plugin)
    (herr : adjust Quirks.fixed st p (some (runA prog)) = .error (.conflict c it p' q)) :
    q = p ∧ 2 ≤ (progSets prog).count it := by
  have rh := replyHolds_run pre st0 st (replyHolds_fresh st0 hfresh) hpre
  have := released_conflict_is_own st rh p (runA prog) c it p' q herr ((builder_clears_eq prog it).2 hrel)
  rw [(builder_sets_eq prog).count_eq] at this
  exact this

/-- **Remove-then-Add programs.** In a program in which every Add of a removable kind —
    annotation, mount, environment variable, device; the command line via `UpdateArgs` — comes
    with the matching Remove (`removeThenAdd`) and no such item is added twice, the adjustment,
    applied after ANY earlier plugins, can only fail on an item that has no removal form
    (a resource field, rlimit, CDI device, cgroups path, OOM score): never on the released ones. -/
theorem builder_remove_then_add_never_conflicts (st0 st : State) (hfresh : st0.owners = [])
    (pre : List (Plugin × Option Response)) (hpre : run Quirks.fixed st0 pre = .ok st)
    (p : Plugin) (prog : List AOp) (hrta : removeThenAdd prog = true)
    (hone : ∀ it, removable it = true → (progSets prog).count it ≤ 1)
    (e : Err) (herr : adjust Quirks.fixed st p (some (runA prog)) = .error e) :
    ∃ it q, e = .conflict (cidOf st.kind) it p q ∧ removable it = false := by
  obtain ⟨a', it, w, ha, hm, he, _⟩ := adjust_error_inv _ st p _ e herr
  cases ha
  refine ⟨it, w, he, ?_⟩
  cases hr : removable it with
  | false => rfl
  | true =>
    exfalso
    have hin : it ∈ progSets prog := (builder_sets_mem prog it).1 hm
    have hcl : it ∈ progClears prog := by
      unfold removeThenAdd at hrta
      have := List.all_eq_true.1 hrta it hin
      simp only [hr, Bool.not_true, Bool.false_or] at this
      exact List.contains_iff_mem.1 this
    rw [he] at herr
    exact builder_released_never_conflicts st0 st hfresh pre hpre p prog it hcl (hone it hr) _ _ _ herr

-- 10-a sets env X, mount /m, annotation k and the command line; 20-b removes and re-adds all
-- four (in either order) plus a device nobody had: accepted. Without the Removes: refused.
example :
    removeThenAdd [.removeEnv (str "X"), .addEnv (str "X") (str "b"), .addMount { destination := str "/m" },
                   .removeMount (str "/m"), .removeAnnotation (str "k"), .addAnnotation (str "k") (str "b"),
                   .updateArgs [str "sh"], .removeDevice (str "/dev/d"), .addDevice { path := str "/dev/d" }] = true ∧
    isErr (run Quirks.fixed (initCreate { id := str "c0" })
      [(str "10-a", some (PluginProg.response { adjust := some [.addEnv (str "X") (str "a"), .addMount { destination := str "/m" },
          .addAnnotation (str "k") (str "a"), .setArgs [str "init"]] })),
       (str "20-b", some (PluginProg.response { adjust := some [.removeEnv (str "X"), .addEnv (str "X") (str "b"),
          .addMount { destination := str "/m" }, .removeMount (str "/m"), .removeAnnotation (str "k"),
          .addAnnotation (str "k") (str "b"), .updateArgs [str "sh"], .removeDevice (str "/dev/d"),
          .addDevice { path := str "/dev/d" }] }))]) = false ∧
    isErr (run Quirks.fixed (initCreate { id := str "c0" })
      [(str "10-a", some (PluginProg.response { adjust := some [.addEnv (str "X") (str "a")] })),
       (str "20-b", some (PluginProg.response { adjust := some [.addEnv (str "X") (str "b")] }))]) = true := by decide

/-- **Programs naming disjoint items never conflict.** Any number of plugins answer a creation
    request with adjustment programs; if, read off the programs, no item is named twice — neither
    inside one program nor by two — the request succeeds, whatever the original container holds. -/
theorem builder_disjoint_never_conflict (c0 : Container) (progs : List (Plugin × List AOp))
    (hnd : (progs.flatMap fun x => progSets x.2).Nodup) :
    ∃ st', run Quirks.fixed (initCreate c0) (answeredAll (adjChain progs)) = .ok st' := by
  obtain ⟨owned', h⟩ := absRun_adjChain c0.id progs [] (by intro c it h; cases h) hnd
  exact C02.C02_disjoint_create c0 (adjChain progs) owned' h

/-- the same for update programs, in any request: no (target, item) pair named twice, no update of
    the container being created -/
theorem builder_disjoint_updates (st : State) (hfresh : st.owners = []) (pps : List (Plugin × PluginProg))
    (owned' : List (Cid × Item))
    (h : absRun st.kind [] (pps.map fun x => (x.1, x.2.response)) = some owned') :
    ∃ st', run Quirks.fixed st (answeredAll (pps.map fun x => (x.1, x.2.response))) = .ok st' :=
  C02.C02_disjoint st hfresh _ owned' h

example :
    ((([(str "10-a", [AOp.addEnv (str "X") (str "a"), .setLinuxCPUShares 2, .addLinuxHugepageLimit (str "2M") 1]),
        (str "20-b", [AOp.addEnv (str "Y") (str "b"), .setLinuxCPUQuota 3, .addLinuxHugepageLimit (str "1G") 1])] :
        List (Plugin × List AOp)).flatMap fun x => progSets x.2).Nodup) ∧
    (absRun (.update (str "c0")) []
      ([(str "10-a", ({ updates := [[.setContainerId (str "c1"), .setLinuxMemoryLimit 1]] } : PluginProg)),
        (str "20-b", { updates := [[.setContainerId (str "c1"), .setLinuxMemorySwap 1],
                                   [.setContainerId (str "c0"), .setLinuxMemoryLimit 7]] })].map
        fun x => (x.1, x.2.response))).isSome = true := by decide

/-! ## C05 at program level -/

/-- **Frame of one resource helper.** `SetLinuxFoo(v)` (on either receiver) writes its own field —
    `fieldVal` reads the value given — and every other scalar and unified key reads as the
    earlier program left it; hugepage limits change only by `AddLinuxHugepageLimit`, by one
    appended entry. -/
theorem builder_frame_resources (r : Resources) (rop : ROp) :
    fieldVal rop.item (stepR r rop) = rop.fval ∧
    (∀ it, it ≠ rop.item → fieldVal it (stepR r rop) = fieldVal it r) ∧
    (stepR r rop).hugepages = r.hugepages ++
      (match rop with | .hugepage s v => [{ pageSize := s, limit := v }] | _ => []) :=
  ⟨stepR_writes r rop, fun it h => stepR_frame r rop it h, stepR_hugepages r rop⟩

/-- the rest of the adjustment is untouched by a resource helper (only the linux section is
    allocated), and the rest of the update by any resource helper -/
theorem builder_frame_message (a : Adjustment) (u : Update) (rop : ROp) :
    stepA a (.res rop) = { a with hasLinux := true, resources := some (stepR (a.resources.getD {}) rop) } ∧
    stepU u (.res rop) = { u with resources := some (stepR (u.resources.getD {}) rop) } := ⟨rfl, rfl⟩

example :
    fieldVal .cpuQuota (stepR { cpu := some { shares := some 3 } } (.cpuQuota 7)) = .int (some 7) ∧
    fieldVal .cpuShares (stepR { cpu := some { shares := some 3 } } (.cpuQuota 7)) = .nat (some 3) ∧
    fieldVal .cpuPeriod (stepR { cpu := some { shares := some 3 } } (.cpuQuota 7)) = .nat none ∧
    -- `SetLinuxCPUPeriod(int64)` stores `uint64(v)`
    fieldVal .cpuPeriod (stepR {} (.cpuPeriod (-1))) = .nat (some 18446744073709551615) := by decide

/-- **Values of an update program.** Every scalar / unified key the reading `progValsU` lists reads
    back from the message with the program's (last) value. -/
theorem builder_update_vals (prog : List UOp) (it : Item) (v : Val) (h : (it, v) ∈ progValsU prog)
    (hh : isHugepage it = false) : fieldVal it ((runU prog).resources.getD {}) = fvalOf it v :=
  runU_vals prog it v h hh

/-- **Exactly the fields the program named.** One plugin answers any request with one update
    built by `prog` (naming no item twice); the request succeeds. Then the entry returned for the
    program's target carries, for every scalar and unified key: the program's value if the
    program named it (`progValsU`), otherwise the base value (the runtime's requested resources
    for the container being updated, unset otherwise) — and the base hugepage limits followed by
    the program's. -/
theorem builder_update_exact_fields (st0 st' : State) (req : Resources) (p : Plugin) (prog : List UOp)
    (hinit : (∃ id, st0 = initUpdate id req) ∨ st0 = initStop ∨ ∃ c0, st0 = initCreate c0)
    (hnd : (progSetsU prog).Nodup) (hres : (runU prog).resources.isSome = true)
    (h : run Quirks.fixed st0 (answeredAll [(p, { updates := [runU prog] })]) = .ok st')
    (e : Update) (he : some e ∈ replyUpdates st') (hid : e.containerId = progTarget prog) :
    ∃ res, e.resources = some res ∧
      (∀ it v, (it, v) ∈ progValsU prog → isHugepage it = false → fieldVal it res = fvalOf it v) ∧
      (∀ it, it ∉ progSetsU prog → fieldVal it res = fieldVal it (specBase st0.kind req (progTarget prog))) ∧
      res.hugepages = (specBase st0.kind req (progTarget prog)).hugepages ++ ((runU prog).resources.getD {}).hugepages := by
  have hx := C05.C05_exact_fields st0 st' req [(p, { updates := [runU prog] })] hinit h e he
  cases hr : (runU prog).resources with
  | none => rw [hr] at hres; cases hres
  | some r =>
    have hsets : setsUpd (runU prog) = resSets r := by simp [setsUpd, resItems, hr]
    have hperm := runU_sets_perm prog
    rw [hsets] at hperm
    have hnd' : (resSets r).Nodup := hperm.nodup_iff.2 hnd
    -- the walk over the single update
    have hwalk : (walk (specBase st0.kind req) [(p, { updates := [runU prog] })]).get (specBase st0.kind req) (progTarget prog)
        = overlayRes (specBase st0.kind req (progTarget prog)) r r.pids := by
      have hcp : claimedPrefix [] (progTarget prog) (resSets r) = resSets r :=
        claimedPrefix_self _ _ [] hnd' (by intro it _ h; cases h)
      simp only [walk, List.flatMap_cons, List.flatMap_nil, List.append_nil, List.foldl_cons, List.foldl_nil,
        simUpdate, hr, hsets, runU_target]
      simp [Sim.put, Sim.get, hcp]
    rw [hid, hwalk] at hx
    refine ⟨_, hx, ?_, ?_, ?_⟩
    · intro it v hm hh
      have hin : it ∈ resSets r := by
        have : it ∈ progSetsU prog := by
          rw [← progValsU_fst]; exact List.mem_map.2 ⟨(it, v), hm, rfl⟩
        exact hperm.mem_iff.2 this
      rw [overlay_field_set _ _ _ hnd' hin]
      have := builder_update_vals prog it v hm hh
      rw [hr] at this
      exact this
    · intro it hn
      have hnin : it ∉ resSets r := fun h => hn (hperm.mem_iff.1 h)
      exact overlay_field_keep _ _ _ hnin
    · simp [overlayRes, hr]

-- the runtime asks for pids 5 and cpu shares 9 on c0; the plugin's program sets memory limit and
-- (twice) cpu quota on c0: the entry has the program's two fields, the request's others
example :
    (match run Quirks.fixed (initUpdate (str "c0") { pids := some 5, cpu := some { shares := some 9 } })
        (answeredAll [(str "10-a", { updates := [runU [.setContainerId (str "c0"), .setLinuxMemoryLimit 1,
            .setLinuxCPUQuota 2, .setLinuxCPUQuota 3]] })]) with
     | .ok st => (replyUpdates st).map fun e => e.map fun e =>
         (e.containerId, fieldVal .memLimit (e.resources.getD {}), fieldVal .cpuQuota (e.resources.getD {}),
          fieldVal .cpuShares (e.resources.getD {}), fieldVal .pids (e.resources.getD {}))
     | .error _ => []) = [some (str "c0", .int (some 1), .int (some 3), .nat (some 9), .int (some 5))] ∧
    progValsU [.setContainerId (str "c0"), .setLinuxMemoryLimit 1, .setLinuxCPUQuota 2, .setLinuxCPUQuota 3]
      = [(.memLimit, .int 1), (.cpuQuota, .int 3)] := by decide

/-! ## order of calls inside one program -/

/-- **Remove after Add of the same key = Remove before Add.** For environment variables, mounts,
    devices and annotations the collector does exactly the same — same clears, same claims, same
    reply and view — whether a program calls `AddX(k,…)` and then `RemoveX(k)` or the other way
    round: the set wins, and the earlier plugin's claim is released either way. This agrees with
    the note at the top of adjustment.go ("if both a deletion and an addition/setting was
    recorded for a key then the final desired state is the addition"). -/
theorem builder_remove_after_add_env (q : Quirks) (st : State) (p : Plugin) (pre : List AOp) (k v : Str)
    (hk : unmarked k = true) :
    adjust q st p (some (runA (pre ++ [.addEnv k v, .removeEnv k]))) =
    adjust q st p (some (runA (pre ++ [.removeEnv k, .addEnv k v]))) := by
  have h1 : (isMarked k).2 = false := by simpa [unmarked] using hk
  simp only [runA, List.foldl_append, List.foldl_cons, List.foldl_nil, stepA, List.append_assoc, List.cons_append,
    List.nil_append]
  generalize pre.foldl stepA {} = a
  obtain ⟨e1, e2, e3⟩ := env_swap q a.env { key := k, value := v } { key := markForRemoval k } h1
    (by simp [isMarked_mark])
  exact adjust_congr_env q st p a _ _ e1 e2 e3

theorem builder_remove_after_add_mount (q : Quirks) (st : State) (p : Plugin) (pre : List AOp) (m : Mount)
    (hk : unmarked m.destination = true) :
    adjust q st p (some (runA (pre ++ [.addMount m, .removeMount m.destination]))) =
    adjust q st p (some (runA (pre ++ [.removeMount m.destination, .addMount m]))) := by
  have h1 : (isMarked m.destination).2 = false := by simpa [unmarked] using hk
  simp only [runA, List.foldl_append, List.foldl_cons, List.foldl_nil, stepA, List.append_assoc, List.cons_append,
    List.nil_append]
  generalize pre.foldl stepA {} = a
  obtain ⟨e1, e2, e3⟩ := mount_swap a.mounts m { destination := markForRemoval m.destination } h1
    (by simp [isMarked_mark])
  exact adjust_congr_mounts q st p a _ _ e1 e2 e3

theorem builder_remove_after_add_device (q : Quirks) (st : State) (p : Plugin) (pre : List AOp) (d : Device)
    (hk : unmarked d.path = true) :
    adjust q st p (some (runA (pre ++ [.addDevice d, .removeDevice d.path]))) =
    adjust q st p (some (runA (pre ++ [.removeDevice d.path, .addDevice d]))) := by
  have h1 : (isMarked d.path).2 = false := by simpa [unmarked] using hk
  simp only [runA, List.foldl_append, List.foldl_cons, List.foldl_nil, stepA, List.append_assoc, List.cons_append,
    List.nil_append]
  generalize pre.foldl stepA {} = a
  obtain ⟨e1, e2, e3⟩ := device_swap q a.devices d { path := markForRemoval d.path } h1 (by simp [isMarked_mark])
  exact adjust_congr_devices q st p a _ _ e1 e2 e3

-- 10-a: AddEnv X=a. 20-b: AddEnv X=b and THEN RemoveEnv X: accepted, and the reply carries X=b
-- (after the removal marker that takes 10-a's entry out), exactly as for the other order
example :
    (match run Quirks.fixed (initCreate { id := str "c0" })
      [(str "10-a", some (PluginProg.response { adjust := some [.addEnv (str "X") (str "a")] })),
       (str "20-b", some (PluginProg.response { adjust := some [.addEnv (str "X") (str "b"), .removeEnv (str "X")] }))] with
     | .ok st => (st.reply.env.map fun e => (e.key, e.value), st.view.env, st.owners.owner (str "c0") (.env (str "X")))
     | .error _ => ([], [], none)) = ([(str "X", str "b")], [str "X=b"], some (str "20-b")) := by decide

/-- **The command line is one field: the last call decides.** `UpdateArgs` followed by `SetArgs`
    leaves no replace marker (the plugin will conflict with an earlier setter); `SetArgs`
    followed by `UpdateArgs` leaves one. -/
theorem builder_args_last_call (pre : List AOp) (a b : List Str) :
    (runA (pre ++ [.updateArgs a, .setArgs b])).args = b ∧
    (runA (pre ++ [.setArgs a, .updateArgs b])).args = [] :: b := by
  simp [runA, List.foldl_append, stepA]

example :
    progClears [.updateArgs [str "x"], .setArgs [str "y"]] = [] ∧
    progSets [.updateArgs [str "x"], .setArgs [str "y"]] = [.args] ∧
    progClears [.setArgs [str "y"], .updateArgs [str "x"]] = [.args] := by decide

/-- **Hooks.** The message carries every hook the program's `AddHooks` calls were given, kind by
    kind in call order (hooks are not owned: the collector appends every plugin's). -/
theorem builder_hooks (prog : List AOp) : (runA prog).hooks.getD {} = progHooks prog := foldA_hooks prog {}

example :
    progHooks [.addHooks { prestart := [{ path := str "/a" }] }, .addEnv (str "X") [],
               .addHooks { prestart := [{ path := str "/b" }], poststop := [{ path := str "/c" }] }]
      = { prestart := [{ path := str "/a" }, { path := str "/b" }], poststop := [{ path := str "/c" }] } := by decide

/-- `AddHooks(nil)`: the handler does not return (nil pointer dereference in adjustment.go:99) -/
theorem builder_addHooks_nil_faults (pre : List AOp) (post : List ACall) :
    runCalls (pre.map .op ++ .addHooksNil :: post) = none := by
  induction pre with
  | nil => rfl
  | cons o rest ih => simp only [List.map_cons, List.cons_append, runCalls, ih, Option.map_none]

example : runCalls [.op (.addEnv (str "X") []), .addHooksNil] = none ∧
    runCalls [.op (.addEnv (str "X") []), .op (.addHooks {})] = some [.addEnv (str "X") [], .addHooks {}] := by decide

end Nri.Props.Builder
