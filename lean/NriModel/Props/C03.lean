import NriModel.Lemmas.ResultView
import NriModel.Lemmas.ComposeAssemble
/-!
# C03 — the combined adjustment equals applying each plugin's adjustment in turn

The property relates two models — the collector (`Nri.Result`, property C01/C02/C05) that
merges the plugins' responses into ONE reply, and the OCI spec generator (`Nri.Generate`,
property C13) that applies an adjustment to a spec.  `Nri.Compose` converts between their data
types (`toGen`, `toSpec`) and defines the sequential application (`seqAdjust`).

## Proved (all for every original container and every chain)

* `C03` — **assembled**: if the sequential application of the plugins' own adjustments
  succeeds, the generator succeeds on the combined reply and the two specs are `SpecEq`:
  structurally equal in every modelled field, maps (`annotations`, `unified`) through `lookup`,
  with the two named weakenings (below).  `C03_general` is the same from ANY well-formed
  starting spec (the reply never depends on the container).
* `C03_success_iff` — inside `WellFormed` the two ways succeed or fail together.
* `C03_propagation_partial` — the same WITHOUT the guard "no mount propagation option": when
  both ways succeed the specs agree in every field (`SpecEqCore`) except the rootfs
  propagation, for which combined ⊑ sequential (`RootfsLe`, weakening 3).
* per field family, as statements about the generator's per-field step functions (no
  `Except`, no externals): `C03_hooks`, `C03_rlimits`, `C03_args`, `C03_cgroups_path`,
  `C03_oom_score`, `C03_cpu`, `C03_memory`, `C03_pids`, `C03_hugepages`, `C03_unified`,
  `C03_annotations`, `C03_devices`, `C03_mounts` (equality of the SORTED lists — the generator
  re-sorts after every `AdjustMounts`; `orderedMounts.Less` is total on distinct destinations),
  `C03_cdi`, `C03_blockio_class`, `C03_rdt_class` (the fallible ones: sequential ok ⇒
  combined ok with the same value), and the two weakened ones
  `C03_env_partial` (finite map NAME ↦ value) and `C03_devRules_partial` (combined ⊆ sequential).
* the earlier results: `C03_appended_in_order`, `C03_appended_request`,
  `C03_view_is_sequential`.

## The two weakenings of `SpecEq` (both forced; witnesses by `decide`)

1. `EnvEq`: the process environment is compared as a finite map between two well-formed
   environments — `weakening_env_order`: a variable re-set by a later plugin is replaced in
   place sequentially but re-appended by the combined reply.
2. `RulesSub`: device cgroup allow rules, combined ⊆ sequential —
   `finding_devRules_stale` (known finding C03:devRules-stale): the generator never retracts
   the rule of a device a later plugin removes.  Full-strength statement (FALSE of the code):
   `sC.devRules = sS.devRules`.

## Guards (`WellFormed` on each plugin's adjustment, `SpecWF` on the original spec)

Each is forced — a `guard_*` theorem shows the two sides differ on an input violating only
that clause:
* no key `--k` (a key that still starts with the marker after one marker is dropped) —
  `guard_marker_key`;
* no `'='` inside an environment variable name — `guard_env_key_with_eq`;
* args: not the bare `UpdateArgs` marker `[""]`, and no command line whose first word is the
  empty string after the marker — `guard_args_bare_marker`, `guard_args_empty_first_word`
  (new finding: collector and generator EACH strip one leading `""`);
* no mount propagation option (`rshared`/`rslave`/`rprivate`) — `guard_propagation_sticky`
  (the generator's sticky `propagation` variable makes the combined application fail where the
  sequential one succeeds) and `finding_rootfs_propagation_stale` (new finding, same shape as
  devRules-stale: the rootfs propagation raised for a mount a later plugin removes stays
  raised sequentially); `C03_propagation_partial` says exactly what survives without this
  clause;
* original spec: distinct mount destinations, distinct device paths, environment entries
  `NAME=value` with distinct non-empty names — `guard_spec_duplicate_mounts`,
  `guard_spec_duplicate_devices`, `guard_spec_duplicate_env` (entries without `'='` are
  invisible to `Env.lookup`; they are excluded because `SpecEq` also asserts that both
  environments are well-formed).
NOT needed (weaker hypotheses than planned in DESIGN.md): duplicate keys inside one response
(the ledger rejects a key set twice; duplicate markers are merged), empty keys, set-then-remove
order inside one response (both models now let the set win), hugepage sizes already in the
original.  The only fact used from the ledger (C01) for `C03` is that the memory limit has at
most one setter (`Compose.run_ledgerOk`): `AdjustResources` ignores a limit of 0, so two
setters `5` then `0` would differ (`memory_limit_needs_ledger`); `C03_success_iff` uses the
same fact for the block-I/O and RDT class.

Externals: the CDI injector is the recording one (or absent); the block-I/O / RDT class
resolvers and the host's mount table are arbitrary parameters.
-/
namespace Nri.Props.C03
open Nri Nri.NApi Nri.Result Nri.Ledger Nri.Overlay

def adjOf : Plugin × Option Response → Option Adjustment
  | (_, some r) => r.adjust
  | (_, none) => none

def adjs (rs : List (Plugin × Option Response)) : List Adjustment := rs.filterMap adjOf

theorem adjustData_reply_appended (q : Quirks) (st : State) (a : Adjustment) :
    (adjustData q st a).reply.rlimits = st.reply.rlimits ++ a.rlimits ∧
    (adjustData q st a).reply.cdiDevices = st.reply.cdiDevices ++ a.cdiDevices ∧
    (adjustData q st a).reply.hooks =
      (match a.hooks with | some h => some ((st.reply.hooks.getD {}).append h) | none => st.reply.hooks) := by
  unfold adjustData
  simp only [cdiData, rlimitData]
  cases hl : a.hasLinux
  · simp only [Bool.false_eq_true, ↓reduceIte]
    cases hh : a.hooks <;> cases ha : a.args <;>
      simp [hooksData, argsData, envData, mountData, annData]
  · simp only [↓reduceIte]
    cases hh : a.hooks <;> cases ha : a.args <;> cases hr : a.resources <;> cases ho : a.oomScoreAdj <;>
      by_cases hc : a.cgroupsPath = [] <;>
      simp [oomData, cgroupsData, resData, deviceData, hooksData, argsData, envData, mountData, annData, hc]

theorem apply_reply_appended (st st' p r id) (hk : st.kind = .create id)
    (h : apply Quirks.fixed st p r = .ok st') :
    st'.reply.rlimits = st.reply.rlimits ++ (match r.adjust with | some a => a.rlimits | none => []) ∧
    st'.reply.cdiDevices = st.reply.cdiDevices ++ (match r.adjust with | some a => a.cdiDevices | none => []) := by
  unfold apply at h
  rw [hk] at h
  simp only [] at h
  cases h1 : adjust Quirks.fixed st p r.adjust with
  | error e => rw [h1] at h; cases h
  | ok st1 =>
    rw [h1] at h
    rw [(updateAll_view _ st1 st' p r.updates h).2]
    cases ha : r.adjust with
    | none => rw [ha] at h1; simp [adjust] at h1; subst h1; simp
    | some a =>
      rw [ha] at h1
      obtain ⟨o, _, rfl⟩ := (adjust_ok_iff _ st st1 p a).1 h1
      exact ⟨(adjustData_reply_appended _ st a).1, (adjustData_reply_appended _ st a).2.1⟩

/-- **Append-only families.** After a successful creation request the combined reply's
    rlimits and CDI devices are exactly those of all plugins, in plugin order. -/
theorem C03_appended_in_order (rs : List (Plugin × Option Response)) :
    ∀ (st st' : State) (id : Cid), st.kind = .create id → run Quirks.fixed st rs = .ok st' →
      st'.reply.rlimits = st.reply.rlimits ++ (adjs rs).flatMap (·.rlimits) ∧
      st'.reply.cdiDevices = st.reply.cdiDevices ++ (adjs rs).flatMap (·.cdiDevices) := by
  induction rs with
  | nil => intro st st' id _ h; simp [run] at h; subst h; simp [adjs]
  | cons x rest ih =>
    intro st st' id hk h
    obtain ⟨p, r⟩ := x
    cases r with
    | none =>
      simp only [run] at h
      have hf : adjs ((p, none) :: rest) = adjs rest := by simp [adjs, List.filterMap_cons, adjOf]
      rw [hf]; exact ih st st' id hk h
    | some r =>
      simp only [run] at h
      cases h1 : apply Quirks.fixed st p r with
      | error e => rw [h1] at h; cases h
      | ok st1 =>
        rw [h1] at h
        have hk1 : st1.kind = .create id := by rw [apply_kind _ st st1 p r h1]; exact hk
        obtain ⟨a1, a2⟩ := ih st1 st' id hk1 h
        obtain ⟨b1, b2⟩ := apply_reply_appended st st1 p r id hk h1
        rw [a1, a2, b1, b2]
        cases ha : r.adjust with
        | none =>
          have hf : adjs ((p, some r) :: rest) = adjs rest := by simp [adjs, List.filterMap_cons, adjOf, ha]
          rw [hf]; simp
        | some a =>
          have hf : adjs ((p, some r) :: rest) = a :: adjs rest := by simp [adjs, List.filterMap_cons, adjOf, ha]
          rw [hf]; simp [List.append_assoc]

/-- for a whole creation request: nothing but the plugins' rlimits and CDI devices -/
theorem C03_appended_request (c0 : Container) (rs) (st' : State)
    (h : run Quirks.fixed (initCreate c0) rs = .ok st') :
    st'.reply.rlimits = (adjs rs).flatMap (·.rlimits) ∧
    st'.reply.cdiDevices = (adjs rs).flatMap (·.cdiDevices) := by
  have := C03_appended_in_order rs (initCreate c0) st' c0.id rfl h
  simpa [initCreate] using this

/-- **The view the collector maintains is the sequential application** (C04), so what C03
    calls "applying each plugin's adjustment one after another" is, at the NRI level, what
    every later plugin is shown. -/
theorem C03_view_is_sequential (c0 : Container) (rs : List (Plugin × Option Response)) (i : Nat) (s : State)
    (h : (viewsAlong Quirks.fixed (initCreate c0) rs)[i]? = some s) :
    s.view = overlayAll { c0 with resources := normRes c0.resources } ((rs.take i).map adjOf) := by
  have hrec : ∀ (rs : List (Plugin × Option Response)) (st : State) (id : Cid), st.kind = .create id →
      ∀ (i : Nat) (s : State), (viewsAlong Quirks.fixed st rs)[i]? = some s →
        s.view = overlayAll st.view ((rs.take i).map adjOf) := by
    intro rs
    induction rs with
    | nil => intro st id _ i s h; simp [viewsAlong] at h
    | cons x rest ih =>
      intro st id hk i s h
      obtain ⟨p, r⟩ := x
      cases r with
      | none =>
        simp only [viewsAlong] at h
        cases i with
        | zero => simp at h; subst h; rfl
        | succ n => simp at h; simpa [overlayAll, adjOf] using ih st id hk n s h
      | some r =>
        simp only [viewsAlong] at h
        cases h1 : apply Quirks.fixed st p r with
        | error e =>
          rw [h1] at h
          cases i with
          | zero => simp at h; subst h; rfl
          | succ n => simp at h
        | ok st1 =>
          rw [h1] at h
          cases i with
          | zero => simp at h; subst h; rfl
          | succ n =>
            simp at h
            have hk1 : st1.kind = .create id := by rw [apply_kind _ st st1 p r h1]; exact hk
            rw [ih st1 id hk1 n s h, apply_view_create st st1 p r id hk h1]
            simp only [List.take_succ_cons, List.map_cons, overlayAll, List.foldl_cons, adjOf]
            rfl
  exact hrec rs (initCreate c0) c0.id rfl i s h

/-! ### non-vacuity -/

example :
    (match run Quirks.fixed (initCreate { id := str "c0" })
      [(str "10-a", some { adjust := some { rlimits := [{ type := str "RLIMIT_NOFILE", hard := 2, soft := 1 }], cdiDevices := [str "v/c=d0"] } }),
       (str "20-b", none),
       (str "30-c", some { adjust := some { rlimits := [{ type := str "RLIMIT_CORE" }], cdiDevices := [str "v/c=d1"] } })] with
     | .ok st => (st.reply.rlimits.map (·.type), st.reply.cdiDevices)
     | .error _ => ([], [])) = ([str "RLIMIT_NOFILE", str "RLIMIT_CORE"], [str "v/c=d0", str "v/c=d1"]) := by decide


/-! ## The composition with the generator model -/

open Nri.Compose Nri.Generate

theorem adjs_eq (rs : List (Plugin × Option Response)) : adjs rs = adjsOf rs := by
  have : adjOf = Compose.adjOf := by
    funext x
    obtain ⟨p, r⟩ := x
    cases r <;> rfl
  unfold adjs adjsOf
  rw [this]

/-! ### demo instance used by the non-vacuity examples -/

def demoC0 : Container :=
  { id := str "c0"
    annotations := [(str "keep", str "1"), (str "drop", str "2")]
    args := [str "sh"]
    env := [str "PATH=/bin", str "OLD=1"]
    mounts := [{ destination := str "/a" }, { destination := str "/b" }]
    devices := [{ path := str "/dev/null", type := str "c", major := 1, minor := 3 }]
    rlimits := [{ type := str "RLIMIT_NOFILE", hard := 10, soft := 5 }]
    resources := { hugepages := [{ pageSize := str "2MB", limit := 1 }], unified := [(str "u0", str "x")] } }

def demoA0 : Adjustment :=
  { annotations := [(str "k0", str "v0"), (str "-drop", [])]
    mounts := [{ destination := str "/m0" }, { destination := str "-/a" }]
    env := [{ key := str "FOO", value := str "1" }, { key := str "-OLD" }]
    hooks := some { prestart := [{ path := str "/bin/h0" }] }
    hasLinux := true
    devices := [{ path := str "/dev/x", type := str "c", major := 1, minor := 2 }]
    resources := some { memory := some { limit := some 100 }, cpu := some { shares := some 5 },
                        hugepages := [{ pageSize := str "2MB", limit := 4 }],
                        unified := [(str "u", str "1")], pids := some 7 }
    cgroupsPath := str "/cg0"
    oomScoreAdj := some 5
    rlimits := [{ type := str "RLIMIT_CORE", hard := 2, soft := 1 }]
    cdiDevices := [str "v/c=d0"]
    args := [str "a0"] }

def demoA2 : Adjustment :=
  { annotations := [(str "-k0", []), (str "k0", str "v2"), (str "k2", str "w")]
    mounts := [{ destination := str "-/m0" }, { destination := str "/m0", type := str "tmpfs" },
               { destination := str "/c/d" }]
    env := [{ key := str "-FOO" }, { key := str "FOO", value := str "2" }, { key := str "BAR", value := str "3" }]
    hooks := some { poststop := [{ path := str "/bin/h1" }] }
    hasLinux := true
    devices := [{ path := str "-/dev/x" }, { path := str "/dev/x", type := str "c", major := 5, minor := 6 },
                { path := str "-/dev/null" }]
    resources := some { cpu := some { quota := some 9 }, blockioClass := some (str "gold") }
    rlimits := [{ type := str "RLIMIT_NPROC", hard := 4, soft := 3 }]
    cdiDevices := [str "v/c=d1"]
    args := [[], str "b0", str "b1"] }

def demoChain : List (Plugin × Option Response) :=
  [(str "00-a", some { adjust := some demoA0 }), (str "10-b", none), (str "20-c", some { adjust := some demoA2 })]

def demoExt : Externals :=
  { injectCDI := some (recordingInjector []), resolveBlockIO := some (fun _ => .ok 7) }

/-- the demo chain is accepted by the collector, every adjustment is well-formed, the
    original spec is well-formed, the sequential application succeeds -/
theorem demo_ok :
    (match run Quirks.fixed (initCreate demoC0) demoChain with | .ok _ => true | .error _ => false) = true ∧
    (adjs demoChain).all wellFormed = true ∧ specWF (toSpec demoC0) = true ∧
    (match seqAdjust demoExt (toSpec demoC0) ((adjs demoChain).map toGen) with
     | .ok _ => true | .error _ => false) = true := by decide

/-! ### per-family theorems

Every theorem: `h` = the creation request succeeded with final state `st'`; `hwf` = every
plugin's adjustment satisfies the core guard `WellFormedCore` (mount propagation options are
allowed here).  `…G x a` is the generator's step for that field (the core
function of `Generate.lean` applied to the field `x` of the spec and the matching part of
`toGen a`); the right-hand side applies the plugins' own adjustments one after another. -/

section Families
variable (c0 : Container) (rs : List (Plugin × Option Response)) (st' : State)
  (h : run Quirks.fixed (initCreate c0) rs = .ok st') (hwf : ∀ a ∈ adjs rs, WellFormedCore a)
include h hwf

theorem C03_hooks (x : Oci.Hooks) : hooksG x st'.reply = (adjs rs).foldl hooksG x := by
  rw [adjs_eq] at hwf ⊢
  obtain ⟨hrep, hc⟩ := run_chain c0 rs st' h hwf
  rw [hrep, fam_hooks _ _ replyInv_reply0 hc, hooksG_reply0]

theorem C03_rlimits (x : List Oci.Rlimit) : rlimitsG x st'.reply = (adjs rs).foldl rlimitsG x := by
  rw [adjs_eq] at hwf ⊢
  obtain ⟨hrep, hc⟩ := run_chain c0 rs st' h hwf
  rw [hrep, fam_rlimits _ _ replyInv_reply0 hc, rlimitsG_reply0]

theorem C03_args (x : List Str) : argsG x st'.reply = (adjs rs).foldl argsG x := by
  rw [adjs_eq] at hwf ⊢
  obtain ⟨hrep, hc⟩ := run_chain c0 rs st' h hwf
  rw [hrep, fam_args _ _ replyInv_reply0 hc, argsG_reply0]

theorem C03_cgroups_path (x : Str) : cgroupsG x st'.reply = (adjs rs).foldl cgroupsG x := by
  rw [adjs_eq] at hwf ⊢
  obtain ⟨hrep, hc⟩ := run_chain c0 rs st' h hwf
  rw [hrep, fam_cgroups _ _ replyInv_reply0 hc, cgroupsG_reply0]

theorem C03_oom_score (x : Option Int) : oomG x st'.reply = (adjs rs).foldl oomG x := by
  rw [adjs_eq] at hwf ⊢
  obtain ⟨hrep, hc⟩ := run_chain c0 rs st' h hwf
  rw [hrep, fam_oom _ _ replyInv_reply0 hc, oomG_reply0]

theorem C03_cpu (x : Oci.CPU) : cpuG x st'.reply = (adjs rs).foldl cpuG x := by
  rw [adjs_eq] at hwf ⊢
  obtain ⟨hrep, hc⟩ := run_chain c0 rs st' h hwf
  rw [hrep, fam_cpu _ _ replyInv_reply0 hc, cpuG_reply0]

/-- memory: the generator applies only the limit (to limit and swap), and ignores a limit of
    0; the ledger guarantees at most one plugin sets it -/
theorem C03_memory (x : Oci.Memory) : memG x st'.reply = (adjs rs).foldl memG x := by
  rw [adjs_eq] at hwf ⊢
  obtain ⟨hrep, hc⟩ := run_chain c0 rs st' h hwf
  rw [hrep, fam_memory _ _ replyInv_reply0 hc, memG_reply0]

theorem C03_pids (x : Option Int) : pidsG x st'.reply = (adjs rs).foldl pidsG x := by
  rw [adjs_eq] at hwf ⊢
  obtain ⟨hrep, hc⟩ := run_chain c0 rs st' h hwf
  rw [hrep, fam_pids _ _ replyInv_reply0 hc, pidsG_reply0]

theorem C03_hugepages (x : List Oci.HugepageLimit) : hugeG x st'.reply = (adjs rs).foldl hugeG x := by
  rw [adjs_eq] at hwf ⊢
  obtain ⟨hrep, hc⟩ := run_chain c0 rs st' h hwf
  rw [hrep, fam_hugepages _ _ replyInv_reply0 hc, hugeG_reply0]

/-- unified is a Go map: compared through `lookup` -/
theorem C03_unified (x : AList Str Str) : MapEq (unifiedG x st'.reply) ((adjs rs).foldl unifiedG x) := by
  rw [adjs_eq] at hwf ⊢
  obtain ⟨hrep, hc⟩ := run_chain c0 rs st' h hwf
  have := fam_unified _ _ replyInv_reply0 hc x
  rw [unifiedG_reply0] at this
  rw [hrep]; exact this

/-- annotations are a Go map: compared through `lookup` -/
theorem C03_annotations (x : AList Str Str) : MapEq (annG x st'.reply) ((adjs rs).foldl annG x) := by
  rw [adjs_eq] at hwf ⊢
  obtain ⟨hrep, hc⟩ := run_chain c0 rs st' h hwf
  have := fam_annotations _ _ replyInv_reply0 hc x
  rw [annG_reply0] at this
  rw [hrep]; exact this

/-- the device LIST (order included), given distinct original paths -/
theorem C03_devices (x : Devices.State) (hx : NodupKeys Oci.Device.path x.1) :
    (devG x st'.reply).1 = ((adjs rs).foldl devG x).1 := by
  rw [adjs_eq] at hwf ⊢
  obtain ⟨hrep, hc⟩ := run_chain c0 rs st' h hwf
  have := fam_devices _ _ replyInv_reply0 hc x hx
  rw [devG_reply0] at this
  rw [hrep]; exact this.1

/-- **partial (known finding C03:devRules-stale).** Full-strength statement, FALSE of the
    code (`finding_devRules_stale`): `(devG x st'.reply).2 = ((adjs rs).foldl devG x).2`.
    Proved: every allow rule of the combined application is one of the sequential
    application.  Missing: the converse — the generator never retracts the rule of a device a
    later plugin removes or replaces. -/
theorem C03_devRules_partial (x : Devices.State) (hx : NodupKeys Oci.Device.path x.1) :
    RulesSub (devG x st'.reply).2 ((adjs rs).foldl devG x).2 := by
  rw [adjs_eq] at hwf ⊢
  obtain ⟨hrep, hc⟩ := run_chain c0 rs st' h hwf
  have := fam_devices _ _ replyInv_reply0 hc x hx
  rw [devG_reply0] at this
  rw [hrep]; exact this.2

/-- the mount list — SORTED lists are equal although the generator re-sorts after every
    `AdjustMounts` (given distinct original destinations) -/
theorem C03_mounts (x : List Oci.Mount) (hx : NodupKeys Oci.Mount.destination x) :
    mntG x st'.reply = (adjs rs).foldl mntG x := by
  rw [adjs_eq] at hwf ⊢
  obtain ⟨hrep, hc⟩ := run_chain c0 rs st' h hwf
  rw [hrep, fam_mounts _ _ replyInv_reply0 hc x hx, mntG_reply0]

/-- **partial (named weakening 1).** Full-strength statement, FALSE of the code
    (`weakening_env_order`): `envG x st'.reply = (adjs rs).foldl envG x`.  Proved: both
    environments are well-formed and agree as finite maps NAME ↦ value.  Missing: the order of
    `environ` (which carries no meaning once names are distinct). -/
theorem C03_env_partial (x : List Str) (hx : Env.WF x) :
    EnvEq (envG x st'.reply) ((adjs rs).foldl envG x) ∧
    Env.WF (envG x st'.reply) ∧ Env.WF ((adjs rs).foldl envG x) := by
  rw [adjs_eq] at hwf ⊢
  obtain ⟨hrep, hc⟩ := run_chain c0 rs st' h hwf
  have := fam_env _ _ replyInv_reply0 hc x hx
  rw [envG_reply0] at this
  rw [hrep]
  refine ⟨this, envG_wf _ _ hx (replyInv_foldl _ _ replyInv_reply0 hc).envKeys, ?_⟩
  exact foldl_valid envG Env.WF EnvKeysOk (fun x a hx hk => envG_wf x a hx hk) _
    (fun a ha => (wfParts a (hwf a ha)).envKeys) x hx

/-- CDI names with the recording injector (`has` = an injector is configured; `bad` = names
    it rejects): sequential ok ⇒ combined ok, same recorded names -/
theorem C03_cdi (has : Bool) (bad x z : List Str) (hs : foldE (cdiG has bad) x (adjs rs) = .ok z) :
    cdiG has bad x st'.reply = .ok z := by
  rw [adjs_eq] at hwf hs
  obtain ⟨hrep, hc⟩ := run_chain c0 rs st' h hwf
  rw [hrep]; exact fam_cdi _ _ replyInv_reply0 hc has bad x x z (cdiG_reply0 _ _ _) hs

/-- block-I/O class, any resolver: sequential ok ⇒ combined ok, same parameters -/
theorem C03_blockio_class (res : Option (Str → Except Unit Nat)) (x z : Option Nat)
    (hs : foldE (blockioG res) x (adjs rs) = .ok z) : blockioG res x st'.reply = .ok z := by
  rw [adjs_eq] at hwf hs
  obtain ⟨hrep, hc⟩ := run_chain c0 rs st' h hwf
  rw [hrep]; exact fam_blockio _ _ replyInv_reply0 hc res x x z (blockioG_reply0 _ _) hs

/-- RDT class, any resolver -/
theorem C03_rdt_class (res : Option (Str → Except Unit Str)) (x z : Option Str)
    (hs : foldE (rdtG res) x (adjs rs) = .ok z) : rdtG res x st'.reply = .ok z := by
  rw [adjs_eq] at hwf hs
  obtain ⟨hrep, hc⟩ := run_chain c0 rs st' h hwf
  rw [hrep]; exact fam_rdt _ _ replyInv_reply0 hc res x x z (rdtG_reply0 _ _) hs

end Families

/-- non-vacuity of the per-family theorems: on the demo chain (`demo_ok`: `h` and `hwf` hold)
    the extra hypotheses hold too — distinct device paths / mount destinations and a
    well-formed environment of the original spec, and the sequential folds of the fallible
    families succeed -/
example :
    NodupKeys Oci.Device.path (toSpec demoC0).devices ∧
    NodupKeys Oci.Mount.destination (toSpec demoC0).mounts ∧ Env.WF (toSpec demoC0).env ∧
    foldE (cdiG true []) [] (adjs demoChain) = .ok [str "v/c=d0", str "v/c=d1"] ∧
    foldE (blockioG (some fun _ => .ok 7)) none (adjs demoChain) = .ok (some 7) ∧
    foldE (rdtG none) none (adjs demoChain) = .ok none := by
  obtain ⟨h1, h2, h3⟩ := specWF_parts (toSpec demoC0) demo_ok.2.2.1
  exact ⟨h2, h1, h3, rfl, rfl, rfl⟩

/-- … and the conclusions are about non-trivial values: e.g. the annotation `k0`, set by the
    first plugin and re-set by the third, and the removed original annotation `drop` -/
example :
    (match run Quirks.fixed (initCreate demoC0) demoChain with
     | .ok st' => some (AList.lookup (annG (toSpec demoC0).annotations st'.reply) (str "k0"),
                        AList.lookup (annG (toSpec demoC0).annotations st'.reply) (str "drop"),
                        AList.lookup ((adjs demoChain).foldl annG (toSpec demoC0).annotations) (str "k0"))
     | .error _ => none) = some (some (str "v2"), none, some (str "v2")) := by decide

/-! ### the assembled theorem -/

/-- **C03 from any starting spec.** `ext`: recording CDI injector (or none), arbitrary class
    resolvers and host mount table. -/
theorem C03_general {ext : Externals} {bad : List Str}
    (hi : ext.injectCDI = some (recordingInjector bad) ∨ ext.injectCDI = none)
    (c0 : Container) (rs : List (Plugin × Option Response)) (st' : State)
    (h : run Quirks.fixed (initCreate c0) rs = .ok st') (hwf : ∀ a ∈ adjs rs, WellFormed a)
    (s0 sS : Oci.Spec) (hs0 : SpecWF s0)
    (hseq : seqAdjust ext s0 ((adjs rs).map toGen) = .ok sS) :
    ∃ sC, adjust ext s0 (toGen st'.reply) = .ok sC ∧ SpecEq sC sS := by
  rw [adjs_eq] at hwf hseq
  obtain ⟨hrep, hc⟩ := run_chain c0 rs st' h (fun a ha => wellFormed_core a (hwf a ha))
  rw [hrep]
  exact compose_main hi _ hc (fun a ha => wellFormed_noProp a (hwf a ha)) s0 sS hs0 hseq

/-- **C03.** For every original container `c0` and every chain `rs` of plugin responses whose
    adjustments are well-formed: if the creation request succeeds with combined reply
    `st'.reply`, and applying each plugin's own adjustment in plugin order to the original
    spec succeeds with `sS`, then applying the combined reply to the original spec succeeds
    and gives a spec `SpecEq` to `sS`. -/
theorem C03 {ext : Externals} {bad : List Str}
    (hi : ext.injectCDI = some (recordingInjector bad) ∨ ext.injectCDI = none)
    (c0 : Container) (rs : List (Plugin × Option Response)) (st' : State)
    (h : run Quirks.fixed (initCreate c0) rs = .ok st') (hwf : ∀ a ∈ adjs rs, WellFormed a)
    (hs0 : SpecWF (toSpec c0)) (sS : Oci.Spec)
    (hseq : seqAdjust ext (toSpec c0) ((adjs rs).map toGen) = .ok sS) :
    ∃ sC, adjust ext (toSpec c0) (toGen st'.reply) = .ok sC ∧ SpecEq sC sS :=
  C03_general hi c0 rs st' h hwf (toSpec c0) sS hs0 hseq

/-- **Both ways succeed or fail together** (inside `WellFormed`): the generator accepts the
    combined reply iff it accepts the plugins' adjustments one after another.  (⇐ is part of
    `C03`; ⇒ uses the ledger: the block-I/O / RDT class has a single setter, so no class the
    resolver rejects is masked by a later one.) -/
theorem C03_success_iff {ext : Externals} {bad : List Str}
    (hi : ext.injectCDI = some (recordingInjector bad) ∨ ext.injectCDI = none)
    (c0 : Container) (rs : List (Plugin × Option Response)) (st' : State)
    (h : run Quirks.fixed (initCreate c0) rs = .ok st') (hwf : ∀ a ∈ adjs rs, WellFormed a)
    (s0 : Oci.Spec) (hs0 : SpecWF s0) :
    (∃ sC, adjust ext s0 (toGen st'.reply) = .ok sC) ↔
    (∃ sS, seqAdjust ext s0 ((adjs rs).map toGen) = .ok sS) := by
  constructor
  · rintro ⟨sC, hC⟩
    rw [adjs_eq] at hwf ⊢
    obtain ⟨hrep, hc⟩ := run_chain c0 rs st' h (fun a ha => wellFormed_core a (hwf a ha))
    rw [hrep] at hC
    exact compose_converse hi _ hc (fun a ha => wellFormed_noProp a (hwf a ha)) s0 sC hs0 hC
  · rintro ⟨sS, hS⟩
    obtain ⟨sC, hC, _⟩ := C03_general hi c0 rs st' h hwf s0 sS hs0 hS
    exact ⟨sC, hC⟩

/-- **C03 with mount propagation options** (only the core guard): then `AdjustMounts` can fail
    on either side (`guard_propagation_sticky`), so BOTH successes are hypotheses; the specs
    agree in every field except the rootfs propagation, where **weakening 3** holds: the
    combined application raises it at most as far as the sequential one
    (`finding_rootfs_propagation_stale` shows equality fails).  Full-strength statement, FALSE
    of the code: `sC.rootfsPropagation = sS.rootfsPropagation`. -/
theorem C03_propagation_partial {ext : Externals} {bad : List Str}
    (hi : ext.injectCDI = some (recordingInjector bad) ∨ ext.injectCDI = none)
    (c0 : Container) (rs : List (Plugin × Option Response)) (st' : State)
    (h : run Quirks.fixed (initCreate c0) rs = .ok st') (hwf : ∀ a ∈ adjs rs, WellFormedCore a)
    (s0 sS sC : Oci.Spec) (hs0 : SpecWF s0)
    (hseq : seqAdjust ext s0 ((adjs rs).map toGen) = .ok sS)
    (hcomb : adjust ext s0 (toGen st'.reply) = .ok sC) :
    SpecEqCore sC sS ∧ RootfsLe sC.rootfsPropagation sS.rootfsPropagation := by
  rw [adjs_eq] at hwf hseq
  obtain ⟨hrep, hc⟩ := run_chain c0 rs st' h hwf
  rw [hrep] at hcomb
  exact compose_propagation hi _ hc s0 sS sC hs0 hseq hcomb

/-- a chain outside `WellFormed` (a mount with `rshared`, removed by the next plugin) and a
    host whose mounts are all shared -/
def propA0 : Adjustment :=
  { mounts := [{ destination := str "/m1", source := str "/shared", options := [str "rshared"] }] }

def propChain : List (Plugin × Option Response) :=
  [(str "00-a", some { adjust := some propA0 }),
   (str "10-b", some { adjust := some { mounts := [{ destination := str "-/m1" }] } })]

def propExt : Externals := { hostPropagation := fun _ => str "rshared" }

/-- non-vacuity of `C03_propagation_partial`: the core guard holds, `WellFormed` does not, both
    ways succeed — and the rootfs propagations differ (⊑, not =) -/
example :
    (adjs propChain).all wellFormedCore = true ∧ (adjs propChain).all wellFormed = false ∧
    (match run Quirks.fixed (initCreate { id := str "c" }) propChain with
     | .error _ => none
     | .ok st' =>
       match adjust propExt (toSpec { id := str "c" }) (toGen st'.reply),
             seqAdjust propExt (toSpec { id := str "c" }) ((adjs propChain).map toGen) with
       | .ok c, .ok s => some (c.rootfsPropagation, s.rootfsPropagation, decide (c.mounts = s.mounts))
       | _, _ => none) = some ([], str "rshared", true) := by decide

/-- non-vacuity of `C03`, `C03_general` and of every per-family theorem: the demo chain
    satisfies all hypotheses at once (three plugins, one not subscribed; every family touched;
    remove-then-set of an annotation, a mount, a variable and a device by the later plugin;
    `UpdateArgs`) … -/
example :
    (∃ st', run Quirks.fixed (initCreate demoC0) demoChain = .ok st') ∧
    (∀ a ∈ adjs demoChain, WellFormed a) ∧ SpecWF (toSpec demoC0) ∧
    (∃ sS, seqAdjust demoExt (toSpec demoC0) ((adjs demoChain).map toGen) = .ok sS) ∧
    (demoExt.injectCDI = some (recordingInjector []) ∨ demoExt.injectCDI = none) := by
  obtain ⟨h1, h2, h3, h4⟩ := demo_ok
  refine ⟨?_, ?_, h3, ?_, .inl rfl⟩
  · cases hr : run Quirks.fixed (initCreate demoC0) demoChain with
    | ok st => exact ⟨st, rfl⟩
    | error e => rw [hr] at h1; cases h1
  · intro a ha; exact List.all_eq_true.1 h2 a ha
  · cases hr : seqAdjust demoExt (toSpec demoC0) ((adjs demoChain).map toGen) with
    | ok s => exact ⟨s, rfl⟩
    | error e => rw [hr] at h4; cases h4

/-- both ways on the demo chain -/
def demoBoth : Option (Oci.Spec × Oci.Spec) :=
  match run Quirks.fixed (initCreate demoC0) demoChain with
  | .error _ => none
  | .ok st' =>
    match adjust demoExt (toSpec demoC0) (toGen st'.reply),
          seqAdjust demoExt (toSpec demoC0) ((adjs demoChain).map toGen) with
    | .ok c, .ok s => some (c, s)
    | _, _ => none

/-- … and there the conclusion is not trivial: the two specs are not literally equal (the
    sequential spec keeps a stale device rule), while mounts, devices, args … are -/
example :
    demoBoth.map (fun (c, s) => (c.devRules.length, s.devRules.length, decide (c.mounts = s.mounts),
      decide (c.devices = s.devices), decide (c = s))) = some (2, 3, true, true, false) := by
  decide

example :
    demoBoth.map (fun (c, _) => (c.mounts.map Oci.Mount.destination, c.args, c.cdi, c.env)) =
      some ([str "/b", str "/m0", str "/c/d"], [str "b0", str "b1"], [str "v/c=d0", str "v/c=d1"],
            [str "PATH=/bin", str "FOO=2", str "BAR=3"]) := by
  decide

/-! ### witnesses: the weakenings and the guards are forced -/

/-- both ways on a concrete chain with the default externals (no injector, no resolvers) -/
def bothWays (c0 : Container) (rs : List (Plugin × Option Response)) :
    Option (Except GenError Oci.Spec × Except GenError Oci.Spec) :=
  match run Quirks.fixed (initCreate c0) rs with
  | .error _ => none
  | .ok st' => some (adjust {} (toSpec c0) (toGen st'.reply), seqAdjust {} (toSpec c0) ((adjs rs).map toGen))

def one (p : String) (a : Adjustment) : Plugin × Option Response := (str p, some { adjust := some a })

/-- **weakening 1 is forced**: `A` set by the first plugin together with `B`, re-set
    (remove + set) by the second: sequentially replaced in place, re-appended by the reply. -/
theorem weakening_env_order :
    (match bothWays { id := str "c" }
        [one "00" { env := [{ key := str "A", value := str "1" }, { key := str "B", value := str "2" }] },
         one "10" { env := [{ key := str "-A" }, { key := str "A", value := str "3" }] }] with
     | some (.ok c, .ok s) => some (c.env, s.env)
     | _ => none) = some ([str "B=2", str "A=3"], [str "A=3", str "B=2"]) := by decide

/-- **weakening 2 is forced (known finding C03:devRules-stale)**: a device added by the first
    plugin and removed by the second leaves its cgroup allow rule in the sequential spec. -/
theorem finding_devRules_stale :
    (match bothWays { id := str "c" }
        [one "00" { hasLinux := true, devices := [{ path := str "/dev/x", type := str "c", major := 1, minor := 2 }] },
         one "10" { hasLinux := true, devices := [{ path := str "-/dev/x" }] }] with
     | some (.ok c, .ok s) => some (decide (c.devices = s.devices), c.devRules, s.devRules)
     | _ => none) =
    some (true, [], [{ allow := true, type := str "c", major := some 1, minor := some 2, access := str "rw" }]) := by
  decide

/-- guard `keyOk`: the second plugin names a key with two markers; the collector then drops
    the first plugin's removal marker from the reply, so the mount survives in the combined
    spec -/
theorem guard_marker_key :
    (match bothWays { id := str "c", mounts := [{ destination := str "/a" }] }
        [one "00" { mounts := [{ destination := str "-/a" }] },
         one "10" { mounts := [{ destination := str "--/a" }] }] with
     | some (.ok c, .ok s) => some (c.mounts.map (·.destination), s.mounts.map (·.destination))
     | _ => none) = some ([str "/a"], []) := by decide

/-- guard on environment names: a name containing `'='` -/
theorem guard_env_key_with_eq :
    (match bothWays { id := str "c" }
        [one "00" { env := [{ key := str "A=B", value := str "c" }] },
         one "10" { env := [{ key := str "A", value := str "x" }] }] with
     | some (.ok c, .ok s) => some (Env.lookup c.env (str "A"), Env.lookup s.env (str "A"))
     | _ => none) = some (some (str "B=c"), some (str "x")) := by decide

/-- guard `argsOk`, bare marker: `UpdateArgs([])` after another plugin set the args -/
theorem guard_args_bare_marker :
    (match bothWays { id := str "c", args := [str "orig"] }
        [one "00" { args := [str "a"] }, one "10" { args := [[]] }] with
     | some (.ok c, .ok s) => some (c.args, s.args)
     | _ => none) = some ([str "orig"], [str "a"]) := by decide

/-- guard `argsOk`, **new finding**: `UpdateArgs(["", "x"])` — the collector strips the
    marker, the generator strips the (legitimately) empty first word of the reply once more -/
theorem guard_args_empty_first_word :
    (match bothWays { id := str "c", args := [str "orig"] }
        [one "00" { args := [[], [], str "x"] }] with
     | some (.ok c, .ok s) => some (c.args, s.args)
     | _ => none) = some ([str "x"], [[], str "x"]) := by decide

/-- guard `noPropagation`: the generator's `propagation` variable is sticky across the
    entries of ONE `AdjustMounts` call, so in the combined reply the second plugin's plain
    mount inherits `rshared` from the first plugin's mount and its source is checked against
    the host's mount table (here: shared only under `/shared`): combined fails, sequential
    succeeds -/
theorem guard_propagation_sticky :
    (match run Quirks.fixed (initCreate { id := str "c" })
        [one "00" { mounts := [{ destination := str "/m1", source := str "/shared", options := [str "rshared"] }] },
         one "10" { mounts := [{ destination := str "/m2", source := str "/private" }] }] with
     | .error _ => none
     | .ok st' =>
       let ext : Externals := { hostPropagation := fun src => if src = str "/shared" then str "rshared" else [] }
       some ((match adjust ext (toSpec { id := str "c" }) (toGen st'.reply) with
              | .ok _ => none | .error e => some e),
             (seqAdjust ext (toSpec { id := str "c" })
               [toGen { mounts := [{ destination := str "/m1", source := str "/shared", options := [str "rshared"] }] },
                toGen { mounts := [{ destination := str "/m2", source := str "/private" }] }]).toOption.map
               (·.mounts.map (·.destination)))) =
    some (some .mountPropagation, some [str "/m1", str "/m2"]) := by decide

/-- guard `noPropagation`, **new finding** (same shape as devRules-stale): the rootfs
    propagation raised for a mount that a later plugin removes stays raised sequentially -/
theorem finding_rootfs_propagation_stale :
    (match run Quirks.fixed (initCreate { id := str "c" })
        [one "00" { mounts := [{ destination := str "/m1", source := str "/shared", options := [str "rshared"] }] },
         one "10" { mounts := [{ destination := str "-/m1" }] }] with
     | .error _ => none
     | .ok st' =>
       let ext : Externals := { hostPropagation := fun _ => str "rshared" }
       match adjust ext (toSpec { id := str "c" }) (toGen st'.reply),
             seqAdjust ext (toSpec { id := str "c" })
               [toGen { mounts := [{ destination := str "/m1", source := str "/shared", options := [str "rshared"] }] },
                toGen { mounts := [{ destination := str "-/m1" }] }] with
       | .ok c, .ok s => some (c.mounts, s.mounts, c.rootfsPropagation, s.rootfsPropagation)
       | _, _ => none) =
    some ([], [], [], str "rshared") := by decide

/-- guard `SpecWF`: an original with two mounts on one destination — `RemoveMount` deletes only
    the first match: sequentially twice (set = remove-and-append, then the removal), combined
    once (the reply only carries the removal marker) -/
theorem guard_spec_duplicate_mounts :
    (match bothWays { id := str "c", mounts := [{ destination := str "/a", type := str "t1" }, { destination := str "/a", type := str "t2" }] }
        [one "00" { mounts := [{ destination := str "/a", type := str "t3" }] },
         one "10" { mounts := [{ destination := str "-/a" }] }] with
     | some (.ok c, .ok s) => some (c.mounts.map Oci.Mount.type, s.mounts.map Oci.Mount.type)
     | _ => none) = some ([str "t2"], [str "t3"]) := by decide

/-- guard `SpecWF`, devices: two original devices on one path -/
theorem guard_spec_duplicate_devices :
    (match bothWays { id := str "c", devices := [{ path := str "/dev/x", type := str "t1" }, { path := str "/dev/x", type := str "t2" }] }
        [one "00" { hasLinux := true, devices := [{ path := str "/dev/x", type := str "t3" }] },
         one "10" { hasLinux := true, devices := [{ path := str "-/dev/x" }] }] with
     | some (.ok c, .ok s) => some (c.devices.map Oci.Device.type, s.devices.map Oci.Device.type)
     | _ => none) = some ([str "t2"], []) := by decide

/-- guard `SpecWF`, environment: a name occurring twice in the original -/
theorem guard_spec_duplicate_env :
    (match bothWays { id := str "c", env := [str "A=1", str "A=2"] }
        [one "00" { env := [{ key := str "A", value := str "3" }] },
         one "10" { env := [{ key := str "-A" }] }] with
     | some (.ok c, .ok s) => some (Env.lookup c.env (str "A"), Env.lookup s.env (str "A"))
     | _ => none) = some (some (str "2"), none) := by decide

/-- the ledger fact is needed: WITHOUT the ledger (folding `replyStep` directly) a limit 5
    followed by a limit 0 would give different memory sections — the ledger rejects the chain -/
theorem memory_limit_needs_ledger :
    let a1 : Adjustment := { hasLinux := true, resources := some { memory := some { limit := some 5 } } }
    let a2 : Adjustment := { hasLinux := true, resources := some { memory := some { limit := some 0 } } }
    (memG {} (replyStep (replyStep reply0 a1) a2)).limit = none ∧
    (memG (memG {} a1) a2).limit = some 5 ∧
    (match run Quirks.fixed (initCreate { id := str "c" }) [one "00" a1, one "10" a2] with
     | .ok _ => false | .error _ => true) = true := by decide

end Nri.Props.C03
