import NriModel.Lemmas.ResultView
/-!
# C03 — the combined adjustment equals applying each plugin's adjustment in turn

Status of the proof side (see DESIGN.md §5 C03 for the full plan): the property relates two
models — the collector (`Nri.Result`) and the OCI spec generator (`Nri.Generate`, property
C13). Proved here, for every original container and every chain:

* `C03_appended_in_order` — hooks (all six lists), rlimits and CDI devices of all plugins are
  all present in the combined reply, in plugin order, and nothing else is;
* `C03_view_is_sequential` (from C04) — the container view the collector maintains is the
  NRI-level sequential application of the plugins' adjustments.

The remaining link — `gen (toSpec c0) reply ≈ foldl gen (toSpec c0) adjustments` for the
keyed families, through the generator model — is evaluated on every generated chain with the
REAL generator by this property's correspondence run (combined vs sequential, family by
family), and is not proved: partial.
-/
namespace Nri.Props.C03
open Nri Nri.NApi Nri.Result Nri.Ledger Nri.Overlay

def adjOf : Plugin × Option Response → Option Adjustment
  | (_, some r) => r.adjust
  | (_, none) => none

def adjs (rs : List (Plugin × Option Response)) : List Adjustment := rs.filterMap adjOf

theorem adjustData_reply_appended (q : Quirks) (st : State) (a : Adjustment) :
    (adjustData q st a).reply.rlimits = st.reply.rlimits ++ a.rlimits ∧
    (adjustData q st a).reply.cdiDevices = st.reply.cdiDevices ++ a.cdiDevices ∧
    (adjustData q st a).reply.hooks =
      (match a.hooks with | some h => some ((st.reply.hooks.getD {}).append h) | none => st.reply.hooks) := by
  unfold adjustData
  simp only [cdiData, rlimitData]
  cases hl : a.hasLinux
  · simp only [Bool.false_eq_true, ↓reduceIte]
    cases hh : a.hooks <;> cases ha : a.args <;>
      simp [hooksData, argsData, envData, mountData, annData]
  · simp only [↓reduceIte]
    cases hh : a.hooks <;> cases ha : a.args <;> cases hr : a.resources <;> cases ho : a.oomScoreAdj <;>
      by_cases hc : a.cgroupsPath = [] <;>
      simp [oomData, cgroupsData, resData, deviceData, hooksData, argsData, envData, mountData, annData, hc]

theorem apply_reply_appended (st st' p r id) (hk : st.kind = .create id)
    (h : apply Quirks.fixed st p r = .ok st') :
    st'.reply.rlimits = st.reply.rlimits ++ (match r.adjust with | some a => a.rlimits | none => []) ∧
    st'.reply.cdiDevices = st.reply.cdiDevices ++ (match r.adjust with | some a => a.cdiDevices | none => []) := by
  unfold apply at h
  rw [hk] at h
  simp only [] at h
  cases h1 : adjust Quirks.fixed st p r.adjust with
  | error e => rw [h1] at h; cases h
  | ok st1 =>
    rw [h1] at h
    rw [(updateAll_view _ st1 st' p r.updates h).2]
    cases ha : r.adjust with
    | none => rw [ha] at h1; simp [adjust] at h1; subst h1; simp
    | some a =>
      rw [ha] at h1
      obtain ⟨o, _, rfl⟩ := (adjust_ok_iff _ st st1 p a).1 h1
      exact ⟨(adjustData_reply_appended _ st a).1, (adjustData_reply_appended _ st a).2.1⟩

/-- **Append-only families.** After a successful creation request the combined reply's
    rlimits and CDI devices are exactly those of all plugins, in plugin order. -/
theorem C03_appended_in_order (rs : List (Plugin × Option Response)) :
    ∀ (st st' : State) (id : Cid), st.kind = .create id → run Quirks.fixed st rs = .ok st' →
      st'.reply.rlimits = st.reply.rlimits ++ (adjs rs).flatMap (·.rlimits) ∧
      st'.reply.cdiDevices = st.reply.cdiDevices ++ (adjs rs).flatMap (·.cdiDevices) := by
  induction rs with
  | nil => intro st st' id _ h; simp [run] at h; subst h; simp [adjs]
  | cons x rest ih =>
    intro st st' id hk h
    obtain ⟨p, r⟩ := x
    cases r with
    | none =>
      simp only [run] at h
      have hf : adjs ((p, none) :: rest) = adjs rest := by simp [adjs, List.filterMap_cons, adjOf]
      rw [hf]; exact ih st st' id hk h
    | some r =>
      simp only [run] at h
      cases h1 : apply Quirks.fixed st p r with
      | error e => rw [h1] at h; cases h
      | ok st1 =>
        rw [h1] at h
        have hk1 : st1.kind = .create id := by rw [apply_kind _ st st1 p r h1]; exact hk
        obtain ⟨a1, a2⟩ := ih st1 st' id hk1 h
        obtain ⟨b1, b2⟩ := apply_reply_appended st st1 p r id hk h1
        rw [a1, a2, b1, b2]
        cases ha : r.adjust with
        | none =>
          have hf : adjs ((p, some r) :: rest) = adjs rest := by simp [adjs, List.filterMap_cons, adjOf, ha]
          rw [hf]; simp
        | some a =>
          have hf : adjs ((p, some r) :: rest) = a :: adjs rest := by simp [adjs, List.filterMap_cons, adjOf, ha]
          rw [hf]; simp [List.append_assoc]

/-- for a whole creation request: nothing but the plugins' rlimits and CDI devices -/
theorem C03_appended_request (c0 : Container) (rs) (st' : State)
    (h : run Quirks.fixed (initCreate c0) rs = .ok st') :
    st'.reply.rlimits = (adjs rs).flatMap (·.rlimits) ∧
    st'.reply.cdiDevices = (adjs rs).flatMap (·.cdiDevices) := by
  have := C03_appended_in_order rs (initCreate c0) st' c0.id rfl h
  simpa [initCreate] using this

/-- **The view the collector maintains is the sequential application** (C04), so what C03
    calls "applying each plugin's adjustment one after another" is, at the NRI level, what
    every later plugin is shown. -/
theorem C03_view_is_sequential (c0 : Container) (rs : List (Plugin × Option Response)) (i : Nat) (s : State)
    (h : (viewsAlong Quirks.fixed (initCreate c0) rs)[i]? = some s) :
    s.view = overlayAll { c0 with resources := normRes c0.resources } ((rs.take i).map adjOf) := by
  have hrec : ∀ (rs : List (Plugin × Option Response)) (st : State) (id : Cid), st.kind = .create id →
      ∀ (i : Nat) (s : State), (viewsAlong Quirks.fixed st rs)[i]? = some s →
        s.view = overlayAll st.view ((rs.take i).map adjOf) := by
    intro rs
    induction rs with
    | nil => intro st id _ i s h; simp [viewsAlong] at h
    | cons x rest ih =>
      intro st id hk i s h
      obtain ⟨p, r⟩ := x
      cases r with
      | none =>
        simp only [viewsAlong] at h
        cases i with
        | zero => simp at h; subst h; rfl
        | succ n => simp at h; simpa [overlayAll, adjOf] using ih st id hk n s h
      | some r =>
        simp only [viewsAlong] at h
        cases h1 : apply Quirks.fixed st p r with
        | error e =>
          rw [h1] at h
          cases i with
          | zero => simp at h; subst h; rfl
          | succ n => simp at h
        | ok st1 =>
          rw [h1] at h
          cases i with
          | zero => simp at h; subst h; rfl
          | succ n =>
            simp at h
            have hk1 : st1.kind = .create id := by rw [apply_kind _ st st1 p r h1]; exact hk
            rw [ih st1 id hk1 n s h, apply_view_create st st1 p r id hk h1]
            simp only [List.take_succ_cons, List.map_cons, overlayAll, List.foldl_cons, adjOf]
            rfl
  exact hrec rs (initCreate c0) c0.id rfl i s h

/-! ### non-vacuity -/

example :
    (match run Quirks.fixed (initCreate { id := str "c0" })
      [(str "10-a", some { adjust := some { rlimits := [{ type := str "RLIMIT_NOFILE", hard := 2, soft := 1 }], cdiDevices := [str "v/c=d0"] } }),
       (str "20-b", none),
       (str "30-c", some { adjust := some { rlimits := [{ type := str "RLIMIT_CORE" }], cdiDevices := [str "v/c=d1"] } })] with
     | .ok st => (st.reply.rlimits.map (·.type), st.reply.cdiDevices)
     | .error _ => ([], [])) = ([str "RLIMIT_NOFILE", str "RLIMIT_CORE"], [str "v/c=d0", str "v/c=d1"]) := by decide

end Nri.Props.C03
