import NriModel.Basic
/-! Property theorems for C03 — placeholder until the model is written. -/
namespace Nri.Props.C03
end Nri.Props.C03
