import NriModel.Basic
/-! Property theorems for C10 — placeholder until the model is written. -/
namespace Nri.Props.C10
end Nri.Props.C10
