import NriModel.Lemmas.MuxStream
import NriModel.Lemmas.MuxOpen
/-!
Property theorems for C10 — multiplexed connections deliver each stream complete, in order
and isolated.  Model: `NriModel/Mux.lean`.  `mp` = maximum frame payload, `qlen` = read queue
length; every theorem holds for every value (`0 < mp < 2^32`).

`ws : List (Nat × Bytes)` is the list of `(connection id, buffer)` of all `Write` calls of one
end in the order they acquired the trunk write lock.  Every schedule of concurrent writers
is such a list (a `Write` is atomic under `m.writeLock`); that the real trunk stream *is*
such a concatenation is what the correspondence check measures (trunk tap).
-/
namespace Nri.Props.C10
open Nri.Mux

/-- `binary.BigEndian` header fields survive the round trip. -/
theorem be32_roundtrip (n : Nat) (h : n < 2 ^ 32) :
    be32 (UInt8.ofNat (n / 16777216)) (UInt8.ofNat (n / 65536)) (UInt8.ofNat (n / 256))
      (UInt8.ofNat n) = n ∧
    be32Encode n = [UInt8.ofNat (n / 16777216), UInt8.ofNat (n / 65536), UInt8.ofNat (n / 256),
      UInt8.ofNat n] :=
  ⟨be32_ofNat n (by simpa using h), rfl⟩

example : be32 (UInt8.ofNat (4194314 / 16777216)) (UInt8.ofNat (4194314 / 65536))
    (UInt8.ofNat (4194314 / 256)) (UInt8.ofNat 4194314) = 4194314 :=
  (be32_roundtrip 4194314 (by decide)).1

/-- The write loop of `mux.write` never faults and cuts the buffer at `mp`: the chunks
    concatenate to the buffer, none is longer than `mp`, there is always at least one (an
    empty `Write` sends one empty frame), and a buffer that fits is sent as one frame. -/
theorem C10_chunks (mp : Nat) (hmp : 0 < mp) (buf : Bytes) :
    ∃ cs, chunks mp buf = some cs ∧ cs.flatten = buf ∧ (∀ c ∈ cs, c.length ≤ mp) ∧ cs ≠ [] ∧
      (buf.length ≤ mp → cs = [buf]) :=
  ⟨chunkSpec mp buf, chunks_eq_spec mp hmp buf, chunkSpec_flatten mp buf,
    chunkSpec_length_le mp hmp buf, chunkSpec_ne_nil mp buf, chunkSpec_small mp buf⟩

example : chunks 3 [1, 2, 3, 4, 5, 6, 7] = some [[1, 2, 3], [4, 5, 6], [7]] := by decide
example : chunks 3 [1, 2, 3, 4, 5, 6] = some [[1, 2, 3], [4, 5, 6]] := by decide
example : chunks 3 [] = some [[]] := by decide
/-- why `0 < mp` is a hypothesis: with `mp = 0` the loop "succeeds" having sent nothing -/
example : chunks 0 [1, 2] = some [[]] := by decide

/-- The reader loop applied to the concatenation of any sequence of encoded writes yields
    exactly the frames written, in order, and no incomplete tail. -/
theorem C10_frames (mp : Nat) (hmp : 0 < mp) (hmp32 : mp < 2 ^ 32) (ws : List (Nat × Bytes))
    (hid : ∀ w ∈ ws, w.1 < 2 ^ 32) :
    ∃ s, encodeWrites mp ws = some s ∧ decode s = (specFrames mp ws, []) := by
  refine ⟨_, encodeWrites_eq mp hmp ws, ?_⟩
  have hb := specFrames_bounds mp hmp (by simpa using hmp32) ws (by simpa using hid)
  have := decode_frames (specFrames mp ws) hb []
  simpa [decode_nil] using this

example := C10_frames 3 (by decide) (by decide) [(1, [10, 11, 12, 13]), (2, []), (1, [14])] (by decide)
example : (encodeWrites 3 [(1, [10, 11, 12, 13]), (2, []), (1, [14])]).map (fun s => (decode s).1) =
    some [⟨1, [10, 11, 12]⟩, ⟨1, [13]⟩, ⟨2, []⟩, ⟨1, [14]⟩] := by
  simp [encodeWrites, encodeWrite, framesOfWrite, chunks, writeLoop, sliceTo, sliceFrom,
    encodeFrames, encodeFrame, be32Encode, decode, be32]

/-- For every connection id, the bytes a reader of that id gets are exactly the
    concatenation of the buffers written to that id, in order: complete and unmodified. -/
theorem C10_stream (mp : Nat) (hmp : 0 < mp) (hmp32 : mp < 2 ^ 32) (ws : List (Nat × Bytes))
    (hid : ∀ w ∈ ws, w.1 < 2 ^ 32) (id : Nat) :
    ∃ s, encodeWrites mp ws = some s ∧
      bytesDelivered id (decode s).1 = ((ws.filter (·.1 == id)).map (·.2)).flatten := by
  obtain ⟨s, hs, hd⟩ := C10_frames mp hmp hmp32 ws hid
  exact ⟨s, hs, by rw [hd]; exact bytesDelivered_specFrames mp id ws⟩

/-- Message boundaries: the frames delivered to `id` are the chunks of the writes to `id`. -/
theorem C10_messages (mp : Nat) (hmp : 0 < mp) (hmp32 : mp < 2 ^ 32) (ws : List (Nat × Bytes))
    (hid : ∀ w ∈ ws, w.1 < 2 ^ 32) (id : Nat) :
    ∃ s, encodeWrites mp ws = some s ∧
      payloadsOf id (decode s).1 = (ws.filter (·.1 == id)).flatMap (fun w => chunkSpec mp w.2) := by
  obtain ⟨s, hs, hd⟩ := C10_frames mp hmp hmp32 ws hid
  exact ⟨s, hs, by rw [hd]; exact payloadsOf_specFrames mp id ws⟩

/-- Isolation: what connection `id` delivers does not depend on the writes to other ids —
    two write sequences that agree on `id` deliver the same frames on `id`. -/
theorem C10_isolated (mp : Nat) (hmp : 0 < mp) (hmp32 : mp < 2 ^ 32)
    (ws ws' : List (Nat × Bytes)) (hid : ∀ w ∈ ws, w.1 < 2 ^ 32) (hid' : ∀ w ∈ ws', w.1 < 2 ^ 32)
    (id : Nat) (hsame : ws.filter (·.1 == id) = ws'.filter (·.1 == id)) :
    ∃ s s', encodeWrites mp ws = some s ∧ encodeWrites mp ws' = some s' ∧
      payloadsOf id (decode s).1 = payloadsOf id (decode s').1 := by
  obtain ⟨s, hs, hd⟩ := C10_messages mp hmp hmp32 ws hid id
  obtain ⟨s', hs', hd'⟩ := C10_messages mp hmp hmp32 ws' hid' id
  exact ⟨s, s', hs, hs', by rw [hd, hd', hsame]⟩

example : ∃ s s', encodeWrites 4 [(1, [1, 2]), (2, [9, 9, 9, 9, 9])] = some s ∧
    encodeWrites 4 [(3, []), (1, [1, 2])] = some s' ∧
    payloadsOf 1 (decode s).1 = payloadsOf 1 (decode s').1 :=
  C10_isolated 4 (by decide) (by decide) [(1, [1, 2]), (2, [9, 9, 9, 9, 9])] [(3, []), (1, [1, 2])]
    (by decide) (by decide) 1 (by decide)

/-- Receive side, as long as no read uses a short buffer (guard, DESIGN §6 #12): in every
    run of the mux end, for a connection object still registered under its id, what Read has
    handed out followed by what is still queued is exactly every frame the reader routed to
    that id since the object was opened — nothing lost, reordered or duplicated, whatever
    the interleaving of reader, Reads, Writes and Closes. -/
theorem C10_queue (cfg : Cfg) (tr : List Ev) (s : MuxSt) (hg : bigBuffers tr = true)
    (hr : run (MuxSt.init cfg) tr = some s) (h : Nat) (c : Conn) (hc : s.objs[h]? = some c)
    (hm : AList.lookup s.cmap c.id = some h) :
    received h tr ++ c.queue = (payloadsOf c.id (delivered tr)).drop c.base ∧
      c.queue.length ≤ cfg.qlen := by
  have hi := run_inv (Inv.init cfg) hg hr
  have ho := hi.obj h c hc
  have hrc := run_rc h hr
  have hseen := run_seen hr
  have hcfg : s.cfg = cfg := run_cfg hr
  simp only [rc, rcOf, MuxSt.init, hc, List.getElem?_nil, List.nil_append] at hrc hseen
  rw [← hrc, ← ho.split, ho.got_eq hm, hseen, ← hcfg]
  exact ⟨rfl, ho.qbound⟩

example : ∃ s c, run (MuxSt.init { mp := 4, qlen := 2 })
      [.openNew 7 0, .deliver ⟨7, [1]⟩, .deliver ⟨9, [5]⟩, .deliver ⟨7, [2]⟩,
       .read 0 8 8 (.data [1] 1)] = some s ∧
    s.objs[0]? = some c ∧ AList.lookup s.cmap c.id = some 0 ∧ c.queue = [[2]] := by
  refine ⟨_, _, rfl, rfl, by decide, rfl⟩

/-- Why the buffer guard is a hypothesis: a Read into a buffer smaller than the frame
    (`cap < len`) returns ENOMEM and the frame is gone — the next Read returns the frame
    after it (reproduced on the real code, excluded stream of the check). -/
theorem unguarded_small_buffer_loses_frame :
    ∃ s, run (MuxSt.init { mp := 4, qlen := 4 })
        [.openNew 1 0, .deliver ⟨1, [1, 2, 3]⟩, .deliver ⟨1, [4]⟩,
         .read 0 2 2 .enomem, .read 0 2 2 (.data [4] 1)] = some s ∧
      received 0 [.openNew 1 0, .deliver ⟨1, [1, 2, 3]⟩, .deliver ⟨1, [4]⟩,
         .read 0 2 2 .enomem, .read 0 2 2 (.data [4] 1)] = [[4]] :=
  ⟨_, rfl, by decide⟩

/-- … and with `len < frame ≤ cap` Read reports more bytes than it copied. -/
theorem unguarded_short_len_truncates :
    ∃ s, run (MuxSt.init { mp := 4, qlen := 4 })
        [.openNew 1 0, .deliver ⟨1, [1, 2, 3]⟩, .read 0 2 8 (.data [1, 2] 3)] = some s :=
  ⟨_, rfl⟩


/-! ### `Open` is atomic: one connection per id

`NriModel/MuxOpen.lean` models `Open` and `Close` at the granularity of `connLock`. -/

/-- However Opens (of any ids) and a Close are ordered, every `Open(id)` hands out the SAME
    connection as the first `Open(id)` did: a logical connection is one object per id, so what the
    peer writes to the id reaches whoever holds "the" connection. (The code: lookup and
    registration under one acquisition of `connLock`.) -/
theorem C10_open_one_connection_per_id (pre evs : List MuxOpen.Ev) (id : Nat) :
    let s1 := MuxOpen.openAtomic (MuxOpen.orun pre) id
    (MuxOpen.openAtomic (MuxOpen.orun evs s1.1) id).2 = s1.2 := by
  intro s1
  have hreg := MuxOpen.openAtomic_registers (MuxOpen.orun pre) id
  have hl := MuxOpen.orun_lookup evs hreg
  show (MuxOpen.openAtomic (MuxOpen.orun evs s1.1) id).2 = s1.2
  unfold MuxOpen.openAtomic
  simp only [s1] at hl ⊢
  rw [hl]

/-- The same `Open` split into "look the id up" and, later, "register a new object if none was
    SEEN" (a lookup under the read lock followed by creation under the write lock without a
    re-check — seeded breakage C10-r6a): two racing Opens of id 5 get two different connections and
    the first one is no longer the one the table routes frames to. -/
theorem unfixed_split_open_two_connections :
    let s0 : MuxOpen.OSt := {}
    let a := MuxOpen.openCheck s0 5
    let b := MuxOpen.openCheck s0 5
    let (s1, ha) := MuxOpen.openInsert s0 a
    let (s2, hb) := MuxOpen.openInsert s1 b
    ha ≠ hb ∧ MuxOpen.lookup s2.table 5 = some hb := by decide

end Nri.Props.C10
