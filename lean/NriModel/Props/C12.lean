import NriModel.Basic
/-! Property theorems for C12 — placeholder until the model is written. -/
namespace Nri.Props.C12
end Nri.Props.C12
