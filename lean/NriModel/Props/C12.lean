import NriModel.Wire
import NriModel.Extracted.ApiSchema
import NriModel.Lemmas.WireProps
import NriModel.Lemmas.WireOrder
import NriModel.Lemmas.WireBytes
import NriModel.Lemmas.WireDecodeWT
import NriModel.Lemmas.WireMerge
/-!
Property theorems for C12 — both wire encodings of every protocol message agree.

What is proved here is about the *reference codec* `Nri.Wire` (encode / decode / size,
generic in the schema) and its instantiation to the schema regenerated from the descriptor
compiled into `pkg/api/api.pb.go`. The two generated Go codecs are tied to this reference
codec by the correspondence run (both directions); their 12 640 generated lines are not
themselves verified.

Normal form of values: a message value is the list of its field values in schema order;
a proto3 implicit-presence field (scalar, string) that is zero/empty *is* the absent field
(nothing is written, nothing needs to be read), a repeated field or map with no element is
the absent one, and only a singular message field has presence (`Val.none` vs `Val.msg _`).
-/
namespace Nri.Props.C12
open Nri.Wire Nri.Wire.Extracted

/-- a small schema for the non-vacuity examples (the generated one is re-indexed whenever
    api.proto changes): `Inner {int64 value = 1}`,
    `Outer {string id = 1; Inner opt = 2; repeated Inner items = 3; map<string,string> labels = 4;
            repeated string args = 5; int32 code = 6; bool flag = 7}` -/
def demo : Schema := [
  { name := "Inner", fields := [ { name := "value", num := 1, ty := .scalar .int64 } ] },
  { name := "Outer", fields := [
      { name := "id", num := 1, ty := .string },
      { name := "opt", num := 2, ty := .msg 0 },
      { name := "items", num := 3, ty := .repMsg 0 },
      { name := "labels", num := 4, ty := .mapSS },
      { name := "args", num := 5, ty := .repString },
      { name := "code", num := 6, ty := .scalar .int32 },
      { name := "flag", num := 7, ty := .scalar .bool } ] } ]

/-- `Outer{id:"a", opt:&Inner{}, items:[{-1},{}], labels:{"k":"v"}, args:["","x"], code:-2, flag:true}` -/
def demoVal : List Val :=
  [.str [97], .msg [.int 0], .list [.msg [.int (-1)], .msg [.int 0]], .smap [([107], [118])],
   .strs [[], [120]], .int (-2), .int 1]

/-- Varints of 64-bit quantities round trip, whatever follows them. -/
theorem varint_roundtrip (n : Nat) (h : n < 2 ^ 64) (r : Bytes) :
    decodeVarint (encodeVarint n ++ r) = some (n, r) :=
  decodeVarint_encodeVarint n r h

example : decodeVarint (encodeVarint (2 ^ 64 - 1) ++ [7]) = some (2 ^ 64 - 1, [7]) := by decide
example : encodeVarint 300 = [172, 2] := by decide

/-- The regenerated schema of `pkg/api` is well-formed (legal, distinct field numbers; only
    modelled field kinds; every message reference resolves) — so every generic theorem
    below applies to every message type of the descriptor. Re-decided on every run. -/
theorem schema_wf : apiSchema.WF = true := by decide

/-- …and the generator met nothing outside the model. -/
theorem schema_supported : unsupportedFeatures = [] := by decide

/-- **Round trip**: for every well-formed schema, every message type and every well-typed
    value, decoding the encoding returns the value. (`hlen`: length prefixes are 64-bit.) -/
theorem C12_roundtrip (S : Schema) (hS : S.WF = true) (m : Nat) (v : List Val)
    (hv : WellTyped S m v = true) (hlen : (encode S m v).length < 2 ^ 64) :
    decode S m (encode S m v) = some v :=
  decode_encode S hS m v hv hlen

example : demo.WF = true := by decide
example : WellTyped demo 1 demoVal = true := by decide
example : (encode demo 1 demoVal).length < 2 ^ 64 := by decide
example : decode demo 1 (encode demo 1 demoVal) = some demoVal :=
  C12_roundtrip demo (by decide) 1 demoVal (by decide) (by decide)

/-- the same, for every message type of the nri protocol -/
theorem C12_roundtrip_api (m : Nat) (v : List Val) (hv : WellTyped apiSchema m v = true)
    (hlen : (encode apiSchema m v).length < 2 ^ 64) :
    decode apiSchema m (encode apiSchema m v) = some v :=
  C12_roundtrip apiSchema schema_wf m v hv hlen

-- some message type of the real schema is a one-field signed wrapper (OptionalInt & co); −1 in
-- it is well-typed and takes the ten-byte sign-extended varint
example : ∃ m, m < apiSchema.length ∧ WellTyped apiSchema m [.int (-1)] = true ∧
    encode apiSchema m [.int (-1)] = [8, 255, 255, 255, 255, 255, 255, 255, 255, 255, 1] := by decide

/-- **Size**: the size computed field by field (what `SizeVT` does) is the number of bytes
    the encoder writes — for every schema and every value, typed or not. -/
theorem C12_size (S : Schema) (m : Nat) (v : List Val) : (encode S m v).length = size S m v :=
  encode_length S m v

example : size demo 1 demoVal = 46 ∧ (encode demo 1 demoVal).length = 46 := by decide

/-- Bytes are modelled as natural numbers; the encoder only ever writes numbers below 256. -/
theorem C12_bytes (S : Schema) (hS : S.WF = true) (m : Nat) (v : List Val)
    (hv : WellTyped S m v = true) (hlen : (encode S m v).length < 2 ^ 64) :
    ∀ b ∈ encode S m v, b < 256 :=
  encode_allLt S hS m v hv hlen

example : ∀ b ∈ encode demo 1 demoVal, b < 256 :=
  C12_bytes demo (by decide) 1 demoVal (by decide) (by decide)

/-- No two distinct well-typed values share an encoding. -/
theorem C12_injective (S : Schema) (hS : S.WF = true) (m : Nat) (v w : List Val)
    (hv : WellTyped S m v = true) (hw : WellTyped S m w = true)
    (hlv : (encode S m v).length < 2 ^ 64) (h : encode S m v = encode S m w) : v = w := by
  have h1 := C12_roundtrip S hS m v hv hlv
  have h2 := C12_roundtrip S hS m w hw (h ▸ hlv)
  rw [h] at h1
  exact Option.some.inj (h1.symm.trans h2)

/-- **Presence**: in every message, an absent singular message field and the same field
    present with all-default content are different values, have different encodings, and
    decode back to the two different values. -/
theorem C12_presence (S : Schema) (hS : S.WF = true) (m : Nat) (v : List Val) (i : Nat)
    (f : Field) (m' : Nat) (hv : WellTyped S m v = true)
    (hf : (S.fieldsOf m)[i]? = some f) (hty : f.ty = .msg m')
    (h0 : (encode S m (v.set i .none)).length < 2 ^ 64)
    (h1 : (encode S m (v.set i (.msg (emptyMsg S m')))).length < 2 ^ 64) :
    let absent := v.set i .none
    let present := v.set i (.msg (emptyMsg S m'))
    decode S m (encode S m absent) = some absent ∧
    decode S m (encode S m present) = some present ∧
    decode S m (encode S m absent) ≠ decode S m (encode S m present) ∧
    encode S m absent ≠ encode S m present := by
  intro absent present
  have hi : i < v.length := by
    have := wtFields_length S _ _ hv
    have := (List.getElem?_eq_some_iff.mp hf).1
    omega
  have wa : WellTyped S m absent = true :=
    wtFields_set S _ v i f .none hv hf (by simp [hty, wtVal])
  have wp : WellTyped S m present = true :=
    wtFields_set S _ v i f _ hv hf (by
      simp only [hty, wtVal]; exact wellTyped_emptyMsg S hS m')
  have ra := C12_roundtrip S hS m absent wa h0
  have rp := C12_roundtrip S hS m present wp h1
  have hne : absent ≠ present := by
    intro e
    have := congrArg (fun l => l[i]?) e
    simp [absent, present, hi] at this
  refine ⟨ra, rp, ?_, ?_⟩
  · rw [ra, rp]; exact fun e => hne (Option.some.inj e)
  · intro e; rw [e, rp] at ra; exact hne (Option.some.inj ra).symm

example : encode demo 1 (demoVal.set 1 .none) ≠ encode demo 1 (demoVal.set 1 (.msg (emptyMsg demo 0))) :=
  (C12_presence demo (by decide) 1 demoVal 1 { name := "opt", num := 2, ty := .msg 0 } 0 (by decide) rfl rfl (by decide) (by decide)).2.2.2
example : encode demo 1 [.str [], .msg [.int 0], .list [], .smap [], .strs [], .int 0, .int 0] = [18, 0] := by
  decide
example : encode demo 1 [.str [], .none, .list [], .smap [], .strs [], .int 0, .int 0] = [] := by decide

/-- Whatever bytes it is given, the decoder returns only well-typed values: every scalar
    within the range of its Go type (`int32(v)`, `uint32(v)`, `v != 0` truncations), every
    string valid UTF-8, map keys distinct, every nested message of the shape of its schema.
    Hence what it returns re-encodes and decodes to itself (`decode ∘ encode ∘ decode = decode`):
    non-minimal varints, reordered or split records are normalised away. -/
theorem C12_decode_welltyped (S : Schema) (hS : S.WF = true) (m : Nat) (bs : Bytes) (v : List Val)
    (hb : ∀ b ∈ bs, b < 256) (h : decode S m bs = some v) :
    WellTyped S m v = true ∧
    ((encode S m v).length < 2 ^ 64 → decode S m (encode S m v) = some v) := by
  have hw := decode_wt S hS m bs v hb h
  exact ⟨hw, C12_roundtrip S hS m v hw⟩

-- Outer{ code: 5 written as the padded varint 85 00, then flag twice (last wins) }
example : decode demo 1 [48, 133, 0, 56, 0, 56, 1] =
    some [.str [], .none, .list [], .smap [], .strs [], .int 5, .int 1] := by rfl
-- an int32 field given a 64-bit varint keeps the low 32 bits, as Go's int32(v) does
example : decode demo 1 [48, 255, 255, 255, 255, 31] =
    some [.str [], .none, .list [], .smap [], .strs [], .int (-1), .int 0] := by rfl

/-- **Concatenation = merge**: decoding the encoding of `a` followed by the encoding of `b`
    yields `merge a b` (set scalars and strings of `b` overwrite, unset ones keep `a`'s,
    repeated fields append, maps assign key by key, message fields merge recursively) — what
    both Go decoders do when one message arrives split over several records or byte strings
    (`UnmarshalVT` never resets its receiver). Merging into the empty message is the identity. -/
theorem C12_concat (S : Schema) (hS : S.WF = true) (m : Nat) (a b : List Val)
    (ha : WellTyped S m a = true) (hb : WellTyped S m b = true)
    (hlen : (encode S m a ++ encode S m b).length < 2 ^ 64) :
    decode S m (encode S m a ++ encode S m b) = some (merge S m a b) ∧
    merge S m (emptyMsg S m) b = b := by
  refine ⟨decode_append S hS m a b ha hb hlen, ?_⟩
  have hlb : (encode S m b).length < 2 ^ 64 := by simp only [List.length_append] at hlen; omega
  have h1 := decMsg_encode_merge S hS m (emptyMsg S m) b (wellTyped_emptyMsg S hS m) hb hlb
    (encode S m b).length (Nat.le_refl _)
  have h2 := C12_roundtrip S hS m b hb hlb
  unfold decode at h2
  rw [h2] at h1
  exact (Option.some.inj h1).symm

-- Outer{id:"a", opt:{5}, items:[{-1}], code:3} ++ Outer{opt:{} , items:[{1}], labels:{k:v}, code:7}
example : decode demo 1
      (encode demo 1 [.str [97], .msg [.int 5], .list [.msg [.int (-1)]], .smap [], .strs [], .int 3, .int 0] ++
       encode demo 1 [.str [], .msg [.int 0], .list [.msg [.int 1]], .smap [([107], [118])], .strs [], .int 7, .int 0])
    = some [.str [97], .msg [.int 5], .list [.msg [.int (-1)], .msg [.int 1]], .smap [([107], [118])],
            .strs [], .int 7, .int 0] :=
  (C12_concat demo (by decide) 1 _ _ (by decide) (by decide) (by decide)).1

/-- The decoder acts only on legal field numbers (1 … 2^29-1): a tag outside that range makes
    the whole input undecodable, as in protobuf-go (`n > MaxValidNumber → errDecode`). vtproto
    computes `int32(wire >> 3)` instead and may alias such a tag onto a declared field; no
    encoder writes such tags (`schema_wf`: every declared number is < 2^29), so this is outside
    the property's domain — recorded by the `raw` stream, class `bigfield`. -/
theorem C12_fieldnum_range (bs : Bytes) (num : Nat) (it : Item) (rest : Bytes)
    (h : parseField bs = some (num, it, rest)) : 1 ≤ num ∧ num < 2 ^ 29 := by
  have := parseField_num bs num it rest h
  omega

example : parseField [8, 5, 9] = some (1, .varint 5, [9]) := by rfl
-- Inner{value} given field 2^29 (tag 80 80 80 80 10), 2^31 (80 80 80 80 40) and 2^32+1
-- (88 80 80 80 80 01, which vtproto reads as field 1): all rejected
example : decode demo 0 [128, 128, 128, 128, 16, 7] = none := by rfl
example : decode demo 0 [128, 128, 128, 128, 64, 5] = none := by rfl
example : decode demo 0 [136, 128, 128, 128, 128, 1, 5] = none := by rfl
-- the largest legal number, unknown to Inner, is skipped
example : decode demo 0 [248, 255, 255, 255, 15, 7] = some [.int 0] := by rfl

/-- **Field order is free**: the records of the fields of a message, written in any order
    of the fields (the records of one repeated field or map kept together), decode to the
    value. (Both Go encoders write ascending field numbers; a conforming peer need not.) -/
theorem C12_order_free (S : Schema) (hS : S.WF = true) (m : Nat) (v : List Val)
    (hv : WellTyped S m v = true) (π : List (Field × Val))
    (hπ : π.Perm ((S.fieldsOf m).zip v))
    (hlen : (π.flatMap fun p => encField S p.1 p.2).length < 2 ^ 64) :
    decode S m (π.flatMap fun p => encField S p.1 p.2) = some v :=
  decode_perm S hS m v hv π hπ hlen

example : decode demo 1 ((((demo.fieldsOf 1).zip demoVal).reverse).flatMap fun p => encField demo p.1 p.2)
    = some demoVal :=
  C12_order_free demo (by decide) 1 demoVal (by decide) _ (List.reverse_perm _) (by decide)

/-- **Map entry order is free**: `MarshalVT` walks Go maps in random order. Whatever order
    `l'` of the entries `l` of a map field ends up on the wire, the bytes decode (to the map
    in that order), and both orders answer every lookup alike. -/
theorem C12_map_order (S : Schema) (hS : S.WF = true) (m : Nat) (v : List Val) (i : Nat) (f : Field)
    (l l' : List (Bytes × Bytes)) (hv : WellTyped S m v = true)
    (hf : (S.fieldsOf m)[i]? = some f) (hty : f.ty = .mapSS) (hvi : v[i]? = some (.smap l))
    (hp : l'.Perm l) (hlen : (encode S m (v.set i (.smap l'))).length < 2 ^ 64) :
    decode S m (encode S m (v.set i (.smap l'))) = some (v.set i (.smap l')) ∧
    ∀ k, AList.lookup l' k = AList.lookup l k := by
  have hwl : wtVal S f.ty (.smap l) = true := by
    obtain ⟨hi, hx⟩ := List.getElem?_eq_some_iff.mp hvi
    have hz : (f, Val.smap l) ∈ (S.fieldsOf m).zip v := by
      rw [List.mem_iff_getElem?]
      exact ⟨i, by rw [List.getElem?_zip_eq_some]; exact ⟨hf, hvi⟩⟩
    exact wtFields_zip S _ _ hv _ hz
  simp only [hty, wtVal, Bool.and_eq_true, decide_eq_true_eq] at hwl
  have hwl' : wtVal S f.ty (.smap l') = true := by
    simp only [hty, wtVal, Bool.and_eq_true, decide_eq_true_eq]
    refine ⟨?_, (hp.map _).nodup_iff.mpr hwl.2⟩
    rw [List.all_eq_true] at hwl ⊢
    exact fun e he => hwl.1 e (hp.mem_iff.mp he)
  exact ⟨C12_roundtrip S hS m _ (wtFields_set S _ v i f _ hv hf hwl') hlen,
    lookup_perm l l' hp hwl.2⟩

example : decode demo 1 (encode demo 1 (demoVal.set 3 (.smap [([122], []), ([107], [118])])))
    = some (demoVal.set 3 (.smap [([122], []), ([107], [118])])) := by
  refine (C12_map_order demo (by decide) 1 (demoVal.set 3 (.smap [([107], [118]), ([122], [])])) 3
    { name := "labels", num := 4, ty := .mapSS } [([107], [118]), ([122], [])] [([122], []), ([107], [118])]
    (by decide) rfl rfl rfl (List.Perm.swap _ _ _) (by decide)).1

end Nri.Props.C12
