import NriModel.Props.C03
import NriModel.Props.C04
import NriModel.Props.C01
import NriModel.Props.C05
/-!
# Plugins as functions of what they are shown: NRI is a pipeline of spec transformers

The theorems of C01–C05 speak about chains of plugin *responses*. A real plugin computes its
response from the container it is shown, so the responses of a chain are not independent of the
collector: plugin *i* answers `fᵢ (viewᵢ)` where `viewᵢ` is what the collector shows it, which
depends on the answers of plugins 0 … i−1. Here a plugin is a function
`Handler := Shown → Option Response` of the container and resources it is shown (`none`: not
subscribed / dropped), the request is `runF` (each handler applied to the view of the state it is called in), and the
theorems of C03 and C04 are lifted to that setting by instantiating them with the responses the
handlers actually give (`responsesAlong`):

* `runF_eq_run`, `viewsF_eq_viewsAlong` — the handler-driven loop is the response-driven loop on
  the responses given along the way (every theorem of C01–C05 about `run` therefore applies to
  plugins that look at what they are shown);
* `pipeline_reply` (C03 lifted) — the spec the runtime obtains from the combined reply is
  `SpecEq` to the spec obtained by a *pipeline*: apply `f₀` to the original, apply its adjustment
  to the spec, show the next plugin the overlaid container, apply its adjustment, …;
* `pipeline_update_views` (C04 lifted, update requests), `pipeline_no_silent_merge` (C01 lifted),
  `pipeline_exact_fields` (C05 lifted);
* `pipeline_views` (C04 lifted) — at every position the container handed to handler *i*
  `ViewAgrees` with the spec the generator makes of the reply combined so far.

What this does NOT say: that NRI equals a pipeline in which each plugin is fed a container derived
from the sequentially adjusted *spec*. Every handler is fed the collector's own view; view and
spec are related only by `ViewAgrees` (environment as a map, mounts up to order, memory fields
other than the limit and the block-I/O / RDT classes outside the relation), so a handler whose
answer depends on what lies outside that relation may answer differently in the two worlds.
The statements are C03 / C04 / C01 / C05 on the responses actually given.
-/
namespace Nri.Props.Pipeline
open Nri Nri.NApi Nri.Result Nri.Compose Nri.Generate Nri.Ledger Nri.UpdateWalk

/-- what a plugin is shown: the container (creation requests: as adjusted so far) and the
    resources (update requests: as updated so far) -/
abbrev Shown := Container × Resources

def shown (st : State) : Shown := (st.view, st.reqRes)

/-- a plugin as a function of what it is shown; `none` = not subscribed or dropped -/
abbrev Handler := Shown → Option Response

/-- the loop of `Adaptation.CreateContainer` over plugins that compute their response from what
    they are shown -/
def runF (q : Quirks) (st : State) : List (Plugin × Handler) → Except Err State
  | [] => .ok st
  | (p, f) :: rest =>
    match f (shown st) with
    | none => runF q st rest
    | some r =>
      match apply q st p r with
      | .error e => .error e
      | .ok st' => runF q st' rest

/-- the responses the handlers give along the run (up to and including a rejected one) -/
def responsesAlong (q : Quirks) (st : State) : List (Plugin × Handler) → List (Plugin × Option Response)
  | [] => []
  | (p, f) :: rest =>
    match f (shown st) with
    | none => (p, none) :: responsesAlong q st rest
    | some r =>
      match apply q st p r with
      | .error _ => [(p, some r)]
      | .ok st' => (p, some r) :: responsesAlong q st' rest

/-- the states in which the handlers are called -/
def viewsF (q : Quirks) (st : State) : List (Plugin × Handler) → List State
  | [] => []
  | (p, f) :: rest =>
    match f (shown st) with
    | none => st :: viewsF q st rest
    | some r =>
      match apply q st p r with
      | .error _ => [st]
      | .ok st' => st :: viewsF q st' rest

theorem runF_eq_run (q : Quirks) (hs : List (Plugin × Handler)) (st : State) :
    runF q st hs = run q st (responsesAlong q st hs) := by
  induction hs generalizing st with
  | nil => rfl
  | cons x rest ih =>
    obtain ⟨p, f⟩ := x
    simp only [runF, responsesAlong]
    cases hf : f (shown st) with
    | none => simp only [run]; exact ih st
    | some r =>
      cases ha : apply q st p r with
      | error e => simp only [run, ha]
      | ok st' => simp only [run, ha]; exact ih st'

theorem viewsF_eq_viewsAlong (q : Quirks) (hs : List (Plugin × Handler)) (st : State) :
    viewsF q st hs = viewsAlong q st (responsesAlong q st hs) := by
  induction hs generalizing st with
  | nil => rfl
  | cons x rest ih =>
    obtain ⟨p, f⟩ := x
    simp only [viewsF, responsesAlong]
    cases hf : f (shown st) with
    | none => simp only [viewsAlong]; rw [ih st]
    | some r =>
      cases ha : apply q st p r with
      | error e => simp only [viewsAlong, ha]
      | ok st' => simp only [viewsAlong, ha]; rw [ih st']

/-- every response in `responsesAlong` is the handler's answer to the view of the state at
    that position: position `i` of the responses is `fᵢ` applied to position `i` of the views -/
theorem response_is_handler_of_view (q : Quirks) (hs : List (Plugin × Handler)) (st : State)
    (i : Nat) (s : State) (h : (viewsF q st hs)[i]? = some s) :
    ∃ p f, hs[i]? = some (p, f) ∧ (responsesAlong q st hs)[i]? = some (p, f (shown s)) := by
  induction hs generalizing st i with
  | nil => simp [viewsF] at h
  | cons x rest ih =>
    obtain ⟨p, f⟩ := x
    simp only [viewsF, responsesAlong] at h ⊢
    cases hf : f (shown st) with
    | none =>
      simp only [hf] at h
      cases i with
      | zero =>
        simp only [List.getElem?_cons_zero, Option.some.injEq] at h
        subst h
        exact ⟨p, f, by simp, by simp [hf]⟩
      | succ n =>
        simp only [List.getElem?_cons_succ] at h
        obtain ⟨p', f', h1, h2⟩ := ih st n h
        exact ⟨p', f', by simpa using h1, by simpa using h2⟩
    | some r =>
      simp only [hf] at h
      cases ha : apply q st p r with
      | error e =>
        simp only [ha] at h
        cases i with
        | zero =>
          simp only [List.getElem?_cons_zero, Option.some.injEq] at h
          subst h
          exact ⟨p, f, by simp, by simp [hf, ha]⟩
        | succ n => simp at h
      | ok st' =>
        simp only [ha] at h
        cases i with
        | zero =>
          simp only [List.getElem?_cons_zero, Option.some.injEq] at h
          subst h
          exact ⟨p, f, by simp, by simp [hf, ha]⟩
        | succ n =>
          simp only [List.getElem?_cons_succ] at h
          obtain ⟨p', f', h1, h2⟩ := ih st' n h
          exact ⟨p', f', by simpa using h1, by simpa [ha] using h2⟩

/-- the adjustments the handlers return along the run -/
def adjustmentsAlong (c0 : Container) (hs : List (Plugin × Handler)) : List Adjustment :=
  adjsOf (responsesAlong Quirks.fixed (initCreate c0) hs)

/-- **C03 for plugins that look at what they are shown.** If the creation request over the
    handlers `hs` succeeds with combined reply `st'.reply`, the adjustments returned along the way
    are well-formed, and applying them one after another to the original spec succeeds with
    `sS`, then applying the combined reply to the original spec succeeds with a spec `SpecEq`
    to `sS`. -/
theorem pipeline_reply {ext : Externals} {bad : List Str}
    (hi : ext.injectCDI = some (recordingInjector bad) ∨ ext.injectCDI = none)
    (c0 : Container) (hs : List (Plugin × Handler)) (st' : State)
    (h : runF Quirks.fixed (initCreate c0) hs = .ok st')
    (hwf : ∀ a ∈ adjustmentsAlong c0 hs, WellFormed a)
    (hs0 : SpecWF (toSpec c0)) (sS : Oci.Spec)
    (hseq : seqAdjust ext (toSpec c0) ((adjustmentsAlong c0 hs).map toGen) = .ok sS) :
    ∃ sC, adjust ext (toSpec c0) (toGen st'.reply) = .ok sC ∧ SpecEq sC sS := by
  rw [runF_eq_run] at h
  unfold adjustmentsAlong at hwf hseq
  rw [← C03.adjs_eq] at hwf hseq
  exact C03.C03 hi c0 _ st' h hwf hs0 sS hseq

/-- **C04 for plugins that look at what they are shown.** At every position `i`: the state `s`
    in which handler `i` is called shows a container that `ViewAgrees` with whatever spec the
    generator makes of the original spec with the reply combined so far — and the response
    recorded at that position is that handler's answer to exactly that container. -/
theorem pipeline_views {ext : Externals} {bad : List Str}
    (hi : ext.injectCDI = some (recordingInjector bad) ∨ ext.injectCDI = none)
    (c0 : Container) (hs : List (Plugin × Handler)) (hs0 : SpecWF (toSpec c0))
    (hg : ∀ a ∈ adjustmentsAlong c0 hs, ViewGuard c0 a) (i : Nat) (s : State)
    (h : (viewsF Quirks.fixed (initCreate c0) hs)[i]? = some s) :
    (∀ sC, adjust ext (toSpec c0) (toGen s.reply) = .ok sC → ViewAgrees s.view sC) ∧
    (∃ p f, hs[i]? = some (p, f) ∧
      (responsesAlong Quirks.fixed (initCreate c0) hs)[i]? = some (p, f (shown s))) := by
  refine ⟨?_, response_is_handler_of_view _ hs _ i s h⟩
  rw [viewsF_eq_viewsAlong] at h
  exact (C04.C04_view_agrees hi c0 _ hs0 hg i s h).1

/-- **C04 (update requests) for plugins that look at what they are shown.** Handler `i` of an
    update request is shown exactly what the specification walk yields over the answers the
    earlier handlers gave (each computed from what *it* was shown). -/
theorem pipeline_update_views (id : Cid) (req : Resources) (hs : List (Plugin × Handler)) (i : Nat)
    (s : State) (h : (viewsF Quirks.fixed (initUpdate id req) hs)[i]? = some s) :
    s.reqRes = (walk (specBase (.update id) req)
        (answered ((responsesAlong Quirks.fixed (initUpdate id req) hs).take i))).get
        (specBase (.update id) req) id := by
  rw [viewsF_eq_viewsAlong] at h
  exact C04.C04_update_dropped id req _ i s h

/-- **C05 (value clause) for plugins that look at what they are shown.** After a successful
    request over handlers every returned update entry carries exactly what the specification
    walk yields for its target over the answers given along the way. -/
theorem pipeline_exact_fields (st0 st' : State) (req : Resources) (hs : List (Plugin × Handler))
    (hinit : (∃ id, st0 = initUpdate id req) ∨ st0 = initStop ∨ ∃ c0, st0 = initCreate c0)
    (h : runF Quirks.fixed st0 hs = .ok st') :
    ∀ e, some e ∈ replyUpdates st' →
      e.resources = some ((walk (specBase st0.kind req) (answered (responsesAlong Quirks.fixed st0 hs))).get
        (specBase st0.kind req) e.containerId) := by
  rw [runF_eq_run] at h
  exact C05.C05_exact_fields_dropped st0 st' req _ hinit h

/-- **C01 for plugins that look at what they are shown.** When a request over handlers succeeds,
    no item was strictly set by two of the answers given along the way without a removal from
    the later one (or one in between) back to the earlier. -/
theorem pipeline_no_silent_merge (st st' : State) (hs : List (Plugin × Handler))
    (pre mid post : List (Plugin × Option Response)) (pi pj : Plugin) (ri rj : Response)
    (c : Cid) (it : Item)
    (hok : runF Quirks.fixed st hs = .ok st')
    (hdec : responsesAlong Quirks.fixed st hs = pre ++ (pi, some ri) :: (mid ++ (pj, some rj) :: post))
    (hsi : it ∈ setsOn true st.kind ri c) (hsj : it ∈ setsOn true st.kind rj c) :
    it ∈ removesOn st.kind rj c ∨ ∃ p r, (p, some r) ∈ mid ∧ it ∈ removesOn st.kind r c := by
  rw [runF_eq_run, hdec] at hok
  exact C01.C01_no_silent_merge st st' pre mid post pi pj ri rj c it hok hsi hsj

/-! ### non-vacuity: a chain whose second plugin's answer depends on what the first did -/

/-- sets annotation `k0 := v1` -/
def hFirst : Handler := fun _ =>
  some { adjust := some { annotations := [(str "k0", str "v1")] } }
/-- copies whatever value it is shown for `k0` into the environment variable `SEEN` -/
def hSecond : Handler := fun (c, _) =>
  some { adjust := some { env := [{ key := str "SEEN", value := (AList.lookup c.annotations (str "k0")).getD (str "none") }] } }

def demoC : Container := { id := str "c0", annotations := [(str "orig", str "x")], env := [str "PATH=/bin"] }
def demoHs : List (Plugin × Handler) := [(str "10-a", hFirst), (str "20-b", hSecond)]

/-- the second plugin saw the first plugin's annotation, and its answer (computed from it)
    is in the combined reply -/
example :
    (match runF Quirks.fixed (initCreate demoC) demoHs with
     | .ok st' => some (st'.reply.env.map fun kv => (kv.key, kv.value))
     | .error _ => none) = some [(str "SEEN", str "v1")] := by decide

example : (adjustmentsAlong demoC demoHs).length = 2 := by decide

/-- update request: the second plugin doubles whatever memory limit it is shown into CPU shares -/
def uFirst : Handler := fun _ =>
  some { updates := [{ containerId := str "c0", resources := some { memory := some { limit := some 21 } } }] }
def uSecond : Handler := fun (_, r) =>
  some { updates := [{ containerId := str "c0",
                       resources := some { cpu := some { shares := ((r.memory.getD {}).limit.map fun l => (2 * l).toNat) } } }] }

example :
    (match runF Quirks.fixed (initUpdate (str "c0") { pids := some 5 }) [(str "10-a", uFirst), (str "20-b", uSecond)] with
     | .ok st' => some ((st'.reqRes.memory.getD {}).limit, (st'.reqRes.cpu.getD {}).shares, st'.reqRes.pids)
     | .error _ => none) = some (some 21, some 42, some 5) := by decide

end Nri.Props.Pipeline
