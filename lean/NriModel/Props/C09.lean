/-
Property C09 — synchronisation delivers the runtime's complete state however it must be
split. Only the property theorems and the examples showing their hypotheses satisfiable
live here; the model is `NriModel/SyncChunk.lean`, helper lemmas `NriModel/Lemmas/SyncChunk*.lean`.

Sender theorems are about the REPAIRED loop (`Env.clamp = true`, any policy with
`Shrinks m`; `C09_policy` shows the patched `recalcObjsPerSyncMsg` is such a policy). The
code as it stands at the pinned commit is transcribed as `clamp = false` with
`policyUnfixed`; `unfixed_panics` and `unfixed_livelocks` evaluate it on the two witnesses.
-/
import NriModel.Lemmas.SyncChunkPolicy
import NriModel.Lemmas.SyncChunkTrace

namespace Nri.Props.C09

open Nri Nri.SyncChunk

variable {α β υ ε σ : Type}

/-! ### Receiver -/

/-- **C09_receiver.** Whatever the stub had accumulated is irrelevant for a fresh session
    (`RState.init`): for chunks flagged as the protocol says (all but the last `more`), the
    plugin's handler is called exactly once, with the concatenation of all pods and of all
    containers in order; every `more` chunk is answered by an empty echo, and the answer to the
    last chunk is the handler's own updates (or its error); the accumulator is clear again. -/
theorem C09_receiver (f : List α → List β → Except ε (List υ)) (chunks : List (Chunk α β))
    (h : WellFlagged chunks) :
    stubRun (some f) RState.init chunks =
      (⟨none, [(allPods chunks, allCtrs chunks)]⟩,
       List.replicate (chunks.length - 1) (.ok ⟨[], true⟩) ++
         [match f (allPods chunks) (allCtrs chunks) with
          | .ok u => .ok ⟨u, false⟩
          | .error e => .error e]) := by
  have := stubRun_wellFlagged f chunks RState.init h
  simp only [RState.init, accPods, accCtrs, List.nil_append, handlerReply] at this ⊢
  rw [this]
  cases f (allPods chunks) (allCtrs chunks) <;> rfl

example : WellFlagged [(⟨[1, 2], [10], true⟩ : Chunk Nat Nat), ⟨[], [11, 12], true⟩, ⟨[3], [], false⟩] := by
  simp [WellFlagged]

/-- Two sessions in a row (a plugin that re-registers): the second starts from a clear
    accumulator, so each session is delivered on its own. -/
theorem C09_receiver_sessions (f : List α → List β → Except ε (List υ))
    (a b : List (Chunk α β)) (ha : WellFlagged a) (hb : WellFlagged b) :
    (stubRun (some f) (stubRun (some f) RState.init a).1 b).1 =
      ⟨none, [(allPods a, allCtrs a), (allPods b, allCtrs b)]⟩ := by
  rw [stubRun_wellFlagged f a RState.init ha]
  rw [stubRun_wellFlagged f b _ hb]
  simp [RState.init, accPods, accCtrs]

/-- **C09_receiver_restart.** One stub object, restarted. Whatever an earlier session did —
    any chunks at all, in particular a split synchronisation abandoned after some `more` chunks
    had been collected — once `close` has run, a later well-flagged session calls the handler
    exactly once more, with exactly that session's pods and containers: nothing collected before
    the restart reaches it. -/
theorem C09_receiver_restart (f : List α → List β → Except ε (List υ))
    (earlier : List (Chunk α β)) (st : RState α β) (b : List (Chunk α β)) (hb : WellFlagged b) :
    let st1 := stubClose true (stubRun (some f) st earlier).1
    (stubRun (some f) st1 b).1 = ⟨none, st1.calls ++ [(allPods b, allCtrs b)]⟩ ∧
      st1.calls = (stubRun (some f) st earlier).1.calls := by
  intro st1
  have h := stubRun_wellFlagged f b st1 hb
  have e1 : accPods st1 = [] := by simp [st1, stubClose, accPods]
  have e2 : accCtrs st1 = [] := by simp [st1, stubClose, accCtrs]
  rw [h, e1, e2]
  exact ⟨by simp, by simp [st1, stubClose]⟩

/-- An abandoned split session (only `more` chunks) makes no handler call at all, so after the
    restart the log holds exactly the one call of the new session. -/
theorem C09_receiver_restart_abandoned (f : List α → List β → Except ε (List υ))
    (a : List (Chunk α β)) (ha : ∀ c ∈ a, c.more = true) (b : List (Chunk α β))
    (hb : WellFlagged b) :
    stubSessions true (some f) RState.init [a, b] = ⟨none, [(allPods b, allCtrs b)]⟩ := by
  have hcalls : ∀ (a : List (Chunk α β)) (st : RState α β), (∀ c ∈ a, c.more = true) →
      (stubRun (some f) st a).1.calls = st.calls := by
    intro a
    induction a with
    | nil => intro st _; rfl
    | cons c rest ih =>
      intro st hm
      have hc : c.more = true := hm c (by simp)
      rw [stubRun_cons]
      simp only [stubRPC_more f st c hc]
      rw [ih _ (fun x hx => hm x (by simp [hx]))]
  obtain ⟨h1, h2⟩ := C09_receiver_restart f a RState.init b hb
  simp only [stubSessions]
  rw [h1, h2, hcalls a RState.init ha]
  simp [stubClose, RState.init]

/-- The seeded defect in the model: a `close` that does not reset. The chunk collected in the
    abandoned session is delivered to the next session's handler in front of the new state. -/
theorem restart_without_reset_leaks :
    (stubSessions false (some fun (_ : List Nat) (_ : List Nat) => (.ok [] : Except Unit (List Unit)))
      RState.init [[⟨[0], [0, 1], true⟩], [⟨[0], [0], false⟩]]).calls = [([0, 0], [0, 1, 0])] := by
  decide

/-- A plugin that implements no `Synchronize`: every chunk is echoed, nothing is kept. -/
theorem C09_receiver_no_handler (chunks : List (Chunk α β)) (st : RState α β) :
    stubRun (none : Handler α β υ ε) st chunks = (st, chunks.map fun c => .ok ⟨[], c.more⟩) :=
  stubRun_noHandler chunks st

/-! ### Plans -/

/-- **C09_plan.** Any plan the nondeterministic specification admits delivers exactly the
    supplied pods and containers, each once and in order, is flagged so that the receiver
    theorem applies, every message fits, and no `more` message is empty. -/
theorem C09_plan (fits : Chunk α β → Prop) (pods : List α) (ctrs : List β)
    (pl : List (Chunk α β)) (h : ValidPlan fits pods ctrs pl) :
    allPods pl = pods ∧ allCtrs pl = ctrs ∧ WellFlagged pl ∧ (∀ c ∈ pl, fits c) ∧
      (∀ c ∈ pl, c.more = true → 0 < c.count) :=
  validPlan_spec h

example : ValidPlan (fun _ => true = true) [1, 2, 3] [10, 11, 12]
    [(⟨[1, 2], [10], true⟩ : Chunk Nat Nat), ⟨[], [11, 12], true⟩, ⟨[3], [], false⟩] :=
  accepts_sound (fun _ => true)
    [(⟨[1, 2], [10], true⟩ : Chunk Nat Nat), ⟨[], [11, 12], true⟩, ⟨[3], [], false⟩]
    [1, 2, 3] [10, 11, 12] (by decide)

/-- The executable acceptor the driver runs decides exactly `ValidPlan`. -/
theorem C09_accepts_iff [DecidableEq α] [DecidableEq β] (fits : Chunk α β → Bool)
    (pods : List α) (ctrs : List β) (pl : List (Chunk α β)) :
    accepts fits pods ctrs pl = true ↔ ValidPlan (fun c => fits c = true) pods ctrs pl :=
  ⟨accepts_sound fits pl pods ctrs, accepts_complete fits⟩

/-- Plan and receiver together: a valid plan fed to the stub calls the handler exactly once
    with exactly the supplied state. -/
theorem C09_plan_delivers (fits : Chunk α β → Prop) (f : List α → List β → Except ε (List υ))
    (pods : List α) (ctrs : List β) (pl : List (Chunk α β)) (h : ValidPlan fits pods ctrs pl) :
    (stubRun (some f) RState.init pl).1 = ⟨none, [(pods, ctrs)]⟩ := by
  obtain ⟨h1, h2, h3, _, _⟩ := validPlan_spec h
  rw [C09_receiver f pl h3, h1, h2]

/-! ### Sender (repaired loop) -/

/-- **C09_sender.** For every size oracle, limit, plugin end and every shrink policy that
    satisfies `Shrinks`, when the repaired `synchronize` returns successfully the messages
    it got through form a valid plan for the supplied state. -/
theorem C09_sender (E : Env α β υ ε σ) (m : Nat) (hc : E.clamp = true) (hπ : Shrinks m E.policy)
    (fuel : Nat) (w : σ) (pods : List α) (ctrs : List β) (u : List υ)
    (h : (synchronize E fuel w pods ctrs).out = .done u) :
    ValidPlan (fun c => E.size c ≤ E.limit) pods ctrs (plan (synchronize E fuel w pods ctrs).evs) :=
  (run_main E m hc hπ fuel w _ (good_init pods ctrs)).2.2.1 u h

/-- **C09_no_fault.** The repaired loop never evaluates an out-of-range slice expression
    (no panic, no exposure of slice capacity), and never sends a `more` message that carries
    nothing — in particular it cannot spin on empty messages. -/
theorem C09_no_fault (E : Env α β υ ε σ) (m : Nat) (hc : E.clamp = true) (hπ : Shrinks m E.policy)
    (fuel : Nat) (w : σ) (pods : List α) (ctrs : List β) :
    (synchronize E fuel w pods ctrs).out ≠ .fault ∧
      ∀ c ∈ plan (synchronize E fuel w pods ctrs).evs, c.more = true → 0 < c.count :=
  let h := run_main E m hc hπ fuel w _ (good_init pods ctrs)
  ⟨h.1, h.2.2.2⟩

/-- **C09_terminates.** `2·(|pods|+|containers|)+1` iterations always suffice: every
    iteration either gets at least one object through or strictly lowers the number of
    objects per message. -/
theorem C09_terminates (E : Env α β υ ε σ) (m : Nat) (hc : E.clamp = true)
    (hπ : Shrinks m E.policy) (fuel : Nat) (w : σ) (pods : List α) (ctrs : List β)
    (hf : fuelBound pods ctrs ≤ fuel) :
    (synchronize E fuel w pods ctrs).out ≠ .outOfFuel := by
  apply (run_main E m hc hπ fuel w _ (good_init pods ctrs)).2.1
  have := mu_init pods ctrs
  omega

/-- Fuel is only a proof device: with any two amounts of fuel at or above the bound the
    repaired loop performs the very same run (so the statements below are about THE run). -/
theorem C09_fuel_irrelevant (E : Env α β υ ε σ) (m : Nat) (hc : E.clamp = true)
    (hπ : Shrinks m E.policy) (w : σ) (pods : List α) (ctrs : List β) (k : Nat) :
    synchronize E (fuelBound pods ctrs + k) w pods ctrs =
      synchronize E (fuelBound pods ctrs) w pods ctrs :=
  run_mono E _ k w _ (C09_terminates E m hc hπ _ w pods ctrs (Nat.le_refl _))

/-- **C09_complete.** The repaired loop ends with "failed to synchronize plugin with split
    messages" only after the transport refused a message of at most `m` objects (consecutive
    pods and consecutive containers of the state) — or after the plugin end answered with an
    error carrying the status ResourceExhausted, which `recalcObjsPerSyncMsg` reports with the
    same text. Contrapositive: a state in which every such small message fits is always
    synchronised unless the plugin end itself fails. -/
theorem C09_complete (E : Env α β υ ε σ) (m : Nat) (hc : E.clamp = true) (hπ : Shrinks m E.policy)
    (hlim : 0 < E.limit) (fuel : Nat) (w : σ) (pods : List α) (ctrs : List β)
    (h : (synchronize E fuel w pods ctrs).out = .failed .tooLarge) :
    (∃ c : Chunk α β, c.pods <:+: pods ∧ c.ctrs <:+: ctrs ∧ c.count ≤ m ∧ E.limit < E.size c) ∨
    (∃ c : Chunk α β, Ev.errored c ∈ (synchronize E fuel w pods ctrs).evs) := by
  rcases run_tooLarge E m hc hπ hlim pods ctrs fuel w _ (good_init pods ctrs)
    (List.suffix_refl _) (List.suffix_refl _) h with ⟨c, h1, h2, h3, h4, _⟩ | h5
  · exact .inl ⟨c, h1, h2, h3, h4⟩
  · exact .inr h5

/-- **C09_delivery** (sender and receiver composed, behind a transport that also limits the
    REPLY — the property itself). The repaired sender talking to the stub, with enough fuel:
    either it gives up on its own before the plugin's handler was ever called (and then a
    message of at most `m` consecutive objects exceeds the limit), or the handler was called
    exactly once, with exactly the supplied pods and containers in the runtime's order, and
    what `synchronize` returns is `wireOutcome`: the handler's updates if the reply fits under
    the transport's limit; a failure (the request deadline) if the reply is larger and gets
    dropped; the handler's error otherwise. The sender never mistakes the stub for a plugin
    that cannot take split requests, never faults and never runs on. -/
theorem C09_delivery (E : Env α β υ (WireErr ε) (RState α β)) (m : Nat) (hc : E.clamp = true)
    (hπ : Shrinks m E.policy) (hlim : 0 < E.limit) (rs : Reply υ → Nat) (rl : Nat)
    (hecho : rs ⟨[], true⟩ ≤ rl) (hx : ε → Bool) (f : List α → List β → Except ε (List υ))
    (hpeer : E.peer = wireStub rs rl (some f)) (hex : E.exhausted = wireExhausted hx)
    (fuel : Nat) (pods : List α) (ctrs : List β) (hf : fuelBound pods ctrs ≤ fuel) :
    let r := synchronize E fuel RState.init pods ctrs
    (r.out = .failed .tooLarge ∧ r.world.calls = [] ∧
      ∃ c : Chunk α β, c.pods <:+: pods ∧ c.ctrs <:+: ctrs ∧ c.count ≤ m ∧ E.limit < E.size c) ∨
    (r.world.calls = [(pods, ctrs)] ∧ r.world.acc = none ∧
      r.out = wireOutcome rs rl hx f pods ctrs) := by
  intro r
  have h := run_wire E m hc hπ hlim rs rl hecho hx f hpeer hex pods ctrs fuel RState.init _
    (good_init pods ctrs) rfl
    (by simp [accPods, RState.init, SState.init]) (by simp [accCtrs, RState.init, SState.init])
  have ht := C09_terminates E m hc hπ fuel RState.init pods ctrs hf
  rcases h with h | ⟨h1, _⟩ | ⟨h1, h2, h3⟩
  · exact .inl h
  · exact absurd h1 ht
  · exact .inr ⟨h2, h3, h1⟩

/-- **C09_updates_reach_runtime.** The positive half with its hypotheses spelled out: when every
    message of at most `m` consecutive objects fits, the handler succeeds and its reply fits
    under the transport's limit, `synchronize` returns exactly the handler's updates, after
    exactly one call with exactly the supplied state. -/
theorem C09_updates_reach_runtime (E : Env α β υ (WireErr ε) (RState α β)) (m : Nat)
    (hc : E.clamp = true) (hπ : Shrinks m E.policy) (hlim : 0 < E.limit) (rs : Reply υ → Nat)
    (rl : Nat) (hecho : rs ⟨[], true⟩ ≤ rl) (hx : ε → Bool)
    (f : List α → List β → Except ε (List υ))
    (hpeer : E.peer = wireStub rs rl (some f)) (hex : E.exhausted = wireExhausted hx)
    (fuel : Nat) (pods : List α) (ctrs : List β) (hf : fuelBound pods ctrs ≤ fuel)
    (hsmall : ∀ c : Chunk α β, c.pods <:+: pods → c.ctrs <:+: ctrs → c.count ≤ m → E.size c ≤ E.limit)
    (u : List υ) (hu : f pods ctrs = .ok u) (hfit : rs ⟨u, false⟩ ≤ rl) :
    let r := synchronize E fuel RState.init pods ctrs
    r.out = .done u ∧ r.world.calls = [(pods, ctrs)] := by
  intro r
  rcases C09_delivery E m hc hπ hlim rs rl hecho hx f hpeer hex fuel pods ctrs hf with
    ⟨_, _, c, h1, h2, h3, h4⟩ | ⟨h1, _, h3⟩
  · exact absurd (hsmall c h1 h2 h3) (Nat.not_le_of_lt h4)
  · refine ⟨?_, h1⟩
    rw [h3]; simp [wireOutcome, hu, hfit]

/-- **C09_reply_too_large.** The clean-failure half for the reply: when the handler's updates do
    not fit into one reply under the transport's limit, `synchronize` does NOT succeed — it ends
    with an error (in Go: the request deadline, the reply having been dropped by the stub's ttrpc
    server) and the registering plugin is not activated; the handler may have been called (once,
    with the full state) but never with anything else. -/
theorem C09_reply_too_large {π : Type} (E : Env α β υ (WireErr ε) (RState α β)) (m : Nat)
    (hc : E.clamp = true) (hπ : Shrinks m E.policy) (hlim : 0 < E.limit) (rs : Reply υ → Nat)
    (rl : Nat) (hecho : rs ⟨[], true⟩ ≤ rl) (hx : ε → Bool)
    (f : List α → List β → Except ε (List υ))
    (hpeer : E.peer = wireStub rs rl (some f)) (hex : E.exhausted = wireExhausted hx)
    (fuel : Nat) (pods : List α) (ctrs : List β) (hf : fuelBound pods ctrs ≤ fuel)
    (u : List υ) (hu : f pods ctrs = .ok u) (hbig : rl < rs ⟨u, false⟩)
    (plugins : List π) (p : π) :
    let r := synchronize E fuel RState.init pods ctrs
    (∃ e, r.out = .failed e) ∧ activateExternal plugins p r.out = plugins ∧
      (r.world.calls = [] ∨ r.world.calls = [(pods, ctrs)]) := by
  intro r
  rcases C09_delivery E m hc hπ hlim rs rl hecho hx f hpeer hex fuel pods ctrs hf with
    ⟨h1, h2, _⟩ | ⟨h1, _, h3⟩
  · exact ⟨⟨_, h1⟩, by simp only [r, h1, activateExternal], .inl h2⟩
  · have : r.out = .failed (.peer .replyLost) := by
      rw [h3]; simp [wireOutcome, hu, Nat.not_le_of_lt hbig]
    exact ⟨⟨_, this⟩, by simp only [r, this, activateExternal], .inr h1⟩

/-- The same against a plugin without a `Synchronize` handler: no updates, nothing called. -/
theorem C09_delivery_no_handler (E : Env α β υ (WireErr ε) (RState α β)) (m : Nat)
    (hc : E.clamp = true) (hπ : Shrinks m E.policy) (rs : Reply υ → Nat) (rl : Nat)
    (hecho : ∀ b, rs ⟨[], b⟩ ≤ rl)
    (hpeer : E.peer = wireStub rs rl (none : Handler α β υ ε)) (fuel : Nat)
    (pods : List α) (ctrs : List β) (hf : fuelBound pods ctrs ≤ fuel) :
    let r := synchronize E fuel RState.init pods ctrs
    r.world = RState.init ∧ (r.out = .done [] ∨ r.out = .failed .tooLarge) := by
  intro r
  have h := run_noHandler E m hc hπ rs rl hecho hpeer fuel RState.init _ (good_init pods ctrs)
  have ht := C09_terminates E m hc hπ fuel RState.init pods ctrs hf
  rcases h with ⟨h1, h2 | h2 | h2⟩
  · exact ⟨h1, .inl h2⟩
  · exact ⟨h1, .inr h2⟩
  · exact absurd h2 ht

/-- **C09_policy.** The patched `recalcObjsPerSyncMsg` (exact arithmetic) is a policy the
    theorems above apply to, for every minimum of at least two objects per message. -/
theorem C09_policy (m : Nat) (hm : 2 ≤ m) : Shrinks m (policyFixed m) :=
  policyFixed_shrinks m hm

example : ∃ π, Shrinks 8 π := ⟨policyFixed 8, C09_policy 8 (by decide)⟩

/-- the patched Go code as transcribed, against the stub behind the transport -/
def patchedEnv (size : Chunk α β → Nat) (limit : Nat) (rs : Reply υ → Nat) (rl : Nat)
    (hx : ε → Bool) (f : List α → List β → Except ε (List υ)) :
    Env α β υ (WireErr ε) (RState α β) :=
  { size := size, limit := limit, policy := policyFixed 8, clamp := true,
    peer := wireStub rs rl (some f), exhausted := wireExhausted hx }

/-- **C09_patched.** The property for the patched Go code as transcribed (`clamp`, `policyFixed 8`),
    for every size oracle and limit for requests and for replies, against the stub with any
    handler: the handler is called exactly once with exactly the supplied state and
    `synchronize` returns `wireOutcome` (its updates when the reply fits; a failure when the
    reply is too large to be sent back; its error) — or the sender gave up before any call, and
    then some message of at most 8 consecutive objects exceeds the limit. -/
theorem C09_patched (size : Chunk α β → Nat) (limit : Nat) (hlim : 0 < limit)
    (rs : Reply υ → Nat) (rl : Nat) (hecho : rs ⟨[], true⟩ ≤ rl) (hx : ε → Bool)
    (f : List α → List β → Except ε (List υ)) (pods : List α) (ctrs : List β) :
    let r := synchronize (patchedEnv size limit rs rl hx f) (fuelBound pods ctrs) RState.init pods ctrs
    (r.out = .failed .tooLarge ∧ r.world.calls = [] ∧
        ∃ c : Chunk α β, c.pods <:+: pods ∧ c.ctrs <:+: ctrs ∧ c.count ≤ 8 ∧ limit < size c) ∨
    (r.world.calls = [(pods, ctrs)] ∧ r.world.acc = none ∧
      r.out = wireOutcome rs rl hx f pods ctrs) :=
  C09_delivery (patchedEnv size limit rs rl hx f) 8 rfl (C09_policy 8 (by decide)) hlim rs rl hecho
    hx f rfl rfl (fuelBound pods ctrs) pods ctrs (Nat.le_refl _)

/-- replies measured by their number of updates, at most 3 per reply: the echo fits -/
example : (fun (r : Reply Nat) => r.update.length) ⟨[], true⟩ ≤ 3 := by decide

/-- **reply_too_large_witness.** Concretely: 2 pods, 3 containers, everything fits into one
    request; the handler answers with 4 updates where the transport carries 3. The handler has
    been called once with the whole state, the sender ends with the lost-reply error, nothing
    comes back. With 3 updates they all come back. -/
theorem reply_too_large_witness :
    let big := synchronize (patchedEnv (plainSize id id) 4000 (fun r => r.update.length) 3
      (fun (_ : Unit) => false) (fun _ (cs : List Nat) => .ok (cs ++ [7]))) 20 RState.init [1, 1] [5, 5, 5]
    let ok := synchronize (patchedEnv (plainSize id id) 4000 (fun r => r.update.length) 3
      (fun (_ : Unit) => false) (fun _ (cs : List Nat) => .ok cs)) 20 RState.init [1, 1] [5, 5, 5]
    big.out = .failed (.peer .replyLost) ∧ big.world.calls = [([1, 1], [5, 5, 5])] ∧
      ok.out = .done [5, 5, 5] ∧ ok.world.calls = [([1, 1], [5, 5, 5])] := by
  decide

/-! ### Trace acceptance (what ties the sender model to the real executions) -/

/-- **C09_trace_sound.** `accepts tr → Property tr`: a list of attempts the acceptor takes
    for a successful synchronisation of the supplied state got a valid plan through —
    whatever counts the real sender chose after each refusal. -/
theorem C09_trace_sound [DecidableEq α] [DecidableEq β] (fitsOk : Chunk α β → Bool)
    (rejOk : Chunk α β → Nat → Bool) (m : Nat) (pods : List α) (ctrs : List β)
    (evs : List (Ev α β υ))
    (h : acceptsTrace fitsOk rejOk m .done (SState.init pods ctrs) evs = true) :
    ValidPlan (fun c => fitsOk c = true) pods ctrs (plan evs) :=
  acceptsTrace_sound fitsOk rejOk m evs _ (good_init pods ctrs) h

/-- **C09_trace_complete.** The acceptor admits every behaviour of the model: each finished
    run of the repaired loop, for every policy with `Shrinks m`, is accepted (so a rejected
    real execution is one the model cannot produce under any such policy). -/
theorem C09_trace_complete [DecidableEq α] [DecidableEq β] (E : Env α β υ ε σ) (m : Nat)
    (hc : E.clamp = true) (hπ : Shrinks m E.policy) (hlim : 0 < E.limit) (fuel : Nat) (w : σ)
    (pods : List α) (ctrs : List β) (hf : fuelBound pods ctrs ≤ fuel) :
    acceptsTrace (fun c => decide (E.size c ≤ E.limit))
      (fun c len => decide (E.limit < len) && decide (len = E.size c)) m
      (endOf (synchronize E fuel w pods ctrs).out) (SState.init pods ctrs)
      (synchronize E fuel w pods ctrs).evs = true := by
  have h1 := (C09_no_fault E m hc hπ fuel w pods ctrs).1
  have h2 := C09_terminates E m hc hπ fuel w pods ctrs hf
  have hfin : finished (synchronize E fuel w pods ctrs).out := by
    cases ho : (synchronize E fuel w pods ctrs).out with
    | done u => trivial
    | failed e => trivial
    | fault => exact absurd ho h1
    | outOfFuel => exact absurd ho h2
  exact (run_accepted E m hc hπ hlim fuel w _ (good_init pods ctrs) hfin).2

/-! ### Activation -/

/-- **C09_clean_fail.** With enough fuel the repaired `synchronize` ends in exactly one of
    two ways — it returns updates or it returns an error (it neither panics nor runs on) —
    and when it returns an error the registering plugin is not added to the active list,
    which is otherwise untouched. -/
theorem C09_clean_fail {π : Type} (E : Env α β υ ε σ) (m : Nat) (hc : E.clamp = true)
    (hπ : Shrinks m E.policy) (fuel : Nat) (w : σ) (pods : List α) (ctrs : List β)
    (hf : fuelBound pods ctrs ≤ fuel) (plugins : List π) (p : π) :
    let o := (synchronize E fuel w pods ctrs).out
    ((∃ u, o = .done u) ∨ (∃ e, o = .failed e)) ∧
      (∀ e, o = .failed e → activateExternal plugins p o = plugins) ∧
      (∀ u, o = .done u → activateExternal plugins p o = plugins ++ [p]) := by
  intro o
  have h1 := (C09_no_fault E m hc hπ fuel w pods ctrs).1
  have h2 := C09_terminates E m hc hπ fuel w pods ctrs hf
  refine ⟨?_, ?_, ?_⟩
  · cases ho : (synchronize E fuel w pods ctrs).out with
    | done u => exact .inl ⟨u, ho⟩
    | failed e => exact .inr ⟨e, ho⟩
    | fault => exact absurd ho h1
    | outOfFuel => exact absurd ho h2
  · intro e he; simp only [he, activateExternal]
  · intro u hu; simp only [hu, activateExternal]

/-- **C09_activated_delivered.** Activation implies delivery: if the registering plugin ends up in
    the active list, then its handler has been called exactly once, with exactly the supplied
    state, it succeeded, its reply fitted under the transport's limit and `synchronize` returned
    exactly its updates. -/
theorem C09_activated_delivered {π : Type} (E : Env α β υ (WireErr ε) (RState α β)) (m : Nat)
    (hc : E.clamp = true) (hπ : Shrinks m E.policy) (hlim : 0 < E.limit) (rs : Reply υ → Nat)
    (rl : Nat) (hecho : rs ⟨[], true⟩ ≤ rl) (hx : ε → Bool)
    (f : List α → List β → Except ε (List υ))
    (hpeer : E.peer = wireStub rs rl (some f)) (hex : E.exhausted = wireExhausted hx)
    (fuel : Nat) (pods : List α) (ctrs : List β) (hf : fuelBound pods ctrs ≤ fuel)
    (plugins : List π) (p : π)
    (hact : activateExternal plugins p (synchronize E fuel RState.init pods ctrs).out ≠ plugins) :
    let r := synchronize E fuel RState.init pods ctrs
    r.world.calls = [(pods, ctrs)] ∧ r.world.acc = none ∧
      ∃ u, f pods ctrs = .ok u ∧ rs ⟨u, false⟩ ≤ rl ∧ r.out = .done u := by
  intro r
  rcases C09_delivery E m hc hπ hlim rs rl hecho hx f hpeer hex fuel pods ctrs hf with
    ⟨h1, _, _⟩ | ⟨h1, h2, h3⟩
  · exact absurd (by simp only [h1, activateExternal]) hact
  · refine ⟨h1, h2, ?_⟩
    have h3' : r.out = wireOutcome rs rl hx f pods ctrs := h3
    cases hfo : f pods ctrs with
    | error e =>
      have : r.out = .failed (if hx e then .tooLarge else .peer (.handler e)) := by
        rw [h3']; simp [wireOutcome, hfo]
      exact absurd (by simp only [r, this, activateExternal]) hact
    | ok u =>
      by_cases hfit : rs ⟨u, false⟩ ≤ rl
      · exact ⟨u, rfl, hfit, by rw [h3']; simp [wireOutcome, hfo, hfit]⟩
      · have : r.out = .failed (.peer .replyLost) := by
          rw [h3']; simp [wireOutcome, hfo, hfit]
        exact absurd (by simp only [r, this, activateExternal]) hact

/-- **C09_preinstalled_exact.** `startPlugins.syncPlugins` keeps EXACTLY the plugins whose
    synchronisation succeeded, in their order, and hands the runtime's `SyncFn` EXACTLY the
    concatenation of their updates, in that order. -/
theorem C09_preinstalled_exact {π : Type} (rs : List (π × Outcome υ ε)) :
    activatePreinstalled rs = (keptOf rs, updOf rs) := by
  induction rs with
  | nil => rfl
  | cons x rest ih =>
    obtain ⟨q, o⟩ := x
    cases o <;> simp [activatePreinstalled, keptOf, updOf, ih]

example : activatePreinstalled [("a", (Outcome.done [1, 2] : Outcome Nat Unit)),
    ("b", .failed .tooLarge), ("c", .done [3])] = (["a", "c"], [1, 2, 3]) := by decide

/-- Pre-installed plugins (`startPlugins.syncPlugins`): a kept plugin is one whose
    synchronisation succeeded (a consequence of `C09_preinstalled_exact`). -/
theorem C09_clean_fail_preinstalled {π : Type} (rs : List (π × Outcome υ ε)) (p : π) :
    p ∈ (activatePreinstalled rs).1 → ∃ u, (p, Outcome.done u) ∈ rs := by
  induction rs with
  | nil => intro h; simp [activatePreinstalled] at h
  | cons x rest ih =>
    obtain ⟨q, o⟩ := x
    intro h
    cases o with
    | done u =>
      simp only [activatePreinstalled, List.mem_cons] at h
      rcases h with rfl | h
      · exact ⟨u, by simp⟩
      · obtain ⟨u', hu'⟩ := ih h; exact ⟨u', by simp [hu']⟩
    | failed e => obtain ⟨u', hu'⟩ := ih (by simpa [activatePreinstalled] using h); exact ⟨u', by simp [hu']⟩
    | fault => obtain ⟨u', hu'⟩ := ih (by simpa [activatePreinstalled] using h); exact ⟨u', by simp [hu']⟩
    | outOfFuel => obtain ⟨u', hu'⟩ := ih (by simpa [activatePreinstalled] using h); exact ⟨u', by simp [hu']⟩

/-! ### The code as it stands: two witnesses

Objects are their own encoded sizes (abstract units: think KB), the oracle is plainly
additive, the limit is 4000, the plugin end is the stub model with a handler that
returns no updates. `fixed = false` is the loop and `recalcObjsPerSyncMsg` of the pinned
commit; `fixed = true` is the patched code. -/

def witEnv (fixed : Bool) : Env Nat Nat Unit Unit (RState Nat Nat) where
  size := plainSize id id
  limit := 4000
  policy := if fixed then policyFixed 8 else policyUnfixed 8
  clamp := fixed
  peer := stubRPC (some fun _ _ => .ok [])

/-- 3 small pods and 12 containers of 1001 units (≈ 1 MB each) -/
def w1pods : List Nat := [1, 1, 1]
def w1ctrs : List Nat := List.replicate 12 1001

/-- 2 small pods and 40 containers of 300 units (≈ 300 KB each) -/
def w2pods : List Nat := [1, 1]
def w2ctrs : List Nat := List.replicate 40 300

/-- **unfixed_panics.** The loop as it stands: the whole state is refused, the shares round
    to 0 pods / 3 containers, fewer than 8, so the counts become 4/4 — and `podsToSend[:4]`
    is evaluated on 3 pods. Go panics (`slice bounds out of range [:4] with capacity 3`). -/
theorem unfixed_panics :
    (synchronize (witEnv false) 100 RState.init w1pods w1ctrs).out = .fault := by decide

/-- The patched code on the same state ends cleanly: 3 pods + 4 containers is still too
    large, 7 ≤ 8 objects, so it gives up with an error. -/
theorem fixed_no_panic :
    (synchronize (witEnv true) 100 RState.init w1pods w1ctrs).out = .failed .tooLarge := by decide

/-- the state the unrepaired loop reaches on the second witness after 5 iterations: both
    pods still to send, zero per message, and the stub holding the 40 containers -/
def w2stuck : RState Nat Nat × SState Nat Nat :=
  (⟨some ([], w2ctrs), []⟩, ⟨w2pods, [], 0, 0⟩)

/-- **unfixed_livelocks.** The loop as it stands: the pods' share rounds down to zero, the
    containers go out in 13+13+13+1, and from then on every iteration sends
    `0 pods / 0 containers, more = true` and returns to the very same state: no amount of
    fuel ends it (in Go: until the request deadline expires), although 2 pods + 40 containers
    of this size are plainly transmissible. -/
theorem unfixed_livelocks :
    stateAfter (witEnv false) 5 RState.init (SState.init w2pods w2ctrs) = some w2stuck ∧
    step (witEnv false) w2stuck.1 w2stuck.2 =
      (w2stuck.1, [.sent ⟨[], [], true⟩ ⟨[], true⟩], .next w2stuck.2) ∧
    ∀ n, (synchronize (witEnv false) (5 + n) RState.init w2pods w2ctrs).out = .outOfFuel ∧
      plan (synchronize (witEnv false) (5 + n) RState.init w2pods w2ctrs).evs =
        [⟨[], List.replicate 13 300, true⟩, ⟨[], List.replicate 13 300, true⟩,
         ⟨[], List.replicate 13 300, true⟩, ⟨[], [300], true⟩] ++
        List.replicate n ⟨[], [], true⟩ := by
  have h1 : stateAfter (witEnv false) 5 RState.init (SState.init w2pods w2ctrs) = some w2stuck := by
    decide
  have h2 : step (witEnv false) w2stuck.1 w2stuck.2 =
      (w2stuck.1, [.sent ⟨[], [], true⟩ ⟨[], true⟩], .next w2stuck.2) := by decide
  refine ⟨h1, h2, ?_⟩
  intro n
  obtain ⟨e1, e2, _⟩ := run_add (witEnv false) 5 n RState.init (SState.init w2pods w2ctrs) _ _ h1
  have hs : run (witEnv false) n ⟨some ([], w2ctrs), []⟩ ⟨w2pods, [], 0, 0⟩ = _ :=
    run_stuck (witEnv false) w2stuck.1 w2stuck.2 _ h2 n
  unfold synchronize
  rw [e1, e2, hs]
  refine ⟨rfl, ?_⟩
  have hp : plan (run (witEnv false) 5 RState.init (SState.init w2pods w2ctrs)).evs =
      [⟨[], List.replicate 13 300, true⟩, ⟨[], List.replicate 13 300, true⟩,
       ⟨[], List.replicate 13 300, true⟩, ⟨[], [300], true⟩] := by decide
  have plan_append : ∀ (a b : List (Ev Nat Nat Unit)), plan (a ++ b) = plan a ++ plan b := by
    intro a b
    induction a with
    | nil => rfl
    | cons x xs ih => cases x <;> simp [plan, ih]
  have plan_rep : ∀ k, plan (List.replicate k (Ev.sent (υ := Unit) (⟨[], [], true⟩ : Chunk Nat Nat) ⟨[], true⟩)) =
      List.replicate k ⟨[], [], true⟩ := by
    intro k
    induction k with
    | zero => rfl
    | succ k ih => simp [List.replicate_succ, plan, ih]
  rw [plan_append, hp, plan_rep]

/-- The patched code on the same state: every pod and container is delivered in five
    messages, none of them empty. -/
theorem fixed_no_livelock :
    (synchronize (witEnv true) 100 RState.init w2pods w2ctrs).out = .done [] ∧
    (synchronize (witEnv true) 100 RState.init w2pods w2ctrs).world.calls = [(w2pods, w2ctrs)] := by
  decide

end Nri.Props.C09
