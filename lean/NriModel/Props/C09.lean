import NriModel.Basic
/-! Property theorems for C09 — placeholder until the model is written. -/
namespace Nri.Props.C09
end Nri.Props.C09
