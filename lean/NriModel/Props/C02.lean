import NriModel.Basic
/-! Property theorems for C02 — placeholder until the model is written. -/
namespace Nri.Props.C02
end Nri.Props.C02
