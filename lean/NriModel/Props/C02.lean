import NriModel.Lemmas.ResultAbs
/-!
# C02 — plugins touching disjoint items, or removing before setting, never conflict

Same model and vocabulary as C01. Proved here:

* `C02_blame` — a conflict error names a plugin that set the item in the response being
  processed and an owner whose response (in this request) set it too: nobody is blamed for a
  field it did not set; in particular nothing the original container or the runtime's own
  update request carries can ever be blamed on a plugin (the ledger starts empty and grows
  only by what responses set).
* `C02_release_unconditional`, `C02_release_listed` — marking an item for removal releases
  the earlier claim: afterwards the item is owned, if at all, by the removing plugin itself
  because its own response set it again.
* `C02_disjoint` — the chain-level statement at full strength: whenever the abstract ledger
  (`Ledger.absRun`: a bare set of owned (container, item) pairs; a response releases what it
  marks for removal, must find what it sets free, then owns it) accepts a chain, the model's
  request loop succeeds — from the fresh state of ANY creation, update or stop request, i.e.
  whatever the original container or the runtime's own update request carries. The proof
  carries the agreement invariant between the ledger and the reply lists of the keyed list
  families (`ReplyHolds`), which is what makes a removal marker effective.
* `C02_disjoint_partial` — the per-step form (a response setting only unowned-after-removal
  items, each once, is accepted).
-/
namespace Nri.Props.C02
open Nri Nri.NApi Nri.Result Nri.Ledger

/-- every owner of the ledger is a plugin of `done` whose response set that item -/
def OwnedFrom (k : Kind) (done : List (Plugin × Option Response)) (o : Owners) : Prop :=
  ∀ c it w, o.owner c it = some w → ∃ r, (w, some r) ∈ done ∧ it ∈ setsOn false k r c

theorem ownedFrom_nil (k : Kind) (done) : OwnedFrom k done [] := by
  intro c it w h; simp [Owners.owner, AList.lookup] at h

theorem run_blame_aux (rs : List (Plugin × Option Response)) :
    ∀ (st : State) (done : List (Plugin × Option Response)),
      OwnedFrom st.kind done st.owners →
      ∀ c it p q, run Quirks.fixed st rs = .error (.conflict c it p q) →
        (∃ r, (p, some r) ∈ rs ∧ it ∈ setsOn false st.kind r c) ∧
        (∃ r, (q, some r) ∈ done ++ rs ∧ it ∈ setsOn false st.kind r c) := by
  induction rs with
  | nil => intro st done _ c it p q h; simp [run] at h
  | cons x rest ih =>
    intro st done hinv c it p q h
    obtain ⟨px, rx⟩ := x
    cases rx with
    | none =>
      simp only [run] at h
      obtain ⟨⟨r, hm, hs⟩, ⟨r', hm', hs'⟩⟩ := ih st done hinv c it p q h
      refine ⟨⟨r, List.mem_cons_of_mem _ hm, hs⟩, ⟨r', ?_, hs'⟩⟩
      simp only [List.mem_append, List.mem_cons] at hm' ⊢
      rcases hm' with h1 | h1
      · exact .inl h1
      · exact .inr (.inr h1)
    | some rx =>
      simp only [run] at h
      cases h1 : apply Quirks.fixed st px rx with
      | error e =>
        rw [h1] at h; cases h
        obtain ⟨rfl, hs, hw⟩ := apply_conflict_inv st px rx c it p q h1
        refine ⟨⟨rx, List.mem_cons_self, hs⟩, ?_⟩
        rcases hw with hw | hw
        · obtain ⟨r, hm, hs'⟩ := hinv c it q hw
          exact ⟨r, List.mem_append_left _ hm, hs'⟩
        · subst hw; exact ⟨rx, List.mem_append_right _ List.mem_cons_self, hs⟩
      | ok st1 =>
        rw [h1] at h
        have hk := apply_kind _ st st1 px rx h1
        have hinv1 : OwnedFrom st1.kind (done ++ [(px, some rx)]) st1.owners := by
          intro c' it' w' ho
          rw [hk]
          rcases apply_owner_inv st st1 px rx h1 c' it' w' ho with h2 | ⟨rfl, hs⟩
          · obtain ⟨r, hm, hs⟩ := hinv c' it' w' h2
            exact ⟨r, List.mem_append_left _ hm, hs⟩
          · exact ⟨rx, List.mem_append_right _ List.mem_cons_self, hs⟩
        obtain ⟨⟨r, hm, hs⟩, ⟨r', hm', hs'⟩⟩ := ih st1 _ hinv1 c it p q h
        rw [hk] at hs hs'
        refine ⟨⟨r, List.mem_cons_of_mem _ hm, hs⟩, ⟨r', ?_, hs'⟩⟩
        simpa [List.append_assoc] using hm'

/-- **C02 (blame).** From the fresh ledger of any creation, update or stop request: if the
    request fails with "plugins p and q both tried to set `it`" on container `c`, then `p`'s
    response in this request set `it` on `c`, and so did `q`'s. The original container and the
    runtime's own update request are not mentioned in the conclusion: they cannot cause or
    attract a conflict. -/
theorem C02_blame (st : State) (hfresh : st.owners = []) (rs : List (Plugin × Option Response))
    (c : Cid) (it : Item) (p q : Plugin)
    (h : run Quirks.fixed st rs = .error (.conflict c it p q)) :
    (∃ r, (p, some r) ∈ rs ∧ it ∈ setsOn false st.kind r c) ∧
    (∃ r, (q, some r) ∈ rs ∧ it ∈ setsOn false st.kind r c) := by
  have := run_blame_aux rs st [] (by rw [hfresh]; exact ownedFrom_nil _ _) c it p q h
  simpa using this

/-- **C02 (release, unconditional families).** An annotation or the command line marked for
    removal by a response that is processed successfully is afterwards owned, if at all, by
    the removing plugin through its own re-setting of it: any earlier plugin's claim is gone. -/
theorem C02_release_unconditional (st st' : State) (p : Plugin) (a : Adjustment) (id : Cid)
    (hk : st.kind = .create id) (it : Item)
    (hfam : (∃ k, it = .annotation k) ∨ it = .args)
    (hrm : it ∈ removesAdj a)
    (h : adjust Quirks.fixed st p (some a) = .ok st') (w : Plugin)
    (ho : st'.owners.owner id it = some w) : w = p ∧ it ∈ adjustSets a := by
  have hcid : cidOf st.kind = id := by rw [hk]; rfl
  obtain ⟨o, hc, rfl⟩ := (adjust_ok_iff _ st st' p a).1 h
  rw [hcid] at hc
  have hcl : it ∈ adjustClears Quirks.fixed st a := by
    unfold removesAdj at hrm
    unfold adjustClears
    simp only [List.mem_append] at hrm ⊢
    rcases hfam with ⟨k, rfl⟩ | rfl
    · rcases hrm with (((hrm | hrm) | hrm) | hrm) | hrm
      · refine .inl (.inl (.inl (.inl ?_)))
        unfold annClears
        simp only [Quirks.fixed, Bool.false_eq_true, ↓reduceIte]
        rw [annDel_eq]; exact hrm
      · simp at hrm
      · simp at hrm
      · split at hrm <;> simp at hrm
      · split at hrm <;> simp at hrm
    · rcases hrm with (((hrm | hrm) | hrm) | hrm) | hrm
      · simp at hrm
      · simp at hrm
      · simp at hrm
      · refine .inl (.inr ?_)
        unfold argsClears
        split at hrm
        · rename_i heq; simp [heq]
        · simp at hrm
      · split at hrm <;> simp at hrm
  rcases claimAll_owner_inv _ _ _ _ _ hc id it w ho with h1 | ⟨_, hm, hw⟩
  · rw [owner_clearAll_mem _ _ _ _ hcl] at h1; cases h1
  · exact ⟨hw, hm⟩

/-- **C02 (release, list families).** For mounts, devices and environment variables the owner
    is cleared when the reply collected so far holds the removed entry — which is where every
    claim of these families puts one. Stated with that premise explicit. -/
theorem C02_release_listed (st st' : State) (p : Plugin) (a : Adjustment) (id : Cid)
    (hk : st.kind = .create id) (d : Str)
    (hrm : Item.mount d ∈ removesAdj a)
    (hin : ∃ m ∈ st.reply.mounts, m.destination = d)
    (h : adjust Quirks.fixed st p (some a) = .ok st') (w : Plugin)
    (ho : st'.owners.owner id (.mount d) = some w) : w = p ∧ Item.mount d ∈ adjustSets a := by
  have hcid : cidOf st.kind = id := by rw [hk]; rfl
  obtain ⟨o, hc, rfl⟩ := (adjust_ok_iff _ st st' p a).1 h
  rw [hcid] at hc
  have hdel : d ∈ delKeys (a.mounts.map (·.destination)) := by
    unfold removesAdj at hrm
    simp only [List.mem_append] at hrm
    rcases hrm with (((hrm | hrm) | hrm) | hrm) | hrm
    · simp at hrm
    · simpa using hrm
    · simp at hrm
    · split at hrm <;> simp at hrm
    · split at hrm <;> simp at hrm
  have hcl : Item.mount d ∈ adjustClears Quirks.fixed st a := by
    unfold adjustClears
    simp only [List.mem_append]
    refine .inl (.inl (.inl (.inr ?_)))
    unfold mountClears
    obtain ⟨m, hm, rfl⟩ := hin
    exact List.mem_map.2 ⟨m, List.mem_filter.2 ⟨hm, by simpa using hdel⟩, rfl⟩
  rcases claimAll_owner_inv _ _ _ _ _ hc id (.mount d) w ho with h1 | ⟨_, hm, hw⟩
  · rw [owner_clearAll_mem _ _ _ _ hcl] at h1; cases h1
  · exact ⟨hw, hm⟩

/-- the same for environment variables -/
theorem C02_release_listed_env (st st' : State) (p : Plugin) (a : Adjustment) (id : Cid)
    (hk : st.kind = .create id) (n : Str)
    (hrm : Item.env n ∈ removesAdj a)
    (hin : ∃ e ∈ st.reply.env, e.key = n)
    (h : adjust Quirks.fixed st p (some a) = .ok st') (w : Plugin)
    (ho : st'.owners.owner id (.env n) = some w) : w = p ∧ Item.env n ∈ adjustSets a := by
  have hcid : cidOf st.kind = id := by rw [hk]; rfl
  obtain ⟨o, hc, rfl⟩ := (adjust_ok_iff _ st st' p a).1 h
  rw [hcid] at hc
  have hdel : n ∈ delKeys (a.env.map (·.key)) := by
    unfold removesAdj at hrm
    simp only [List.mem_append] at hrm
    rcases hrm with (((hrm | hrm) | hrm) | hrm) | hrm
    · simp at hrm
    · simp at hrm
    · simpa using hrm
    · split at hrm <;> simp at hrm
    · split at hrm <;> simp at hrm
  have hcl : Item.env n ∈ adjustClears Quirks.fixed st a := by
    unfold adjustClears
    simp only [List.mem_append]
    refine .inl (.inl (.inr ?_))
    unfold envClears
    obtain ⟨e, he, rfl⟩ := hin
    exact List.mem_map.2 ⟨e, List.mem_filter.2 ⟨he, by simpa using hdel⟩, rfl⟩
  rcases claimAll_owner_inv _ _ _ _ _ hc id (.env n) w ho with h1 | ⟨_, hm, hw⟩
  · rw [owner_clearAll_mem _ _ _ _ hcl] at h1; cases h1
  · exact ⟨hw, hm⟩

/-- … and for devices (only read when the adjustment has a `linux` section, as in the code) -/
theorem C02_release_listed_device (st st' : State) (p : Plugin) (a : Adjustment) (id : Cid)
    (hk : st.kind = .create id) (d : Str)
    (hrm : Item.device d ∈ removesAdj a)
    (hin : ∃ x ∈ st.reply.devices, x.path = d)
    (h : adjust Quirks.fixed st p (some a) = .ok st') (w : Plugin)
    (ho : st'.owners.owner id (.device d) = some w) : w = p ∧ Item.device d ∈ adjustSets a := by
  have hcid : cidOf st.kind = id := by rw [hk]; rfl
  obtain ⟨o, hc, rfl⟩ := (adjust_ok_iff _ st st' p a).1 h
  rw [hcid] at hc
  have hdel : a.hasLinux = true ∧ d ∈ delKeys (a.devices.map (·.path)) := by
    unfold removesAdj at hrm
    simp only [List.mem_append] at hrm
    rcases hrm with (((hrm | hrm) | hrm) | hrm) | hrm
    · simp at hrm
    · simp at hrm
    · simp at hrm
    · split at hrm <;> simp at hrm
    · split at hrm
      · rename_i hl; exact ⟨hl, by simpa using hrm⟩
      · simp at hrm
  have hcl : Item.device d ∈ adjustClears Quirks.fixed st a := by
    unfold adjustClears
    simp only [List.mem_append]
    refine .inr ?_
    rw [if_pos hdel.1]
    unfold deviceClears
    obtain ⟨x, hx, rfl⟩ := hin
    exact List.mem_map.2 ⟨x, List.mem_filter.2 ⟨hx, by simpa using hdel.2⟩, rfl⟩
  rcases claimAll_owner_inv _ _ _ _ _ hc id (.device d) w ho with h1 | ⟨_, hm, hw⟩
  · rw [owner_clearAll_mem _ _ _ _ hcl] at h1; cases h1
  · exact ⟨hw, hm⟩

/-- **C02 (disjoint writers, per step).** A response whose adjustment names no item twice and
    sets only items that are unowned once its removals are applied is accepted. -/
theorem C02_disjoint_partial (st : State) (p : Plugin) (a : Adjustment)
    (hnd : (adjustSets a).Nodup)
    (hfree : ∀ it ∈ adjustSets a,
       st.owners.owner (cidOf st.kind) it = none ∨ it ∈ adjustClears Quirks.fixed st a) :
    ∃ st', adjust Quirks.fixed st p (some a) = .ok st' := by
  obtain ⟨o, ho⟩ := claimAll_ok_of (cidOf st.kind) p
    (clearAll st.owners (cidOf st.kind) (adjustClears Quirks.fixed st a)) (adjustSets a)
    (by
      intro it hm
      rcases hfree it hm with h1 | h1
      · cases h2 : (clearAll st.owners (cidOf st.kind) (adjustClears Quirks.fixed st a)).owner (cidOf st.kind) it with
        | none => rfl
        | some w => rw [owner_clearAll_some _ _ _ _ _ _ h2] at h1; cases h1
      · exact owner_clearAll_mem _ _ _ _ h1)
    hnd
  exact ⟨_, (adjust_ok_iff _ st _ p a).2 ⟨o, ho, rfl⟩⟩

/-- **C02 (disjoint writers never conflict).** From the fresh ledger of any request: if the
    abstract ledger accepts the chain — no response updates the container being created, none
    names an item twice, and every item a response sets is, once that response's own removal
    marks are applied, not owned by an earlier response — then the request succeeds. -/
theorem C02_disjoint (st : State) (hfresh : st.owners = []) (rs : List (Plugin × Response))
    (owned' : List (Cid × Item)) (h : absRun st.kind [] rs = some owned') :
    ∃ st', run Quirks.fixed st (answeredAll rs) = .ok st' := by
  obtain ⟨st', hr, _, _⟩ := run_abs rs st [] owned' (replyHolds_fresh st hfresh) (absRel_fresh st hfresh) h
  exact ⟨st', hr⟩

/-- the three request kinds, for every original container / requested resources -/
theorem C02_disjoint_create (c0 : Container) (rs) (o) (h : absRun (.create c0.id) [] rs = some o) :
    ∃ st', run Quirks.fixed (initCreate c0) (answeredAll rs) = .ok st' := C02_disjoint (initCreate c0) rfl rs o h
theorem C02_disjoint_update (id : Cid) (req : Resources) (rs) (o) (h : absRun (.update id) [] rs = some o) :
    ∃ st', run Quirks.fixed (initUpdate id req) (answeredAll rs) = .ok st' := C02_disjoint (initUpdate id req) rfl rs o h
theorem C02_disjoint_stop (rs) (o) (h : absRun .stop [] rs = some o) :
    ∃ st', run Quirks.fixed initStop (answeredAll rs) = .ok st' := C02_disjoint initStop rfl rs o h

/-! ### the hypotheses are satisfiable -/

-- the abstract ledger accepts: p0 sets mount /m and env E, p1 removes /m, p2 sets /m again and E's sibling
example : (absRun (.create (str "c0")) []
    [(str "10-a", { adjust := some { mounts := [{ destination := str "/m" }], env := [{ key := str "E" }] } }),
     (str "20-b", { adjust := some { mounts := [{ destination := str "-/m" }] } }),
     (str "30-c", { adjust := some { mounts := [{ destination := str "/m" }], env := [{ key := str "F" }] } })]).isSome = true := by
  decide

-- … and rejects the same chain without the middle removal
example : (absRun (.create (str "c0")) []
    [(str "10-a", { adjust := some { mounts := [{ destination := str "/m" }] } }),
     (str "30-c", { adjust := some { mounts := [{ destination := str "/m" }] } })]).isSome = false := by
  decide


private def isErr : Except Err State → Bool | .error _ => true | .ok _ => false
private def errIs (c : Str) (it : Item) (p q : Str) : Except Err State → Bool
  | .error (.conflict c' it' p' q') => c' = c && it' = it && p' = p && q' = q
  | _ => false

-- a blamed pair: both set cpu shares of the same third-party container
example : errIs (str "ctrA") .cpuShares (str "30-c") (str "10-a")
    (run Quirks.fixed (initUpdate (str "c0") { pids := some 5, cpu := some { shares := some 9 } })
      [(str "10-a", some { updates := [{ containerId := str "ctrA", resources := some { cpu := some { shares := some 1 } } }] }),
       (str "20-b", some { updates := [{ containerId := str "ctrA", resources := some { memory := some { limit := some 1 } } }] }),
       (str "30-c", some { updates := [{ containerId := str "ctrA", resources := some { cpu := some { shares := some 2 } } }] })]) = true := by
  decide

-- pre-populated request, every plugin touching a different field: success (the pids case of fix 1)
example : isErr
    (run Quirks.fixed (initUpdate (str "c0") { pids := some 5, cpu := some { shares := some 9 } })
      [(str "10-a", some { updates := [{ containerId := str "c0", resources := some { memory := some { limit := some 1 } } }] }),
       (str "20-b", some { updates := [{ containerId := str "c0", resources := some { cpu := some { quota := some 2 } } }] })]) = false := by
  decide

-- lone removal by a middle plugin releases the claim (fix 2): p0 sets k, p1 removes k, p2 sets k
example : isErr
    (run Quirks.fixed (initCreate { id := str "c0" })
      [(str "10-a", some { adjust := some { annotations := [(str "k", str "v0")] } }),
       (str "20-b", some { adjust := some { annotations := [(str "-k", [])] } }),
       (str "30-c", some { adjust := some { annotations := [(str "k", str "v2")] } })]) = false := by
  decide

-- … and the code before fix 2 raised a conflict on exactly that chain
example : isErr
    (run Quirks.unfixed (initCreate { id := str "c0" })
      [(str "10-a", some { adjust := some { annotations := [(str "k", str "v0")] } }),
       (str "20-b", some { adjust := some { annotations := [(str "-k", [])] } }),
       (str "30-c", some { adjust := some { annotations := [(str "k", str "v2")] } })]) = true := by
  decide

end Nri.Props.C02
