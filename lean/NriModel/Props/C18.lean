import NriModel.Lemmas.Launch
/-!
Property C18 — *pre-installed plugins are launched, configured and reaped as documented*.

Theorems about `Nri.Launch` (model of `discoverPlugins`, `getPluginConfig`,
`newLaunchedPlugin`, `start`, `startPlugins`, `sortPlugins`, `stop`, with the two repairs
docs/fixes/C18-1.patch and C18-2.patch) for EVERY directory content, every set of drop-in
files and every behaviour of the launched processes. What only the operating system decides
(that `exec` passes exactly descriptors 0–3, that `Kill`/`Wait` remove the process) is
measured by the probe campaign, not proved here — see docs/C18.md.
-/
namespace Nri.Props.C18
open Nri Nri.Launch

/-! ### which files are launched -/

/-- the scan's notion of a plugin file is the documented one: not a directory, some execute
    bit, and a name made of a two-digit index, a dash and a name -/
theorem C18_plugin_shape (e : Entry) :
    isPlugin e = true ↔
      e.kind ≠ .dir ∧ hasExecBit e.mode = true ∧
      ∃ idx base, checkIndex idx = true ∧ e.name = idx ++ ('-' :: base) := by
  unfold isPlugin candidate
  constructor
  · intro h
    simp only [Bool.and_eq_true, decide_eq_true_eq, ne_eq, Option.isSome_iff_exists] at h
    obtain ⟨⟨hk, hx⟩, ⟨⟨i, b⟩, hp⟩⟩ := h
    obtain ⟨hn, hi⟩ := parsePluginName_some hp
    exact ⟨hk, hx, i, b, hi, hn⟩
  · rintro ⟨hk, hx, i, b, hi, hn⟩
    simp only [Bool.and_eq_true, decide_eq_true_eq, ne_eq]
    refine ⟨⟨hk, hx⟩, ?_⟩
    rw [hn, parsePluginName_of_shape hi]
    rfl

/-- **Launched.** A successful discovery finds exactly the plugin files, in the order of the
    directory listing (by file name), each once if file names are distinct, each with the
    exec fact of its own file; and start-up attempts every one of them exactly once, in that
    order, whatever happened to the ones before. -/
theorem C18_launched (d : Dropins) (entries : List Entry) (fs : List Found)
    (h : discover d entries = .ok fs) :
    fs.map Found.fileName = ((sortByName entries).filter isPlugin).map (·.name) ∧
    fs.map (·.exec) = ((sortByName entries).filter isPlugin).map (·.exec) ∧
    (∀ e ∈ entries, isPlugin e = true → e.name ∈ fs.map Found.fileName) ∧
    ((entries.map (·.name)).Nodup → (fs.map Found.fileName).Nodup) ∧
    ((startUpOf fs startOne).started.map (·.found) = fs) ∧
    (∀ s ∈ (startUpOf fs startOne).started, s.process = true ↔ ∃ b, s.found.exec = .runs b) := by
  unfold discover at h
  obtain ⟨h1, h2, _⟩ := discoverLoop_ok h
  refine ⟨h1, h2, ?_, ?_, ?_, ?_⟩
  · intro e he hp
    rw [h1]
    apply List.mem_map_of_mem
    rw [List.mem_filter]
    exact ⟨(sortByName_perm entries).mem_iff.mpr he, hp⟩
  · intro hnd
    rw [h1]
    have hsub : (((sortByName entries).filter isPlugin).map (·.name)).Sublist ((sortByName entries).map (·.name)) :=
      List.Sublist.map _ List.filter_sublist
    apply List.Nodup.sublist hsub
    exact ((sortByName_perm entries).map _).nodup_iff.mpr hnd
  · simp only [startUpOf, List.map_map]
    rw [List.map_congr_left (g := id)]
    · simp
    · intro f _
      simp only [Function.comp, id]
      unfold startOne
      split <;> rfl
  · intro s hs
    simp only [startUpOf, List.mem_map] at hs
    obtain ⟨f, _, rfl⟩ := hs
    unfold startOne
    split <;> simp_all

/-- **Start never aborts on names.** With readable drop-ins discovery succeeds for every
    directory content — a file that is not named `NN-name` is simply not a plugin. -/
theorem C18_discovery_total (d : Dropins) (entries : List Entry)
    (hd : ∀ k, AList.lookup d k ≠ some .dir) : ∃ fs, discover d entries = .ok fs :=
  discoverLoop_total hd _

/-- **Non-plugins are invisible.** Adding a directory, a file without any execute bit or a
    file whose name is not `NN-name` to the plugin directory changes nothing. -/
theorem C18_non_plugin_ignored (d : Dropins) (e : Entry) (entries : List Entry)
    (h : isPlugin e = false) : discover d (e :: entries) = discover d entries := by
  unfold discover
  rw [discoverLoop_filter d (sortByName (e :: entries)), discoverLoop_filter d (sortByName entries)]
  simp only [sortByName]
  rw [insertByName_filter_of_not _ h]

/-! ### configuration -/

/-- **Drop-in choice.** `NN-name.conf` if it exists, else `name.conf` if it exists, else the
    empty configuration; and every discovered plugin carries exactly that. -/
theorem C18_config (d : Dropins) (idx base : Str) :
    (∀ c, AList.lookup d (idx ++ ('-' :: base) ++ confSuffix) = some (.file c) →
        configFor d idx base = .ok c) ∧
    (AList.lookup d (idx ++ ('-' :: base) ++ confSuffix) = none →
      ∀ c, AList.lookup d (base ++ confSuffix) = some (.file c) → configFor d idx base = .ok c) ∧
    (AList.lookup d (idx ++ ('-' :: base) ++ confSuffix) = none →
      AList.lookup d (base ++ confSuffix) = none → configFor d idx base = .ok []) ∧
    (∀ entries fs, discover d entries = .ok fs → ∀ f ∈ fs, configFor d f.idx f.base = .ok f.cfg) := by
  refine ⟨?_, ?_, ?_, ?_⟩
  · intro c h; simp only [configFor, firstConfig, h]
  · intro h c h2; simp only [configFor, firstConfig, h, h2]
  · intro h h2; simp only [configFor, firstConfig, h, h2]
  · intro entries fs h f hf
    exact ((discoverLoop_ok h).2.2 f hf).2

/-! ### environment and descriptors -/

/-- **Environment.** The child is given exactly three variables — its name, its index, and
    `3` as the number of the pre-connected socket — and exactly one file beyond
    stdin/stdout/stderr, so descriptors 0…3; name and index are the two parts of the file name. -/
theorem C18_env (idx base : Str) :
    childEnv idx base = [(envName, base), (envIdx, idx), (envSocket, "3".toList)] ∧
    childFds = [0, 1, 2, 3] ∧
    (checkIndex idx = true → parsePluginName (idx ++ ('-' :: base)) = some (idx, base)) := by
  refine ⟨rfl, by decide, parsePluginName_of_shape⟩

/-! ### order -/

/-- **Index order is numeric order.** `sortPlugins` compares the index *strings*; for two-digit
    indices that is the numeric order, leading zeros included: `"07" < "08" < "09" < "10"`
    (an index parsed as a number with base auto-detection would read "08"/"09" as invalid
    octal — seeded/C18-s4). Same fact as `idx_order` of C06, restated on this model. -/
theorem C18_index_order (i1 i2 : Str) (h1 : checkIndex i1 = true) (h2 : checkIndex i2 = true) :
    strLe i1 i2 = true ↔ idxVal i1 ≤ idxVal i2 :=
  idx_strLe_iff h1 h2

example : strLe "07".toList "08".toList = true ∧ strLe "09".toList "10".toList = true ∧
    strLe "08".toList "01".toList = false ∧ idxVal "09".toList = 9 := by decide

/-- **Order.** Plugins are launched in index order, and the active plugins in launch order
    are sorted by index — so the order `sortPlugins` produces (any index-sorted permutation)
    invokes them in index order. -/
theorem C18_order (d : Dropins) (entries : List Entry) (fs : List Found)
    (h : discover d entries = .ok fs) :
    fs.Pairwise (fun a b => idxVal a.idx ≤ idxVal b.idx) ∧
    sortedByIdx (startUpOf fs startOne).active = true := by
  unfold discover at h
  obtain ⟨h1, _, h3⟩ := discoverLoop_ok h
  have hsorted : ((sortByName entries).filter isPlugin).Pairwise nameLe :=
    List.Pairwise.sublist List.filter_sublist (sortByName_pairwise entries)
  have hnames : (fs.map Found.fileName).Pairwise (fun a b => strLe a b = true) := by
    rw [h1, List.pairwise_map]
    exact hsorted
  rw [List.pairwise_map] at hnames
  have hfs : fs.Pairwise (fun a b => idxVal a.idx ≤ idxVal b.idx) := by
    apply List.Pairwise.imp_of_mem _ hnames
    intro a b ha hb hle
    exact idx_le_of_name_le (h3 a ha).1 (h3 b hb).1 hle
  refine ⟨hfs, pairwise_sortedByIdx ?_⟩
  simp only [startUpOf]
  rw [List.pairwise_map]
  apply List.Pairwise.sublist List.filter_sublist
  rw [List.pairwise_map]
  apply List.Pairwise.imp _ hfs
  intro a b hab
  have : ∀ f, (startOne f).found = f := by
    intro f; unfold startOne; split <;> rfl
  simpa [this] using hab

/-! ### failing plugins -/

/-- a plugin that comes up (registers, accepts its configuration, synchronises) -/
def good (f : Found) : Bool :=
  f.exec = .runs .ok || f.exec = .runs .diesLater ||
  f.exec = .runs .closesWhenIdle || f.exec = .runs .exitsWhenIdle

/-- **Skip.** Whatever the other plugins do: (1) the active plugins are exactly the
    discovered ones that come up, in launch order — a plugin that cannot be executed, exits
    at once, never registers, refuses its configuration or fails to synchronise is absent and
    nothing else changes; (2) a plugin that comes up sees its start, its configuration, the
    synchronisation and every request, in this order; one that dies after the first request
    sees no later request; (3) every process that was created has been stopped (killed and
    waited for) by the time the runtime has stopped. -/
theorem C18_skip (fs : List Found) (reqs : Nat) :
    (startUpOf fs startOne).active = fs.filter good ∧
    (∀ s ∈ (startUpOf fs startOne).started, s.found.exec = .runs .ok →
        eventsOf s reqs = [Ev.start, Ev.configure, Ev.synchronize] ++ (List.range reqs).map fun i => Ev.create (i + 1)) ∧
    (∀ s ∈ (startUpOf fs startOne).started, s.found.exec = .runs .diesLater → 0 < reqs →
        eventsOf s reqs = [Ev.start, Ev.configure, Ev.synchronize, Ev.create 1]) ∧
    (∀ s ∈ (startUpOf fs startOne).started, ¬ good s.found = true →
        ∀ n, Ev.create n ∉ eventsOf s reqs) ∧
    (∀ s ∈ (startUpOf fs startOne).started, s.process = true → stoppedEventually s = true) := by
  have hfound : ∀ f, (startOne f).found = f := by
    intro f; unfold startOne; split <;> rfl
  refine ⟨?_, ?_, ?_, ?_, ?_⟩
  · simp only [startUpOf, List.filter_map, List.map_map]
    have : (syncOk ∘ startOne) = good := by
      funext f
      simp only [Function.comp, syncOk, good]
      unfold startOne
      cases hex : f.exec with
      | cannot => simp
      | runs b => cases b <;> simp [hex]
    rw [this]
    rw [List.map_congr_left (g := id)]
    · simp
    · intro f _; simp [hfound]
  · intro s hs hex
    simp only [startUpOf, List.mem_map] at hs
    obtain ⟨f, _, rfl⟩ := hs
    rw [hfound] at hex
    simp [eventsOf, startOne, hex, syncOk]
  · intro s hs hex hreq
    simp only [startUpOf, List.mem_map] at hs
    obtain ⟨f, _, rfl⟩ := hs
    rw [hfound] at hex
    have : reqs ≠ 0 := by omega
    simp [eventsOf, startOne, hex, syncOk, this]
  · intro s hs hbad n
    simp only [startUpOf, List.mem_map] at hs
    obtain ⟨f, _, rfl⟩ := hs
    rw [hfound] at hbad
    simp only [good, Bool.or_eq_true, decide_eq_true_eq, not_or] at hbad
    unfold eventsOf startOne syncOk
    cases hex : f.exec with
    | cannot => simp
    | runs b => cases b <;> simp_all
  · intro s hs hp
    simp only [startUpOf, List.mem_map] at hs
    obtain ⟨f, _, rfl⟩ := hs
    unfold stoppedEventually
    unfold startOne at hp ⊢
    split <;> simp_all

/-- **Stop kills all.** Take the plugins active after start-up and let ANY sequence of relayed
    requests and idle periods follow, during which plugins may die after a request, close their
    end of the connection while staying alive, or exit while the runtime is idle. Then after
    `Stop` `p.stop()` (kill + wait) has been called on every one of them — whatever its
    connection state at that moment and whether or not a request was relayed since it closed
    (`removeClosedPlugins` only runs with a request; `stopPlugins` does not look at the flag). -/
theorem C18_stop_kills_all (active : List Found) (plan : List Step) :
    (∀ f ∈ active, f ∈ (stopAll (runPlan (initRun active) plan)).stopped) ∧
    (stopAll (runPlan (initRun active) plan)).plugins = [] :=
  ⟨covered_stopAll (covered_runPlan plan (covered_init active)), rfl⟩

/-- … and for any list the runtime may hold at `Stop`, flagged closed or not -/
theorem C18_stop_ignores_closed_flag (st : RunState) :
    ∀ p ∈ st.plugins, p.1 ∈ (stopAll st).stopped := by
  intro p hp
  simp only [stopAll]
  exact List.mem_append_right _ (List.mem_map_of_mem hp)

/-- the seeded breakage (seeded/C18-s1: `stopPlugins` skips plugins flagged closed): a plugin
    that closes while the runtime is idle is never stopped when `Stop` follows directly -/
theorem skipping_closed_leaks :
    let f : Found := ⟨"10".toList, "closer".toList, [], .runs .closesWhenIdle⟩
    f ∉ (stopAllSkippingClosed (runPlan (initRun [f]) [.idle])).stopped ∧
    f ∈ (stopAll (runPlan (initRun [f]) [.idle])).stopped ∧
    f ∈ (stopAllSkippingClosed (runPlan (initRun [f]) [.idle, .request])).stopped := by
  decide

/-! ### the unrepaired code (witnesses; DESIGN §6 #14 and the unreaped child) -/

def exEntry (name : String) (b : Behaviour) : Entry :=
  { name := name.toList, kind := .file, mode := 0o755, exec := .runs b }

/-- Unrepaired `discoverPlugins`: an executable `README` next to `10-x` makes the whole
    discovery fail — `10-x` is never launched. The repaired scan launches it. -/
theorem unfixed_misnamed_aborts :
    failure (discoverUnfixed [] [exEntry "README" .ok, exEntry "10-x" .ok]) = some .invalidName ∧
    (discover [] [exEntry "README" .ok, exEntry "10-x" .ok]).toOption.map (·.map Found.fileName)
      = some ["10-x".toList] := by
  decide

/-- Unrepaired `start`: a plugin that exits before registering is never waited for. -/
theorem unfixed_exit_not_reaped :
    stoppedEventually (startOneUnfixed ⟨"10".toList, "x".toList, [], .runs .exitsAtOnce⟩) = false ∧
    stoppedEventually (startOne ⟨"10".toList, "x".toList, [], .runs .exitsAtOnce⟩) = true := by
  decide

/-! ### the hypotheses are satisfiable -/

example : ∃ fs, discover [("10-a.conf".toList, .file "A".toList), ("b.conf".toList, .file "B".toList)]
    [exEntry "20-b" .exitsAtOnce, exEntry "10-a" .ok,
     { name := "sub".toList, kind := .dir, mode := 0o755, exec := .cannot },
     { name := "30-c".toList, kind := .file, mode := 0o644, exec := .cannot }] = .ok fs ∧
    fs.map Found.fileName = ["10-a".toList, "20-b".toList] ∧ fs.map (·.cfg) = ["A".toList, "B".toList] := by
  refine ⟨_, rfl, ?_, ?_⟩ <;> decide

end Nri.Props.C18
