import NriModel.Basic
/-! Property theorems for C18 — placeholder until the model is written. -/
namespace Nri.Props.C18
end Nri.Props.C18
