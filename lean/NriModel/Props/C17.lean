import NriModel.Basic
/-! Property theorems for C17 — placeholder until the model is written. -/
namespace Nri.Props.C17
end Nri.Props.C17
