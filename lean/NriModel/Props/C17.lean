import NriModel.Registration
import NriModel.Lemmas.StubMask
import NriModel.Lemmas.Registration
/-!
Property C17 — only well-formed, timely registrations are activated, and the socket is private.

All statements are about `Nri.Registration` (model of pkg/adaptation/plugin.go `start`,
`RegisterPlugin`, `configure`; adaptation.go `acceptPluginConnections`, `startListener`;
pkg/api/plugin.go `CheckPluginIndex`) and quantify over every name and index string, every
32-bit mask, every behaviour of the connecting plugin (when, if ever, it registers, hangs up,
answers Configure and Synchronize), every pair of timeouts, every list of such plugins and
every umask.
-/
namespace Nri.Props.C17
open Nri Nri.Events Nri.Registration Nri.Lemmas.Registration Nri.Lemmas.StubMask

/-- The index check accepts exactly the strings made of two ASCII digits. -/
theorem C17_index_iff (idx : Str) : checkIndex idx = .ok () ↔ TwoDigits idx := checkIndex_iff idx

example : TwoDigits (str "07") := ⟨'0', '7', rfl, by decide, by decide⟩
example : checkIndex (str "7") = .error .length ∧ checkIndex (str "007") = .error .length ∧
          checkIndex (str "-1") = .error .notDigits ∧ checkIndex (str "é") = .error .notDigits ∧
          checkIndex (str "٣٤") = .error .length := ⟨rfl, rfl, rfl, rfl, rfl⟩

/-- An external plugin's registration is accepted exactly when the name is non-empty and the
    index is two digits; it is then known under exactly that index and name. -/
theorem C17_register_iff (pre : Str × Str) (name idx : Str) (r : Str × Str) :
    registerPlugin true pre name idx = .ok r ↔ name ≠ [] ∧ TwoDigits idx ∧ r = (idx, name) :=
  registerPlugin_ext_iff pre name idx r

/-- The mask answered to Configure is accepted exactly when it has no bit outside the
    thirteen defined events; an empty mask then stands for all of them. -/
theorem C17_mask_iff (m m' : Mask) :
    configureMask m = .ok m' ↔ m &&& ~~~valid = 0#32 ∧ m' = (if m = 0#32 then valid else m) :=
  configureMask_iff m m'

example : configureMask 0x2000#32 = .error (.invalidEvents 0x2000#32) ∧
          configureMask 0x80000001#32 = .error (.invalidEvents 0x80000000#32) ∧
          configureMask 0x1001#32 = .ok 0x1001#32 ∧ configureMask 0#32 = .ok 0x1fff#32 := ⟨rfl, rfl, rfl, rfl⟩

/-- Activation, characterised. A connecting plugin ends up in the plugin list iff it
    registers before the registration timeout (and before hanging up) with a non-empty name
    and a two-digit index, answers Configure within the request timeout, without error, with a
    mask of valid events only, and answers the initial Synchronize within the request timeout
    without error — and it is then listed under exactly the index and name it registered and
    the events it asked for. -/
theorem C17_active_iff (to : Timeouts) (b : Behaviour) (idx name : Str) (ev : Mask) :
    (handle to b).outcome = .activated idx name ev ↔
      Timely to b ∧ b.name ≠ [] ∧ TwoDigits b.idx ∧
      Answers b.cfgAt to.req ∧ b.cfgErr = false ∧ b.events &&& ~~~valid = 0#32 ∧
      Answers b.syncAt to.req ∧ b.syncErr = false ∧
      idx = b.idx ∧ name = b.name ∧ ev = (if b.events = 0#32 then valid else b.events) :=
  handle_activated to b idx name ev

example : (handle ⟨100, 100⟩ ⟨some 3, str "p", str "42", none, some 1, false, 0x11#32, some 2, false⟩).outcome =
            .activated (str "42") (str "p") 0x11#32 := by decide
example : (handle ⟨100, 100⟩ ⟨some 100, str "p", str "42", none, some 1, false, 0x11#32, some 2, false⟩).outcome =
            .regTimeout := by decide

/-- The events an active plugin is subscribed to are never empty and never outside the
    defined thirteen. -/
theorem C17_events_valid (to : Timeouts) (b : Behaviour) (idx name : Str) (ev : Mask)
    (h : (handle to b).outcome = .activated idx name ev) : ev ≠ 0#32 ∧ ev &&& ~~~valid = 0#32 := by
  obtain ⟨_, _, _, _, _, hv, _, _, _, _, hev⟩ := (C17_active_iff to b idx name ev).mp h
  subst hev
  by_cases hz : b.events = 0#32
  · simp only [hz, if_true]
    exact ⟨by decide, by decide⟩
  · simp only [hz, if_false]
    exact ⟨hz, hv⟩

/-- What a plugin is sent during the handshake. Configure goes only to plugins whose
    registration was well-formed and timely; Synchronize only to those that moreover answered
    Configure in time with a valid mask. -/
theorem C17_handshake_gated (to : Timeouts) (b : Behaviour) :
    ((handle to b).configured = true → Timely to b ∧ b.name ≠ [] ∧ TwoDigits b.idx) ∧
    ((handle to b).synced = true →
       Timely to b ∧ b.name ≠ [] ∧ TwoDigits b.idx ∧
       Answers b.cfgAt to.req ∧ b.cfgErr = false ∧ b.events &&& ~~~valid = 0#32) :=
  (handle_flags to b).2

/-- Isolation. After the accept loop has dealt with any list of connections, an event is
    relayed to connection `i` iff that connection was activated (in the sense of
    `C17_active_iff`) and asked for that event. A plugin that was not activated is not in the
    list and receives no event. -/
theorem C17_isolated (to : Timeouts) (bs : List Behaviour) (e : EventNo) (i : Nat) :
    i ∈ recipients (acceptAll to {} bs).1 e ↔
      ∃ b idx name ev, bs[i]? = some b ∧ (handle to b).outcome = .activated idx name ev ∧
        isSet ev e = true := by
  have hspec := acceptAll_spec to {} bs
  simp only [recipients, List.mem_map, List.mem_filter]
  rw [hspec.2.1]
  simp only [List.nil_append]
  constructor
  · intro ⟨a, ⟨ha, hset⟩, hc⟩
    obtain ⟨j, h, hj, hcj, ho⟩ := (mem_activeOf _ _ a).mp ha
    have hji : j = i := by
      have : a.conn = j := by simpa using hcj
      omega
    subst hji
    rw [List.getElem?_map] at hj
    cases hb : bs[j]? with
    | none => simp [hb] at hj
    | some b =>
      simp only [hb, Option.map_some, Option.some.injEq] at hj
      subst hj
      exact ⟨b, a.idx, a.name, a.events, rfl, ho, hset⟩
  · intro ⟨b, idx, name, ev, hb, ho, hset⟩
    refine ⟨⟨i, idx, name, ev⟩, ⟨?_, hset⟩, rfl⟩
    apply (mem_activeOf _ _ _).mpr
    refine ⟨i, handle to b, ?_, by simp, ho⟩
    rw [List.getElem?_map, hb]; rfl

example : recipients (acceptAll ⟨10, 10⟩ {}
            [ ⟨some 0, str "bad", str "7", none, some 0, false, 1#32, some 0, false⟩,
              ⟨none, str "x", str "00", none, some 0, false, 1#32, some 0, false⟩,
              ⟨some 0, str "good", str "10", none, some 0, false, 0#32, some 0, false⟩ ]).1 4 = [2] := by decide

/-- No blocking. The loop spends a bounded number of ticks on any connection, whatever the
    plugin does or omits, and what happens to a connection depends on that plugin's own
    behaviour only — bad plugins ahead of it change nothing. In particular a good plugin behind
    any number of bad ones is activated. -/
theorem C17_no_block (to : Timeouts) (s : State) (bs : List Behaviour) :
    (∀ b, (handle to b).elapsed ≤ to.reg + 2 * to.req) ∧
    (acceptAll to s bs).2 = bs.map (handle to) ∧
    (acceptAll to s bs).1.accepted = s.accepted + bs.length ∧
    (acceptAll to s bs).1.clock ≤ s.clock + bs.length * (to.reg + 2 * to.req) := by
  have hspec := acceptAll_spec to s bs
  refine ⟨fun b => (handle_flags to b).1, hspec.1, hspec.2.2.1, ?_⟩
  rw [hspec.2.2.2]
  have : ∀ l : List Behaviour, ((l.map (handle to)).map (·.elapsed)).sum ≤ l.length * (to.reg + 2 * to.req) := by
    intro l
    induction l with
    | nil => simp
    | cons b l ih =>
      have := (handle_flags to b).1
      simp only [List.map_cons, List.sum_cons, List.length_cons, Nat.add_mul, Nat.one_mul]
      omega
  have := this bs
  omega

/-- Consequence spelled out: a well-behaved plugin behind arbitrary others is in the list. -/
theorem C17_good_after_bad (to : Timeouts) (bad : List Behaviour) (g : Behaviour)
    (hg : (handle to g).outcome = .activated g.idx g.name (if g.events = 0#32 then valid else g.events))
    (e : EventNo) (he : isSet (if g.events = 0#32 then valid else g.events) e = true) :
    bad.length ∈ recipients (acceptAll to {} (bad ++ [g])).1 e := by
  apply (C17_isolated to (bad ++ [g]) e bad.length).mpr
  exact ⟨g, _, _, _, by simp, hg, he⟩

/-- A directory NRI creates for its socket carries no permission bit for group or others,
    under every umask and inside every parent directory. -/
theorem C17_dir_private (umask parent : Mode) : mkdirMode umask parent &&& 0o077#12 = 0#12 := by
  unfold mkdirMode
  apply BitVec.eq_of_getLsbD_eq
  intro i hi
  have h1 : ((0o700#12 : BitVec 12).getLsbD i && (0o077#12 : BitVec 12).getLsbD i) = false := by
    have : i = 0 ∨ i = 1 ∨ i = 2 ∨ i = 3 ∨ i = 4 ∨ i = 5 ∨ i = 6 ∨ i = 7 ∨ i = 8 ∨ i = 9 ∨ i = 10 ∨ i = 11 := by omega
    rcases this with h|h|h|h|h|h|h|h|h|h|h|h <;> subst h <;> decide
  have h2 : ((0o2000#12 : BitVec 12).getLsbD i && (0o077#12 : BitVec 12).getLsbD i) = false := by
    have : i = 0 ∨ i = 1 ∨ i = 2 ∨ i = 3 ∨ i = 4 ∨ i = 5 ∨ i = 6 ∨ i = 7 ∨ i = 8 ∨ i = 9 ∨ i = 10 ∨ i = 11 := by omega
    rcases this with h|h|h|h|h|h|h|h|h|h|h|h <;> subst h <;> decide
  simp only [BitVec.getLsbD_and, BitVec.getLsbD_or, BitVec.getLsbD_not, BitVec.getLsbD_zero]
  cases ha : (0o700#12 : BitVec 12).getLsbD i <;> cases hb : (0o077#12 : BitVec 12).getLsbD i <;>
    cases hc : (0o2000#12 : BitVec 12).getLsbD i <;> simp_all

example : mkdirMode 0o022#12 0o755#12 = 0o700#12 ∧ mkdirMode 0o277#12 0o755#12 = 0o500#12 ∧
          mkdirMode 0o777#12 0o777#12 = 0#12 ∧ mkdirMode 0o022#12 0o2775#12 = 0o2700#12 := by decide

/-- The same for everything `startListener` creates: every path component that was missing
    is private afterwards; components that existed are left as they were. -/
theorem C17_created_private (umask parent : Mode) (chain : List (Option Mode)) (modes : List Mode)
    (h : startListener false umask parent chain = some modes) :
    modes.length = chain.length ∧
    ∀ i : Nat, (chain[i]? = some none → ∃ m, modes[i]? = some m ∧ m &&& 0o077#12 = 0#12) ∧
         (∀ m, chain[i]? = some (some m) → modes[i]? = some m) := by
  simp only [startListener, Bool.false_eq_true, if_false, Option.some.injEq] at h
  subst h
  induction chain generalizing parent with
  | nil => simp [mkdirAll]
  | cons c rest ih =>
    cases c with
    | none =>
      have := ih (mkdirMode umask parent)
      refine ⟨by simp [mkdirAll, this.1], fun i => ?_⟩
      cases i with
      | zero => simp [mkdirAll, C17_dir_private]
      | succ i => simpa [mkdirAll] using this.2 i
    | some m0 =>
      have := ih m0
      refine ⟨by simp [mkdirAll, this.1], fun i => ?_⟩
      cases i with
      | zero => simp [mkdirAll]
      | succ i => simpa [mkdirAll] using this.2 i

/-- With external connections disabled nothing is created and no socket is served. -/
theorem C17_no_listen (umask parent : Mode) (chain : List (Option Mode)) :
    startListener true umask parent chain = none := rfl

end Nri.Props.C17
