import NriModel.Lemmas.ResultUpdates
import NriModel.Lemmas.ResultWalkVals
/-!
# C05 — container updates are collected once per target with exactly the fields set

Model `Nri.Result` (`update`, `getContainerUpdate`, `updateResources`, the three response
getters). `touched rs` is the list of target ids the chain's update lists mention.

Proved for every chain, every request and every placement of ignore-failure flags:
one entry per distinct target and only for mentioned targets (`C05_one_entry_per_target`);
for update requests the entry of the updated container is last, a placeholder exactly when no
plugin named that container (`C05_own_last`); an update of the container being created fails
the request (`C05_self_update`); an ignore-failure update that conflicts contributes no value
and raises no error (`C05_ignored_drop`); a failing non-ignored update fails the request
(`C05_conflict_fails`). "Exactly the fields plugins set, each from its single owner" is proved
per applied update (`C05_applied_fields`: the entry becomes its base overlaid with the
update, field by field) and at chain level:

The chain-level value statement — the one the correspondence run evaluates on every generated
chain (`Driver/Merge.lean: exactFields`) — is proved for all chains by refinement of the
state-free specification walk `Nri.UpdateWalk.walk` (`C05_walk_refines`, `C05_exact_fields`):
every returned entry carries, as a structurally equal `Resources` value (no canonical form
needed), what the walk yields for its target. Corollaries: every entry is its base overlaid in
order with exactly the updates the walk applies to its target (`C05_entry_overlay`), an
ignore-failure update that names a taken item is not among them
(`C05_ignored_drop_chain`), and each scalar / unified key of an entry is the value of the one
applied update that set it, or the base value (`C05_single_source`).
No hypothesis on the chain: an update that names one item twice (a repeated hugepage size or
unified key) is treated by the walk as by the ledger — the second mention collides with the
first, the update is not applied, only the items before the repeated one stay taken
(`C05_walk_repeated_item` is such a chain).
-/
namespace Nri.Props.C05
open Nri Nri.NApi Nri.Result Nri.Ledger Nri.UpdateWalk

theorem updWF_init (st : State) (h1 : st.updates = []) (h2 : st.own = none) : UpdWF st :=
  ⟨by simp [ids, h1], by simp [ids, h1], by simp [h2]⟩

/-- **One entry per target.** After any successful request the third-party entries have
    pairwise distinct targets, each is a target some plugin's update named, every named
    target other than the container being updated has one, and none of them is the container
    being updated. -/
theorem C05_one_entry_per_target (st st' : State) (rs : List (Plugin × Option Response))
    (h1 : st.updates = []) (h2 : st.own = none) (h : run Quirks.fixed st rs = .ok st') :
    (ids st'.updates).Nodup ∧
    (∀ id, id ∈ ids st'.updates ↔ id ∈ touched rs ∧ isOwn st.kind id = false) := by
  obtain ⟨wf, hid, _⟩ := run_entries _ st st' rs h (updWF_init st h1 h2)
  refine ⟨wf.nodup, fun id => ?_⟩
  rw [hid id]; simp [ids, h1]

/-- **Own entry last.** The reply to an update request is the third-party entries followed by
    exactly one more element: the nil placeholder when no plugin named the updated container,
    otherwise an entry for that container. -/
theorem C05_own_last (id : Cid) (req : Resources) (st' : State) (rs : List (Plugin × Option Response))
    (h : run Quirks.fixed (initUpdate id req) rs = .ok st') :
    replyUpdates st' = st'.updates.map some ++ [st'.own] ∧
    (st'.own = none ↔ id ∉ touched rs) ∧
    (∀ e, st'.own = some e → e.containerId = id) := by
  have hk : st'.kind = .update id := run_kind _ _ st' rs h
  obtain ⟨wf, _, hown⟩ := run_entries _ _ st' rs h (updWF_init (initUpdate id req) rfl rfl)
  refine ⟨by unfold replyUpdates; rw [hk], ?_, ?_⟩
  · have : (initUpdate id req).own.isSome = false := rfl
    rw [this] at hown
    constructor
    · intro hn hm
      have := hown.2 (.inr ⟨id, hm, by simp [initUpdate, isOwn]⟩)
      rw [hn] at this; cases this
    · intro hn
      cases ho : st'.own with
      | none => rfl
      | some e =>
        rw [ho] at hown
        rcases hown.1 rfl with h1 | ⟨id', hm, hi⟩
        · cases h1
        · simp [initUpdate, isOwn] at hi; subst hi; exact absurd hm hn
  · intro e he
    have := wf.own e he
    rw [hk] at this
    simpa [isOwn, eq_comm] using this

/-- for creation and stop requests the reply is just the third-party entries -/
theorem C05_no_own_otherwise (st' : State) (h : ∀ id, st'.kind ≠ .update id) :
    replyUpdates st' = st'.updates.map some := by
  unfold replyUpdates
  cases hk : st'.kind with
  | update id => exact absurd hk (h id)
  | create id => rfl
  | stop => rfl

/-- **Self-update.** If any plugin's update list names the container being created, the
    creation request fails. -/
theorem C05_self_update (c0 : Container) (pre post : List (Plugin × Option Response)) (p : Plugin)
    (r : Response) (u : Update) (hu : u ∈ r.updates) (hid : u.containerId = c0.id) :
    ∃ e, run Quirks.fixed (initCreate c0) (pre ++ (p, some r) :: post) = .error e := by
  rw [run_append]
  cases h1 : run Quirks.fixed (initCreate c0) pre with
  | error e => exact ⟨e, rfl⟩
  | ok st1 =>
    have hk : st1.kind = .create c0.id := run_kind _ _ st1 pre h1
    simp only [run]
    have : ∃ e, apply Quirks.fixed st1 p r = .error e := by
      unfold apply
      rw [hk]
      simp only []
      cases h2 : adjust Quirks.fixed st1 p r.adjust with
      | error e => exact ⟨e, rfl⟩
      | ok st2 =>
        exact updateAll_fails_of_self _ st2 p r.updates c0.id
          (by rw [adjust_kind _ st1 st2 p r.adjust h2]; exact hk) u hu hid
    obtain ⟨e, he⟩ := this
    exact ⟨e, by rw [he]⟩

/-- **Ignored conflicting update.** When an update marked ignore-failure hits an owned field,
    the step succeeds and the collected data is exactly what `getContainerUpdate` left: the
    target has its (possibly new, empty) entry, no resource value of the update — not even of
    the fields before the conflicting one — reaches any entry or the resources shown to later
    plugins. -/
theorem C05_ignored_drop (st st1 : State) (p : Plugin) (u : Update)
    (hg : getUpdate Quirks.fixed st p u = .ok st1) (hi : u.ignoreFailure = true)
    (e : Err) (hc : (claimAllPartial u.containerId p st1.owners (updSets Quirks.fixed st1 u)).2 = some e) :
    ∃ st', update1 Quirks.fixed st p u = .ok st' ∧
      st'.updates = st1.updates ∧ st'.own = st1.own ∧ st'.reqRes = st1.reqRes ∧ st'.reply = st1.reply := by
  rcases update1_cases Quirks.fixed st p u with ⟨e', hg', _⟩ | ⟨st1', hg', h2⟩
  · rw [hg] at hg'; cases hg'
  · rw [hg] at hg'; cases hg'
    rcases h2 with ⟨o, hc', _⟩ | ⟨o, e', _, (⟨_, hu⟩ | ⟨hi', _⟩)⟩
    · rw [hc'] at hc; cases hc
    · exact ⟨_, hu, rfl, rfl, rfl, rfl⟩
    · rw [hi] at hi'; cases hi'

/-- **A conflicting update that is not marked ignore-failure fails the request step.** -/
theorem C05_conflict_fails (st st1 : State) (p : Plugin) (u : Update)
    (hg : getUpdate Quirks.fixed st p u = .ok st1) (hi : u.ignoreFailure = false)
    (e : Err) (hc : (claimAllPartial u.containerId p st1.owners (updSets Quirks.fixed st1 u)).2 = some e) :
    update1 Quirks.fixed st p u = .error e := by
  rcases update1_cases Quirks.fixed st p u with ⟨e', hg', _⟩ | ⟨st1', hg', h2⟩
  · rw [hg] at hg'; cases hg'
  · rw [hg] at hg'; cases hg'
    rcases h2 with ⟨o, hc', _⟩ | ⟨o, e', hc', (⟨hi', _⟩ | ⟨_, hu⟩)⟩
    · rw [hc'] at hc; cases hc
    · rw [hi] at hi'; cases hi'
    · rw [hc'] at hc; cases hc; exact hu

/-- **Fields of an applied update (per step).** When an update is applied, every scalar the
    update sets appears in the result with the update's value, every scalar it leaves unset
    keeps the base value (the runtime's request for the updated container, the entry so far
    otherwise), hugepage limits are appended and unified keys assigned. -/
theorem C05_applied_fields (base r : Resources) (m : Memory) (c : Cpu)
    (hm : r.memory = some m) (hc : r.cpu = some c) :
    let out := overlayRes base r r.pids
    (out.memory.map (·.limit) = some (m.limit.orElse fun _ => (base.memory.getD {}).limit)) ∧
    (out.memory.map (·.swappiness) = some (m.swappiness.orElse fun _ => (base.memory.getD {}).swappiness)) ∧
    (out.cpu.map (·.shares) = some (c.shares.orElse fun _ => (base.cpu.getD {}).shares)) ∧
    (out.cpu.map (·.cpus) = some (if c.cpus ≠ [] then c.cpus else (base.cpu.getD {}).cpus)) ∧
    out.pids = (r.pids.orElse fun _ => base.pids) ∧
    out.hugepages = base.hugepages ++ r.hugepages ∧
    out.blockioClass = (r.blockioClass.orElse fun _ => base.blockioClass) ∧
    out.rdtClass = (r.rdtClass.orElse fun _ => base.rdtClass) := by
  simp [overlayRes, overlayMem, overlayCpu, hm, hc]


/-! ### chain level: the model refines the specification walk -/

private def updOf (id : Str) (r : Resources) (ign : Bool := false) : Update :=
  { containerId := id, resources := some r, ignoreFailure := ign }

/-- the chain of the examples below: three plugins answer an update request of `c0`
    (requested: pids 5); the second plugin's update of `ctrA` is marked ignore-failure and names
    cpu shares (free) and then pids (owned by the first plugin): it is dropped, its claim of cpu
    shares stays -/
private def chain3 : List (Plugin × Response) :=
  [(str "10-a", { updates := [updOf (str "ctrA") { pids := some 1 }, updOf (str "c0") { memory := some { limit := some 3 } }] }),
   (str "20-b", { updates := [updOf (str "ctrA") { cpu := some { shares := some 9 }, pids := some 2 } true] }),
   (str "30-c", { updates := [updOf (str "ctrA") { cpu := some { quota := some 4 } }, updOf (str "c0") { pids := some 7 }] })]

private def req3 : Resources := { pids := some 5 }
private def base3 : Cid → Resources := specBase (.update (str "c0")) req3

/-- **The model refines the walk.** For a request started in a fresh collector state and any
    chain, after a successful request
    (i) every entry of the reply's update list (third-party entries and the own entry) carries
    exactly the resources the specification walk yields for its target, and
    (ii) a `(target, item)` pair is taken in the walk iff it has an owner in the ledger (for
    every target other than the container being created). -/
theorem C05_walk_refines (st0 st' : State) (rs : List (Plugin × Response))
    (h1 : st0.updates = []) (h2 : st0.own = none) (h3 : st0.owners = [])
    (h : run Quirks.fixed st0 (answeredAll rs) = .ok st') :
    (∀ e, some e ∈ replyUpdates st' →
       e.resources = some ((walk (baseOf st0) rs).get (baseOf st0) e.containerId)) ∧
    (∀ c it, st0.kind ≠ .create c →
       ((c, it) ∈ (walk (baseOf st0) rs).taken ↔ (st'.owners.owner c it).isSome = true)) := by
  obtain ⟨rel, ok⟩ := run_rel (baseOf st0) rs st0 st' {} (rel_fresh st0 h1 h3) (entOK_fresh st0 h1 h2) h
  rw [← walk_eq] at rel
  refine ⟨fun e he => ?_, fun c it hc => ?_⟩
  · rw [replyUpdates_vals st' ok e he, rel.vals]
  · exact rel.taken c it (by rw [run_kind _ st0 st' _ h]; exact hc)

-- on chain3 the walk holds pids 1 / quota 4 / no shares for ctrA, and the
-- dropped update's claim of cpu shares is taken in the walk and owned (by 20-b) in the ledger
example :
    (let r := (walk base3 chain3).get base3 (str "ctrA")
     (r.pids, (r.cpu.getD {}).shares, (r.cpu.getD {}).quota)) = (some 1, none, some 4) ∧
    (walk base3 chain3).taken.contains (str "ctrA", Item.cpuShares) = true ∧
    (match run Quirks.fixed (initUpdate (str "c0") req3) (answeredAll chain3) with
     | .ok st => st.owners.owner (str "ctrA") Item.cpuShares
     | .error _ => none) = some (str "20-b") := by decide


/-- **Exact fields (C05, value clause), every request kind.** For an update request of `id`
    with any requested resources `req`, a stop request, or the creation of `c0`: after a
    successful request every returned entry `e` has
    `e.resources = some ((walk base rs).get base e.containerId)` with the driver's base
    (`specBase`: `normRes req` for the container being updated, `normRes {}` otherwise).
    Equality is structural equality of `Resources`. -/
theorem C05_exact_fields (st0 st' : State) (req : Resources) (rs : List (Plugin × Response))
    (hinit : (∃ id, st0 = initUpdate id req) ∨ st0 = initStop ∨ ∃ c0, st0 = initCreate c0)
    (h : run Quirks.fixed st0 (answeredAll rs) = .ok st') :
    ∀ e, some e ∈ replyUpdates st' →
      e.resources = some ((walk (specBase st0.kind req) rs).get (specBase st0.kind req) e.containerId) := by
  have hb : baseOf st0 = specBase st0.kind req ∧ st0.updates = [] ∧ st0.own = none ∧ st0.owners = [] := by
    rcases hinit with ⟨id, rfl⟩ | rfl | ⟨c0, rfl⟩
    · exact ⟨baseOf_initUpdate id req, rfl, rfl, rfl⟩
    · exact ⟨baseOf_initStop req, rfl, rfl, rfl⟩
    · exact ⟨baseOf_initCreate c0 req, rfl, rfl, rfl⟩
  obtain ⟨hb, h1, h2, h3⟩ := hb
  have := (C05_walk_refines st0 st' rs h1 h2 h3 h).1
  rw [hb] at this
  exact this

-- on chain3 the request succeeds and both returned entries (ctrA, then c0 last) equal the walk
example :
    (match run Quirks.fixed (initUpdate (str "c0") req3) (answeredAll chain3) with
     | .ok st => (replyUpdates st).map fun (e : Option Update) => e.map fun (e : Update) =>
         (e.containerId, decide (e.resources = some ((walk base3 chain3).get base3 e.containerId)))
     | .error _ => []) = [some (str "ctrA", true), some (str "c0", true)] := by decide


/-- **Exact fields, chains with unsubscribed or dropped plugins.** The same for a chain in which
    some plugins do not answer (`none`): the walk runs over the plugins that did. -/
theorem C05_exact_fields_dropped (st0 st' : State) (req : Resources) (rs : List (Plugin × Option Response))
    (hinit : (∃ id, st0 = initUpdate id req) ∨ st0 = initStop ∨ ∃ c0, st0 = initCreate c0)
    (h : run Quirks.fixed st0 rs = .ok st') :
    ∀ e, some e ∈ replyUpdates st' →
      e.resources = some ((walk (specBase st0.kind req) (answered rs)).get (specBase st0.kind req) e.containerId) :=
  C05_exact_fields st0 st' req (answered rs) hinit (by rw [← run_answered]; exact h)

-- chain3 with a plugin that is not subscribed between the second and the third
example :
    let rs : List (Plugin × Option Response) :=
      (answeredAll (chain3.take 2)) ++ (str "25-x", none) :: answeredAll (chain3.drop 2)
    (answered rs).map (fun x => (x.1, x.2.updates)) = chain3.map (fun x => (x.1, x.2.updates)) ∧
    (match run Quirks.fixed (initUpdate (str "c0") req3) rs with
     | .ok st => (replyUpdates st).map fun (e : Option Update) => e.map fun (e : Update) =>
         (e.containerId, decide (e.resources = some ((walk base3 (answered rs)).get base3 e.containerId)))
     | .error _ => []) = [some (str "ctrA", true), some (str "c0", true)] := by decide

/-- **Entries are overlays of the applied updates.** Every returned entry is its base overlaid,
    in chain order, with exactly the updates the walk applies to its target — nothing of any
    other update reaches it. -/
theorem C05_entry_overlay (st0 st' : State) (rs : List (Plugin × Response))
    (h1 : st0.updates = []) (h2 : st0.own = none) (h3 : st0.owners = [])
    (h : run Quirks.fixed st0 (answeredAll rs) = .ok st') :
    ∀ e, some e ∈ replyUpdates st' →
      e.resources = some
        (((appliedFrom (baseOf st0) {} (flatUpdates rs)).filter fun u => u.containerId = e.containerId).foldl
          overlayUpd (baseOf st0 e.containerId)) := by
  intro e he
  rw [(C05_walk_refines st0 st' rs h1 h2 h3 h).1 e he, walk_eq, foldl_get]
  rfl

-- of the five updates of chain3 the walk applies four: all but the ignore-failure one
example :
    (flatUpdates chain3).map (·.ignoreFailure) = [false, false, true, false, false] ∧
    (appliedFrom base3 {} (flatUpdates chain3)).map (·.ignoreFailure) = [false, false, false, false] ∧
    ((appliedFrom base3 {} (flatUpdates chain3)).filter fun u => u.containerId = str "ctrA").length = 2 := by decide


/-- **Ignored conflicting update, chain level.** If the update `u` at some position of the
    chain's update lists names an item that is taken when the walk reaches it (by
    `C05_walk_refines` (ii): an item that has an owner), then `u` is not among the updates
    overlaid on any entry: every returned entry is its base overlaid with the applied updates
    before `u` and the applied updates after `u` — no value of `u`, not even of the fields
    before the taken one, reaches any entry. (In a successful request such a `u` is marked
    ignore-failure: `C05_conflict_fails`.) -/
theorem C05_ignored_drop_chain (st0 st' : State) (rs : List (Plugin × Response))
    (h1 : st0.updates = []) (h2 : st0.own = none) (h3 : st0.owners = [])
    (h : run Quirks.fixed st0 (answeredAll rs) = .ok st')
    (pre post : List Update) (u : Update) (hflat : flatUpdates rs = pre ++ u :: post)
    (it : Item) (hit : it ∈ setsUpd u)
    (htaken : (u.containerId, it) ∈ (pre.foldl (simUpdate (baseOf st0)) {}).taken) :
    ∀ e, some e ∈ replyUpdates st' →
      e.resources = some
        (((appliedFrom (baseOf st0) {} pre ++
            appliedFrom (baseOf st0) (simUpdate (baseOf st0) (pre.foldl (simUpdate (baseOf st0)) {}) u) post).filter
          fun v => v.containerId = e.containerId).foldl overlayUpd (baseOf st0 e.containerId)) := by
  intro e he
  rw [C05_entry_overlay st0 st' rs h1 h2 h3 h e he, hflat, appliedFrom_append]
  simp only [appliedFrom, not_applies_of_taken _ u it hit htaken, Bool.false_eq_true, ↓reduceIte, List.nil_append]

-- chain3 splits at its third update (20-b's, ignore-failure); its item pids is taken there
example :
    flatUpdates chain3 =
      [updOf (str "ctrA") { pids := some 1 }, updOf (str "c0") { memory := some { limit := some 3 } }] ++
      updOf (str "ctrA") { cpu := some { shares := some 9 }, pids := some 2 } true ::
      [updOf (str "ctrA") { cpu := some { quota := some 4 } }, updOf (str "c0") { pids := some 7 }] ∧
    Item.pids ∈ setsUpd (updOf (str "ctrA") { cpu := some { shares := some 9 }, pids := some 2 } true) ∧
    (str "ctrA", Item.pids) ∈
      ([updOf (str "ctrA") { pids := some 1 }, updOf (str "c0") { memory := some { limit := some 3 } }].foldl
        (simUpdate base3) {}).taken ∧
    -- and no value of it is returned: cpu shares of ctrA stay unset
    (match run Quirks.fixed (initUpdate (str "c0") req3) (answeredAll chain3) with
     | .ok st => st.updates.map fun e => ((e.resources.getD {}).cpu.getD {}).shares
     | .error _ => []) = [none] := by decide


/-- **Single source per field.** For every returned entry and every item `it`, among the
    updates overlaid on the entry (`C05_entry_overlay`) either exactly one names `it`, and the
    entry's field is that update's value, or none does and the field is the base value — values
    of different updates (hence of different plugins) are never merged into one field.
    `fieldVal` reads the 18 scalars and the unified keys (hugepage limits, which are appended,
    read as `other`). -/
theorem C05_single_source (st0 st' : State) (rs : List (Plugin × Response))
    (h1 : st0.updates = []) (h2 : st0.own = none) (h3 : st0.owners = [])
    (h : run Quirks.fixed st0 (answeredAll rs) = .ok st')
    (e : Update) (he : some e ∈ replyUpdates st') (res : Resources) (hres : e.resources = some res)
    (it : Item) :
    let app := (appliedFrom (baseOf st0) {} (flatUpdates rs)).filter fun u => u.containerId = e.containerId
    (∃ pre u post r, app = pre ++ u :: post ∧ u.resources = some r ∧ it ∈ setsUpd u ∧
        (∀ v ∈ pre ++ post, it ∉ setsUpd v) ∧ fieldVal it res = fieldVal it r) ∨
    ((∀ v ∈ app, it ∉ setsUpd v) ∧ fieldVal it res = fieldVal it (baseOf st0 e.containerId)) := by
  intro app
  have hval := C05_entry_overlay st0 st' rs h1 h2 h3 h e he
  rw [hres] at hval
  have hres' : res = app.foldl overlayUpd (baseOf st0 e.containerId) := Option.some.inj hval
  have hpw : app.Pairwise fun v w => ∀ it ∈ setsUpd v, it ∉ setsUpd w := by
    have := (appliedFrom_pairwise (baseOf st0) (flatUpdates rs) {}).filter (fun u => decide (u.containerId = e.containerId))
    refine List.Pairwise.imp_of_mem ?_ this
    intro v w hv hw hvw
    have hv' := (List.mem_filter.1 hv).2
    have hw' := (List.mem_filter.1 hw).2
    simp only [decide_eq_true_eq] at hv' hw'
    exact hvw (hv'.trans hw'.symm)
  by_cases hex : ∃ u ∈ app, it ∈ setsUpd u
  · left
    obtain ⟨u, hu, hitu⟩ := hex
    obtain ⟨pre, post, happ⟩ := List.append_of_mem hu
    obtain ⟨_, hndu, r, hr⟩ := appliedFrom_mem (baseOf st0) (flatUpdates rs) {} u (List.mem_filter.1 hu).1
    rw [happ] at hpw
    obtain ⟨_, hpw2, hpw3⟩ := List.pairwise_append.1 hpw
    have hpost : ∀ v ∈ post, it ∉ setsUpd v := fun v hv => (List.pairwise_cons.1 hpw2).1 v hv it hitu
    have hpre : ∀ v ∈ pre, it ∉ setsUpd v := fun v hv hitv => hpw3 v hv u List.mem_cons_self it hitv hitu
    refine ⟨pre, u, post, r, happ, hr, hitu, ?_, ?_⟩
    · intro v hv
      rcases List.mem_append.1 hv with hv | hv
      · exact hpre v hv
      · exact hpost v hv
    · rw [hres', happ]
      exact fold_field_set it pre post u r _ hr hndu hitu hpost
  · right
    have hnone : ∀ v ∈ app, it ∉ setsUpd v := fun v hv hitv => hex ⟨v, hv, hitv⟩
    exact ⟨hnone, by rw [hres']; exact fold_field_keep it app _ hnone⟩

-- both alternatives occur on chain3 for the entry of ctrA: cpu quota comes from 30-c's update
-- alone, cpu shares (named only by the dropped update) keep the base value
example :
    let app := (appliedFrom base3 {} (flatUpdates chain3)).filter fun u => u.containerId = str "ctrA"
    app = [updOf (str "ctrA") { pids := some 1 }] ++ updOf (str "ctrA") { cpu := some { quota := some 4 } } :: [] ∧
    Item.cpuQuota ∈ setsUpd (updOf (str "ctrA") { cpu := some { quota := some 4 } }) ∧
    (∀ v ∈ app, Item.cpuShares ∉ setsUpd v) ∧
    fieldVal Item.cpuShares ((walk base3 chain3).get base3 (str "ctrA")) = fieldVal Item.cpuShares (base3 (str "ctrA")) ∧
    fieldVal Item.cpuQuota ((walk base3 chain3).get base3 (str "ctrA")) = FVal.int (some 4) := by decide

/-- **An update naming an item twice.** An ignore-failure update names hugepage size `2M` twice
    and then a block I/O class: ledger and walk both stop at the repeated size — the update is
    dropped, only the first `2M` stays taken, the class is not — so the later plugin's class is
    applied, and the returned entry equals the walk (before the repair of the walk's dropped
    branch the walk took the class too and yielded none here). -/
theorem C05_walk_repeated_item :
    let dup : List (Plugin × Response) :=
      [(str "10-a", { updates := [updOf (str "ctrA")
          { hugepages := [{ pageSize := str "2M", limit := 1 }, { pageSize := str "2M", limit := 2 }],
            blockioClass := some (str "x") } true] }),
       (str "20-b", { updates := [updOf (str "ctrA") { blockioClass := some (str "y") }] })]
    ¬ (∀ u ∈ flatUpdates dup, (setsUpd u).Nodup) ∧
    (match run Quirks.fixed initStop (answeredAll dup) with
     | .ok st => st.updates.map fun e =>
         ((e.resources.getD {}).blockioClass, (e.resources.getD {}).hugepages.length,
          decide (e.resources = some ((walk (specBase .stop {}) dup).get (specBase .stop {}) e.containerId)))
     | .error _ => []) = [(some (str "y"), 0, true)] ∧
    (walk (specBase .stop {}) dup).taken =
      [(str "ctrA", Item.hugepage (str "2M")), (str "ctrA", Item.blockio)] := by decide

/-! ### the hypotheses are satisfiable -/

-- own entry last, third-party entries once each although ctrA is named twice
example :
    (match run Quirks.fixed (initUpdate (str "c0") { pids := some 5 })
      [(str "10-a", some { updates := [updOf (str "ctrA") { pids := some 1 }, updOf (str "c0") { memory := some { limit := some 3 } }] }),
       (str "20-b", some { updates := [updOf (str "ctrA") { cpu := some { shares := some 2 } }] })] with
     | .ok st => (replyUpdates st).map (fun e => e.map (·.containerId))
     | .error _ => []) = [some (str "ctrA"), some (str "c0")] := by decide

-- untouched updated container: nil placeholder last
example :
    (match run Quirks.fixed (initUpdate (str "c0") { pids := some 5 })
      [(str "10-a", some { updates := [updOf (str "ctrA") { pids := some 1 }] })] with
     | .ok st => (replyUpdates st).map (fun e => e.map (·.containerId))
     | .error _ => []) = [some (str "ctrA"), none] := by decide

-- an ignored conflicting update: dropped in its entirety (cpu shares 9 precede the conflicting pids)
example :
    (match run Quirks.fixed initStop
      [(str "10-a", some { updates := [updOf (str "ctrA") { pids := some 1 }] }),
       (str "20-b", some { updates := [updOf (str "ctrA") { cpu := some { shares := some 9 }, pids := some 2 } true] })] with
     | .ok st => st.updates.map (fun e => ((e.resources.getD {}).pids, ((e.resources.getD {}).cpu.getD {}).shares))
     | .error _ => []) = [(some 1, none)] := by decide

end Nri.Props.C05
