import NriModel.Lemmas.ResultUpdates
/-!
# C05 — container updates are collected once per target with exactly the fields set

Model `Nri.Result` (`update`, `getContainerUpdate`, `updateResources`, the three response
getters). `touched rs` is the list of target ids the chain's update lists mention.

Proved for every chain, every request and every placement of ignore-failure flags:
one entry per distinct target and only for mentioned targets (`C05_one_entry_per_target`);
for update requests the entry of the updated container is last, a placeholder exactly when no
plugin named that container (`C05_own_last`); an update of the container being created fails
the request (`C05_self_update`); an ignore-failure update that conflicts contributes no value
and raises no error (`C05_ignored_drop`); a failing non-ignored update fails the request
(`C05_conflict_fails`). "Exactly the fields plugins set, each from its single owner" is proved
per applied update (`C05_applied_fields`: the entry becomes its base overlaid with the
update, field by field) — the chain-level value statement is evaluated on every generated
chain by the correspondence run (`exactFields`) and is not proved: partial.
-/
namespace Nri.Props.C05
open Nri Nri.NApi Nri.Result Nri.Ledger

theorem updWF_init (st : State) (h1 : st.updates = []) (h2 : st.own = none) : UpdWF st :=
  ⟨by simp [ids, h1], by simp [ids, h1], by simp [h2]⟩

/-- **One entry per target.** After any successful request the third-party entries have
    pairwise distinct targets, each is a target some plugin's update named, every named
    target other than the container being updated has one, and none of them is the container
    being updated. -/
theorem C05_one_entry_per_target (st st' : State) (rs : List (Plugin × Option Response))
    (h1 : st.updates = []) (h2 : st.own = none) (h : run Quirks.fixed st rs = .ok st') :
    (ids st'.updates).Nodup ∧
    (∀ id, id ∈ ids st'.updates ↔ id ∈ touched rs ∧ isOwn st.kind id = false) := by
  obtain ⟨wf, hid, _⟩ := run_entries _ st st' rs h (updWF_init st h1 h2)
  refine ⟨wf.nodup, fun id => ?_⟩
  rw [hid id]; simp [ids, h1]

/-- **Own entry last.** The reply to an update request is the third-party entries followed by
    exactly one more element: the nil placeholder when no plugin named the updated container,
    otherwise an entry for that container. -/
theorem C05_own_last (id : Cid) (req : Resources) (st' : State) (rs : List (Plugin × Option Response))
    (h : run Quirks.fixed (initUpdate id req) rs = .ok st') :
    replyUpdates st' = st'.updates.map some ++ [st'.own] ∧
    (st'.own = none ↔ id ∉ touched rs) ∧
    (∀ e, st'.own = some e → e.containerId = id) := by
  have hk : st'.kind = .update id := run_kind _ _ st' rs h
  obtain ⟨wf, _, hown⟩ := run_entries _ _ st' rs h (updWF_init (initUpdate id req) rfl rfl)
  refine ⟨by unfold replyUpdates; rw [hk], ?_, ?_⟩
  · have : (initUpdate id req).own.isSome = false := rfl
    rw [this] at hown
    constructor
    · intro hn hm
      have := hown.2 (.inr ⟨id, hm, by simp [initUpdate, isOwn]⟩)
      rw [hn] at this; cases this
    · intro hn
      cases ho : st'.own with
      | none => rfl
      | some e =>
        rw [ho] at hown
        rcases hown.1 rfl with h1 | ⟨id', hm, hi⟩
        · cases h1
        · simp [initUpdate, isOwn] at hi; subst hi; exact absurd hm hn
  · intro e he
    have := wf.own e he
    rw [hk] at this
    simpa [isOwn, eq_comm] using this

/-- for creation and stop requests the reply is just the third-party entries -/
theorem C05_no_own_otherwise (st' : State) (h : ∀ id, st'.kind ≠ .update id) :
    replyUpdates st' = st'.updates.map some := by
  unfold replyUpdates
  cases hk : st'.kind with
  | update id => exact absurd hk (h id)
  | create id => rfl
  | stop => rfl

/-- **Self-update.** If any plugin's update list names the container being created, the
    creation request fails. -/
theorem C05_self_update (c0 : Container) (pre post : List (Plugin × Option Response)) (p : Plugin)
    (r : Response) (u : Update) (hu : u ∈ r.updates) (hid : u.containerId = c0.id) :
    ∃ e, run Quirks.fixed (initCreate c0) (pre ++ (p, some r) :: post) = .error e := by
  rw [run_append]
  cases h1 : run Quirks.fixed (initCreate c0) pre with
  | error e => exact ⟨e, rfl⟩
  | ok st1 =>
    have hk : st1.kind = .create c0.id := run_kind _ _ st1 pre h1
    simp only [run]
    have : ∃ e, apply Quirks.fixed st1 p r = .error e := by
      unfold apply
      rw [hk]
      simp only []
      cases h2 : adjust Quirks.fixed st1 p r.adjust with
      | error e => exact ⟨e, rfl⟩
      | ok st2 =>
        exact updateAll_fails_of_self _ st2 p r.updates c0.id
          (by rw [adjust_kind _ st1 st2 p r.adjust h2]; exact hk) u hu hid
    obtain ⟨e, he⟩ := this
    exact ⟨e, by rw [he]⟩

/-- **Ignored conflicting update.** When an update marked ignore-failure hits an owned field,
    the step succeeds and the collected data is exactly what `getContainerUpdate` left: the
    target has its (possibly new, empty) entry, no resource value of the update — not even of
    the fields before the conflicting one — reaches any entry or the resources shown to later
    plugins. -/
theorem C05_ignored_drop (st st1 : State) (p : Plugin) (u : Update)
    (hg : getUpdate Quirks.fixed st p u = .ok st1) (hi : u.ignoreFailure = true)
    (e : Err) (hc : (claimAllPartial u.containerId p st1.owners (updSets Quirks.fixed st1 u)).2 = some e) :
    ∃ st', update1 Quirks.fixed st p u = .ok st' ∧
      st'.updates = st1.updates ∧ st'.own = st1.own ∧ st'.reqRes = st1.reqRes ∧ st'.reply = st1.reply := by
  rcases update1_cases Quirks.fixed st p u with ⟨e', hg', _⟩ | ⟨st1', hg', h2⟩
  · rw [hg] at hg'; cases hg'
  · rw [hg] at hg'; cases hg'
    rcases h2 with ⟨o, hc', _⟩ | ⟨o, e', _, (⟨_, hu⟩ | ⟨hi', _⟩)⟩
    · rw [hc'] at hc; cases hc
    · exact ⟨_, hu, rfl, rfl, rfl, rfl⟩
    · rw [hi] at hi'; cases hi'

/-- **A conflicting update that is not marked ignore-failure fails the request step.** -/
theorem C05_conflict_fails (st st1 : State) (p : Plugin) (u : Update)
    (hg : getUpdate Quirks.fixed st p u = .ok st1) (hi : u.ignoreFailure = false)
    (e : Err) (hc : (claimAllPartial u.containerId p st1.owners (updSets Quirks.fixed st1 u)).2 = some e) :
    update1 Quirks.fixed st p u = .error e := by
  rcases update1_cases Quirks.fixed st p u with ⟨e', hg', _⟩ | ⟨st1', hg', h2⟩
  · rw [hg] at hg'; cases hg'
  · rw [hg] at hg'; cases hg'
    rcases h2 with ⟨o, hc', _⟩ | ⟨o, e', hc', (⟨hi', _⟩ | ⟨_, hu⟩)⟩
    · rw [hc'] at hc; cases hc
    · rw [hi] at hi'; cases hi'
    · rw [hc'] at hc; cases hc; exact hu

/-- **Fields of an applied update (per step).** When an update is applied, every scalar the
    update sets appears in the result with the update's value, every scalar it leaves unset
    keeps the base value (the runtime's request for the updated container, the entry so far
    otherwise), hugepage limits are appended and unified keys assigned. -/
theorem C05_applied_fields (base r : Resources) (m : Memory) (c : Cpu)
    (hm : r.memory = some m) (hc : r.cpu = some c) :
    let out := overlayRes base r r.pids
    (out.memory.map (·.limit) = some (m.limit.orElse fun _ => (base.memory.getD {}).limit)) ∧
    (out.memory.map (·.swappiness) = some (m.swappiness.orElse fun _ => (base.memory.getD {}).swappiness)) ∧
    (out.cpu.map (·.shares) = some (c.shares.orElse fun _ => (base.cpu.getD {}).shares)) ∧
    (out.cpu.map (·.cpus) = some (if c.cpus ≠ [] then c.cpus else (base.cpu.getD {}).cpus)) ∧
    out.pids = (r.pids.orElse fun _ => base.pids) ∧
    out.hugepages = base.hugepages ++ r.hugepages ∧
    out.blockioClass = (r.blockioClass.orElse fun _ => base.blockioClass) ∧
    out.rdtClass = (r.rdtClass.orElse fun _ => base.rdtClass) := by
  simp [overlayRes, overlayMem, overlayCpu, hm, hc]

/-! ### the hypotheses are satisfiable -/

private def updOf (id : Str) (r : Resources) (ign : Bool := false) : Update :=
  { containerId := id, resources := some r, ignoreFailure := ign }

-- own entry last, third-party entries once each although ctrA is named twice
example :
    (match run Quirks.fixed (initUpdate (str "c0") { pids := some 5 })
      [(str "10-a", some { updates := [updOf (str "ctrA") { pids := some 1 }, updOf (str "c0") { memory := some { limit := some 3 } }] }),
       (str "20-b", some { updates := [updOf (str "ctrA") { cpu := some { shares := some 2 } }] })] with
     | .ok st => (replyUpdates st).map (fun e => e.map (·.containerId))
     | .error _ => []) = [some (str "ctrA"), some (str "c0")] := by decide

-- untouched updated container: nil placeholder last
example :
    (match run Quirks.fixed (initUpdate (str "c0") { pids := some 5 })
      [(str "10-a", some { updates := [updOf (str "ctrA") { pids := some 1 }] })] with
     | .ok st => (replyUpdates st).map (fun e => e.map (·.containerId))
     | .error _ => []) = [some (str "ctrA"), none] := by decide

-- an ignored conflicting update: dropped in its entirety (cpu shares 9 precede the conflicting pids)
example :
    (match run Quirks.fixed initStop
      [(str "10-a", some { updates := [updOf (str "ctrA") { pids := some 1 }] }),
       (str "20-b", some { updates := [updOf (str "ctrA") { cpu := some { shares := some 9 }, pids := some 2 } true] })] with
     | .ok st => st.updates.map (fun e => ((e.resources.getD {}).pids, ((e.resources.getD {}).cpu.getD {}).shares))
     | .error _ => []) = [(some 1, none)] := by decide

end Nri.Props.C05
