import NriModel.Basic
/-! Property theorems for C05 — placeholder until the model is written. -/
namespace Nri.Props.C05
end Nri.Props.C05
