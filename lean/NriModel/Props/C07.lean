import NriModel.Lemmas.DispatchHistory
/-!
Property C07 — failing plugins cannot stall, crash or corrupt a request; handler errors veto it.

Model: `NriModel/Dispatch.lean`. What is PROVED here is the decision logic: how the loop treats
the outcome of each per-plugin call (`ok` / fatal / the handler's own error), what it returns,
whom it calls, whom it drops, and how many ticks it can spend. What is only MEASURED (by the
fault campaign of the harness) is that the Go runtime and ttRPC turn real transport faults into
those outcomes within the wall-clock bound and without panics or deadlocks.
-/
namespace Nri.Props.C07
open Nri Nri.Events Nri.Dispatch

variable {ρ σ ο ε : Type}

/-- **Result.** If no subscribed plugin answers with its own error, the request returns exactly
    the merged result of the responses of the subscribed plugins whose call succeeded, in list
    order (`okResponses`) — plugins whose call failed fatally (closed, protocol error, timeout,
    already marked closed) contribute nothing and change nothing; and that is precisely what was
    handed to `apply`. -/
theorem C07_result (M : Merger ρ σ ο ε) (T : Nat) (ev : EventNo) (pcs : List (Plugin × Call ρ))
    (hv : hasVeto T ev pcs = false) :
    (request M T ev pcs).1 = (liftCombine (combine M M.init (okResponses T ev pcs))).map M.finish ∧
    ((∃ o, (request M T ev pcs).1 = .ok o) → (request M T ev pcs).2.1.oks = okResponses T ev pcs) := by
  refine ⟨?_, ?_⟩
  · simp only [request]
    rw [relay_result_noveto M T ev M.init pcs hv]
  · rintro ⟨o, ho⟩
    simp only [request] at ho ⊢
    cases hr : (relayLoop M T ev M.init pcs).1 with
    | error e => rw [hr] at ho; cases ho
    | ok a => exact relay_oks M T ev M.init pcs a hr

/-- **Intact contributions.** Said differently: the reply is the one the request would have
    produced had the fatally failing plugins not been in the list at all. -/
theorem C07_as_if_absent (M : Merger ρ σ ο ε) (T : Nat) (ev : EventNo) (pcs : List (Plugin × Call ρ))
    (hv : hasVeto T ev pcs = false) :
    (request M T ev pcs).1 = (request M T ev (pcs.filter fun pc => !failsFatally T ev pc)).1 := by
  have h1 := (C07_result M T ev pcs hv).1
  have hv' : hasVeto T ev (pcs.filter fun pc => !failsFatally T ev pc) = false := by
    rw [hasVeto_filter_fatal]; exact hv
  have h2 := (C07_result M T ev _ hv').1
  rw [h1, h2, okResponses_filter_fatal]

section examples
def pA : Plugin := ⟨0, str "10", str "a", 0x1fff#32, false⟩
def pB : Plugin := ⟨1, str "20", str "b", 0x1fff#32, false⟩
def pC : Plugin := ⟨2, str "30", str "c", 0x1fff#32, false⟩
def ok (n : Nat) : Call Nat := ⟨.ok n, true, 1⟩
def listM : Merger Nat (List Nat) (List Nat) Unit := ⟨[], fun a _ r => .ok (a ++ [r]), id⟩
end examples

/-- the middle plugin dies (closed connection; or answers after the deadline): the other two come through -/
example : (request listM 5 4 [(pA, ok 1), (pB, ⟨.fatal .closed, false, 0⟩), (pC, ok 3)]).1 = .ok [1, 3] ∧
    (request listM 5 4 [(pA, ok 1), (pB, ⟨.ok 2, true, 6⟩), (pC, ok 3)]).1 = .ok [1, 3] ∧
    hasVeto 5 4 [(pA, ok 1), (pB, ⟨.ok 2, true, 6⟩), (pC, ok 3)] = false := ⟨rfl, rfl, rfl⟩

/-- **Veto.** If the plugin at some position answers with its own error `m`, and nothing before
    it aborted the loop, then the request fails with exactly that error (an `Except.error`: there
    is no partial result), the plugins called are the subscribed ones before it and itself, only
    the responses before it were ever applied, and — plugin identities being distinct — NO
    plugin behind it is called. -/
theorem C07_veto (M : Merger ρ σ ο ε) (T : Nat) (ev : EventNo)
    (pre post : List (Plugin × Call ρ)) (p : Plugin) (c : Call ρ) (m : Str)
    (hs : subscribed ev p = true) (ho : (effOut T p c).1 = .handlerErr m)
    (hv : hasVeto T ev pre = false) (acc' : σ)
    (hc : combine M M.init (okResponses T ev pre) = .ok acc')
    (hn : ((pre ++ (p, c) :: post).map (·.1.id)).Nodup) :
    let out := request M T ev (pre ++ (p, c) :: post)
    out.1 = .error (.veto p m) ∧
    out.2.1.attempted = subscribers ev pre ++ [p] ∧
    out.2.1.oks = okResponses T ev pre ∧
    (∀ q ∈ post, q.1 ∉ out.2.1.attempted ∧ q.1 ∉ out.2.1.handled) := by
  have ho' : effOut T p c = (.handlerErr m, (effOut T p c).2) := by
    rw [← ho]
  obtain ⟨h1, h2, h3⟩ := relay_veto_at M T ev M.init pre post p c m _ hs ho' hv acc' hc
  have h4 := relay_veto_nobody_after M T ev M.init pre post p c m _ hs ho' hv acc' hc hn
  refine ⟨by simp [request, h1, Except.map], h2, h3, ?_⟩
  intro q hq
  refine ⟨h4 q hq, fun hh => h4 q hq ?_⟩
  exact (relay_handled_sublist M T ev M.init _).subset hh

example : (request listM 5 4 [(pA, ok 1), (pB, ⟨.handlerErr (str "no"), true, 1⟩), (pC, ok 3)]).1
      = .error (.veto pB (str "no")) ∧
    (request listM 5 4 [(pA, ok 1), (pB, ⟨.handlerErr (str "no"), true, 1⟩), (pC, ok 3)]).2.1.attempted = [pA, pB] :=
  ⟨rfl, rfl⟩

/-- **Dropped.** Plugin identities being distinct: a plugin that was already marked closed, or
    whose call in this request failed fatally, is not in the list the request leaves behind. -/
theorem C07_dropped (M : Merger ρ σ ο ε) (T : Nat) (ev : EventNo) (pcs : List (Plugin × Call ρ))
    (hn : (pcs.map (·.1.id)).Nodup) (pc : Plugin × Call ρ) (hpc : pc ∈ pcs)
    (h : pc.1.closed = true ∨
         (pc.1 ∈ (request M T ev pcs).2.1.attempted ∧ isFatal (effOut T pc.1 pc.2).1 = true)) :
    pc.1.id ∉ (request M T ev pcs).2.2.map (·.id) := by
  simp only [request] at h ⊢
  exact relay_pruned M T ev M.init pcs hn pc hpc h

example : (request listM 5 4 [(pA, ok 1), (pB, ⟨.fatal .protocol, true, 1⟩), (pC, ok 3)]).2.2 = [pA, pC] := by
  decide

/-- … and from then on it is never called again: in every continuation of the history, as long
    as no NEW registration carries the same identity, the identity stays out of the plugin list
    and no later relay calls it. -/
theorem C07_never_again (Mof : Nat → EventNo → Merger ρ σ ο ε) (T : Nat) (id : Nat) (h : List (Ev ρ))
    (s s' : LState ρ ο ε) (hr : run? Mof T s h = some s')
    (hgone : id ∉ s.plugins.map (·.id))
    (hnew : ∀ p arr, Ev.activate p arr ∈ h → p.id ≠ id) :
    id ∉ s'.plugins.map (·.id) ∧
    ∀ d ∈ s'.log, d ∈ s.log ∨ ∀ q ∈ d.trace.attempted, q.id ≠ id :=
  gone_stays_gone Mof T id h s s' hr hgone hnew

/-- a closed plugin's handler is never recorded as having run -/
theorem C07_closed_not_handled (M : Merger ρ σ ο ε) (T : Nat) (ev : EventNo) (pcs : List (Plugin × Call ρ)) :
    ∀ q ∈ (request M T ev pcs).2.1.handled, q.closed = false := by
  simp only [request]
  exact relay_handled_open M T ev M.init pcs

/-- **Time.** One plugin call costs at most the request timeout `T` (a call that would take
    longer is cut off at `T`), so a request spends at most (plugins called) × `T` ≤
    (plugins) × `T` ticks in plugin calls — whatever the plugins do. -/
theorem C07_time (M : Merger ρ σ ο ε) (T : Nat) (ev : EventNo) (pcs : List (Plugin × Call ρ)) :
    (request M T ev pcs).2.1.ticks ≤ (request M T ev pcs).2.1.attempted.length * T ∧
    (request M T ev pcs).2.1.attempted.length * T ≤ pcs.length * T := by
  simp only [request]
  exact ⟨relay_ticks M T ev M.init pcs, Nat.mul_le_mul_right T (relay_attempted_length M T ev M.init pcs)⟩

example : (request listM 5 4 [(pA, ok 1), (pB, ⟨.ok 2, true, 1000⟩), (pC, ⟨.ok 3, true, 77⟩)]).2.1.ticks = 11 := by
  decide

/-! ### from the value a call returns to the outcome: `isFatalError` -/

/-- `isFatalError` as it stands drops the plugin for the four error classes it lists
    (partial: see `unfixed_*` below for what it misses). -/
theorem C07_classify_partial (e : CallErr) (r : ρ)
    (h : e = .ttrpcClosed ∨ e = .serverClosed ∨ e = .protocol ∨ e = .deadline) :
    isFatal (classify isFatalError (.error e : Except CallErr ρ)) = true ∧
    isFatal (classify isFatalError (.ok r : Except CallErr ρ)) = false := by
  rcases h with rfl | rfl | rfl | rfl <;> exact ⟨rfl, rfl⟩

/-- FULL statement, true of the repaired classification (docs/fixes/C07-1.patch): every failure
    of the plugin or its connection drops the plugin; only what the plugin's handler returned
    (a status error) vetoes; the caller's own cancellation is neither. -/
theorem C07_classify_fixed (e : CallErr) :
    (pluginFailure e = true → isFatal (classify isFatalErrorFixed (.error e : Except CallErr ρ)) = true) ∧
    (∀ c m, e = .status c m → classify isFatalErrorFixed (.error e : Except CallErr ρ) = .handlerErr m) := by
  cases e <;> simp [pluginFailure, classify, isFatalErrorFixed, isFatalError, isFatal, errText]

/-- **A handler's error always vetoes**, whatever it looks like. Whatever error value a plugin's
    handler returns over its healthy connection — `context.DeadlineExceeded`, `context.Canceled`,
    `io.EOF`, `io.ErrUnexpectedEOF`, a status error with ANY code (DeadlineExceeded, Unavailable,
    ResourceExhausted, Canceled, …), `ttrpc.ErrClosed` / `ErrServerClosed` / `ErrProtocol` or any
    other value, with any text — it reaches the runtime as a status error (`onWire`), and both the
    unrepaired and the repaired `isFatalError` classify it as the handler's own error carrying
    its message; so by `C07_veto` the request fails with it, nobody behind is called, nothing
    partial is returned, and (the outcome not being fatal) the plugin is not closed. -/
theorem C07_handler_error_vetoes (h : HandlerErr) (msg : Str) :
    classify isFatalErrorFixed (.error (onWire h msg) : Except CallErr ρ) = .handlerErr msg ∧
    classify isFatalError (.error (onWire h msg) : Except CallErr ρ) = .handlerErr msg ∧
    isFatal (classify isFatalErrorFixed (.error (onWire h msg) : Except CallErr ρ)) = false := by
  cases h <;> simp [onWire, convertCode, classify, isFatalErrorFixed, isFatalError, errText, isFatal]

/-- at the level of a request: the middle plugin's handler returns `context.DeadlineExceeded`
    at once — the request is vetoed, `c` is not called, `b` stays in the list -/
example :
    (request listM 5 4 [(pA, ok 1),
      (pB, ⟨classify isFatalErrorFixed (.error (onWire .ctxDeadline (str "context deadline exceeded"))), true, 1⟩),
      (pC, ok 3)]) =
    (.error (.veto pB (str "context deadline exceeded")), ⟨[pA, pB], [pA, pB], [(pA, 1)], [pA, pB, pC], 2⟩, [pA, pB, pC]) := rfl

/-- not vacuous: a classification that takes the status code DeadlineExceeded for a dead
    connection swallows that veto (partial result `[1,3]`, `c` called, `b` dropped) -/
example :
    (request listM 5 4 [(pA, ok 1),
      (pB, ⟨classify isFatalErrorStatusDeadline (.error (onWire .ctxDeadline (str "context deadline exceeded"))), true, 1⟩),
      (pC, ok 3)]).1 = .ok [1, 3] ∧
    (request listM 5 4 [(pA, ok 1),
      (pB, ⟨classify isFatalErrorStatusDeadline (.error (onWire .ctxDeadline (str "context deadline exceeded"))), true, 1⟩),
      (pC, ok 3)]).2.2 = [pA, pC] := ⟨rfl, rfl⟩

/-- UNFIXED code, witness 1: a reply that does not decode is treated as the handler's own error:
    the request fails and the other plugins' contributions are lost. -/
theorem unfixed_undecodable_reply_vetoes :
    (request listM 5 4 [(pA, ok 1),
        (pB, ⟨classify isFatalError (.error .undecodable), true, 1⟩), (pC, ok 3)]).1
      = .error (.veto pB []) ∧
    (request listM 5 4 [(pA, ok 1),
        (pB, ⟨classify isFatalErrorFixed (.error .undecodable), true, 1⟩), (pC, ok 3)]).1
      = .ok [1, 3] := ⟨rfl, rfl⟩

/-- UNFIXED code, witness 2: a connection cut in the middle of a frame (when the multiplexer's
    `unexpected EOF` wins the race to the caller) fails the request as well. -/
theorem unfixed_truncated_frame_vetoes :
    (request listM 5 4 [(pA, ok 1),
        (pB, ⟨classify isFatalError (.error .truncatedFrame), true, 1⟩), (pC, ok 3)]).1
      = .error (.veto pB []) ∧
    (request listM 5 4 [(pA, ok 1),
        (pB, ⟨classify isFatalErrorFixed (.error .truncatedFrame), true, 1⟩), (pC, ok 3)]).1
      = .ok [1, 3] := ⟨rfl, rfl⟩

end Nri.Props.C07
