import NriModel.Basic
/-! Property theorems for C07 — placeholder until the model is written. -/
namespace Nri.Props.C07
end Nri.Props.C07
