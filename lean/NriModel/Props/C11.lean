import NriModel.Lemmas.MuxStream
import NriModel.Lemmas.MuxSys
import NriModel.Lemmas.MuxWriter
import NriModel.Lemmas.MuxOpen
/-!
Property theorems for C11 — the multiplexer fails stop: no gaps after errors, nothing hangs
after close.  Model: `NriModel/Mux.lean` (one mux end as a transition system; `step s ev =
none` means "this operation with this result does not happen / does not return").

Not proved here (measured by the fault campaign of the check): that blocked goroutines are
actually woken, and wall-clock promptness — the model has no Go scheduler.
-/
namespace Nri.Props.C11
open Nri.Mux

/-- Truncating the trunk at any byte offset: the reader sees a prefix of the frames. -/
theorem C11_prefix (s : Bytes) (k : Nat) : (decode (s.take k)).1 <+: (decode s).1 :=
  decode_prefix_mono (List.take_prefix k s)

/-- … hence on every connection a prefix of the frames addressed to it, and a prefix of
    the byte stream. -/
theorem C11_truncated_stream (s : Bytes) (k id : Nat) :
    payloadsOf id (decode (s.take k)).1 <+: payloadsOf id (decode s).1 ∧
    bytesDelivered id (decode (s.take k)).1 <+: bytesDelivered id (decode s).1 :=
  ⟨payloadsOf_prefix (C11_prefix s k), flatten_prefix (payloadsOf_prefix (C11_prefix s k))⟩

/-- The frame-at-a-time reader of the two-ended model used by the correspondence check
    (`decodeOne`, `MuxSys.lean`) is the `decode` of these theorems. -/
theorem C11_reader_is_decode (s : Bytes) :
    decode s = match decodeOne s with
      | some (f, rest) => (f :: (decode rest).1, (decode rest).2)
      | none => ([], s) :=
  decode_eq_decodeOne s

/-- Nothing is damaged or invented: the decoded frames followed by the incomplete tail
    re-encode to exactly the bytes that arrived. -/
theorem C11_decode_sound (s : Bytes) : encodeFrames (decode s).1 ++ (decode s).2 = s :=
  decode_sound s

example : (decode ([0, 0, 0, 1, 0, 0, 0, 2, 7, 8, 0, 0, 0, 1, 0, 0, 0, 1, 9].take 14)).1 =
    [⟨1, [7, 8]⟩] := by simp [decode, be32]

/-- Which error the reader records when the trunk ends at the incomplete tail `t`
    (transcribed from `io.ReadFull`): clean end or end right after a header ⇒ EOF; inside a
    header ⇒ header error; inside a payload ⇒ payload error. -/
theorem C11_reader_end (t : Bytes) :
    (t.length = 0 ∨ t.length = 8 → readerEnd t = .eof) ∧
    (0 < t.length ∧ t.length < 8 → readerEnd t = .hdr) ∧
    (8 < t.length → readerEnd t = .payload) := by
  refine ⟨?_, ?_, ?_⟩ <;> intro h <;> simp only [readerEnd] <;> (repeat' split) <;>
    first | rfl | (exfalso; omega)

/-- No gap, no duplicate, no reordering under any failure: in EVERY run of a mux end — any
    interleaving of reader deliveries, queue overflow at any position, reader failure, Close
    of the mux or of single connections at any step, Reads, Writes, re-Opens — what Read has
    handed out on a connection object is a prefix of the frames the reader routed to its id
    since the object was opened.  (Guard: reader buffers at least as long as the frames.) -/
theorem C11_no_gap (cfg : Cfg) (tr : List Ev) (s : MuxSt) (hg : bigBuffers tr = true)
    (hr : run (MuxSt.init cfg) tr = some s) (h : Nat) (c : Conn) (hc : s.objs[h]? = some c) :
    received h tr <+: (payloadsOf c.id (delivered tr)).drop c.base := by
  have hi := run_inv (Inv.init cfg) hg hr
  have ho := hi.obj h c hc
  have hrc := run_rc h hr
  have hseen := run_seen hr
  simp only [rc, rcOf, MuxSt.init, hc, List.getElem?_nil, List.nil_append] at hrc hseen
  rw [← hrc, ← hseen]
  exact (ho.split ▸ List.prefix_append c.rcvd c.queue).trans ho.got_pre

/-- The usual case — the connection is opened before the reader has routed anything to its
    id (both ends open their connections before traffic): received ⊑ sent. -/
theorem C11_no_gap_opened_first (cfg : Cfg) (pre post : List Ev) (id h : Nat) (s : MuxSt)
    (hg : bigBuffers (pre ++ Ev.openNew id h :: post) = true)
    (hr : run (MuxSt.init cfg) (pre ++ Ev.openNew id h :: post) = some s)
    (hfirst : countFor id (delivered pre) = 0) :
    received h (pre ++ Ev.openNew id h :: post)
      <+: payloadsOf id (delivered (pre ++ Ev.openNew id h :: post)) := by
  -- the object exists in the final state
  have hex : ∃ c, s.objs[h]? = some c := by
    rw [run_append] at hr
    cases h1 : run (MuxSt.init cfg) pre with
    | none => simp [h1] at hr
    | some s1 =>
      simp only [h1, Option.bind_some, run] at hr
      split at hr
      · rename_i s2 h2
        simp only [Mux.step] at h2
        split at h2
        · rename_i hcond
          cases h2
          obtain ⟨c1, hc1, _⟩ := run_stable (h := h)
            (c := { id := id, base := countFor id s1.seen, closed := s1.cfg.lateClosed && s1.closed }) hr (by simp [hcond.2.2])
          exact ⟨c1, hc1⟩
        · cases h2
      · cases hr
  obtain ⟨c, hc⟩ := hex
  obtain ⟨hid, hbase⟩ := base_of_open hr hc
  have := C11_no_gap cfg _ s hg hr h c hc
  rw [hid, hbase, hfirst, List.drop_zero] at this
  exact this

/-- End to end under truncation: the sender's writes `ws` (any order of whole writes), the
    trunk cut at any byte `k`, the receiving end running in any way on the frames that got
    through (`delivered tr` is a prefix of them): the bytes read on a connection opened
    before traffic are a prefix of the bytes written to its id. -/
theorem C11_end_to_end (cfg : Cfg) (hmp : 0 < cfg.mp) (hmp32 : cfg.mp < 2 ^ 32)
    (ws : List (Nat × Bytes)) (hids : ∀ w ∈ ws, w.1 < 2 ^ 32) (k : Nat)
    (pre post : List Ev) (id h : Nat) (s : MuxSt)
    (hg : bigBuffers (pre ++ Ev.openNew id h :: post) = true)
    (hr : run (MuxSt.init cfg) (pre ++ Ev.openNew id h :: post) = some s)
    (hfirst : countFor id (delivered pre) = 0) :
    ∃ trunk, encodeWrites cfg.mp ws = some trunk ∧
      (delivered (pre ++ Ev.openNew id h :: post) <+: (decode (trunk.take k)).1 →
        (received h (pre ++ Ev.openNew id h :: post)).flatten
          <+: ((ws.filter (·.1 == id)).map (·.2)).flatten) := by
  have hb := specFrames_bounds cfg.mp hmp (by simpa using hmp32) ws (by simpa using hids)
  have hdec := decode_frames (specFrames cfg.mp ws) hb []
  refine ⟨_, encodeWrites_eq cfg.mp hmp ws, ?_⟩
  intro hdel
  have h1 := C11_no_gap_opened_first cfg pre post id h s hg hr hfirst
  have h2 : delivered (pre ++ Ev.openNew id h :: post) <+: specFrames cfg.mp ws := by
    have hdec' : decode (encodeFrames (specFrames cfg.mp ws)) = (specFrames cfg.mp ws, []) := by
      simpa [decode_nil] using hdec
    have := hdel.trans (C11_prefix (encodeFrames (specFrames cfg.mp ws)) k)
    rw [hdec'] at this; exact this
  have h3 := flatten_prefix (h1.trans (payloadsOf_prefix (id := id) h2))
  have h4 := bytesDelivered_specFrames cfg.mp id ws
  unfold bytesDelivered at h4
  rw [h4] at h3
  exact h3

/-- The first error is latched: once `m.err` is set no step changes it, and every error
    any Read returned during a run equals the error latched at the end of the run — so all
    Reads on all connections of one mux report the same error. -/
theorem C11_error_latched (s s' : MuxSt) (tr : List Ev) (hr : run s tr = some s') :
    (∀ e, s.err = some e → s'.err = some e) ∧
    (∀ e ∈ readErrors tr, s'.err = some e) ∧
    (∀ e1 ∈ readErrors tr, ∀ e2 ∈ readErrors tr, e1 = e2) := by
  refine ⟨fun e he => run_err_mono hr he, readErrors_latched hr, ?_⟩
  intro e1 h1 e2 h2
  have a := readErrors_latched hr e1 h1
  have b := readErrors_latched hr e2 h2
  rw [a] at b; exact Option.some.inj b

/-- A failure closes everything: after the reader fails (trunk error, truncation), after a
    queue overflows, after `Close`, or after a trunk write that failed part-way (a torn
    header or payload: `n ≠ 0` in `mux.write`), every connection object that exists — every
    connection `Open` ever returned, whether or not it is still registered under its id — is
    closed. -/
theorem C11_fail_closes_all (cfg : Cfg) (tr : List Ev) (s s' : MuxSt) (ev : Ev)
    (hg : bigBuffers tr = true) (hr : run (MuxSt.init cfg) tr = some s)
    (hopen : s.closed = false)
    (hev : (∃ e, ev = .readerFail e) ∨ (∃ f, ev = .overflow f) ∨ ev = .closeMux ∨
      (∃ h p, ev = .write h p (.errTrunk true)))
    (hs : step s ev = some s') :
    s'.closed = true ∧ ∀ (h : Nat) (c : Conn), s'.objs[h]? = some c → c.closed = true := by
  have hi := run_inv (Inv.init cfg) hg hr
  rcases hev with ⟨e, rfl⟩ | ⟨f, rfl⟩ | rfl | ⟨h0, p, rfl⟩
  · simp only [Mux.step] at hs
    split at hs
    · cases hs
    · cases hs
      refine ⟨by simp, fun h c hc => ?_⟩
      exact doClose_all_closed (hi.setError e) (by simpa using hopen) hc
  · simp only [Mux.step] at hs
    (repeat' split at hs) <;> (try cases hs)
    refine ⟨by simp, fun h c hc => ?_⟩
    exact doClose_all_closed (hi.setError .overflow) (by simpa using hopen) hc
  · simp only [Mux.step] at hs
    cases hs
    exact ⟨by simp, fun h c hc => doClose_all_closed hi hopen hc⟩
  · simp only [Mux.step] at hs
    (repeat' split at hs) <;> (try cases hs) <;> (try simp_all)
    intro h c hc
    exact doClose_all_closed (hi.setError .wfail) (by simpa using hopen) hc

/-- Nothing hangs on a closed connection: Read returns (some result is enabled — the
    latched error, or, by Go's `select`, a frame still queued), Write returns EOF, Close of
    the connection and of the mux return; and closedness is permanent, so this stays true
    after any further run. -/
theorem C11_closed_returns (s : MuxSt) (h : Nat) (c : Conn) (hc : s.objs[h]? = some c)
    (hcl : c.closed = true) :
    (∀ blen bcap, blen ≤ bcap → ∃ s', step s (.read h blen bcap (.err (s.err.getD .eof))) = some s') ∧
    (∀ p, step s (.write h p .errEof) = some s) ∧
    (∃ s', step s (.closeConn h) = some s') ∧
    (∃ s', step s .closeMux = some s') ∧
    (∀ tr s', run s tr = some s' → ∃ c', s'.objs[h]? = some c' ∧ c'.closed = true) := by
  refine ⟨?_, ?_, ?_, ?_, ?_⟩
  · intro blen bcap hle
    exact ⟨setError s .eof, by simp [Mux.step, hc, hle, hcl]⟩
  · intro p; simp [Mux.step, hc, hcl]
  · exact ⟨_, by simp [Mux.step, hc]; rfl⟩
  · exact ⟨_, rfl⟩
  · intro tr s' hr
    obtain ⟨c', hc', st⟩ := run_stable hr hc
    exact ⟨c', hc', st.2.2 hcl⟩

/-- By contrast a Read on an OPEN connection with an empty queue is not enabled with any
    result — it blocks (so "returns" above is not vacuous). -/
theorem C11_open_empty_read_blocks (s : MuxSt) (h : Nat) (c : Conn) (hc : s.objs[h]? = some c)
    (hopen : c.closed = false) (hq : c.queue = []) (blen bcap : Nat) (r : ReadRes) :
    step s (.read h blen bcap r) = none := by
  cases r <;> simp [Mux.step, hc, hopen, hq]

/-- After the reader goroutine has returned, Reads hand out at most what was queued — at
    most `qlen` frames (in a run from the initial state under the buffer guard) — and from
    then on only the latched error. -/
theorem C11_drain_bound (cfg : Cfg) (tr tr' : List Ev) (s s' : MuxSt) (h : Nat)
    (hg : bigBuffers tr = true) (hr : run (MuxSt.init cfg) tr = some s)
    (hdone : s.readerDone = true) (hr' : run s tr' = some s') :
    (received h tr').length ≤ cfg.qlen := by
  have hb := run_drain h hr' hdone
  have hi := run_inv (Inv.init cfg) hg hr
  have hcfg : s.cfg = cfg := run_cfg hr
  cases ho : s.objs[h]? with
  | none =>
    have : qlOf s.objs h = 0 := by simp [qlOf, ho]
    omega
  | some c =>
    have hq : qlOf s.objs h = c.queue.length := by simp [qlOf, ho]
    have := (hi.obj h c ho).qbound
    rw [hcfg] at this; omega

/-- Close is idempotent: a second `Close` of the mux, or of a connection, changes nothing. -/
theorem C11_close_idempotent (s s' : MuxSt) :
    (step s .closeMux = some s' → step s' .closeMux = some s') ∧
    (∀ h s'', step s (.closeConn h) = some s' → step s' (.closeConn h) = some s'' → s'' = s') := by
  constructor
  · intro hs
    simp only [Mux.step] at hs ⊢
    cases hs
    by_cases h : s.closed = true <;> simp [doClose, h]
  · intro h s'' h1 h2
    simp only [Mux.step] at h1
    split at h1
    · cases h1
    · rename_i c0 hc0
      have hlt0 : h < s.objs.length := (List.getElem?_eq_some_iff.mp hc0).1
      cases h1
      simp only [Mux.step, List.getElem?_set, hlt0, if_true] at h2
      simp only [Option.some.injEq] at h2
      rw [← h2]
      by_cases hm : AList.lookup s.cmap c0.id = some h
      · simp [hm, AList.lookup_erase_self]
      · simp [hm]

/-- Closing a stale handle again — a connection object that is closed and no longer owns its
    id, e.g. after `Open(id); Close; Open(id)` the first handle — is a no-op: the id table is
    untouched (the re-opened connection stays registered and keeps receiving) and no other
    connection object changes. -/
theorem C11_stale_close_harmless (s s' : MuxSt) (h : Nat) (c : Conn) (hc : s.objs[h]? = some c)
    (hclosed : c.closed = true) (hstale : AList.lookup s.cmap c.id ≠ some h)
    (hs : step s (.closeConn h) = some s') :
    s'.cmap = s.cmap ∧ s'.objs = s.objs ∧ s'.closed = s.closed ∧ s'.err = s.err := by
  simp only [Mux.step, hc] at hs
  cases hs
  refine ⟨by simp [hstale], ?_, rfl, rfl⟩
  have hlt : h < s.objs.length := (List.getElem?_eq_some_iff.mp hc).1
  have hget : s.objs[h] = c := (List.getElem?_eq_some_iff.mp hc).2
  have : ({ c with closed := true } : Conn) = c := by cases c; simp_all
  simp only [this]
  rw [← hget]; exact List.set_getElem_self hlt

/-- … and concretely: open, close, re-open (a new object), close the first handle twice more
    — the second object still owns the id, still receives, and is closed by the mux close. -/
example : ∃ s c2, run (MuxSt.init { mp := 4, qlen := 2 })
      [.openNew 5 0, .closeConn 0, .openNew 5 1, .closeConn 0, .closeConn 0,
       .deliver ⟨5, [9]⟩, .read 1 8 8 (.data [9] 1), .closeMux] = some s ∧
    AList.lookup s.cmap 5 = some 1 ∧ s.objs[1]? = some c2 ∧ c2.closed = true ∧ c2.rcvd = [[9]] :=
  ⟨_, _, rfl, by decide, rfl, rfl, rfl⟩

/-- The listener wrapper hands its connection out exactly once, and once it is closed every
    Accept returns (the connection if it was never taken, then EOF); Close is idempotent. -/
theorem C11_listener (l : Lst) :
    (∀ r l', l.accept = some (r, l') → l'.next = false) ∧
    (l.next = false → ∀ r l', l.accept = some (r, l') → r = .eof) ∧
    (l.closed = true → l.accept ≠ none) ∧
    (l.close.2.closed = true ∧ l.close.2.close = (false, l.close.2)) ∧
    (l.closed = false ∧ l.next = false → l.accept = none) := by
  refine ⟨?_, ?_, ?_, ?_, ?_⟩
  · intro r l' h
    simp only [Lst.accept] at h
    split at h
    · cases h; rfl
    · split at h
      · cases h; simp_all
      · cases h
  · intro hn r l' h
    simp only [Lst.accept, hn] at h
    (repeat' split at h) <;> simp_all
  · intro hc; simp only [Lst.accept, hc]; split <;> simp
  · simp only [Lst.close]; split <;> simp_all
  · intro ⟨hc, hn⟩; simp [Lst.accept, hc, hn]


/-! ### the writer side: a torn frame is the last thing a mux ever writes

`NriModel/MuxWriter.lean` models `mux.write` at the byte level, with a trunk `Write` call that
may fail after any number of bytes (a write deadline expiring, the peer gone). -/

/-- Writer-side fail-stop, for EVERY sequence of `conn.Write`s (any ids, any chunking into frames
    with ids and lengths below 2^32) and every failure of any trunk call after any number of
    bytes: what a reader decodes from the trunk is exactly the frames that went out whole, from
    any prefix of the trunk a prefix of them — never a frame glued together from the pieces of
    two — and once the mux has closed no later Write adds a byte. (Repaired write loop: a failed
    payload write always closes the mux, its header being out already.) -/
theorem C11_writer_failstop (ops : List WOp) (hops : ∀ op ∈ ops, op.Bounded) :
    (decode (wrun true ops).out).1 = (wrun true ops).whole ∧
    (∀ k, (decode ((wrun true ops).out.take k)).1 <+: (wrun true ops).whole) ∧
    ((wrun true ops).closed = true → ∀ more, wrun true more (wrun true ops) = wrun true ops) := by
  have hinv := wrun_inv ops hops {} WInv.init
  refine ⟨hinv.decode_out, fun k => ?_, fun hc more => wrun_closed true more _ hc⟩
  have := C11_prefix (wrun true ops).out k
  rw [hinv.decode_out] at this
  exact this

/-- … in particular for the frames `mux.write` itself cuts its buffers into (any maximum payload
    `0 < mp < 2^32`, any connection ids below 2^32, any buffers, any failure points). -/
theorem C11_writer_failstop_chunked (mp : Nat) (hmp : 0 < mp) (hmp32 : mp < 4294967296)
    (ws : List (Nat × Bytes × Option (Nat × CallFail))) (hid : ∀ w ∈ ws, w.1 < 4294967296) (k : Nat) :
    let ops := ws.map fun w => WOp.ofWrite mp w.1 w.2.1 w.2.2
    (decode ((wrun true ops).out.take k)).1 <+: (wrun true ops).whole :=
  (C11_writer_failstop _ (by
    intro op hop
    simp only [List.mem_map] at hop
    obtain ⟨w, hw, rfl⟩ := hop
    exact WOp.ofWrite_bounded mp w.1 w.2.1 w.2.2 hmp hmp32 (hid w hw))).2.1 k

/-- End to end under WRITE failures and truncation together: the sender's `conn.Write`s fail
    wherever and however the trunk makes them fail, the trunk is additionally cut at any byte `k`,
    and the receiving end runs in any way on the frames that come out of what got through: what a
    reader has received on a connection opened before traffic is a prefix of the payloads of the
    frames the sender put out WHOLE for that id — the torn frame, if any, contributes nothing and
    nothing follows it. -/
theorem C11_end_to_end_write_failures (cfg : Cfg) (ops : List WOp) (hops : ∀ op ∈ ops, op.Bounded) (k : Nat)
    (pre post : List Ev) (id h : Nat) (s : MuxSt)
    (hg : bigBuffers (pre ++ Ev.openNew id h :: post) = true)
    (hr : run (MuxSt.init cfg) (pre ++ Ev.openNew id h :: post) = some s)
    (hfirst : countFor id (delivered pre) = 0)
    (hdel : delivered (pre ++ Ev.openNew id h :: post) <+: (decode ((wrun true ops).out.take k)).1) :
    received h (pre ++ Ev.openNew id h :: post) <+: payloadsOf id (wrun true ops).whole := by
  have h1 := C11_no_gap_opened_first cfg pre post id h s hg hr hfirst
  have h2 := hdel.trans ((C11_writer_failstop ops hops).2.1 k)
  exact h1.trans (payloadsOf_prefix (id := id) h2)

/-- Non-vacuity: a write torn inside its payload, then a write on another connection. The torn
    frame is the last thing on the trunk, the later write does not go out at all. -/
example :
    let ops : List WOp := [⟨[⟨5, [1, 2, 3]⟩], none⟩, ⟨[⟨5, [65, 65, 65, 65]⟩], some (0, .payload 2)⟩,
                           ⟨[⟨6, [66, 66]⟩], none⟩]
    (wrun true ops).whole = [⟨5, [1, 2, 3]⟩] ∧ (wrun true ops).closed = true ∧
    (wrun true ops).out = encodeFrame ⟨5, [1, 2, 3]⟩ ++ (encodeFrame ⟨5, [65, 65, 65, 65]⟩).take 10 := by decide

/-- The code before the repair (a payload write that fails before its first byte leaves the mux
    open although the frame's header is out): the next write's header is read as the payload of
    the orphan header — connection 5 receives the four bytes `00 00 00 06` nobody wrote to it, and
    the frame for connection 6 is not among the frames that come out.  Reproduced on the real code
    (corpus/C11/tear-payload.jsonl). -/
theorem unfixed_payload_failure_glues_frames :
    let ops : List WOp := [⟨[⟨5, [65, 65, 65, 65]⟩], some (0, .payload 0)⟩,
                           ⟨[⟨6, [66, 66, 66, 66, 66, 66, 66, 66]⟩], none⟩]
    (wrun false ops).closed = false ∧
    (wrun false ops).whole = [⟨6, [66, 66, 66, 66, 66, 66, 66, 66]⟩] ∧
    ∃ rest, (decode (wrun false ops).out).1 = ⟨5, [0, 0, 0, 6]⟩ :: rest := by
  refine ⟨by decide, by decide, ?_⟩
  have hout : (wrun false [⟨[⟨5, [65, 65, 65, 65]⟩], some (0, .payload 0)⟩,
                           ⟨[⟨6, [66, 66, 66, 66, 66, 66, 66, 66]⟩], none⟩]).out =
      encodeFrame ⟨5, [0, 0, 0, 6]⟩ ++ [0, 0, 0, 8, 66, 66, 66, 66, 66, 66, 66, 66] := by decide
  rw [hout, decode_frame ⟨5, [0, 0, 0, 6]⟩ (by decide) (by decide)]
  exact ⟨_, rfl⟩


/-! ### `Open` racing `Close` -/

/-- However Opens and Closes are ordered, once the mux has closed every connection `Open` has
    handed out and still has registered is closed — also one opened at the very moment of the
    Close, and one opened after it: nothing is left that a `Read` could block on for ever. (The
    code: `Open`'s "closed already?" check and its registration, and `Close`'s sweep over the
    registered connections, all under `connLock`.) -/
theorem C11_open_vs_close (evs : List MuxOpen.Ev) (id : Nat) :
    (MuxOpen.orun evs).muxClosed = true →
      (∀ p ∈ (MuxOpen.orun evs).table, p.2 ∈ (MuxOpen.orun evs).closedObjs) ∧
      (MuxOpen.openAtomic (MuxOpen.orun evs) id).2 ∈ (MuxOpen.openAtomic (MuxOpen.orun evs) id).1.closedObjs := by
  intro hc
  have hinv := MuxOpen.orun_inv evs MuxOpen.OInv.init
  refine ⟨hinv.closed hc, ?_⟩
  have hinv2 := MuxOpen.openAtomic_inv hinv id
  have hc2 : (MuxOpen.openAtomic (MuxOpen.orun evs) id).1.muxClosed = true := by
    unfold MuxOpen.openAtomic
    cases MuxOpen.lookup (MuxOpen.orun evs).table id <;> simpa using hc
  exact hinv2.closed hc2 _ (MuxOpen.lookup_some_mem (MuxOpen.openAtomic_registers _ id))

/-- The split `Open` (the closed flag read BEFORE the lock is taken — seeded breakage C11-r6b): a
    `Close` that runs between the two steps leaves a registered, open connection on a closed mux. -/
theorem unfixed_split_open_survives_close :
    let s0 : MuxOpen.OSt := {}
    let v := MuxOpen.openCheck s0 7
    let s1 := MuxOpen.closeMux s0
    let (s2, h) := MuxOpen.openInsert s1 v
    s2.muxClosed = true ∧ MuxOpen.lookup s2.table 7 = some h ∧ h ∉ s2.closedObjs := by decide

/-! ### the unchanged code: a connection opened after the mux has closed never learns of it
(finding C11:open-after-close) -/

/-- `Open` after `Close` hands out a fresh, open connection object: its Read is not enabled
    with any result — it blocks for ever, although the mux is closed. -/
theorem unfixed_open_after_close_read_blocks :
    ∃ s, run (MuxSt.init { mp := 4, qlen := 4 }) [.closeMux, .openNew 1 0] = some s ∧ s.closed = true ∧
      ∀ blen bcap r, step s (.read 0 blen bcap r) = none := by
  refine ⟨_, rfl, rfl, ?_⟩
  intro blen bcap r
  exact C11_open_empty_read_blocks _ 0 { id := 1 } rfl rfl rfl blen bcap r

/-- With the repaired `Open` (docs/fixes/C11-1.patch; the harness measures which behaviour
    the implementation has and passes it as `cfg.lateClosed`): once the mux is closed EVERY
    connection object is closed, whenever it was opened — so by `C11_closed_returns` every
    Read, Write and Close on every logical connection returns. -/
theorem C11_repaired_closed_mux_all_closed (cfg : Cfg) (hlate : cfg.lateClosed = true)
    (tr : List Ev) (s : MuxSt) (hg : bigBuffers tr = true)
    (hr : run (MuxSt.init cfg) tr = some s) (hcl : s.closed = true) :
    ∀ (h : Nat) (c : Conn), s.objs[h]? = some c → c.closed = true :=
  run_allClosed (s := MuxSt.init cfg) hlate (Inv.init cfg)
    (by intro hc; simp [MuxSt.init] at hc) hg hr hcl

example : ∃ s c, run (MuxSt.init { mp := 4, qlen := 4, lateClosed := true }) [.closeMux, .openNew 1 0] = some s ∧
    s.objs[0]? = some c ∧ c.closed = true := ⟨_, _, rfl, rfl, rfl⟩

end Nri.Props.C11
