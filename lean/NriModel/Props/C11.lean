import NriModel.Basic
/-! Property theorems for C11 — placeholder until the model is written. -/
namespace Nri.Props.C11
end Nri.Props.C11
