import NriModel.Lemmas.ResultView
/-!
# C04 — each plugin sees the container exactly as the earlier plugins left it

Model `Nri.Result`; specification `Nri.Overlay.overlayContainer` (the NRI-level reading of an
adjustment: entries whose key is removed or set again go, the set entries are appended;
scalars given replace, scalars not given stay).

`viewsAlong` lists the states in which the plugins of a chain are called, i.e. what each is
shown. Proved for every original container, every chain and every position:
the first plugin is shown the runtime's original (`C04_first_create`, `C04_first_update`);
plugin *i* is shown the original overlaid with the adjustments of plugins 0 … i−1 in order
(`C04_create`); in update requests the resources shown change only by applied updates of the
container being updated (`C04_update_step`).

Not proved (partial): the last sentence of the property — that the view also equals the
overlay of the *combined reply so far* on the original — is the reply/view simulation of C03;
it is evaluated on every generated chain by the C03/C04 correspondence runs.
-/
namespace Nri.Props.C04
open Nri Nri.NApi Nri.Result Nri.Ledger Nri.Overlay

/-- the adjustment part of each chain element (`none` for an absent response or adjustment) -/
def adjOf : Plugin × Option Response → Option Adjustment
  | (_, some r) => r.adjust
  | (_, none) => none

/-- **First plugin, creation.** The first plugin is shown the container the runtime
    submitted (nil sections normalised to empty ones, which protobuf does not distinguish). -/
theorem C04_first_create (c0 : Container) (x) (rest) :
    ((viewsAlong Quirks.fixed (initCreate c0) (x :: rest)).head?.map (·.view)) =
      some { c0 with resources := normRes c0.resources } := by
  obtain ⟨p, r⟩ := x
  cases r with
  | none => rfl
  | some r =>
    simp only [viewsAlong]
    cases apply Quirks.fixed (initCreate c0) p r <;> rfl

/-- **First plugin, update.** The first plugin is shown the resources the runtime asked for. -/
theorem C04_first_update (id : Cid) (req : Resources) (x) (rest) :
    ((viewsAlong Quirks.fixed (initUpdate id req) (x :: rest)).head?.map (·.reqRes)) = some (normRes req) := by
  obtain ⟨p, r⟩ := x
  cases r with
  | none => rfl
  | some r =>
    simp only [viewsAlong]
    cases apply Quirks.fixed (initUpdate id req) p r <;> rfl

/-- **Every position, creation.** The state in which the `i`-th plugin of a chain is called
    shows the starting view overlaid, in order, with the adjustments of the plugins before it. -/
theorem C04_create (rs : List (Plugin × Option Response)) :
    ∀ (st : State) (id : Cid), st.kind = .create id →
    ∀ (i : Nat) (s : State), (viewsAlong Quirks.fixed st rs)[i]? = some s →
      s.view = overlayAll st.view ((rs.take i).map adjOf) := by
  induction rs with
  | nil => intro st id _ i s h; simp [viewsAlong] at h
  | cons x rest ih =>
    intro st id hk i s h
    obtain ⟨p, r⟩ := x
    cases r with
    | none =>
      simp only [viewsAlong] at h
      cases i with
      | zero => simp at h; subst h; rfl
      | succ n =>
        simp at h
        have := ih st id hk n s h
        simpa [overlayAll, adjOf] using this
    | some r =>
      simp only [viewsAlong] at h
      cases h1 : apply Quirks.fixed st p r with
      | error e =>
        rw [h1] at h
        cases i with
        | zero => simp at h; subst h; rfl
        | succ n => simp at h
      | ok st1 =>
        rw [h1] at h
        cases i with
        | zero => simp at h; subst h; rfl
        | succ n =>
          simp at h
          have hk1 : st1.kind = .create id := by rw [apply_kind _ st st1 p r h1]; exact hk
          have := ih st1 id hk1 n s h
          rw [this, apply_view_create st st1 p r id hk h1]
          simp only [List.take_succ_cons, List.map_cons, overlayAll, List.foldl_cons, adjOf]
          rfl

/-- **C04 for a whole creation request**: from the collector's initial state. -/
theorem C04_create_request (c0 : Container) (rs : List (Plugin × Option Response)) (i : Nat) (s : State)
    (h : (viewsAlong Quirks.fixed (initCreate c0) rs)[i]? = some s) :
    s.view = overlayAll { c0 with resources := normRes c0.resources } ((rs.take i).map adjOf) :=
  C04_create rs (initCreate c0) c0.id rfl i s h

/-- **Update requests, per applied update.** The resources shown to later plugins change
    exactly when an update of the container being updated is applied, and then to the
    previous ones overlaid with that update. -/
theorem C04_update_step (st st1 : State) (p : Plugin) (u : Update) (r : Resources) (id : Cid)
    (hk : st.kind = .update id) (hu : u.resources = some r)
    (hg : getUpdate Quirks.fixed st p u = .ok st1) (o : Owners)
    (hc : claimAllPartial u.containerId p st1.owners (updSets Quirks.fixed st1 u) = (o, none)) :
    ∃ st', update1 Quirks.fixed st p u = .ok st' ∧
      st'.reqRes = (if u.containerId = id then overlayRes st.reqRes r r.pids else st.reqRes) := by
  rcases update1_cases Quirks.fixed st p u with ⟨e', hg', _⟩ | ⟨st1', hg', h2⟩
  · rw [hg] at hg'; cases hg'
  · rw [hg] at hg'; cases hg'
    rcases h2 with ⟨o', hc', hu'⟩ | ⟨o', e', hc', _⟩
    · refine ⟨_, hu', ?_⟩
      have hk1 : st1.kind = .update id := by rw [(getUpdate_owners _ st st1 p u hg).2]; exact hk
      have hr1 : st1.reqRes = st.reqRes := (getUpdate_view _ st st1 p u hg).2.1
      simp only [updData, hu, setEntryRes, updBase, isOwn, hk1, updPids, Quirks.fixed]
      by_cases hid : u.containerId = id
      · simp [hid, hr1]
      · have hid' : ¬ id = u.containerId := fun h => hid h.symm
        simp [hid, hid', hr1]
    · rw [hc] at hc'; cases hc'

/-! ### the hypotheses are satisfiable -/

-- third plugin of a chain: sees p0's annotation removed by p1 and p1's mount
example :
    ((viewsAlong Quirks.fixed (initCreate { id := str "c0", annotations := [(str "orig", str "x")] })
      [(str "10-a", some { adjust := some { annotations := [(str "k", str "v")] } }),
       (str "20-b", some { adjust := some { annotations := [(str "-k", [])], mounts := [{ destination := str "/m" }] } }),
       (str "30-c", some { })])[2]?.map fun s => (s.view.annotations, s.view.mounts.map (·.destination)))
    = some ([(str "orig", str "x")], [str "/m"]) := by decide

end Nri.Props.C04
