import NriModel.Basic
/-! Property theorems for C04 — placeholder until the model is written. -/
namespace Nri.Props.C04
end Nri.Props.C04
