import NriModel.Lemmas.ResultView
import NriModel.Lemmas.ResultWalkRel
import NriModel.Lemmas.ComposeViewChain
/-!
# C04 — each plugin sees the container exactly as the earlier plugins left it

Model `Nri.Result`; specification `Nri.Overlay.overlayContainer` (the NRI-level reading of an
adjustment: entries whose key is removed or set again go, the set entries are appended;
scalars given replace, scalars not given stay).

`viewsAlong` lists the states in which the plugins of a chain are called, i.e. what each is
shown. Proved for every original container, every chain and every position:
the first plugin is shown the runtime's original (`C04_first_create`, `C04_first_update`);
plugin *i* is shown the original overlaid with the adjustments of plugins 0 … i−1 in order
(`C04_create`); in update requests the resources shown change only by applied updates of the
container being updated (`C04_update_step`), and plugin *i* is shown exactly what the
state-free specification walk (`Nri.UpdateWalk.walk`, the value the correspondence run's
`specC04` evaluates) yields for the updated container over the plugins before it
(`C04_update`; no hypothesis on the chain).

**The last sentence of the property** — "what a plugin is shown therefore always agrees with
what the runtime would obtain by applying the result combined so far" — is `C04_view_agrees`:
for every original container, every chain and every position `i`, the container shown to plugin
`i` `ViewAgrees` with the OCI spec that `Generator.Adjust` (model `Nri.Generate`, property C13)
makes of the original spec `toSpec c0` with the reply combined so far (`s.reply` of the state in
which plugin `i` is called), whenever the generator accepts that reply — and it does whenever it
accepts the earlier plugins' adjustments one after another.  Proof: the per-adjustment
simulation `C04_overlay_simulates` (the NRI-level overlay of one adjustment on the view
simulates `Generator.Adjust` with that adjustment on the spec; `C04_overlay_agrees` is its
instance from a container's own spec), carried along the chain with the ledger's facts about
each accepted adjustment (no key set twice; hugepage sizes new), and C03 (`compose_main` /
`compose_converse`: generator on the combined reply ≈ generator on each adjustment in turn)
applied to the PREFIX of the chain.

`ViewAgrees` (`Lemmas/ComposeView.lean`) is equality for args, rlimits, hooks, OOM score,
cgroups path, the device list (order included), every CPU field, the memory limit, hugepage
limits and pids; `lookup`-equality for the Go maps annotations and unified; and two weakenings
forced by representation (witnesses below): the environment as a finite map NAME ↦ value
(`view_env_order_differs`: the view appends a re-set variable, the generator replaces it in
place) and the mounts up to order (`view_mounts_order_differs`: the view appends, the generator
sorts).  Outside the relation: memory fields other than the limit (the generator applies only
the limit, to limit AND swap — `view_memory_other_fields_differ`), block-I/O / RDT class (name
vs resolved parameters), CDI names, device cgroup rules and rootfs propagation (not part of the
NRI container).  Guards beyond C03's `WellFormed`/`SpecWF`, each forced: no memory limit 0
(`guard_view_limit_zero`, known finding C13:memory:limit-zero) and no hugepage size that the
ORIGINAL container already has (`guard_view_hugepage_in_original`: the view appends a second
entry, the generator overwrites the first).
-/
namespace Nri.Props.C04
open Nri Nri.NApi Nri.Result Nri.Ledger Nri.Overlay Nri.UpdateWalk

/-- the adjustment part of each chain element (`none` for an absent response or adjustment) -/
def adjOf : Plugin × Option Response → Option Adjustment
  | (_, some r) => r.adjust
  | (_, none) => none

/-- **First plugin, creation.** The first plugin is shown the container the runtime
    submitted (nil sections normalised to empty ones, which protobuf does not distinguish). -/
theorem C04_first_create (c0 : Container) (x) (rest) :
    ((viewsAlong Quirks.fixed (initCreate c0) (x :: rest)).head?.map (·.view)) =
      some { c0 with resources := normRes c0.resources } := by
  obtain ⟨p, r⟩ := x
  cases r with
  | none => rfl
  | some r =>
    simp only [viewsAlong]
    cases apply Quirks.fixed (initCreate c0) p r <;> rfl

/-- **First plugin, update.** The first plugin is shown the resources the runtime asked for. -/
theorem C04_first_update (id : Cid) (req : Resources) (x) (rest) :
    ((viewsAlong Quirks.fixed (initUpdate id req) (x :: rest)).head?.map (·.reqRes)) = some (normRes req) := by
  obtain ⟨p, r⟩ := x
  cases r with
  | none => rfl
  | some r =>
    simp only [viewsAlong]
    cases apply Quirks.fixed (initUpdate id req) p r <;> rfl

/-- **Every position, creation.** The state in which the `i`-th plugin of a chain is called
    shows the starting view overlaid, in order, with the adjustments of the plugins before it. -/
theorem C04_create (rs : List (Plugin × Option Response)) :
    ∀ (st : State) (id : Cid), st.kind = .create id →
    ∀ (i : Nat) (s : State), (viewsAlong Quirks.fixed st rs)[i]? = some s →
      s.view = overlayAll st.view ((rs.take i).map adjOf) := by
  induction rs with
  | nil => intro st id _ i s h; simp [viewsAlong] at h
  | cons x rest ih =>
    intro st id hk i s h
    obtain ⟨p, r⟩ := x
    cases r with
    | none =>
      simp only [viewsAlong] at h
      cases i with
      | zero => simp at h; subst h; rfl
      | succ n =>
        simp at h
        have := ih st id hk n s h
        simpa [overlayAll, adjOf] using this
    | some r =>
      simp only [viewsAlong] at h
      cases h1 : apply Quirks.fixed st p r with
      | error e =>
        rw [h1] at h
        cases i with
        | zero => simp at h; subst h; rfl
        | succ n => simp at h
      | ok st1 =>
        rw [h1] at h
        cases i with
        | zero => simp at h; subst h; rfl
        | succ n =>
          simp at h
          have hk1 : st1.kind = .create id := by rw [apply_kind _ st st1 p r h1]; exact hk
          have := ih st1 id hk1 n s h
          rw [this, apply_view_create st st1 p r id hk h1]
          simp only [List.take_succ_cons, List.map_cons, overlayAll, List.foldl_cons, adjOf]
          rfl

/-- **C04 for a whole creation request**: from the collector's initial state. -/
theorem C04_create_request (c0 : Container) (rs : List (Plugin × Option Response)) (i : Nat) (s : State)
    (h : (viewsAlong Quirks.fixed (initCreate c0) rs)[i]? = some s) :
    s.view = overlayAll { c0 with resources := normRes c0.resources } ((rs.take i).map adjOf) :=
  C04_create rs (initCreate c0) c0.id rfl i s h

/-- **Update requests, per applied update.** The resources shown to later plugins change
    exactly when an update of the container being updated is applied, and then to the
    previous ones overlaid with that update. -/
theorem C04_update_step (st st1 : State) (p : Plugin) (u : Update) (r : Resources) (id : Cid)
    (hk : st.kind = .update id) (hu : u.resources = some r)
    (hg : getUpdate Quirks.fixed st p u = .ok st1) (o : Owners)
    (hc : claimAllPartial u.containerId p st1.owners (updSets Quirks.fixed st1 u) = (o, none)) :
    ∃ st', update1 Quirks.fixed st p u = .ok st' ∧
      st'.reqRes = (if u.containerId = id then overlayRes st.reqRes r r.pids else st.reqRes) := by
  rcases update1_cases Quirks.fixed st p u with ⟨e', hg', _⟩ | ⟨st1', hg', h2⟩
  · rw [hg] at hg'; cases hg'
  · rw [hg] at hg'; cases hg'
    rcases h2 with ⟨o', hc', hu'⟩ | ⟨o', e', hc', _⟩
    · refine ⟨_, hu', ?_⟩
      have hk1 : st1.kind = .update id := by rw [(getUpdate_owners _ st st1 p u hg).2]; exact hk
      have hr1 : st1.reqRes = st.reqRes := (getUpdate_view _ st st1 p u hg).2.1
      simp only [updData, hu, setEntryRes, updBase, isOwn, hk1, updPids, Quirks.fixed]
      by_cases hid : u.containerId = id
      · simp [hid, hr1]
      · have hid' : ¬ id = u.containerId := fun h => hid h.symm
        simp [hid, hid', hr1]
    · rw [hc] at hc'; cases hc'


-- the chain of the examples below: an update request of c0 (requested pids 5), four plugins.
-- 10-a sets the memory limit of c0; 20-b's ignore-failure update of c0 names the memory limit
-- (taken) and cpu shares: dropped in its entirety; 30-c sets cpu quota of c0; 40-d sends nothing.
private def updOf (id : Str) (r : Resources) (ign : Bool := false) : Update :=
  { containerId := id, resources := some r, ignoreFailure := ign }

private def chain4 : List (Plugin × Response) :=
  [(str "10-a", { updates := [updOf (str "ctrA") { pids := some 1 }, updOf (str "c0") { memory := some { limit := some 3 } }] }),
   (str "20-b", { updates := [updOf (str "c0") { memory := some { limit := some 8 }, cpu := some { shares := some 9 } } true] }),
   (str "30-c", { updates := [updOf (str "c0") { cpu := some { quota := some 4 } }] }),
   (str "40-d", { })]

/-- **Every position, update requests.** The state in which the `i`-th plugin of an update
    request of `id` is called shows, as the requested resources, what the specification walk
    over the update lists of plugins `0 … i−1` yields for `id`, from the base `normRes req` for
    `id` (and `normRes {}` for every other container): the requested resources overlaid, in
    order, with exactly the earlier updates of `id` that were applied; an ignore-failure update
    that hit a taken field contributes nothing. Structural equality of `Resources`. -/
theorem C04_update (id : Cid) (req : Resources) (rs : List (Plugin × Response)) (i : Nat) (s : State)
    (h : (viewsAlong Quirks.fixed (initUpdate id req) (answeredAll rs))[i]? = some s) :
    s.reqRes = (walk (specBase (.update id) req) (rs.take i)).get (specBase (.update id) req) id := by
  have hrun := viewsAlong_run _ _ _ i s h
  rw [answeredAll_take] at hrun
  obtain ⟨rel, _⟩ := run_rel (baseOf (initUpdate id req)) (rs.take i) (initUpdate id req) s {}
    (rel_fresh _ rfl rfl) (entOK_fresh _ rfl rfl) hrun
  rw [← walk_eq, baseOf_initUpdate] at rel
  rw [rel.vals id]
  have hk : s.kind = .update id := run_kind _ _ s _ hrun
  unfold updBase
  simp [hk, isOwn]

-- 40-d, the fourth plugin, is shown limit 3 / quota 4 / pids 5 and no cpu shares: the walk over
-- the first three plugins
example :
    ((viewsAlong Quirks.fixed (initUpdate (str "c0") { pids := some 5 }) (answeredAll chain4))[3]?.map fun s =>
      (decide (s.reqRes = (walk (specBase (.update (str "c0")) { pids := some 5 }) (chain4.take 3)).get
                 (specBase (.update (str "c0")) { pids := some 5 }) (str "c0")),
       (s.reqRes.memory.getD {}).limit, (s.reqRes.cpu.getD {}).shares, (s.reqRes.cpu.getD {}).quota, s.reqRes.pids))
    = some (true, some 3, none, some 4, some 5) := by decide

/-- **C04 for a whole update request**: every position of the chain, from the collector's
    initial state. -/
theorem C04_update_request (id : Cid) (req : Resources) (rs : List (Plugin × Response)) :
    ∀ (i : Nat) (s : State),
      (viewsAlong Quirks.fixed (initUpdate id req) (answeredAll rs))[i]? = some s →
      s.reqRes = (walk (specBase (.update id) req) (rs.take i)).get (specBase (.update id) req) id :=
  fun i s h => C04_update id req rs i s h

-- 30-c, the third plugin, is shown limit 3 and pids 5, neither the dropped limit 8 nor cpu shares
example :
    ((viewsAlong Quirks.fixed (initUpdate (str "c0") { pids := some 5 }) (answeredAll chain4))[2]?.map fun s =>
      (decide (s.reqRes = (walk (specBase (.update (str "c0")) { pids := some 5 }) (chain4.take 2)).get
                 (specBase (.update (str "c0")) { pids := some 5 }) (str "c0")),
       (s.reqRes.memory.getD {}).limit, (s.reqRes.cpu.getD {}).shares, (s.reqRes.cpu.getD {}).quota, s.reqRes.pids))
    = some (true, some 3, none, none, some 5) := by decide

/-- **Every position, chains with unsubscribed or dropped plugins.** Position `i` of a chain in
    which some plugins do not answer: the walk runs over the plugins before `i` that did. -/
theorem C04_update_dropped (id : Cid) (req : Resources) (rs : List (Plugin × Option Response)) (i : Nat)
    (s : State)
    (h : (viewsAlong Quirks.fixed (initUpdate id req) rs)[i]? = some s) :
    s.reqRes = (walk (specBase (.update id) req) (answered (rs.take i))).get (specBase (.update id) req) id := by
  have hrun := viewsAlong_run _ _ _ i s h
  rw [run_answered] at hrun
  obtain ⟨rel, _⟩ := run_rel (baseOf (initUpdate id req)) (answered (rs.take i)) (initUpdate id req) s {}
    (rel_fresh _ rfl rfl) (entOK_fresh _ rfl rfl) hrun
  rw [← walk_eq, baseOf_initUpdate] at rel
  rw [rel.vals id]
  have hk : s.kind = .update id := run_kind _ _ s _ hrun
  unfold updBase
  simp [hk, isOwn]

-- chain4 with an unsubscribed plugin after the first: position 4 is 40-d again
example :
    let rs : List (Plugin × Option Response) :=
      (answeredAll (chain4.take 1)) ++ (str "15-x", none) :: answeredAll (chain4.drop 1)
    (answered (rs.take 4)).map (fun x => (x.1, x.2.updates)) = (chain4.take 3).map (fun x => (x.1, x.2.updates)) ∧
    ((viewsAlong Quirks.fixed (initUpdate (str "c0") { pids := some 5 }) rs)[4]?.map fun s =>
      (decide (s.reqRes = (walk (specBase (.update (str "c0")) { pids := some 5 }) (answered (rs.take 4))).get
                 (specBase (.update (str "c0")) { pids := some 5 }) (str "c0")),
       (s.reqRes.memory.getD {}).limit, (s.reqRes.cpu.getD {}).shares, (s.reqRes.cpu.getD {}).quota, s.reqRes.pids))
    = some (true, some 3, none, some 4, some 5) := by decide

/-! ### the hypotheses are satisfiable -/

-- third plugin of a chain: sees p0's annotation removed by p1 and p1's mount
example :
    ((viewsAlong Quirks.fixed (initCreate { id := str "c0", annotations := [(str "orig", str "x")] })
      [(str "10-a", some { adjust := some { annotations := [(str "k", str "v")] } }),
       (str "20-b", some { adjust := some { annotations := [(str "-k", [])], mounts := [{ destination := str "/m" }] } }),
       (str "30-c", some { })])[2]?.map fun s => (s.view.annotations, s.view.mounts.map (·.destination)))
    = some ([(str "orig", str "x")], [str "/m"]) := by decide


/-! ## The view agrees with the result combined so far -/

open Nri.Compose

/-- **One adjustment: the NRI-level overlay simulates the generator.**  If the container `c`
    a plugin was shown simulates the spec `x` (`ViewSim` = `ViewAgrees` + what keeps it going),
    `a` is well-formed, requests no memory limit 0, sets no key twice and only hugepage sizes
    `c` does not have (`StepFresh`; guaranteed by the ledger for every accepted adjustment),
    then what the NEXT plugin is shown, `overlayContainer c a`, simulates
    `Generator.Adjust x (toGen a)`. -/
theorem C04_overlay_simulates {ext : Generate.Externals} {bad : List Str}
    (hi : ext.injectCDI = some (Generate.recordingInjector bad) ∨ ext.injectCDI = none)
    (c : Container) (x x' : Oci.Spec) (a : Adjustment)
    (hsim : ViewSim c x) (hwf : WellFormed a) (hz : limitNonzero a = true) (hf : StepFresh c a)
    (h : Generate.adjust ext x (toGen a) = .ok x') :
    ViewSim (overlayContainer c a) x' :=
  viewSim_step hi c x x' a hsim hwf hz hf h

/-- the instance from a container's own spec: `toSpec`-then-generate agrees with
    overlay-then-`toSpec`, in the sense of `ViewAgrees` -/
theorem C04_overlay_agrees {ext : Generate.Externals} {bad : List Str}
    (hi : ext.injectCDI = some (Generate.recordingInjector bad) ∨ ext.injectCDI = none)
    (c : Container) (hc : SpecWF (toSpec c)) (a : Adjustment)
    (hwf : WellFormed a) (hz : limitNonzero a = true) (hf : StepFresh c a) (x' : Oci.Spec)
    (h : Generate.adjust ext (toSpec c) (toGen a) = .ok x') :
    ViewAgrees (overlayContainer c a) x' :=
  (viewSim_step hi c (toSpec c) x' a (viewSim_self c hc) hwf hz hf h).toViewAgrees

/-- **C04, last sentence.** For every original container `c0` (with a well-formed spec), every
    chain `rs` whose adjustments satisfy `ViewGuard c0`, every position `i`: let `s` be the
    state in which plugin `i` is called — `s.view` what it is shown, `s.reply` the result
    combined so far.  (1) Whatever spec `sC` the generator makes of the original spec with
    `s.reply`, the view agrees with it; (2) the generator does accept `s.reply` whenever it
    accepts the adjustments of plugins `0 … i−1` one after another. -/
theorem C04_view_agrees {ext : Generate.Externals} {bad : List Str}
    (hi : ext.injectCDI = some (Generate.recordingInjector bad) ∨ ext.injectCDI = none)
    (c0 : Container) (rs : List (Plugin × Option Response)) (hs0 : SpecWF (toSpec c0))
    (hg : ∀ a ∈ adjsOf rs, ViewGuard c0 a) (i : Nat) (s : State)
    (h : (viewsAlong Quirks.fixed (initCreate c0) rs)[i]? = some s) :
    (∀ sC, Generate.adjust ext (toSpec c0) (toGen s.reply) = .ok sC → ViewAgrees s.view sC) ∧
    ((∃ sS, seqAdjust ext (toSpec c0) ((adjsOf (rs.take i)).map toGen) = .ok sS) →
      ∃ sC, Generate.adjust ext (toSpec c0) (toGen s.reply) = .ok sC) :=
  view_agrees hi c0 rs hs0 hg i s h

/-- without external functions (no CDI injector, no class resolvers) the generator accepts
    every combined reply of a guarded chain, so the agreement is unconditional -/
theorem C04_view_agrees_plain (c0 : Container) (rs : List (Plugin × Option Response))
    (hs0 : SpecWF (toSpec c0)) (hg : ∀ a ∈ adjsOf rs, ViewGuard c0 a) (i : Nat) (s : State)
    (h : (viewsAlong Quirks.fixed (initCreate c0) rs)[i]? = some s) :
    ∃ sC, Generate.adjust {} (toSpec c0) (toGen s.reply) = .ok sC ∧ ViewAgrees s.view sC := by
  have hi : ({} : Generate.Externals).injectCDI = some (Generate.recordingInjector []) ∨
      ({} : Generate.Externals).injectCDI = none := .inr rfl
  have hrun := viewsAlong_run _ _ _ i s h
  have hg' : ∀ a ∈ adjsOf (rs.take i), ViewGuard c0 a := fun a ha => hg a (mem_adjsOf_take rs i a ha)
  obtain ⟨hm0, _, _⟩ := specWF_parts _ hs0
  have hseq : ∃ sS, seqAdjust {} (toSpec c0) ((adjsOf (rs.take i)).map toGen) = .ok sS := by
    have gen : ∀ (as : List Adjustment) (x : List Str) (b : Option Nat) (r : Option Str),
        foldE (cdiG false []) x as = .ok x ∧ foldE (blockioG none) b as = .ok b ∧ foldE (rdtG none) r as = .ok r := by
      intro as
      induction as with
      | nil => intro x b r; exact ⟨rfl, rfl, rfl⟩
      | cons a rest ih =>
        intro x b r
        obtain ⟨i1, i2, i3⟩ := ih x b r
        refine ⟨?_, ?_, ?_⟩
        · simp only [foldE, cdiG, Generate.cdiAfter, Bool.not_false, Bool.true_or, if_true]; exact i1
        · have : blockioG none b a = .ok b := by
            unfold blockioG Generate.Resources.applyBlockIO; cases (toGen a).blockioClass <;> rfl
          simp only [foldE, this]; exact i2
        · have : rdtG none r a = .ok r := by
            unfold rdtG Generate.Resources.applyRdt; cases (toGen a).rdtClass <;> rfl
          simp only [foldE, this]; exact i3
    obtain ⟨g1, g2, g3⟩ := gen (adjsOf (rs.take i)) (toSpec c0).cdi (toSpec c0).blockio (toSpec c0).rdt
    exact seq_of_parts hi _ (fun a ha => wellFormed_noProp a (hg' a ha).wf) (toSpec c0) hm0 _ _ _ g1 g2 g3
  obtain ⟨h1, h2⟩ := view_agrees hi c0 rs hs0 hg i s h
  obtain ⟨sC, hC⟩ := h2 hseq
  exact ⟨sC, hC, h1 sC hC⟩

/-! ### non-vacuity: a five-entry chain (one plugin not subscribed) touching every family -/

def vC0 : Container :=
  { id := str "c0"
    annotations := [(str "keep", str "1"), (str "drop", str "2")]
    args := [str "sh"]
    env := [str "PATH=/bin", str "OLD=1"]
    mounts := [{ destination := str "/b" }, { destination := str "/a" }]
    devices := [{ path := str "/dev/null", type := str "c", major := 1, minor := 3 }]
    rlimits := [{ type := str "RLIMIT_NOFILE", hard := 10, soft := 5 }]
    resources := { hugepages := [{ pageSize := str "2MB", limit := 1 }], unified := [(str "u0", str "x")] } }

def vA0 : Adjustment :=
  { annotations := [(str "k0", str "v0"), (str "-drop", [])]
    mounts := [{ destination := str "/m0" }, { destination := str "-/a" }]
    env := [{ key := str "FOO", value := str "1" }, { key := str "-OLD" }]
    hooks := some { prestart := [{ path := str "/bin/h0" }] }
    hasLinux := true
    devices := [{ path := str "/dev/x", type := str "c", major := 1, minor := 2 }]
    resources := some { memory := some { limit := some 100 }, cpu := some { shares := some 5 },
                        hugepages := [{ pageSize := str "1GB", limit := 4 }],
                        unified := [(str "u", str "1")], pids := some 7 }
    cgroupsPath := str "/cg0"
    oomScoreAdj := some 5
    rlimits := [{ type := str "RLIMIT_CORE", hard := 2, soft := 1 }]
    args := [str "a0"] }

def vA2 : Adjustment :=
  { annotations := [(str "-k0", []), (str "k0", str "v2"), (str "k2", str "w")]
    mounts := [{ destination := str "-/m0" }, { destination := str "/m0", type := str "tmpfs" },
               { destination := str "/c/d" }]
    env := [{ key := str "-FOO" }, { key := str "FOO", value := str "2" }, { key := str "BAR", value := str "3" }]
    hasLinux := true
    devices := [{ path := str "-/dev/x" }, { path := str "/dev/x", type := str "c", major := 5, minor := 6 },
                { path := str "-/dev/null" }]
    resources := some { cpu := some { quota := some 9 } }
    args := [[], str "b0", str "b1"] }

def vA3 : Adjustment :=
  { env := [{ key := str "PATH", value := str "/usr/bin" }],
    rlimits := [{ type := str "RLIMIT_NPROC", hard := 4, soft := 3 }] }

def vChain : List (Plugin × Option Response) :=
  [(str "00-a", some { adjust := some vA0 }), (str "10-b", none), (str "20-c", some { adjust := some vA2 }),
   (str "30-d", some { adjust := some vA3 }), (str "40-e", some {})]

/-- the hypotheses of `C04_view_agrees` / `C04_view_agrees_plain` hold for the demo chain at
    its last position (the fifth plugin is called: `viewsAlong` has an entry there) -/
example :
    specWF (toSpec vC0) = true ∧ (adjsOf vChain).all (viewGuard vC0) = true ∧
    ((viewsAlong Quirks.fixed (initCreate vC0) vChain)[4]?).isSome = true := by decide

/-- … and what it says there is not trivial: the fifth plugin is shown the environment in the
    order [FOO, BAR, PATH] while the generator, given the reply combined so far, produces
    [PATH, FOO, BAR] (same finite map); mounts, devices, args, hugepages, memory limit agree as
    `ViewAgrees` says; the spec's memory swap (100) is not shown in the view (outside the
    relation) -/
example :
    (((viewsAlong Quirks.fixed (initCreate vC0) vChain)[4]?).bind fun s =>
      match Generate.adjust {} (toSpec vC0) (toGen s.reply) with
      | .ok sC => some (s.view.env, sC.env, sC.mounts.map Oci.Mount.destination)
      | .error _ => none) =
    some ([str "FOO=2", str "BAR=3", str "PATH=/usr/bin"], [str "PATH=/usr/bin", str "FOO=2", str "BAR=3"],
          [str "/b", str "/m0", str "/c/d"]) := by decide

example :
    (((viewsAlong Quirks.fixed (initCreate vC0) vChain)[4]?).bind fun s =>
      match Generate.adjust {} (toSpec vC0) (toGen s.reply) with
      | .ok sC => some (decide (sC.devices = s.view.devices.map devConv), decide (sC.args = s.view.args),
          decide (sC.hugepages = s.view.resources.hugepages.map ociHugepage),
          decide (sC.memory.limit = some 100 ∧ (s.view.resources.memory.getD {}).limit = some 100),
          decide (sC.memory.swap = some 100 ∧ (s.view.resources.memory.getD {}).swap = none))
      | .error _ => none) = some (true, true, true, true, true) := by decide

/-- non-vacuity of `C04_overlay_simulates` / `C04_overlay_agrees`: the first adjustment of the
    demo on the original container -/
example :
    specWF (toSpec vC0) = true ∧ wellFormed vA0 = true ∧ limitNonzero vA0 = true ∧
    (match Generate.adjust {} (toSpec vC0) (toGen vA0) with | .ok _ => true | .error _ => false) = true := by
  decide

example : StepFresh vC0 vA0 := by
  constructor <;> decide

/-! ### witnesses: the weakenings and the extra guards are forced -/

/-- the view after one adjustment and the spec the generator makes of the original spec with
    that adjustment -/
def viewAndSpec (c0 : Container) (a : Adjustment) : Option (Container × Oci.Spec) :=
  match Generate.adjust {} (toSpec c0) (toGen a) with
  | .ok s => some (overlayContainer c0 a, s)
  | .error _ => none

/-- environment: a re-set variable is appended in the view, replaced in place by the generator -/
theorem view_env_order_differs :
    (viewAndSpec { id := str "c", env := [str "A=1", str "B=2"] }
        { env := [{ key := str "-A" }, { key := str "A", value := str "3" }] }).map
      (fun (c, s) => (c.env, s.env)) = some ([str "B=2", str "A=3"], [str "A=3", str "B=2"]) := by decide

/-- mounts: the view appends, the generator sorts -/
theorem view_mounts_order_differs :
    (viewAndSpec { id := str "c", mounts := [{ destination := str "/b" }] }
        { mounts := [{ destination := str "/a" }] }).map
      (fun (c, s) => (c.mounts.map Mount.destination, s.mounts.map Oci.Mount.destination)) =
    some ([str "/b", str "/a"], [str "/a", str "/b"]) := by decide

/-- memory: the container shows every field a plugin set; the generator applies only the
    limit, and applies it to the swap limit as well -/
theorem view_memory_other_fields_differ :
    (viewAndSpec { id := str "c" }
        { hasLinux := true, resources := some { memory := some { limit := some 100, reservation := some 5 } } }).map
      (fun (c, s) => (decide ((c.resources.memory.getD {}).limit = some 100 ∧ s.memory.limit = some 100),
                      decide ((c.resources.memory.getD {}).swap = none ∧ s.memory.swap = some 100),
                      decide ((c.resources.memory.getD {}).reservation = some 5 ∧ s.memory.reservation = none))) =
    some (true, true, true) := by decide

/-- guard `limitNonzero` (known finding C13:memory:limit-zero): a requested limit of 0 is shown
    to the next plugin but never applied by the generator -/
theorem guard_view_limit_zero :
    (viewAndSpec { id := str "c", resources := { memory := some { limit := some 7 } } }
        { hasLinux := true, resources := some { memory := some { limit := some 0 } } }).map
      (fun (c, s) => ((c.resources.memory.getD {}).limit, s.memory.limit)) = some (some 0, some 7) := by decide

/-- guard `hugeFresh`: a page size the original already has — the view lists both entries, the
    generator overwrites the first in place -/
theorem guard_view_hugepage_in_original :
    (viewAndSpec { id := str "c", resources := { hugepages := [{ pageSize := str "2MB", limit := 1 }] } }
        { hasLinux := true, resources := some { hugepages := [{ pageSize := str "2MB", limit := 4 }] } }).map
      (fun (c, s) => (c.resources.hugepages.map (fun h => (h.pageSize, h.limit)),
                      s.hugepages.map (fun h => (h.pageSize, h.limit)))) =
    some ([(str "2MB", 1), (str "2MB", 4)], [(str "2MB", 4)]) := by decide

/-- `StepFresh` (what the ledger guarantees) is needed by the per-adjustment simulation: an
    adjustment that sets one variable twice — which the collector rejects — is read differently
    by the overlay (first entry) and the generator (last entry) -/
theorem overlay_needs_distinct_sets :
    (viewAndSpec { id := str "c" }
        { env := [{ key := str "A", value := str "1" }, { key := str "A", value := str "2" }] }).map
      (fun (c, s) => (Generate.Env.lookup c.env (str "A"), Generate.Env.lookup s.env (str "A"))) =
    some (some (str "1"), some (str "2")) ∧
    (match run Quirks.fixed (initCreate { id := str "c" })
        [(str "00", some { adjust := some { env := [{ key := str "A", value := str "1" }, { key := str "A", value := str "2" }] } })] with
     | .ok _ => false | .error _ => true) = true := by decide

end Nri.Props.C04
