import NriModel.Lemmas.ResultView
import NriModel.Lemmas.ResultWalkRel
/-!
# C04 — each plugin sees the container exactly as the earlier plugins left it

Model `Nri.Result`; specification `Nri.Overlay.overlayContainer` (the NRI-level reading of an
adjustment: entries whose key is removed or set again go, the set entries are appended;
scalars given replace, scalars not given stay).

`viewsAlong` lists the states in which the plugins of a chain are called, i.e. what each is
shown. Proved for every original container, every chain and every position:
the first plugin is shown the runtime's original (`C04_first_create`, `C04_first_update`);
plugin *i* is shown the original overlaid with the adjustments of plugins 0 … i−1 in order
(`C04_create`); in update requests the resources shown change only by applied updates of the
container being updated (`C04_update_step`), and plugin *i* is shown exactly what the
state-free specification walk (`Nri.UpdateWalk.walk`, the value the correspondence run's
`specC04` evaluates) yields for the updated container over the plugins before it
(`C04_update`; hypothesis: no ignore-failure update names one item twice, implied by the
driver's guard).

Not proved (partial): the last sentence of the property — that the view also equals the
overlay of the *combined reply so far* on the original — is the reply/view simulation of C03;
it is evaluated on every generated chain by the C03/C04 correspondence runs.
-/
namespace Nri.Props.C04
open Nri Nri.NApi Nri.Result Nri.Ledger Nri.Overlay Nri.UpdateWalk

/-- the adjustment part of each chain element (`none` for an absent response or adjustment) -/
def adjOf : Plugin × Option Response → Option Adjustment
  | (_, some r) => r.adjust
  | (_, none) => none

/-- **First plugin, creation.** The first plugin is shown the container the runtime
    submitted (nil sections normalised to empty ones, which protobuf does not distinguish). -/
theorem C04_first_create (c0 : Container) (x) (rest) :
    ((viewsAlong Quirks.fixed (initCreate c0) (x :: rest)).head?.map (·.view)) =
      some { c0 with resources := normRes c0.resources } := by
  obtain ⟨p, r⟩ := x
  cases r with
  | none => rfl
  | some r =>
    simp only [viewsAlong]
    cases apply Quirks.fixed (initCreate c0) p r <;> rfl

/-- **First plugin, update.** The first plugin is shown the resources the runtime asked for. -/
theorem C04_first_update (id : Cid) (req : Resources) (x) (rest) :
    ((viewsAlong Quirks.fixed (initUpdate id req) (x :: rest)).head?.map (·.reqRes)) = some (normRes req) := by
  obtain ⟨p, r⟩ := x
  cases r with
  | none => rfl
  | some r =>
    simp only [viewsAlong]
    cases apply Quirks.fixed (initUpdate id req) p r <;> rfl

/-- **Every position, creation.** The state in which the `i`-th plugin of a chain is called
    shows the starting view overlaid, in order, with the adjustments of the plugins before it. -/
theorem C04_create (rs : List (Plugin × Option Response)) :
    ∀ (st : State) (id : Cid), st.kind = .create id →
    ∀ (i : Nat) (s : State), (viewsAlong Quirks.fixed st rs)[i]? = some s →
      s.view = overlayAll st.view ((rs.take i).map adjOf) := by
  induction rs with
  | nil => intro st id _ i s h; simp [viewsAlong] at h
  | cons x rest ih =>
    intro st id hk i s h
    obtain ⟨p, r⟩ := x
    cases r with
    | none =>
      simp only [viewsAlong] at h
      cases i with
      | zero => simp at h; subst h; rfl
      | succ n =>
        simp at h
        have := ih st id hk n s h
        simpa [overlayAll, adjOf] using this
    | some r =>
      simp only [viewsAlong] at h
      cases h1 : apply Quirks.fixed st p r with
      | error e =>
        rw [h1] at h
        cases i with
        | zero => simp at h; subst h; rfl
        | succ n => simp at h
      | ok st1 =>
        rw [h1] at h
        cases i with
        | zero => simp at h; subst h; rfl
        | succ n =>
          simp at h
          have hk1 : st1.kind = .create id := by rw [apply_kind _ st st1 p r h1]; exact hk
          have := ih st1 id hk1 n s h
          rw [this, apply_view_create st st1 p r id hk h1]
          simp only [List.take_succ_cons, List.map_cons, overlayAll, List.foldl_cons, adjOf]
          rfl

/-- **C04 for a whole creation request**: from the collector's initial state. -/
theorem C04_create_request (c0 : Container) (rs : List (Plugin × Option Response)) (i : Nat) (s : State)
    (h : (viewsAlong Quirks.fixed (initCreate c0) rs)[i]? = some s) :
    s.view = overlayAll { c0 with resources := normRes c0.resources } ((rs.take i).map adjOf) :=
  C04_create rs (initCreate c0) c0.id rfl i s h

/-- **Update requests, per applied update.** The resources shown to later plugins change
    exactly when an update of the container being updated is applied, and then to the
    previous ones overlaid with that update. -/
theorem C04_update_step (st st1 : State) (p : Plugin) (u : Update) (r : Resources) (id : Cid)
    (hk : st.kind = .update id) (hu : u.resources = some r)
    (hg : getUpdate Quirks.fixed st p u = .ok st1) (o : Owners)
    (hc : claimAllPartial u.containerId p st1.owners (updSets Quirks.fixed st1 u) = (o, none)) :
    ∃ st', update1 Quirks.fixed st p u = .ok st' ∧
      st'.reqRes = (if u.containerId = id then overlayRes st.reqRes r r.pids else st.reqRes) := by
  rcases update1_cases Quirks.fixed st p u with ⟨e', hg', _⟩ | ⟨st1', hg', h2⟩
  · rw [hg] at hg'; cases hg'
  · rw [hg] at hg'; cases hg'
    rcases h2 with ⟨o', hc', hu'⟩ | ⟨o', e', hc', _⟩
    · refine ⟨_, hu', ?_⟩
      have hk1 : st1.kind = .update id := by rw [(getUpdate_owners _ st st1 p u hg).2]; exact hk
      have hr1 : st1.reqRes = st.reqRes := (getUpdate_view _ st st1 p u hg).2.1
      simp only [updData, hu, setEntryRes, updBase, isOwn, hk1, updPids, Quirks.fixed]
      by_cases hid : u.containerId = id
      · simp [hid, hr1]
      · have hid' : ¬ id = u.containerId := fun h => hid h.symm
        simp [hid, hid', hr1]
    · rw [hc] at hc'; cases hc'


-- the chain of the examples below: an update request of c0 (requested pids 5), four plugins.
-- 10-a sets the memory limit of c0; 20-b's ignore-failure update of c0 names the memory limit
-- (taken) and cpu shares: dropped in its entirety; 30-c sets cpu quota of c0; 40-d sends nothing.
private def updOf (id : Str) (r : Resources) (ign : Bool := false) : Update :=
  { containerId := id, resources := some r, ignoreFailure := ign }

private def chain4 : List (Plugin × Response) :=
  [(str "10-a", { updates := [updOf (str "ctrA") { pids := some 1 }, updOf (str "c0") { memory := some { limit := some 3 } }] }),
   (str "20-b", { updates := [updOf (str "c0") { memory := some { limit := some 8 }, cpu := some { shares := some 9 } } true] }),
   (str "30-c", { updates := [updOf (str "c0") { cpu := some { quota := some 4 } }] }),
   (str "40-d", { })]

/-- **Every position, update requests.** The state in which the `i`-th plugin of an update
    request of `id` is called shows, as the requested resources, what the specification walk
    over the update lists of plugins `0 … i−1` yields for `id`, from the base `normRes req` for
    `id` (and `normRes {}` for every other container): the requested resources overlaid, in
    order, with exactly the earlier updates of `id` that were applied; an ignore-failure update
    that hit a taken field contributes nothing. Structural equality of `Resources`. -/
theorem C04_update (id : Cid) (req : Resources) (rs : List (Plugin × Response)) (i : Nat) (s : State)
    (h : (viewsAlong Quirks.fixed (initUpdate id req) (answeredAll rs))[i]? = some s) :
    s.reqRes = (walk (specBase (.update id) req) (rs.take i)).get (specBase (.update id) req) id := by
  have hrun := viewsAlong_run _ _ _ i s h
  rw [answeredAll_take] at hrun
  obtain ⟨rel, _⟩ := run_rel (baseOf (initUpdate id req)) (rs.take i) (initUpdate id req) s {}
    (rel_fresh _ rfl rfl) (entOK_fresh _ rfl rfl) hrun
  rw [← walk_eq, baseOf_initUpdate] at rel
  rw [rel.vals id]
  have hk : s.kind = .update id := run_kind _ _ s _ hrun
  unfold updBase
  simp [hk, isOwn]

-- 40-d, the fourth plugin, is shown limit 3 / quota 4 / pids 5 and no cpu shares: the walk over
-- the first three plugins
example :
    ((viewsAlong Quirks.fixed (initUpdate (str "c0") { pids := some 5 }) (answeredAll chain4))[3]?.map fun s =>
      (decide (s.reqRes = (walk (specBase (.update (str "c0")) { pids := some 5 }) (chain4.take 3)).get
                 (specBase (.update (str "c0")) { pids := some 5 }) (str "c0")),
       (s.reqRes.memory.getD {}).limit, (s.reqRes.cpu.getD {}).shares, (s.reqRes.cpu.getD {}).quota, s.reqRes.pids))
    = some (true, some 3, none, some 4, some 5) := by decide

/-- **C04 for a whole update request**: every position of the chain, from the collector's
    initial state. -/
theorem C04_update_request (id : Cid) (req : Resources) (rs : List (Plugin × Response)) :
    ∀ (i : Nat) (s : State),
      (viewsAlong Quirks.fixed (initUpdate id req) (answeredAll rs))[i]? = some s →
      s.reqRes = (walk (specBase (.update id) req) (rs.take i)).get (specBase (.update id) req) id :=
  fun i s h => C04_update id req rs i s h

-- 30-c, the third plugin, is shown limit 3 and pids 5, neither the dropped limit 8 nor cpu shares
example :
    ((viewsAlong Quirks.fixed (initUpdate (str "c0") { pids := some 5 }) (answeredAll chain4))[2]?.map fun s =>
      (decide (s.reqRes = (walk (specBase (.update (str "c0")) { pids := some 5 }) (chain4.take 2)).get
                 (specBase (.update (str "c0")) { pids := some 5 }) (str "c0")),
       (s.reqRes.memory.getD {}).limit, (s.reqRes.cpu.getD {}).shares, (s.reqRes.cpu.getD {}).quota, s.reqRes.pids))
    = some (true, some 3, none, none, some 5) := by decide

/-- **Every position, chains with unsubscribed or dropped plugins.** Position `i` of a chain in
    which some plugins do not answer: the walk runs over the plugins before `i` that did. -/
theorem C04_update_dropped (id : Cid) (req : Resources) (rs : List (Plugin × Option Response)) (i : Nat)
    (s : State)
    (h : (viewsAlong Quirks.fixed (initUpdate id req) rs)[i]? = some s) :
    s.reqRes = (walk (specBase (.update id) req) (answered (rs.take i))).get (specBase (.update id) req) id := by
  have hrun := viewsAlong_run _ _ _ i s h
  rw [run_answered] at hrun
  obtain ⟨rel, _⟩ := run_rel (baseOf (initUpdate id req)) (answered (rs.take i)) (initUpdate id req) s {}
    (rel_fresh _ rfl rfl) (entOK_fresh _ rfl rfl) hrun
  rw [← walk_eq, baseOf_initUpdate] at rel
  rw [rel.vals id]
  have hk : s.kind = .update id := run_kind _ _ s _ hrun
  unfold updBase
  simp [hk, isOwn]

-- chain4 with an unsubscribed plugin after the first: position 4 is 40-d again
example :
    let rs : List (Plugin × Option Response) :=
      (answeredAll (chain4.take 1)) ++ (str "15-x", none) :: answeredAll (chain4.drop 1)
    (answered (rs.take 4)).map (fun x => (x.1, x.2.updates)) = (chain4.take 3).map (fun x => (x.1, x.2.updates)) ∧
    ((viewsAlong Quirks.fixed (initUpdate (str "c0") { pids := some 5 }) rs)[4]?.map fun s =>
      (decide (s.reqRes = (walk (specBase (.update (str "c0")) { pids := some 5 }) (answered (rs.take 4))).get
                 (specBase (.update (str "c0")) { pids := some 5 }) (str "c0")),
       (s.reqRes.memory.getD {}).limit, (s.reqRes.cpu.getD {}).shares, (s.reqRes.cpu.getD {}).quota, s.reqRes.pids))
    = some (true, some 3, none, some 4, some 5) := by decide

/-! ### the hypotheses are satisfiable -/

-- third plugin of a chain: sees p0's annotation removed by p1 and p1's mount
example :
    ((viewsAlong Quirks.fixed (initCreate { id := str "c0", annotations := [(str "orig", str "x")] })
      [(str "10-a", some { adjust := some { annotations := [(str "k", str "v")] } }),
       (str "20-b", some { adjust := some { annotations := [(str "-k", [])], mounts := [{ destination := str "/m" }] } }),
       (str "30-c", some { })])[2]?.map fun s => (s.view.annotations, s.view.mounts.map (·.destination)))
    = some ([(str "orig", str "x")], [str "/m"]) := by decide

end Nri.Props.C04
