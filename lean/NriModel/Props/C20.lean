import NriModel.Lemmas.Plugins
import NriModel.Lemmas.PluginsNormalise
/-!
Property C20 — *sample injector plugins apply exactly what the matching annotation says*.

Theorems about `Nri.Plugins` (model of plugins/device-injector and plugins/ulimit-adjuster
launched as `10-device-injector` and `20-ulimit-adjuster` under a real `Adaptation`), for
EVERY annotation set, container name and YAML layer `Y` (the decoder is a parameter).
Only property theorems and the examples showing their hypotheses are satisfiable live here.
-/
namespace Nri.Props.C20
open Nri Nri.Plugins

/-! ### which annotation is used -/

/-- **Precedence (injector).** Of the three keys `key/container.<ctr>`, `key/pod`, `key` the
    most specific one that is present is used — also when its value is empty. -/
theorem C20_precedence (ann : Annotations) (main ctr : Str) :
    (∀ v, AList.lookup ann (containerKey main ctr) = some v → getAnnotation ann main ctr = some v) ∧
    (AList.lookup ann (containerKey main ctr) = none →
      ∀ v, AList.lookup ann (podKey main) = some v → getAnnotation ann main ctr = some v) ∧
    (AList.lookup ann (containerKey main ctr) = none → AList.lookup ann (podKey main) = none →
      getAnnotation ann main ctr = AList.lookup ann main) := by
  refine ⟨?_, ?_, ?_⟩
  · intro v h; simp [getAnnotation, firstPresent, h]
  · intro h v h2; simp [getAnnotation, firstPresent, h, h2]
  · intro h h2
    simp only [getAnnotation, firstPresent, h, h2]
    cases AList.lookup ann main <;> rfl

example : getAnnotation
    [("devices.nri.io".toList, "bare".toList), ("devices.nri.io/pod".toList, "pod".toList),
     ("devices.nri.io/container.c1".toList, "mine".toList)] deviceKey "c1".toList
    = some "mine".toList := by decide

/-- **Scope (adjuster).** The adjuster reads the container-scoped key only: pod-scoped and
    bare `ulimits.nri.containerd.io` annotations (and everything else) are never used. -/
theorem C20_adjuster_scope (Y : Yaml) (ann ann' : Annotations) (ctr : Str)
    (h : AList.lookup ann (containerKey ulimitKey ctr) = AList.lookup ann' (containerKey ulimitKey ctr)) :
    adjuster Y ann ctr = adjuster Y ann' ctr := by
  unfold adjuster parseUlimits
  rw [h]

/-- **Frame.** The outcome of a creation request depends on the pod annotations only through
    the ten keys that name this container, the pod or the bare key. -/
theorem C20_frame (Y : Yaml) (ann ann' : Annotations) (ctr : Str)
    (h : ∀ k ∈ relevantKeys ctr, AList.lookup ann k = AList.lookup ann' k) :
    create Y ann ctr = create Y ann' ctr := by
  have hk : ∀ k, k ∈ relevantKeys ctr → AList.lookup ann k = AList.lookup ann' k := h
  rw [create_eq_core, create_eq_core]
  rw [injectorAnnotation_congr (ann := ann) (ann' := ann') (main := deviceKey) (ctr := ctr)
        (hk _ (by simp [relevantKeys])) (hk _ (by simp [relevantKeys])) (hk _ (by simp [relevantKeys])),
      injectorAnnotation_congr (ann := ann) (ann' := ann') (main := cdiDeviceKey) (ctr := ctr)
        (hk _ (by simp [relevantKeys])) (hk _ (by simp [relevantKeys])) (hk _ (by simp [relevantKeys])),
      injectorAnnotation_congr (ann := ann) (ann' := ann') (main := mountKey) (ctr := ctr)
        (hk _ (by simp [relevantKeys])) (hk _ (by simp [relevantKeys])) (hk _ (by simp [relevantKeys]))]
  unfold Spec.adjusterAnnotation
  rw [hk _ (by simp [relevantKeys])]

/-- **Never another container's annotation.** Adding, changing or deleting an annotation
    addressed to a different container `c'` — of any of the four families, with any value,
    and in particular when `c'` is a prefix or an extension of `ctr` — changes nothing:
    keys are compared for EQUALITY. -/
theorem C20_other_container (Y : Yaml) (ann : Annotations) (ctr c' m v : Str)
    (hm : m ∈ mainKeys) (hne : c' ≠ ctr) :
    create Y (AList.insert ann (containerKey m c') v) ctr = create Y ann ctr ∧
    create Y (AList.erase ann (containerKey m c')) ctr = create Y ann ctr := by
  have hirr := other_container_irrelevant (m := m) (c := ctr) (c' := c') hm hne
  constructor
  · apply C20_frame
    intro k hk
    exact AList.lookup_insert_other ann _ k v (fun h => hirr (h ▸ hk))
  · apply C20_frame
    intro k hk
    exact AList.lookup_erase_other ann _ k (fun h => hirr (h ▸ hk))

-- `c1` is a proper prefix of `c12`: the annotation for `c12` is not used for `c1`
example : containerKey deviceKey "c12".toList ∉ relevantKeys "c1".toList :=
  other_container_irrelevant (by simp [mainKeys]) (by decide)

/-! ### what is applied -/

/-- **Exact conversion.** If the most specific annotations decode to `ds`, `cs`, `ms`, `us`
    (absent ⇒ empty), every rlimit name is accepted and every hard ≥ soft, then the request
    succeeds with exactly: the devices in order (zero mode/uid/gid unset), the CDI names in
    order, the mounts in order, the rlimits in order under their normalised names.
    Guard `Plain`: the described adjustment names no key twice and nothing carries the
    removal marker (otherwise the runtime's collector decides, DESIGN §6 #9/#17). -/
theorem C20_exact (Y : Yaml) (ann : Annotations) (ctr : Str)
    (ds : List Device) (cs : List Str) (ms : List Mount) (us : List Ulimit)
    (hd : Spec.described Y.devices (Spec.injectorAnnotation ann deviceKey ctr) = some ds)
    (hc : Spec.described Y.cdi (Spec.injectorAnnotation ann cdiDeviceKey ctr) = some cs)
    (hm : Spec.described Y.mounts (Spec.injectorAnnotation ann mountKey ctr) = some ms)
    (hu : Spec.described Y.ulimits (Spec.adjusterAnnotation ann ctr) = some us)
    (hok : ∀ u ∈ us, (normalise u.type).isSome ∧ u.soft ≤ u.hard)
    (a : Adjust)
    (ha : a = { devices := ds.map Device.toNRI, cdi := cs, mounts := ms,
                rlimits := us.map fun u =>
                  { type := rlimitPrefix ++ trimPrefix rlimitPrefix (toUpper u.type),
                    hard := u.hard, soft := u.soft } })
    (hp : Plain a = true) :
    create Y ann ctr = .ok a := by
  rw [create_eq_core]
  apply createCore_of_expected _ hp
  unfold expectedCore
  simp only [hd, hc, hm, hu, rlimitsOf_of_all hok, ha]

/-- the conversion of one device: the four plain fields are copied, the three optional ones
    are set iff non-zero -/
theorem C20_exact_device (d : Device) :
    d.toNRI.path = d.path ∧ d.toNRI.type = d.type ∧ d.toNRI.major = d.major ∧ d.toNRI.minor = d.minor ∧
    (d.toNRI.fileMode = if d.fileMode = 0 then none else some d.fileMode) ∧
    (d.toNRI.uid = if d.uid = 0 then none else some d.uid) ∧
    (d.toNRI.gid = if d.gid = 0 then none else some d.gid) := by
  refine ⟨rfl, rfl, rfl, rfl, ?_, ?_, ?_⟩ <;> simp only [Device.toNRI] <;> split <;> simp_all

/-- **Specification refinement.** Whenever the declarative specification `Spec.expected`
    describes a plain adjustment the request returns exactly it; a request that succeeds
    returns what the specification describes (entries carrying the removal marker aside). -/
theorem C20_refines (Y : Yaml) (ann : Annotations) (ctr : Str) :
    (∀ a, Spec.expected Y ann ctr = some a → Plain a = true → create Y ann ctr = .ok a) ∧
    (∀ r, create Y ann ctr = .ok r → ∃ a, Spec.expected Y ann ctr = some a ∧
        r.cdi = a.cdi ∧ r.rlimits = a.rlimits ∧
        r.mounts = a.mounts.filter (fun m => !marked m.destination) ∧
        r.devices = a.devices.filter (fun d => !marked d.path)) := by
  constructor
  · intro a h hp
    rw [create_eq_core]; rw [expected_eq_core] at h
    exact createCore_of_expected h hp
  · intro r h
    rw [create_eq_core] at h; rw [expected_eq_core]
    exact createCore_ok h

/-! ### all or nothing -/

/-- **All or nothing.** A malformed payload in any of the four selected annotations, an
    unknown rlimit type anywhere in the list, or a hard limit below the soft limit anywhere
    in the list fails the request; a failed request carries no adjustment at all (the result
    is `Except.error`). No guard. -/
theorem C20_all_or_nothing (Y : Yaml) (ann : Annotations) (ctr : Str)
    (h : Spec.described Y.devices (Spec.injectorAnnotation ann deviceKey ctr) = none ∨
         Spec.described Y.cdi (Spec.injectorAnnotation ann cdiDeviceKey ctr) = none ∨
         Spec.described Y.mounts (Spec.injectorAnnotation ann mountKey ctr) = none ∨
         Spec.described Y.ulimits (Spec.adjusterAnnotation ann ctr) = none ∨
         ∃ us, Spec.described Y.ulimits (Spec.adjusterAnnotation ann ctr) = some us ∧
           ∃ u ∈ us, normalise u.type = none ∨ u.hard < u.soft) :
    ∃ e, create Y ann ctr = .error e := by
  rw [create_eq_core]
  apply createCore_error_of_expected_none
  unfold expectedCore
  rcases h with h | h | h | h | ⟨us, hu, u, hin, hbad⟩
  · simp [h]
  · rw [h]; cases Spec.described Y.devices (Spec.injectorAnnotation ann deviceKey ctr) <;> rfl
  · rw [h]
    cases Spec.described Y.devices (Spec.injectorAnnotation ann deviceKey ctr) <;>
    cases Spec.described Y.cdi (Spec.injectorAnnotation ann cdiDeviceKey ctr) <;> rfl
  · rw [h]
    cases Spec.described Y.devices (Spec.injectorAnnotation ann deviceKey ctr) <;>
    cases Spec.described Y.cdi (Spec.injectorAnnotation ann cdiDeviceKey ctr) <;>
    cases Spec.described Y.mounts (Spec.injectorAnnotation ann mountKey ctr) <;> rfl
  · rw [hu]
    have hn := rlimitsOf_none_of_bad hin hbad
    cases Spec.described Y.devices (Spec.injectorAnnotation ann deviceKey ctr) <;>
    cases Spec.described Y.cdi (Spec.injectorAnnotation ann cdiDeviceKey ctr) <;>
    cases Spec.described Y.mounts (Spec.injectorAnnotation ann mountKey ctr) <;> simp [hn]

/-- … and conversely a request that succeeds had four well-formed payloads, only accepted
    rlimit names and hard ≥ soft everywhere. -/
theorem C20_ok_only_if (Y : Yaml) (ann : Annotations) (ctr : Str) (r : Adjust)
    (h : create Y ann ctr = .ok r) :
    ∃ ds cs ms us rs,
      Spec.described Y.devices (Spec.injectorAnnotation ann deviceKey ctr) = some ds ∧
      Spec.described Y.cdi (Spec.injectorAnnotation ann cdiDeviceKey ctr) = some cs ∧
      Spec.described Y.mounts (Spec.injectorAnnotation ann mountKey ctr) = some ms ∧
      Spec.described Y.ulimits (Spec.adjusterAnnotation ann ctr) = some us ∧
      Spec.rlimitsOf us = some rs ∧ r.rlimits = rs ∧ r.cdi = cs := by
  rw [create_eq_core] at h
  obtain ⟨a, ha, hcdi, hrl, _, _⟩ := createCore_ok h
  unfold expectedCore at ha
  cases h1 : Spec.described Y.devices (Spec.injectorAnnotation ann deviceKey ctr) with
  | none => simp [h1] at ha
  | some ds =>
    cases h2 : Spec.described Y.cdi (Spec.injectorAnnotation ann cdiDeviceKey ctr) with
    | none => simp [h1, h2] at ha
    | some cs =>
      cases h3 : Spec.described Y.mounts (Spec.injectorAnnotation ann mountKey ctr) with
      | none => simp [h1, h2, h3] at ha
      | some ms =>
        cases h4 : Spec.described Y.ulimits (Spec.adjusterAnnotation ann ctr) with
        | none => simp [h1, h2, h3, h4] at ha
        | some us =>
          simp only [h1, h2, h3, h4] at ha
          cases h5 : Spec.rlimitsOf us with
          | none => simp [h5] at ha
          | some rs =>
            simp only [h5] at ha
            have := Option.some.inj ha
            subst this
            exact ⟨ds, cs, ms, us, rs, rfl, rfl, rfl, rfl, h5, hrl, hcdi⟩

-- a YAML layer that rejects everything: any present device annotation fails the request
example : ∃ e, create ⟨fun _ => none, fun _ => none, fun _ => none, fun _ => none⟩
    [("devices.nri.io/pod".toList, "x".toList)] "c".toList = .error e :=
  C20_all_or_nothing _ _ _ (Or.inl (by decide))

/-! ### rlimit names -/

/-- **Normalisation** is idempotent, insensitive to case, and the `RLIMIT_` prefix (in any
    case) is optional; what is accepted is exactly the sixteen names, bare or prefixed. -/
theorem C20_normalise :
    (∀ t n, normalise t = some n → normalise n = some n) ∧
    (∀ t t', toUpper t = toUpper t' → normalise t = normalise t') ∧
    (∀ t, normalise (toUpper t) = normalise t) ∧
    (∀ t p v, v ∈ validNames → toUpper t = v → toUpper p = rlimitPrefix →
        normalise t = some (rlimitPrefix ++ v) ∧ normalise (p ++ t) = some (rlimitPrefix ++ v)) ∧
    (∀ t n, normalise t = some n ↔
        ∃ v ∈ validNames, n = rlimitPrefix ++ v ∧ (toUpper t = v ∨ toUpper t = rlimitPrefix ++ v)) := by
  refine ⟨?_, ?_, ?_, ?_, normalise_some_iff⟩
  · intro t n h
    obtain ⟨v, hv, rfl, _⟩ := (normalise_some_iff t n).mp h
    refine (normalise_some_iff _ _).mpr ⟨v, hv, rfl, Or.inr ?_⟩
    rw [toUpper_append, rlimitPrefix_upper, valid_upper v hv]
  · intro t t' h
    unfold normalise
    rw [h]
  · intro t
    unfold normalise
    rw [toUpper_idem]
  · intro t p v hv ht hp
    constructor
    · exact (normalise_some_iff _ _).mpr ⟨v, hv, rfl, Or.inl ht⟩
    · refine (normalise_some_iff _ _).mpr ⟨v, hv, rfl, Or.inr ?_⟩
      rw [toUpper_append, hp, ht]

example : normalise "nOfIlE".toList = some "RLIMIT_NOFILE".toList := by decide
example : normalise "rlimit_Core".toList = some "RLIMIT_CORE".toList := by decide
example : normalise "RLIMIT_RLIMIT_CPU".toList = none := by decide
example : normalise "FOO".toList = none := by decide

end Nri.Props.C20
