import NriModel.Basic
/-! Property theorems for C20 — placeholder until the model is written. -/
namespace Nri.Props.C20
end Nri.Props.C20
