import NriModel.Basic
/-! Property theorems for C16 — placeholder until the model is written. -/
namespace Nri.Props.C16
end Nri.Props.C16
