import NriModel.Lemmas.StubSession
import NriModel.Lemmas.StubSessionTrace
import NriModel.Lemmas.StubSessionAny
import NriModel.Lemmas.StubSessionStart
/-!
Property C16 — starting, stopping and restarting the stub terminates and leaves it usable.

Theorems about the session machine `Nri.StubSession` (`NriModel/StubSession.lean`), variant
`fixed` = `/repo/pkg/stub/stub.go` with `docs/fixes/C16-1.patch` applied. `Reach s`: `s` is
reached from the initial state by ANY history of Start (with any behaviour of the runtime
end except `stall`), Stop, Wait, connection loss, close notifications in any order and at
any time, and requests from the runtime end. The `unfixed_*` theorems are witnesses on the
transcription of the code before the patch.

What is NOT proved here: bounded *time*. "Returns" means: the step is enabled and its
result is not `blocked`; that the real calls return within a deadline is measured by the
harness on every run.
-/
namespace Nri.Props.C16
open Nri.StubSession

/-- Start always returns: in every reachable state and for every behaviour of the runtime
    end inside the domain, a `Start` call has a result, no possible result is `blocked`
    (the stub is never wedged), the result is `ok` only if the runtime end delivered the
    Configure request (scripts `ok`, `dropLate`), and then the stub is started with the new
    session established; otherwise it is an error. -/
theorem C16_start_returns {s : State} (hr : Reach s) (o : Script) (ho : o ≠ .stall) :
    s.wedged = false ∧
    (∃ r s', r ≠ .blocked ∧ step? fixed s (.start o r) = some s') ∧
    (∀ s', step? fixed s (.start o .blocked) ≠ some s') ∧
    (∀ r s', step? fixed s (.start o r) = some s' → r = .ok →
        (o = .ok ∨ o = .dropLate) ∧ s'.started = true ∧ s'.cur = s.cur + 1 ∧ s'.cur ∈ s'.estab) := by
  have hg := hr.good
  have hw := hg.notWedged
  have hiff := start_iff hw hg.connNone o
  have hnb : StartRes.blocked ∉ startPossible s o := by
    unfold startPossible startResults
    cases o <;> simp at ho ⊢ <;> (repeat' split) <;> simp_all
  refine ⟨hw, ?_, ?_, ?_⟩
  · have hne : ∃ r, r ∈ startPossible s o := by
      unfold startPossible startResults
      cases o <;> (repeat' split) <;> simp
    obtain ⟨r, hr'⟩ := hne
    have h1 := (hiff r).mpr hr'
    obtain ⟨s', hs'⟩ := Option.isSome_iff_exists.mp h1
    exact ⟨r, s', fun hb => hnb (hb ▸ hr'), hs'⟩
  · intro s' h
    exact hnb ((hiff .blocked).mp (by simp [h]))
  · intro r s' h hok
    simp only [step?, hw] at h
    rcases start_cases hg ho h with ⟨_, h1, _⟩ | ⟨_, h1, _⟩ | ⟨_, _, ⟨k, h1⟩, _⟩ | ⟨_, _, h0, _, rfl⟩ |
      ⟨_, _, h0, _, rfl⟩
    · subst h1; cases hok
    · rcases h1 with h1 | h1 <;> (subst h1; cases hok)
    · subst h1; cases hok
    · simp [h0, establish, fresh]
    · simp [h0, establish, fresh, lose, closeClient, markDead]

/-- the hypotheses of `C16_start_returns` hold in a non-trivial state: after a handshake
    dropped between registration and configuration and a session that was established,
    lost, and whose close notification is still in flight -/
example : ∃ s, Reach s ∧ s.started = true ∧ s.inflight = [1, 2] ∧ s.dead = [1, 2] :=
  ⟨_, ⟨.dialer, [.start .dropCfg (.err .closed), .start .ok .ok, .connLost], by decide, rfl⟩, rfl, rfl, rfl⟩

/-- Wait returns after a failed start, a stop, or a lost connection: the `doneC` of every
    session that is over is closed (a `Wait` blocked on it is released); `Stop` is always
    enabled and leaves the stub not started; a failed `Start` leaves it not started; a
    connection loss puts the session's close notification in flight, that notification is
    enabled, and when it runs the stub is not started; and whenever the stub is not started
    `Wait` returns at once. -/
theorem C16_wait_returns {s : State} (hr : Reach s) :
    (∀ sid, ended s sid → sid ∈ s.done) ∧
    (s.started = false → step? fixed s (.wait true) = some s) ∧
    (step? fixed s .stop = some (closeStub s) ∧ (closeStub s).started = false) ∧
    (∀ o k s', step? fixed s (.start o (.err k)) = some s' → k ≠ .already → s'.started = false) ∧
    (∀ s', step? fixed s .connLost = some s' → s'.cur = s.cur ∧ s'.cur ∈ s'.inflight) ∧
    (∀ sid, sid ∈ s.inflight → ∃ s', step? fixed s (.closeNotify sid) = some s' ∧
        (sid = s.cur → s'.started = false)) := by
  have hg := hr.good
  have hw := hg.notWedged
  refine ⟨?_, ?_, ?_, ?_, ?_, ?_⟩
  · intro sid ⟨h1, h2, h3⟩; exact hg.endedDone sid h1 h2 h3
  · intro hs; simp [step?, hw, hs]
  · refine ⟨by simp [step?, hw], ?_⟩
    unfold closeStub; split <;> simp_all
  · intro o k s' h hk
    exact start_err_not_started hw h hk
  · intro s' h
    simp only [step?, hw] at h
    simp at h
    obtain ⟨ha, rfl⟩ := h
    simp only [alive] at ha
    simp [lose, closeClient, markDead]; grind
  · intro sid hin
    refine ⟨_, by simp [step?, hw, hin]; rfl, ?_⟩
    intro hc
    simp only [fixed, hc]
    simp
    unfold closeStub; split <;> simp_all

/-- non-vacuity: a state with an ended session, an inflight notification of the current
    session (connection lost) -/
example : ∃ s, Reach s ∧ ended s 1 ∧ s.cur ∈ s.inflight ∧ s.started = true :=
  ⟨_, ⟨.dialer, [.start .refuse (.err .register), .start .ok .ok, .connLost], by decide, rfl⟩,
    by decide, by decide, by decide⟩

/-- onClose fires exactly once per session: never twice; for every session that is over the
    callback has either run once or its one notification is still in flight; nothing has
    fired or is pending for a live session; and the pending notifications can always all be
    delivered (in list order), after which every session that is over has fired exactly
    once. -/
theorem C16_onclose_once {s : State} (hr : Reach s) :
    (∀ sid, s.fired.count sid ≤ 1) ∧
    (∀ sid, ended s sid → s.fired.count sid + s.inflight.count sid = 1) ∧
    (alive s = true → s.fired.count s.cur = 0 ∧ s.inflight.count s.cur = 0) ∧
    (∃ s', run fixed s (s.inflight.map .closeNotify) = some s' ∧ Reach s' ∧ s'.inflight = [] ∧
        ∀ sid, ended s' sid → s'.fired.count sid = 1) := by
  have hg := hr.good
  refine ⟨?_, ?_, ?_, ?_⟩
  · exact List.nodup_iff_count.mp hg.fired_nodup
  · intro sid ⟨h1, h2, h3⟩
    rw [hg.fired_nodup.count, hg.infl_nodup.count]
    have := hg.endedClosed sid h1 h2 h3
    have := hg.disj sid
    grind
  · intro ha
    simp only [alive] at ha
    rw [hg.fired_nodup.count, hg.infl_nodup.count]
    grind
  · obtain ⟨s', h1, h2, h3⟩ := drain hr
    refine ⟨s', h1, h2, h3, ?_⟩
    intro sid ⟨h4, h5, h6⟩
    have hg' := h2.good
    rw [hg'.fired_nodup.count]
    have := hg'.endedClosed sid h4 h5 h6
    simp [h3] at this
    simp [this]

/-- non-vacuity: three sessions over (one fired, two in flight), none live -/
example : ∃ s, Reach s ∧ ended s 1 ∧ ended s 3 ∧ s.inflight = [2, 3] ∧ s.fired = [1] :=
  ⟨_, ⟨.dialer, [.start .ok .ok, .stop, .closeNotify 1, .start .cfgErr (.err .configure), .start .ok .ok,
        .stop], by decide, rfl⟩, by decide, by decide, rfl, rfl⟩

/-- Restartable: whenever the stub is not started (after a failed start, a stop, or the
    close notification of a lost session — see `C16_wait_returns`) and its connection source
    is not a consumed environment descriptor, a `Start` against a healthy runtime end returns
    ok — and nothing else (`r = .ok` is forced) — on a connection obtained by that very call
    and not closed, with a new session, and requests from the runtime end are answered (and
    cannot fail). -/
theorem C16_restartable {s : State} (hr : Reach s) (hs : s.started = false)
    (hsrc : s.src = .envFd → s.preUsed = false) :
    (∃ s', step? fixed s (.start .ok .ok) = some s') ∧
    (∀ r s', step? fixed s (.start .ok r) = some s' →
      r = .ok ∧ s'.started = true ∧
      s'.conn = some (s.dials + 1) ∧ s'.dials = s.dials + 1 ∧ s.dials + 1 ∉ s'.dead ∧
      s'.cur = s.cur + 1 ∧ alive s' = true ∧
      step? fixed s' (.dispatch true) = some s' ∧ step? fixed s' (.dispatch false) = none) := by
  have hg := hr.good
  have hw := hg.notWedged
  have hd : s.dials + 1 ∉ s.dead := by intro hm; have := hg.dead_rng _ hm; omega
  have h1 : s.cur + 1 ∉ s.inflight := by intro hm; have := hg.infl_rng _ hm; omega
  have h2 : s.cur + 1 ∉ s.fired := by intro hm; have := hg.fired_rng _ hm; omega
  have hposs : startPossible s .ok = [.ok] := by
    unfold startPossible startResults
    simp only [hs, Bool.false_eq_true, if_false]
    split
    · rename_i h; exact absurd (hsrc h.1) (by simp [h.2])
    · split <;> simp
  constructor
  · have := (start_iff hw hg.connNone .ok .ok).mpr (by simp [hposs])
    exact Option.isSome_iff_exists.mp this
  · intro r s' h
    have hr' : r = .ok := by
      have := (start_iff hw hg.connNone .ok r).mp (by simp [h])
      simpa [hposs] using this
    subst hr'
    simp only [step?, hw] at h
    rcases start_cases hg (by simp) h with ⟨h0, _⟩ | ⟨_, h0, _⟩ | ⟨_, _, ⟨k, h0⟩, _⟩ | ⟨pre, _, _, _, rfl⟩ |
      ⟨_, _, h0, _⟩
    · simp [hs] at h0
    · rcases h0 with h0 | h0 <;> cases h0
    · cases h0
    · simp [establish, fresh, alive, step?, hd, h1, h2]
    · cases h0

/-- … and from ANY reachable state of a stub that connects through the dialer (or was handed
    a connection with `WithConnection`) a not-started state is one `Stop` away, so the sequence
    Stop, Start (healthy runtime end), request is always possible and ends with the stub
    started. -/
theorem C16_restartable_from_any {s : State} (hr : Reach s) (hsrc : s.src ≠ .envFd) :
    ∃ s', run fixed s [.stop, .start .ok .ok, .dispatch true] = some s' ∧ s'.started = true ∧
      alive s' = true := by
  have hw := hr.good.notWedged
  have h1 : step? fixed s .stop = some (closeStub s) := by simp [step?, hw]
  have hr1 : Reach (closeStub s) := hr.step (by rfl) h1
  have hs1 : (closeStub s).started = false := by unfold closeStub; split <;> simp_all
  have hsrc1 : (closeStub s).src = .envFd → (closeStub s).preUsed = false := by
    intro h; exfalso; apply hsrc; revert h; unfold closeStub; split <;> simp [closeClient, markDead]
  obtain ⟨⟨s', h2⟩, h3⟩ := C16_restartable hr1 hs1 hsrc1
  obtain ⟨_, h4, _, _, _, _, h5, h6, _⟩ := h3 .ok s' h2
  exact ⟨s', by simp [run, h1, h2, h6], h4, h5⟩

example : ∃ s, Reach s ∧ s.started = false ∧ s.inflight = [1, 2] :=
  ⟨_, ⟨.dialer, [.start .dropReg (.err .register), .start .dropLate .ok, .stop], by decide, rfl⟩, rfl, rfl⟩

/-- A late close notification of an earlier session leaves the current session untouched:
    it only records that `onClose` ran for that earlier session. -/
theorem C16_stale_notify {s : State} (hr : Reach s) (sid : Nat) (hin : sid ∈ s.inflight)
    (hne : sid ≠ s.cur) :
    step? fixed s (.closeNotify sid) =
      some { s with inflight := s.inflight.erase sid, fired := s.fired ++ [sid] } := by
  have hw := hr.good.notWedged
  simp [step?, hw, hin, fixed, hne]

/-- Consequently an established, live session ends only by `Stop` or by the loss of its own
    connection: every other step (any `Start`, `Wait`, requests, the close notification of
    ANY session) leaves it the current session, started and alive. -/
theorem C16_live_session_stable {s s' : State} {e : Event} (hr : Reach s) (ha : alive s = true)
    (h : step? fixed s e = some s') (h1 : e ≠ .stop) (h2 : e ≠ .connLost) :
    alive s' = true ∧ s'.cur = s.cur ∧ s'.started = true ∧ s'.conn = s.conn := by
  have hg := hr.good
  have hw := hg.notWedged
  have hs : s.started = true := by simp only [alive] at ha; grind
  cases e with
  | start o r =>
    simp only [step?, hw, startStep, hs] at h
    have : s' = s := by grind
    subst this; exact ⟨ha, rfl, hs, rfl⟩
  | stop => exact absurd rfl h1
  | connLost => exact absurd rfl h2
  | closeNotify sid =>
    have hne : sid ∈ s.inflight → sid ≠ s.cur := by simp only [alive] at ha; grind
    simp only [step?, hw] at h
    by_cases hin : sid ∈ s.inflight
    · simp [hin, fixed, hne hin] at h
      subst h
      simp only [alive] at ha ⊢
      have := hne hin
      have e1 : ∀ x, x ∈ s.inflight.erase sid → x ∈ s.inflight := fun x hx => List.mem_of_mem_erase hx
      refine ⟨?_, by simp, by simp [hs], by simp⟩
      grind
    · simp [hin] at h
  | wait ret =>
    simp only [step?, hw] at h
    cases ret with
    | true => have : s' = s := by grind
              subst this; exact ⟨ha, rfl, hs, rfl⟩
    | false =>
      simp only [Bool.false_eq_true, if_false] at h
      split at h
      · simp at h; subst h; exact ⟨by simpa [alive] using ha, rfl, hs, rfl⟩
      · cases h
  | waitRet sid =>
    simp only [step?] at h
    split at h
    · simp at h; subst h; exact ⟨by simpa [alive] using ha, rfl, hs, rfl⟩
    · cases h
  | dispatch ok =>
    simp only [step?] at h
    have : s' = s := by grind
    subst this; exact ⟨ha, rfl, hs, rfl⟩

/-- non-vacuity: session 2 is live while the notification of session 1 is still in flight -/
example : ∃ s, Reach s ∧ 1 ∈ s.inflight ∧ 1 ≠ s.cur ∧ alive s = true :=
  ⟨_, ⟨.dialer, [.start .ok .ok, .stop, .start .ok .ok], by decide, rfl⟩, by decide, by decide, by decide⟩

/-! ### No other outcome is possible (exact characterisations) -/

/-- The results of `Start` are EXACTLY `startPossible s o`: "already started" when started;
    otherwise the results `startResults` lists for the runtime end's behaviour (for a healthy
    runtime end: `ok` and nothing else; for a refusal: a registration error and nothing else;
    …); for a stub whose environment descriptor is used up: an error and nothing else. -/
theorem C16_start_results {s : State} (hr : Reach s) (o : Script) (r : StartRes) :
    (∃ s', step? fixed s (.start o r) = some s') ↔ r ∈ startPossible s o := by
  have hg := hr.good
  rw [← start_iff hg.notWedged hg.connNone o r, Option.isSome_iff_exists]

/-- in particular: a not-started stub started against a healthy runtime end cannot fail -/
theorem C16_restart_only_ok {s s' : State} {r : StartRes} (hr : Reach s) (hs : s.started = false)
    (hsrc : s.src = .envFd → s.preUsed = false)
    (h : step? fixed s (.start .ok r) = some s') : r = .ok :=
  ((C16_restartable hr hs hsrc).2 r s' h).1

example : ∃ s, Reach s ∧ s.started = false ∧ startPossible s .dropLate = [.ok, .err .register, .err .closed] :=
  ⟨_, ⟨.dialer, [.start .cfgErr (.err .register)], by decide, rfl⟩, rfl, by decide⟩

/-- `Wait` returns at once exactly when the stub is not started, and blocks exactly when it
    is started: a not-started stub never blocks a `Wait` (`wait false` is impossible), a
    started one never lets it through (`wait true` is impossible). A blocking `Wait` is
    recorded as blocked on the current session. -/
theorem C16_wait_outcome {s : State} (hr : Reach s) :
    (s.started = false → step? fixed s (.wait true) = some s ∧ step? fixed s (.wait false) = none) ∧
    (s.started = true → step? fixed s (.wait true) = none ∧
      step? fixed s (.wait false) = some { s with waiting := s.waiting ++ [s.cur] }) := by
  have hg := hr.good
  have hw := hg.notWedged
  constructor
  · intro hs; simp [step?, hw, hs]
  · intro hs
    have hnd : s.cur ∉ s.done := fun hm => by
      have := (hg.done_rng _ hm).2.2 rfl; simp [hs] at this
    simp [step?, hw, hs, hnd]

example : ∃ s, Reach s ∧ s.started = true ∧ s.waiting = [1] :=
  ⟨_, ⟨.dialer, [.start .ok .ok, .wait false], by decide, rfl⟩, rfl, rfl⟩

/-- A blocked `Wait` is released exactly when the session it waits on is over: while that
    session is the live one its return is impossible; once the session is over (stopped,
    lost and notified, or torn down by a failed restart) its return is enabled; and when the
    stub is not started ALL blocked `Wait` calls can return, after which none is blocked. -/
theorem C16_wait_released {s : State} (hr : Reach s) :
    (∀ sid, sid ∈ s.waiting → 1 ≤ sid ∧ sid ≤ s.cur) ∧
    (∀ sid, sid ∈ s.waiting → ended s sid →
      step? fixed s (.waitRet sid) = some { s with waiting := s.waiting.erase sid }) ∧
    (∀ sid, sid = s.cur → s.started = true → step? fixed s (.waitRet sid) = none) ∧
    (∀ sid, sid ∉ s.waiting → step? fixed s (.waitRet sid) = none) ∧
    (s.started = false → ∃ s', run fixed s (s.waiting.map .waitRet) = some s' ∧ s'.waiting = [] ∧
      Reach s' ∧ s'.started = false) := by
  have hg := hr.good
  refine ⟨hg.waiting_rng, ?_, ?_, ?_, ?_⟩
  · intro sid hin ⟨h1, h2, h3⟩
    have := hg.endedDone sid h1 h2 h3
    simp [step?, hin, this]
  · intro sid hc hs
    have hnd : s.cur ∉ s.done := fun hm => by
      have := (hg.done_rng _ hm).2.2 rfl; simp [hs] at this
    simp [step?, hc, hnd]
  · intro sid hn; simp [step?, hn]
  · intro hs
    exact drainWaiters hr hs

example : ∃ s, Reach s ∧ s.waiting = [1, 1] ∧ ended s 1 :=
  ⟨_, ⟨.dialer, [.start .ok .ok, .wait false, .wait false, .connLost, .closeNotify 1], by decide, rfl⟩,
    rfl, by decide⟩

/-- The acceptance automaton of the driver (`closure`: deliver pending notifications in any
    order, let the pending observed operation take effect) derives only reachable states from
    reachable states: whatever observed history it accepts is explained by a run of the
    repaired machine, and every theorem above applies to every configuration it holds. -/
theorem C16_trace_sound (p : Option OpObs) (hp : ∀ pd, p = some pd → pd.inDomain = true)
    (fuel : Nat) (cs : List Cfg) (h : AllCfg Reach cs) : AllCfg Reach (closure p cs fuel) :=
  closure_reach p hp fuel cs h

/-- non-vacuity: the automaton's start configuration; and a closure that really moves (the
    pending Stop applied, then the notification it caused delivered) -/
example : AllCfg Reach [{ s := init, applied := true }] := by
  intro c hc; simp at hc; subst hc; exact init_reach .dialer
example : (closure (some .stop)
    [{ s := (establish (fresh false init)), applied := false }] 8).length = 3 := by decide

/-- Label faithfulness of the acceptance automaton: whatever state it derives for an observed
    operation is the result of the model step carrying exactly the observed label — the
    observed runtime behaviour and result for `Start` (from a state where the model predicts
    the observed dial, session and connection numbers), `stop`, `wait b`, `dispatch ok`; a late
    `Wait` return only by a `waitRet` of a session a `Wait` is blocked on; an `impossible`
    observation (blocked Stop/Wait, unknown error kind) by nothing; and a pending operation
    takes effect at most once (only from `applied = false` to `applied = true`). -/
theorem C16_trace_faithful :
    (∀ o r d sid conn s s', s' ∈ applyObs (.start o r d sid conn) s →
      step? fixed s (.start o r) = some s' ∧ wouldDial s = d ∧
      (if s'.cur = s.cur + 1 then s'.cur else 0) = sid ∧
      (if s'.dials = s.dials + 1 then s'.dials else 0) = conn) ∧
    (∀ s s', s' ∈ applyObs .stop s → step? fixed s .stop = some s') ∧
    (∀ b s s', s' ∈ applyObs (.wait b) s → step? fixed s (.wait b) = some s') ∧
    (∀ ok s s', s' ∈ applyObs (.request ok) s → step? fixed s (.dispatch ok) = some s') ∧
    (∀ conn s s', s' ∈ applyObs (.lose conn) s → s' = loseConn conn s) ∧
    (∀ s s', s' ∈ applyObs .nop s → s' = s) ∧
    (∀ s, applyObs .impossible s = []) ∧
    (∀ s s', s' ∈ releaseAny s → ∃ sid, sid ∈ s.waiting ∧ step? fixed s (.waitRet sid) = some s') ∧
    (∀ p c c', c' ∈ silent p c →
      (∃ sid, sid ∈ c.s.inflight ∧ step? fixed c.s (.closeNotify sid) = some c'.s ∧
          c'.applied = c.applied) ∨
      (∃ pd, p = some pd ∧ c.applied = false ∧ c'.applied = true ∧ c'.s ∈ applyObs pd c.s)) :=
  ⟨fun _ _ _ _ _ _ _ h => applyObs_start h,
   fun _ _ h => applyObs_faithful (p := .stop) h,
   fun _ _ _ h => applyObs_faithful (p := .wait _) h,
   fun _ _ _ h => applyObs_faithful (p := .request _) h,
   fun _ _ _ h => applyObs_faithful (p := .lose _) h,
   fun _ _ h => applyObs_faithful (p := .nop) h,
   applyObs_impossible,
   fun _ _ h => releaseAny_faithful h,
   fun _ _ _ h => silent_faithful h⟩

/-- non-vacuity: an observed Start with the wrong result, or from a state where the model
    predicts a dial but none was observed, is rejected; the right one is accepted -/
example : applyObs (.start .ok (.err .register) true 1 1) init = [] ∧
    applyObs (.start .ok .ok false 1 1) init = [] ∧
    (applyObs (.start .ok .ok true 1 1) init).length = 1 := by decide

/-! ### Pre-connected stubs (outside the property's "fresh connection"; recorded) -/

/-- A stub created with `NRI_PLUGIN_SOCKET` (every pre-installed plugin) is single-shot: its
    first `Start` takes the inherited descriptor into use without dialling; once that is used
    up, every later `Start` on the not-started stub returns an error — "invalid socket", or,
    if the process has reused the descriptor number, a registration error after adopting and
    closing a socket that is not its own — never `ok`, never `blocked`, and the stub stays
    not started. A stub created with `WithConnection` uses the given connection once (no
    dial) and the dialer afterwards. -/
theorem C16_preconnected_single_shot {s : State} (hr : Reach s) (hs : s.started = false) :
    (s.src ≠ .dialer → s.preUsed = false → wouldDial s = false) ∧
    (s.src = .given → s.preUsed = true → wouldDial s = true) ∧
    (s.src = .envFd → s.preUsed = true → ∀ o r s', step? fixed s (.start o r) = some s' →
      (r = .err .preconn ∧ s' = s) ∨ (r = .err .register ∧ s'.started = false ∧ wouldDial s = false)) := by
  have hg := hr.good
  have hw := hg.notWedged
  refine ⟨?_, ?_, ?_⟩
  · intro h1 h2; simp [wouldDial, h1, h2]
  · intro h1 h2; simp [wouldDial, hs, hg.connNone hs, h1, h2]
  · intro h1 h2 o r s' h
    have hposs := (start_iff hw hg.connNone o r).mp (by simp [h])
    simp [startPossible, hs, h1, h2] at hposs
    rcases hposs with rfl | rfl
    · left; refine ⟨rfl, ?_⟩
      simp [step?, hw, startStep, hs, hg.connNone hs, h1, h2] at h
      exact h.symm
    · right; exact ⟨rfl, start_err_not_started hw h (by simp), by simp [wouldDial, h1]⟩

example : ∃ s, Reach s ∧ s.started = false ∧ s.src = .envFd ∧ s.preUsed = true :=
  ⟨_, ⟨.envFd, [.start .ok .ok, .stop], by decide, rfl⟩, rfl, rfl, rfl⟩

/-! ### The code before the patch (witnesses; `unfixed` = all three repairs absent) -/

/-- The one part of C16 that holds in EVERY variant — also of the code before the patch, and
    also after a `stall`: no session's `onClose` fires twice, a session whose callback ran has
    no further notification pending, and only sessions that exist are notified. (What the
    code before the patch does not give is "at least once": `unfixed_start_blocks`.) -/
theorem C16_onclose_atmost_once_any (v : Variant) (src : ConnSrc) (h : List Event) (s : State)
    (hr : run v (initWith src) h = some s) (sid : Nat) :
    s.fired.count sid ≤ 1 ∧ s.fired.count sid + s.inflight.count sid ≤ 1 ∧
    (sid ∈ s.fired ∨ sid ∈ s.inflight → 1 ≤ sid ∧ sid ≤ s.cur) := by
  have hb := (book'_run v (book'_init src) h hr).toBook
  refine ⟨List.nodup_iff_count.mp hb.fired_nodup sid, ?_, ?_⟩
  · rw [hb.fired_nodup.count, hb.infl_nodup.count]
    have := hb.disj sid
    grind
  · rintro (h1 | h1)
    · exact hb.fired_rng sid h1
    · exact hb.infl_rng sid h1

example : ∃ s, run unfixed init [.start .ok .ok, .stop, .start .ok .ok, .closeNotify 1, .closeNotify 2] = some s ∧
    s.fired = [1, 2] := ⟨_, rfl, rfl⟩

/-- (a) The runtime end answers RegisterPlugin and drops the connection before configuring:
    `Start` can block forever, holding the mutex — no call of the stub is enabled any more
    (in particular the close notification never runs, so `onClose` never fires). -/
theorem unfixed_start_blocks :
    ∃ s, run unfixed init [.start .dropCfg .blocked] = some s ∧ s.wedged = true ∧ s.inflight = [1] ∧
      (∀ o r, step? unfixed s (.start o r) = none) ∧ step? unfixed s .stop = none ∧
      (∀ b, step? unfixed s (.wait b) = none) ∧ (∀ sid, step? unfixed s (.closeNotify sid) = none) ∧
      run fixed init [.start .dropCfg .blocked] = none :=
  ⟨_, rfl, rfl, rfl, fun _ _ => rfl, rfl, fun _ => rfl, fun _ => rfl, by decide⟩

/-- (b) Stop, immediate restart, then the first session's close notification arrives: it
    tears down the second session (not started, requests fail) although nobody stopped it
    and its connection is intact. The repaired machine keeps it. -/
theorem unfixed_stale_notify :
    (∃ s, run unfixed init [.start .ok .ok, .stop, .start .ok .ok, .closeNotify 1] = some s ∧
      s.started = false ∧ 2 ∈ s.estab ∧ step? unfixed s (.dispatch true) = none) ∧
    (∃ s, run fixed init [.start .ok .ok, .stop, .start .ok .ok, .closeNotify 1] = some s ∧
      s.started = true ∧ step? fixed s (.dispatch true) = some s) := by
  decide

/-- (c) After a failed start the dead connection stays recorded: the next `Start` dials
    nothing and cannot succeed, however healthy the runtime end is. -/
theorem unfixed_stale_conn :
    ∃ s, run unfixed init [.start .refuse (.err .register)] = some s ∧
      s.conn = some 1 ∧ 1 ∈ s.dead ∧
      step? unfixed s (.start .ok .ok) = none ∧
      (∃ s', step? unfixed s (.start .ok (.err .register)) = some s' ∧ s'.dials = 1 ∧ s'.started = false) ∧
      (∃ s', run fixed init [.start .refuse (.err .register), .start .ok .ok] = some s' ∧
        s'.started = true ∧ s'.conn = some 2) := by
  decide

end Nri.Props.C16
