import NriModel.Lemmas.GenerateLift
import NriModel.Lemmas.GenerateSpec
import NriModel.Lemmas.GenerateRootfs
import NriModel.Lemmas.GenerateOptions
/-!
Property C13 — applying a container adjustment to an OCI spec changes exactly what it names,
deterministically.  Theorems about `Nri.Generate.adjust` (the model of `Generator.Adjust`,
repaired code).  Throughout:

  `hext : ext.CDIFramed`            the external CDI injector only touches the ghost field `cdi`
  `h : adjust ext s a = .ok s'`     the adjustment was applied without error

Guards (each an explicit hypothesis where the proof needs it, each with a witness theorem at
the end of the file showing the conclusion fails without it):
  * `NodupKeys … s.mounts / s.devices` — original mount destinations / device paths distinct
    (`RemoveMount`/`RemoveDevice` delete only the first match); preserved by `adjust`
    (`C13_mounts_nodup_preserved`, `C13_devices_nodup_preserved`);
  * `Env.WF s.env` — original environment entries are `NAME=value` with distinct non-empty names;
    adjustment keys contain no `'='` and the name looked up is not `""`; preserved by `adjust`
    (`C13_env_wf_preserved`);
  * for "parents first": the PARENT's destination is a cleaned path (children may be unclean).
"Marked" = key starts with `'-'` (removal marker).
-/
namespace Nri.Props.C13
open Nri Nri.Api Nri.Generate
open Nri.Oci (Spec)

variable {ext : Externals} {s s' : Spec} {a : Adjustment}

/-! ## Annotations (a Go map: entries reach the generator in an arbitrary order) -/

/-- Determinism: any iteration order `π` of the annotation map gives the same annotations. -/
theorem C13_annotations_perm (ann : AList Str Str) (E π : List (Str × Str)) (hp : π.Perm E)
    (hn : AList.WF E) (k : Str) :
    AList.lookup (Annotations.apply ann π) k = AList.lookup (Annotations.apply ann E) k :=
  Annotations.lookup_apply_perm ann hp hn k

example : (([(str "-k", []), (str "k", str "new")] : List (Str × Str)).Perm
    [(str "k", str "new"), (str "-k", [])]) := List.Perm.swap _ _ _

/-- Determinism for what Go really does: the removal loop and the set loop of
    `AdjustAnnotations` each draw their OWN iteration order (`π1`, `π2`) of the same map; every
    pair of orders gives the same annotations. -/
theorem C13_annotations_two_orders (ann : AList Str Str) (E π1 π2 : List (Str × Str))
    (h1 : π1.Perm E) (h2 : π2.Perm E) (hn : AList.WF E) (k : Str) :
    AList.lookup (Annotations.applyOrders ann π1 π2) k = AList.lookup (Annotations.apply ann E) k :=
  Annotations.lookup_applyOrders ann h1 h2 hn k

example : AList.lookup (Annotations.applyOrders [(str "k", str "old")]
      [(str "k", str "new"), (str "-k", [])] [(str "-k", []), (str "k", str "new")]) (str "k")
    = some (str "new") := by decide

/-- Set wins: an unmarked entry `(k, v)` ends up as the value of `k`, also when `-k` is in the
    same adjustment, whatever the iteration order. -/
theorem C13_annotations_set_wins (hext : ext.CDIFramed) (h : adjust ext s a = .ok s')
    (hn : AList.WF a.annotations) {k v : Str} (hk : (k, v) ∈ a.annotations)
    (hm : isMarked k = false) : AList.lookup s'.annotations k = some v := by
  rw [(adjust_ok hext h).annotations, Annotations.lookup_apply]
  obtain ⟨pre, post, hsplit⟩ := List.append_of_mem hk
  have hq : Annotations.setsKey k (k, v) = true := by simp [Annotations.setsKey, hm]
  have hpost : ∀ x ∈ post, Annotations.setsKey k x = false := by
    intro x hx
    cases hxq : Annotations.setsKey k x with
    | false => rfl
    | true =>
      exfalso
      simp only [Annotations.setsKey, Bool.and_eq_true, beq_iff_eq] at hxq
      unfold AList.WF AList.keys at hn
      rw [hsplit] at hn
      simp only [List.map_append, List.map_cons] at hn
      have := (List.nodup_append.mp hn).2.1
      rw [List.nodup_cons] at this
      exact this.1 (List.mem_map.mpr ⟨x, hx, hxq.2⟩)
  rw [hsplit, lastMatch_split hq hpost, pick_some]

example : AList.lookup (Annotations.apply [(str "k", str "old")] [(str "k", str "new"), (str "-k", [])]) (str "k")
    = some (str "new") := by decide

/-- Removed: `-k` without a set of `k` leaves no annotation `k`. -/
theorem C13_annotations_removed (hext : ext.CDIFramed) (h : adjust ext s a = .ok s')
    {k v : Str} (hk : (markForRemoval k, v) ∈ a.annotations)
    (hno : ∀ e ∈ a.annotations, e.1 = k → isMarked k = true) :
    AList.lookup s'.annotations k = none := by
  rw [(adjust_ok hext h).annotations, Annotations.lookup_apply]
  have h1 : lastMatch (Annotations.setsKey k) a.annotations = none := by
    rw [lastMatch_none_iff]; intro e he
    cases hq : Annotations.setsKey k e with
    | false => rfl
    | true =>
      simp only [Annotations.setsKey, Bool.and_eq_true, Bool.not_eq_true', beq_iff_eq] at hq
      have := hno e he hq.2
      rw [← hq.2, hq.1] at this; cases this
  have h2 : a.annotations.any (Annotations.removes k) = true :=
    List.any_eq_true.mpr ⟨_, hk, by simp [Annotations.removes]⟩
  rw [h1, pick_none, h2]; rfl

/-- Frame: a key the adjustment does not name (neither `k` nor `-k`) keeps its value. -/
theorem C13_annotations_frame (hext : ext.CDIFramed) (h : adjust ext s a = .ok s') {k : Str}
    (hno : ∀ e ∈ a.annotations, stripMarker e.1 ≠ k) :
    AList.lookup s'.annotations k = AList.lookup s.annotations k := by
  rw [(adjust_ok hext h).annotations, Annotations.lookup_apply]
  have h1 : lastMatch (Annotations.setsKey k) a.annotations = none := by
    rw [lastMatch_none_iff]; intro e he
    cases hm : isMarked e.1
    · have := hno e he; rw [strip_of_not_marked hm] at this
      simp [Annotations.setsKey, hm, this]
    · simp [Annotations.setsKey, hm]
  have h2 : a.annotations.any (Annotations.removes k) = false := by
    rw [Bool.eq_false_iff]; intro hany
    obtain ⟨e, he, hq⟩ := List.any_eq_true.mp hany
    simp only [Annotations.removes, Bool.and_eq_true, beq_iff_eq] at hq
    exact hno e he hq.2
  rw [h1, pick_none, h2]; rfl

/-! ## Environment -/

/-- Set wins, env: the last unmarked entry `NAME=value` for a name is what `NAME` holds
    afterwards — wherever `-NAME` stands in the list, before or after it. -/
theorem C13_env_set_wins (hext : ext.CDIFramed) (h : adjust ext s a = .ok s')
    (hwf : Env.WF s.env) (hkeys : ∀ x ∈ a.env, '=' ∉ stripMarker x.key)
    {e : KeyValue} (he : LastSet KeyValue.key a.env e) (hk : e.key ≠ []) :
    Env.lookup s'.env e.key = some e.value := by
  have hne : a.env ≠ [] := by
    obtain ⟨_, pre, post, hL, _⟩ := he; rw [hL]; simp
  rw [(adjust_ok hext h).env, Env.lookup_apply _ _ hwf hne hkeys _ hk]
  have := he.lastMatch
  unfold Env.setsKey
  rw [this]

example : Env.lookup (Env.apply [str "FOO=old"] [⟨str "FOO", str "new"⟩, ⟨str "-FOO", []⟩]) (str "FOO")
    = some (str "new") := by decide

/-- Removed, env. -/
theorem C13_env_removed (hext : ext.CDIFramed) (h : adjust ext s a = .ok s')
    (hwf : Env.WF s.env) (hkeys : ∀ x ∈ a.env, '=' ∉ stripMarker x.key)
    {k : Str} (hk : k ≠ []) {e : KeyValue} (he : e ∈ a.env) (hek : e.key = markForRemoval k)
    (hno : ∀ x ∈ a.env, isMarked x.key = false → x.key ≠ k) :
    Env.lookup s'.env k = none := by
  have hne : a.env ≠ [] := by intro h0; rw [h0] at he; cases he
  rw [(adjust_ok hext h).env, Env.lookup_apply _ _ hwf hne hkeys _ hk]
  have h1 : lastMatch (Env.setsKey k) a.env = none := by
    rw [lastMatch_none_iff]; intro x hx
    cases hm : isMarked x.key
    · have := hno x hx hm; simp [Env.setsKey, this]
    · simp [Env.setsKey, hm]
  have h2 : a.env.any (Env.removes k) = true :=
    List.any_eq_true.mpr ⟨e, he, by simp [Env.removes, hek]⟩
  rw [h1, h2]; rfl

/-- Frame, env: a variable the adjustment does not name keeps its value … -/
theorem C13_env_frame (hext : ext.CDIFramed) (h : adjust ext s a = .ok s')
    (hwf : Env.WF s.env) (hkeys : ∀ x ∈ a.env, '=' ∉ stripMarker x.key)
    {k : Str} (hk : k ≠ []) (hno : ∀ x ∈ a.env, stripMarker x.key ≠ k) :
    Env.lookup s'.env k = Env.lookup s.env k := by
  rw [(adjust_ok hext h).env]
  by_cases hne : a.env = []
  · rw [hne]; simp [Env.apply, Env.applyWith]
  rw [Env.lookup_apply _ _ hwf hne hkeys _ hk]
  have h1 : lastMatch (Env.setsKey k) a.env = none := by
    rw [lastMatch_none_iff]; intro x hx
    cases hm : isMarked x.key
    · have := hno x hx; rw [strip_of_not_marked hm] at this
      simp [Env.setsKey, this]
    · simp [Env.setsKey, hm]
  have h2 : a.env.any (Env.removes k) = false := by
    rw [Bool.eq_false_iff]; intro hany
    obtain ⟨x, hx, hq⟩ := List.any_eq_true.mp hany
    simp only [Env.removes, Bool.and_eq_true, beq_iff_eq] at hq
    exact hno x hx hq.2
  rw [h1, h2]; rfl

/-- … and the entries of all unnamed variables come out unchanged, in their original order. -/
theorem C13_env_frame_order (hext : ext.CDIFramed) (h : adjust ext s a = .ok s')
    (hwf : Env.WF s.env) (hkeys : ∀ x ∈ a.env, '=' ∉ stripMarker x.key) :
    s'.env.filter (fun e => !(a.env.map (fun x => stripMarker x.key)).contains (Env.nameOf e)) =
    s.env.filter (fun e => !(a.env.map (fun x => stripMarker x.key)).contains (Env.nameOf e)) := by
  rw [(adjust_ok hext h).env]
  apply Env.filter_apply s.env a.env hwf hkeys
    (fun n => !(a.env.map (fun x => stripMarker x.key)).contains n)
  intro x hx
  simp only [Bool.not_eq_false', List.contains_eq_mem, List.mem_map, decide_eq_true_eq]
  exact ⟨x, hx, rfl⟩

/-! ## Devices -/

/-- Set wins, devices. -/
theorem C13_devices_set_wins (hext : ext.CDIFramed) (h : adjust ext s a = .ok s')
    (hn : NodupKeys Oci.Device.path s.devices) {d : LinuxDevice}
    (hd : LastSet LinuxDevice.path a.linuxDevices d) :
    find Oci.Device.path d.path s'.devices = some d.toOCI := by
  rw [devices_eq hext h hn, find_twoPass Oci.Device.path LinuxDevice.path LinuxDevice.toOCI (fun _ _ => rfl) a.linuxDevices hn, hd.lastMatch, pick_some]

/-- Removed, devices. -/
theorem C13_devices_removed (hext : ext.CDIFramed) (h : adjust ext s a = .ok s')
    (hn : NodupKeys Oci.Device.path s.devices) {k : Str} {d : LinuxDevice}
    (hd : d ∈ a.linuxDevices) (hdk : d.path = markForRemoval k)
    (hno : ∀ x ∈ a.linuxDevices, isMarked x.path = false → x.path ≠ k) :
    find Oci.Device.path k s'.devices = none := by
  rw [devices_eq hext h hn, find_twoPass Oci.Device.path LinuxDevice.path LinuxDevice.toOCI (fun _ _ => rfl) a.linuxDevices hn]
  have h1 : lastMatch (fun e : LinuxDevice => !isMarked e.path && e.path == k) a.linuxDevices = none := by
    rw [lastMatch_none_iff]; intro x hx
    cases hm : isMarked x.path
    · have := hno x hx hm; simp [this]
    · simp
  have h2 : a.linuxDevices.any (fun e => isMarked e.path && stripMarker e.path == k) = true :=
    List.any_eq_true.mpr ⟨d, hd, by simp [hdk]⟩
  rw [h1, pick_none, h2]; rfl

/-- Frame, devices: an unnamed path keeps its device … -/
theorem C13_devices_frame (hext : ext.CDIFramed) (h : adjust ext s a = .ok s')
    (hn : NodupKeys Oci.Device.path s.devices) {k : Str}
    (hno : ∀ x ∈ a.linuxDevices, stripMarker x.path ≠ k) :
    find Oci.Device.path k s'.devices = find Oci.Device.path k s.devices := by
  rw [devices_eq hext h hn, find_twoPass Oci.Device.path LinuxDevice.path LinuxDevice.toOCI (fun _ _ => rfl) a.linuxDevices hn]
  have h1 : lastMatch (fun e : LinuxDevice => !isMarked e.path && e.path == k) a.linuxDevices = none := by
    rw [lastMatch_none_iff]; intro x hx
    cases hm : isMarked x.path
    · have := hno x hx; rw [strip_of_not_marked hm] at this; simp [this]
    · simp
  have h2 : a.linuxDevices.any (fun e => isMarked e.path && stripMarker e.path == k) = false := by
    rw [Bool.eq_false_iff]; intro hany
    obtain ⟨x, hx, hq⟩ := List.any_eq_true.mp hany
    simp only [Bool.and_eq_true, beq_iff_eq] at hq
    exact hno x hx hq.2
  rw [h1, pick_none, h2]; rfl

/-- … and the unnamed devices keep their relative order. -/
theorem C13_devices_frame_order (hext : ext.CDIFramed) (h : adjust ext s a = .ok s')
    (hn : NodupKeys Oci.Device.path s.devices) :
    s'.devices.filter (fun x => !(a.linuxDevices.map (fun d => stripMarker d.path)).contains x.path) =
    s.devices.filter (fun x => !(a.linuxDevices.map (fun d => stripMarker d.path)).contains x.path) := by
  rw [devices_eq hext h hn]
  have hp : ∀ e ∈ a.linuxDevices,
      (fun n => !(a.linuxDevices.map (fun d => stripMarker d.path)).contains n) (stripMarker e.path) = false := by
    intro e he
    simp only [Bool.not_eq_false', List.contains_eq_mem, List.mem_map, decide_eq_true_eq]
    exact ⟨e, he, rfl⟩
  rw [filter_gSets Oci.Device.path LinuxDevice.path LinuxDevice.toOCI (fun _ _ => rfl)
        (fun n => !(a.linuxDevices.map (fun d => stripMarker d.path)).contains n) a.linuxDevices hp,
      filter_gRemovals Oci.Device.path LinuxDevice.path
        (fun n => !(a.linuxDevices.map (fun d => stripMarker d.path)).contains n) a.linuxDevices hp]

/-- The device cgroup: the original rules, then one allow rule per device set, in list order
    (nothing is ever retracted). -/
theorem C13_devices_cgroup_rules (hext : ext.CDIFramed) (h : adjust ext s a = .ok s') :
    s'.devRules = s.devRules ++
      (a.linuxDevices.filter (fun d => !isMarked d.path)).map LinuxDevice.cgroupRule := by
  have := congrArg Prod.snd (adjust_ok hext h).devices
  simp only at this
  rw [this, Devices.apply_snd]

/-! ## Mounts -/

/-- With no mount in the adjustment the mount list is left exactly as it was. -/
theorem C13_mounts_untouched (hext : ext.CDIFramed) (h : adjust ext s a = .ok s')
    (he : a.mounts = []) : s'.mounts = s.mounts ∧ s'.rootfsPropagation = s.rootfsPropagation := by
  have hm := (adjust_ok hext h).mounts
  unfold Mounts.apply at hm
  rw [he] at hm
  simp only [List.isEmpty_nil, if_true] at hm
  have := Except.ok.inj hm
  exact ⟨(congrArg Prod.fst this).symm, (congrArg Prod.snd this).symm⟩

/-- Set wins, mounts. -/
theorem C13_mounts_set_wins (hext : ext.CDIFramed) (h : adjust ext s a = .ok s')
    (hn : NodupKeys Oci.Mount.destination s.mounts) {m : Api.Mount}
    (hm : LastSet Api.Mount.destination a.mounts m) :
    find Oci.Mount.destination m.destination s'.mounts = some m.toOCI := by
  have hne : a.mounts ≠ [] := by
    obtain ⟨_, pre, post, hL, _⟩ := hm; rw [hL]; simp
  rw [mounts_eq hext h hne, Mounts.find_sortMounts, find_twoPass Oci.Mount.destination Api.Mount.destination Api.Mount.toOCI (fun _ _ => rfl) a.mounts hn,
    hm.lastMatch, pick_some]
  exact nodup_gSets Oci.Mount.destination Api.Mount.destination Api.Mount.toOCI (fun _ _ => rfl) a.mounts (nodup_gRemovals Oci.Mount.destination Api.Mount.destination a.mounts hn)

/-- Removed, mounts. -/
theorem C13_mounts_removed (hext : ext.CDIFramed) (h : adjust ext s a = .ok s')
    (hn : NodupKeys Oci.Mount.destination s.mounts) {k : Str} {m : Api.Mount}
    (hm : m ∈ a.mounts) (hmk : m.destination = markForRemoval k)
    (hno : ∀ x ∈ a.mounts, isMarked x.destination = false → x.destination ≠ k) :
    find Oci.Mount.destination k s'.mounts = none := by
  have hne : a.mounts ≠ [] := by intro h0; rw [h0] at hm; cases hm
  rw [mounts_eq hext h hne, Mounts.find_sortMounts, find_twoPass Oci.Mount.destination Api.Mount.destination Api.Mount.toOCI (fun _ _ => rfl) a.mounts hn]
  · have h1 : lastMatch (fun e : Api.Mount => !isMarked e.destination && e.destination == k) a.mounts = none := by
      rw [lastMatch_none_iff]; intro x hx
      cases hmx : isMarked x.destination
      · have := hno x hx hmx; simp [this]
      · simp
    have h2 : a.mounts.any (fun e => isMarked e.destination && stripMarker e.destination == k) = true :=
      List.any_eq_true.mpr ⟨m, hm, by simp [hmk]⟩
    rw [h1, pick_none, h2]; rfl
  · exact nodup_gSets Oci.Mount.destination Api.Mount.destination Api.Mount.toOCI (fun _ _ => rfl) a.mounts (nodup_gRemovals Oci.Mount.destination Api.Mount.destination a.mounts hn)

/-- Frame, mounts: an unnamed destination keeps its mount … -/
theorem C13_mounts_frame (hext : ext.CDIFramed) (h : adjust ext s a = .ok s')
    (hn : NodupKeys Oci.Mount.destination s.mounts) {k : Str}
    (hno : ∀ x ∈ a.mounts, stripMarker x.destination ≠ k) :
    find Oci.Mount.destination k s'.mounts = find Oci.Mount.destination k s.mounts := by
  by_cases hne : a.mounts = []
  · rw [(C13_mounts_untouched hext h hne).1]
  rw [mounts_eq hext h hne, Mounts.find_sortMounts, find_twoPass Oci.Mount.destination Api.Mount.destination Api.Mount.toOCI (fun _ _ => rfl) a.mounts hn]
  · have h1 : lastMatch (fun e : Api.Mount => !isMarked e.destination && e.destination == k) a.mounts = none := by
      rw [lastMatch_none_iff]; intro x hx
      cases hm : isMarked x.destination
      · have := hno x hx; rw [strip_of_not_marked hm] at this; simp [this]
      · simp
    have h2 : a.mounts.any (fun e => isMarked e.destination && stripMarker e.destination == k) = false := by
      rw [Bool.eq_false_iff]; intro hany
      obtain ⟨x, hx, hq⟩ := List.any_eq_true.mp hany
      simp only [Bool.and_eq_true, beq_iff_eq] at hq
      exact hno x hx hq.2
    rw [h1, pick_none, h2]; rfl
  · exact nodup_gSets Oci.Mount.destination Api.Mount.destination Api.Mount.toOCI (fun _ _ => rfl) a.mounts (nodup_gRemovals Oci.Mount.destination Api.Mount.destination a.mounts hn)

/-- … and the unnamed mounts are all still there, none duplicated (as a multiset; their order
    is the sort order). -/
theorem C13_mounts_frame_perm (hext : ext.CDIFramed) (h : adjust ext s a = .ok s') :
    (s'.mounts.filter (fun x => !(a.mounts.map (fun m => stripMarker m.destination)).contains x.destination)).Perm
    (s.mounts.filter (fun x => !(a.mounts.map (fun m => stripMarker m.destination)).contains x.destination)) := by
  by_cases hne : a.mounts = []
  · rw [(C13_mounts_untouched hext h hne).1]
  rw [mounts_eq hext h hne]
  have hp : ∀ e ∈ a.mounts,
      (fun n => !(a.mounts.map (fun m => stripMarker m.destination)).contains n) (stripMarker e.destination) = false := by
    intro e he
    simp only [Bool.not_eq_false', List.contains_eq_mem, List.mem_map, decide_eq_true_eq]
    exact ⟨e, he, rfl⟩
  refine ((Mounts.sortMounts_perm _).filter _).trans ?_
  rw [filter_gSets Oci.Mount.destination Api.Mount.destination Api.Mount.toOCI (fun _ _ => rfl)
        (fun n => !(a.mounts.map (fun m => stripMarker m.destination)).contains n) a.mounts hp,
      filter_gRemovals Oci.Mount.destination Api.Mount.destination
        (fun n => !(a.mounts.map (fun m => stripMarker m.destination)).contains n) a.mounts hp]

/-- After a mount adjustment the mount list is sorted by `orderedMounts.Less`
    (number of path separators of the cleaned destination, then the destination string). -/
theorem C13_mounts_sorted (hext : ext.CDIFramed) (h : adjust ext s a = .ok s')
    (hne : a.mounts ≠ []) : Mounts.Sorted s'.mounts := by
  rw [mounts_eq hext h hne]; exact Mounts.sortMounts_sorted _

/-- Parents first: after a mount adjustment a mount `p` whose destination is a cleaned path
    stands before every mount `c` whose destination DENOTES (`filepath.Clean`) a directory below
    `p`.  Only the parent has to be cleaned; `c` may be written `/data/`, `//x/./y`, ….  (When `p`
    is the root, `c` must be written with a leading `/`, as every absolute path is.)
    The guard on `p` cannot be dropped: `guard_unclean_child_first`. -/
theorem C13_parent_first (hext : ext.CDIFramed) (h : adjust ext s a = .ok s')
    (hne : a.mounts ≠ [])
    {i j : Nat} {p c : Oci.Mount} (hi : s'.mounts[i]? = some p) (hj : s'.mounts[j]? = some c)
    (hclean : Mounts.cleanPath p.destination = p.destination)
    (habs : p.destination = ['/'] → ∃ t, c.destination = '/' :: t)
    (hanc : Mounts.IsAncestor p.destination (Mounts.cleanPath c.destination)) : i < j := by
  have hs := C13_mounts_sorted hext h hne
  exact Mounts.sorted_index_lt hs hi hj (Mounts.mountLt_of_clean_parent hclean habs hanc)

example : Mounts.cleanPath (str "/a") = str "/a" ∧
    Mounts.IsAncestor (str "/a") (Mounts.cleanPath (str "/a//b/")) :=
  ⟨by decide, str "b", by decide, Or.inl (by decide)⟩

/-- The special case with both destinations cleaned (the form stated before the review). -/
theorem C13_parent_first_clean (hext : ext.CDIFramed) (h : adjust ext s a = .ok s')
    (hne : a.mounts ≠ [])
    {i j : Nat} {p c : Oci.Mount} (hi : s'.mounts[i]? = some p) (hj : s'.mounts[j]? = some c)
    (hp : Mounts.cleanPath p.destination = p.destination)
    (hc : Mounts.cleanPath c.destination = c.destination)
    (hanc : Mounts.IsAncestor p.destination c.destination) : i < j := by
  apply C13_parent_first hext h hne hi hj hp
  · intro hroot
    obtain ⟨rest, _, hr | ⟨_, hr⟩⟩ := hanc
    · rw [hr, hroot]; exact ⟨_, rfl⟩
    · exact ⟨rest, hr⟩
  · rw [hc]; exact hanc

/-- Cleaned INPUTS give a cleaned result (so the hypotheses of `C13_parent_first_clean`, and the
    hypothesis on the parent in `C13_parent_first`, can be put on the inputs). -/
theorem C13_clean_paths_preserved (hext : ext.CDIFramed) (h : adjust ext s a = .ok s') (hne : a.mounts ≠ [])
    (h1 : ∀ m ∈ s.mounts, Mounts.cleanPath m.destination = m.destination)
    (h2 : ∀ m ∈ a.mounts, isMarked m.destination = false → Mounts.cleanPath m.destination = m.destination) :
    ∀ m ∈ s'.mounts, Mounts.cleanPath m.destination = m.destination := by
  intro m hm
  rw [mounts_eq hext h hne] at hm
  have hm := (Mounts.sortMounts_perm _).mem_iff.mp hm
  rcases mem_gSets _ _ _ _ hm with hm | ⟨e, he, hem, hx⟩
  · exact h1 m (mem_gRemovals _ _ _ hm)
  · rw [hx]; exact h2 e he hem

example : Mounts.IsAncestor (str "/a") (str "/a/b") := ⟨str "b", by decide, Or.inl rfl⟩
example : Mounts.cleanPath (str "/a/b") = str "/a/b" := by decide

/-! ## Requested values appear -/

/-- args: a non-empty command line replaces the old one; a leading `""` (the `UpdateArgs`
    marker) is not part of it. -/
theorem C13_args (hext : ext.CDIFramed) (h : adjust ext s a = .ok s') :
    (∀ x r, a.args = x :: r → x ≠ [] → s'.args = a.args) ∧
    (∀ x r, a.args = [] :: x :: r → s'.args = x :: r) ∧
    (a.args = [] → s'.args = s.args) := by
  rw [(adjust_ok hext h).args]
  refine ⟨?_, ?_, ?_⟩
  · intro x r e hx; rw [e]
    cases x with
    | nil => exact absurd rfl hx
    | cons c t => simp [Args.apply]
  · intro x r e; rw [e]; simp [Args.apply]
  · intro e; rw [e]; simp [Args.apply]

/-- hooks: each requested hook is appended, converted, to the list of its own kind. -/
theorem C13_hooks (hext : ext.CDIFramed) (h : adjust ext s a = .ok s') (hk : Api.Hooks)
    (ha : a.hooks = some hk) :
    s'.hooks.prestart = s.hooks.prestart ++ hk.prestart.map Hook.toOCI ∧
    s'.hooks.poststart = s.hooks.poststart ++ hk.poststart.map Hook.toOCI ∧
    s'.hooks.poststop = s.hooks.poststop ++ hk.poststop.map Hook.toOCI ∧
    s'.hooks.createRuntime = s.hooks.createRuntime ++ hk.createRuntime.map Hook.toOCI ∧
    s'.hooks.createContainer = s.hooks.createContainer ++ hk.createContainer.map Hook.toOCI ∧
    s'.hooks.startContainer = s.hooks.startContainer ++ hk.startContainer.map Hook.toOCI := by
  have := (adjust_ok hext h).hooks
  rw [ha] at this
  simp only at this
  rw [this]
  exact ⟨rfl, rfl, rfl, rfl, rfl, rfl⟩

/-- rlimits: appended in order. -/
theorem C13_rlimits (hext : ext.CDIFramed) (h : adjust ext s a = .ok s') :
    s'.rlimits = s.rlimits ++ a.rlimits.map POSIXRlimit.toOCI := (adjust_ok hext h).rlimits

/-- CDI: with an injector configured and names requested, the injector is called once, with
    exactly the requested names in order, on the spec as adjusted so far; `cdi` is its result. -/
theorem C13_cdi (hext : ext.CDIFramed) (h : adjust ext s a = .ok s')
    (inj : Spec → List Str → Except Unit Spec) (hi : ext.injectCDI = some inj) (hn : a.cdiDevices ≠ []) :
    ∃ s1, inj (adjustHooks (adjustArgs (adjustEnv (adjustAnnotations s a.annotations) a.env) a.args) a.hooks)
            a.cdiDevices = .ok s1 ∧ s'.cdi = s1.cdi := by
  obtain ⟨s1, h1, h2⟩ := (adjust_ok hext h).cdi
  refine ⟨s1, ?_, h2⟩
  unfold injectCDI at h1
  rw [hi] at h1
  have : a.cdiDevices.isEmpty = false := by cases hl : a.cdiDevices <;> simp_all
  simp only [this, Bool.false_eq_true, if_false] at h1
  split at h1
  · rename_i s2 hs2; cases h1; exact hs2
  · cases h1

/-- … for the recording injector: the names are appended to `cdi`. -/
theorem C13_cdi_recorded {bad : List Str} (hi : ext.injectCDI = some (recordingInjector bad))
    (h : adjust ext s a = .ok s') (hn : a.cdiDevices ≠ []) : s'.cdi = s.cdi ++ a.cdiDevices := by
  have hext : ext.CDIFramed := by
    intro inj hinj; rw [hi] at hinj; cases hinj; exact recordingInjector_framed bad
  obtain ⟨s1, h1, h2⟩ := C13_cdi hext h _ hi hn
  rw [h2]
  unfold recordingInjector at h1
  split at h1
  · cases h1
  · cases h1; rw [pre_fields]

/-- cgroups path and OOM score adjustment. -/
theorem C13_cgroups_path (hext : ext.CDIFramed) (h : adjust ext s a = .ok s') :
    (a.cgroupsPath ≠ [] → s'.cgroupsPath = a.cgroupsPath) ∧
    (a.cgroupsPath = [] → s'.cgroupsPath = s.cgroupsPath) := by
  rw [(adjust_ok hext h).cgroupsPath]
  exact ⟨fun hp => by simp [hp], fun hp => by simp [hp]⟩

theorem C13_oom_score (hext : ext.CDIFramed) (h : adjust ext s a = .ok s') :
    (∀ v, a.oomScoreAdj = some v → s'.oomScoreAdj = some v) ∧
    (a.oomScoreAdj = none → s'.oomScoreAdj = s.oomScoreAdj) := by
  rw [(adjust_ok hext h).oomScoreAdj]
  exact ⟨fun v hv => by rw [hv], fun hv => by rw [hv]⟩

/-- CPU: every requested field has the requested value, every other field is unchanged. -/
theorem C13_cpu (hext : ext.CDIFramed) (h : adjust ext s a = .ok s') (r : LinuxResources) (c : LinuxCPU)
    (hr : a.resources = some r) (hc : r.cpu = some c) :
    s'.cpu.shares = (match c.shares with | some v => some v | none => s.cpu.shares) ∧
    s'.cpu.quota = (match c.quota with | some v => some v | none => s.cpu.quota) ∧
    s'.cpu.period = (match c.period with | some v => some v | none => s.cpu.period) ∧
    s'.cpu.realtimeRuntime = (match c.realtimeRuntime with | some v => some v | none => s.cpu.realtimeRuntime) ∧
    s'.cpu.realtimePeriod = (match c.realtimePeriod with | some v => some v | none => s.cpu.realtimePeriod) ∧
    s'.cpu.cpus = (if c.cpus = [] then s.cpu.cpus else c.cpus) ∧
    s'.cpu.mems = (if c.mems = [] then s.cpu.mems else c.mems) := by
  rw [(adjust_ok hext h).cpu]
  unfold Resources.cpuAfter
  rw [hr]; simp only [hc]
  unfold Resources.applyCpu
  obtain ⟨sh, qu, pe, rr, rp, cpus, mems⟩ := c
  cases sh <;> cases qu <;> cases pe <;> cases rr <;> cases rp <;>
    by_cases h1 : cpus = [] <;> by_cases h2 : mems = [] <;> simp [h1, h2]

/-- Memory: a requested non-zero limit becomes the limit and the swap limit; nothing else in
    the memory section changes (the generator applies no other memory field). -/
theorem C13_memory_limit (hext : ext.CDIFramed) (h : adjust ext s a = .ok s') (r : LinuxResources)
    (m : LinuxMemory) (hr : a.resources = some r) (hm : r.memory = some m) (l : Int)
    (hl : m.limit = some l) (hz : l ≠ 0) :
    s'.memory = { s.memory with limit := some l, swap := some l } := by
  rw [(adjust_ok hext h).memory]
  unfold Resources.memoryAfter
  rw [hr]; simp only [hm]
  unfold Resources.applyMemory
  rw [hl]; simp [hz]

/-- Hugepages: the limit of every page size is the last requested one, else the original. -/
theorem C13_hugepages (hext : ext.CDIFramed) (h : adjust ext s a = .ok s') (r : LinuxResources)
    (hr : a.resources = some r) (k : Str) :
    Resources.hfind k s'.hugepages =
      pick (lastMatch (fun x : Api.HugepageLimit => x.pageSize == k) r.hugepageLimits) (·.limit)
        (Resources.hfind k s.hugepages) := by
  rw [(adjust_ok hext h).hugepages]
  unfold Resources.hugepagesAfter
  rw [hr]; exact Resources.hfind_applyHugepages _ _ _

/-- Unified: every requested key has the requested value (map with distinct keys), every other
    key is unchanged, for any iteration order. -/
theorem C13_unified (hext : ext.CDIFramed) (h : adjust ext s a = .ok s') (r : LinuxResources)
    (hr : a.resources = some r) (hn : AList.WF r.unified) :
    (∀ k v, (k, v) ∈ r.unified → AList.lookup s'.unified k = some v) ∧
    (∀ k, (∀ e ∈ r.unified, e.1 ≠ k) → AList.lookup s'.unified k = AList.lookup s.unified k) := by
  rw [(adjust_ok hext h).unified]
  unfold Resources.unifiedAfter
  rw [hr]; simp only
  constructor
  · intro k v hk
    rw [Resources.lookup_applyUnified]
    obtain ⟨pre, post, hsplit⟩ := List.append_of_mem hk
    have hpost : ∀ x ∈ post, (fun e : Str × Str => e.1 == k) x = false := by
      intro x hx
      cases hxq : (x.1 == k) with
      | false => exact hxq
      | true =>
        exfalso
        simp only [beq_iff_eq] at hxq
        unfold AList.WF AList.keys at hn
        rw [hsplit] at hn
        simp only [List.map_append, List.map_cons] at hn
        have := (List.nodup_append.mp hn).2.1
        rw [List.nodup_cons] at this
        exact this.1 (List.mem_map.mpr ⟨x, hx, hxq⟩)
    rw [hsplit, lastMatch_split (q := fun e : Str × Str => e.1 == k) (by simp) hpost, pick_some]
  · intro k hno
    rw [Resources.lookup_applyUnified]
    have : lastMatch (fun e : Str × Str => e.1 == k) r.unified = none := by
      rw [lastMatch_none_iff]; intro e he; simpa using hno e he
    rw [this, pick_none]

theorem C13_unified_perm (u : AList Str Str) (E π : List (Str × Str)) (hp : π.Perm E)
    (hn : AList.WF E) (k : Str) :
    AList.lookup (Resources.applyUnified u π) k = AList.lookup (Resources.applyUnified u E) k :=
  Resources.lookup_applyUnified_perm u hp hn k

/-- Pids limit. -/
theorem C13_pids (hext : ext.CDIFramed) (h : adjust ext s a = .ok s') (r : LinuxResources)
    (hr : a.resources = some r) :
    s'.pids = (match r.pids with | some v => some v | none => s.pids) := by
  rw [(adjust_ok hext h).pids]
  unfold Resources.pidsAfter
  rw [hr]
  rfl

/-- Without a resources section nothing in the resources changes. -/
theorem C13_resources_untouched (hext : ext.CDIFramed) (h : adjust ext s a = .ok s')
    (hr : a.resources = none) :
    s'.cpu = s.cpu ∧ s'.memory = s.memory ∧ s'.hugepages = s.hugepages ∧ s'.unified = s.unified ∧
    s'.pids = s.pids ∧ s'.blockio = s.blockio ∧ s'.rdt = s.rdt := by
  have ok := adjust_ok hext h
  have hb := ok.blockio
  have hrd := ok.rdt
  unfold Adjustment.blockioClass at hb
  unfold Adjustment.rdtClass at hrd
  rw [hr] at hb hrd
  simp only [Resources.applyBlockIO, Resources.applyRdt] at hb hrd
  refine ⟨?_, ?_, ?_, ?_, ?_, (Except.ok.inj hb).symm, (Except.ok.inj hrd).symm⟩
  · rw [ok.cpu, hr]; rfl
  · rw [ok.memory, hr]; rfl
  · rw [ok.hugepages, hr]; rfl
  · rw [ok.unified, hr]; rfl
  · rw [ok.pids, hr]; rfl

/-! ## Not requested ⇒ not touched (the remaining families) -/

/-- No hooks in the adjustment: all six hook lists are unchanged. -/
theorem C13_hooks_untouched (hext : ext.CDIFramed) (h : adjust ext s a = .ok s')
    (hh : a.hooks = none) : s'.hooks = s.hooks := by
  rw [(adjust_ok hext h).hooks, hh]

/-- A resources section without a cpu / without a memory section leaves cpu / memory unchanged;
    so does a memory section without a limit, or with limit 0 (finding C13-limit0). -/
theorem C13_cpu_untouched (hext : ext.CDIFramed) (h : adjust ext s a = .ok s') (r : LinuxResources)
    (hr : a.resources = some r) (hc : r.cpu = none) : s'.cpu = s.cpu := by
  rw [(adjust_ok hext h).cpu]; unfold Resources.cpuAfter; rw [hr]; simp only [hc]

theorem C13_memory_untouched (hext : ext.CDIFramed) (h : adjust ext s a = .ok s') (r : LinuxResources)
    (hr : a.resources = some r)
    (hm : r.memory = none ∨ ∃ m, r.memory = some m ∧ (m.limit = none ∨ m.limit = some 0)) :
    s'.memory = s.memory := by
  rw [(adjust_ok hext h).memory]; unfold Resources.memoryAfter; rw [hr]
  rcases hm with hm | ⟨m, hm, hl | hl⟩
  · simp only [hm]
  · simp only [hm, Resources.applyMemory, hl]
  · simp only [hm, Resources.applyMemory, hl]; rfl

/-- Without an injector, or without CDI names, `cdi` is unchanged. -/
theorem C13_cdi_untouched (hext : ext.CDIFramed) (h : adjust ext s a = .ok s')
    (hn : ext.injectCDI = none ∨ a.cdiDevices = []) : s'.cdi = s.cdi := by
  obtain ⟨s1, h1, h2⟩ := (adjust_ok hext h).cdi
  rw [h2]
  unfold injectCDI at h1
  rcases hn with hn | hn
  · rw [hn] at h1; cases h1; rw [pre_fields]
  · cases hi : ext.injectCDI with
    | none => rw [hi] at h1; cases h1; rw [pre_fields]
    | some inj => rw [hi, hn] at h1; simp only [List.isEmpty_nil, if_true] at h1; cases h1; rw [pre_fields]

/-- `Linux.RootfsPropagation` is only ever changed by a mount that is SET with an `rshared` or
    `rslave` option; removals and other mounts leave it alone. -/
theorem C13_rootfs_propagation_untouched (hext : ext.CDIFramed) (h : adjust ext s a = .ok s')
    (hq : ∀ m ∈ a.mounts, isMarked m.destination = false →
      ∀ o ∈ m.options, o ≠ str "rshared" ∧ o ≠ str "rslave") :
    s'.rootfsPropagation = s.rootfsPropagation :=
  Mounts.apply_rootfs (adjust_ok hext h).mounts hq

example : ∀ o ∈ [str "ro", str "rprivate"], o ≠ str "rshared" ∧ o ≠ str "rslave" := by decide

/-- The VALUE of `Linux.RootfsPropagation` after any successful application, for every mount list,
    every original value and every host: it is `Check.expectedRootfs` — `rshared` when some applied
    mount (effectively) asks for `rshared`, raised to `rslave` when some asks for `rslave` and the
    original is neither `rshared` nor `rslave`, the original otherwise.  In particular it is never
    lowered and does not depend on the order in which the asking entries come.  This is the
    predicate the check evaluates on the implementation's own result. -/
theorem C13_rootfs_propagation_value (hext : ext.CDIFramed) (h : adjust ext s a = .ok s') :
    s'.rootfsPropagation = Check.expectedRootfs s.rootfsPropagation a.mounts :=
  Mounts.apply_rootfs_eq (adjust_ok hext h).mounts

/-- … never lowered: an original `rshared` stays whatever the mounts ask for. -/
theorem C13_rootfs_propagation_never_lowered (hext : ext.CDIFramed) (h : adjust ext s a = .ok s')
    (hs : s.rootfsPropagation = str "rshared") : s'.rootfsPropagation = str "rshared" := by
  rw [C13_rootfs_propagation_value hext h, hs]
  unfold Check.expectedRootfs Check.raiseRootfs
  split
  · rfl
  · simp

-- non-vacuity: the requests of a concrete list (sticky query: the third entry inherits `rslave`)
example : Check.propRequests []
    [ { destination := str "/p", type := str "bind", source := str "/s", options := [str "rprivate"] },
      { destination := str "-/q", type := [], source := [], options := [] },
      { destination := str "/q", type := str "bind", source := str "/s", options := [str "rslave", str "ro"] },
      { destination := str "/r", type := str "bind", source := str "/s", options := [str "ro"] } ]
    = [str "rprivate", str "rslave", str "rslave"] := by decide
example : Check.raiseRootfs (str "rprivate") [str "rprivate", str "rslave"] = str "rslave" := by decide
example : Check.raiseRootfs (str "rshared") [str "rslave"] = str "rshared" := by decide
example : Check.raiseRootfs (str "rslave") [str "rslave", str "rshared"] = str "rshared" := by decide

/-! ## The guards hold again of the result (plugin chains, repeated application) -/

/-- `Env.WF` is preserved: the result is again a list of `NAME=value` entries with non-empty
    names each occurring ONCE — so the env theorems apply to the output of a previous `Adjust`. -/
theorem C13_env_wf_preserved (hext : ext.CDIFramed) (h : adjust ext s a = .ok s')
    (hwf : Env.WF s.env) (hkeys : ∀ x ∈ a.env, '=' ∉ stripMarker x.key) : Env.WF s'.env := by
  rw [(adjust_ok hext h).env]; exact Env.wf_apply s.env a.env hwf hkeys

/-- Uniqueness: no variable name occurs twice in the resulting environment; together with
    `C13_env_set_wins` the requested entry is THE entry of its name, not merely the first. -/
theorem C13_env_unique (hext : ext.CDIFramed) (h : adjust ext s a = .ok s')
    (hwf : Env.WF s.env) (hkeys : ∀ x ∈ a.env, '=' ∉ stripMarker x.key) :
    (s'.env.map Env.nameOf).Nodup := (C13_env_wf_preserved hext h hwf hkeys).nodup

/-- … hence every entry of the result whose name is `k` IS `k=value` for the looked-up value. -/
theorem C13_env_set_wins_unique (hext : ext.CDIFramed) (h : adjust ext s a = .ok s')
    (hwf : Env.WF s.env) (hkeys : ∀ x ∈ a.env, '=' ∉ stripMarker x.key)
    {e : KeyValue} (he : LastSet KeyValue.key a.env e) (hk : e.key ≠ [])
    {x : Str} (hx : x ∈ s'.env) (hn : Env.nameOf x = e.key) : x = e.toOCI := by
  have hwf' := C13_env_wf_preserved hext h hwf hkeys
  have hl := C13_env_set_wins hext h hwf hkeys he hk
  obtain ⟨n, v, hs, _⟩ := hwf'.split x hx
  have hnk : n = e.key := by rw [← hn, Env.nameOf_of_split hs]
  -- the first entry named `e.key` carries `e.value`; names are unique, so it is `x`
  have key : ∀ (l : List Str), (l.map Env.nameOf).Nodup → x ∈ l → Env.lookup l e.key = some v := by
    intro l hnd hxl
    induction l with
    | nil => cases hxl
    | cons y r ih =>
      rw [List.map_cons, List.nodup_cons] at hnd
      rcases List.mem_cons.mp hxl with hxy | hxr
      · subst hxy; simp [Env.lookup, hs, hnk]
      · have hyx : Env.nameOf y ≠ e.key := by
          intro hy; apply hnd.1; rw [hy, ← hn]; exact List.mem_map.mpr ⟨x, hxr, rfl⟩
        unfold Env.lookup
        cases hsy : Env.splitEq y with
        | none => simp only; exact ih hnd.2 hxr
        | some q =>
          obtain ⟨ny, vy⟩ := q
          have : ny ≠ e.key := by rw [← Env.nameOf_of_split hsy]; exact hyx
          simp only [this, if_false]; exact ih hnd.2 hxr
  have := key s'.env hwf'.nodup hx
  rw [hl] at this
  have hv : v = e.value := (Option.some.inj this).symm
  rw [(Env.splitEq_some hs).1, hnk, hv]; rfl

/-- Distinct mount destinations are preserved … -/
theorem C13_mounts_nodup_preserved (hext : ext.CDIFramed) (h : adjust ext s a = .ok s')
    (hn : NodupKeys Oci.Mount.destination s.mounts) : NodupKeys Oci.Mount.destination s'.mounts := by
  by_cases hne : a.mounts = []
  · rw [(C13_mounts_untouched hext h hne).1]; exact hn
  rw [mounts_eq hext h hne]
  exact Mounts.nodup_sortMounts
    (nodup_gSets Oci.Mount.destination Api.Mount.destination Api.Mount.toOCI (fun _ _ => rfl) a.mounts
      (nodup_gRemovals Oci.Mount.destination Api.Mount.destination a.mounts hn))

/-- … and so are distinct device paths. -/
theorem C13_devices_nodup_preserved (hext : ext.CDIFramed) (h : adjust ext s a = .ok s')
    (hn : NodupKeys Oci.Device.path s.devices) : NodupKeys Oci.Device.path s'.devices := by
  rw [devices_eq hext h hn]
  exact nodup_gSets Oci.Device.path LinuxDevice.path LinuxDevice.toOCI (fun _ _ => rfl) a.linuxDevices
    (nodup_gRemovals Oci.Device.path LinuxDevice.path a.linuxDevices hn)

/-! ## Determinism -/

/-- Up to the representation of the two maps, two specs are the same. -/
def SpecEqv (x y : Spec) : Prop :=
  (∀ k, AList.lookup x.annotations k = AList.lookup y.annotations k) ∧
  (∀ k, AList.lookup x.unified k = AList.lookup y.unified k) ∧
  { x with annotations := [], unified := [] } = { y with annotations := [], unified := [] }

/-- the unified map of an adjustment (empty when there is no resources section) -/
def unifiedOf (a : Adjustment) : AList Str Str :=
  match a.resources with | some r => r.unified | none => []

/-- Same inputs, same spec: whatever order the annotation map (`π`) and the unified map (`σ`)
    are iterated in, `Adjust` succeeds again and the specs are equal (the CDI injector being
    the recording one, or absent).  Everything else in `Adjust` is a function of lists. -/
theorem C13_deterministic {bad : List Str}
    (hi : ext.injectCDI = some (recordingInjector bad) ∨ ext.injectCDI = none)
    (π σ : List (Str × Str)) (hπ : π.Perm a.annotations) (hσ : σ.Perm (unifiedOf a))
    (hn1 : AList.WF a.annotations) (hn2 : AList.WF (unifiedOf a))
    (h : adjust ext s a = .ok s') :
    ∃ s'', adjust ext s { withUnified a σ with annotations := π } = .ok s'' ∧ SpecEqv s'' s' := by
  rw [adjust_eq hi] at h ⊢
  -- the four fallible stages do not read the two maps
  have e1 : ({ withUnified a σ with annotations := π } : Adjustment).cdiDevices = a.cdiDevices := rfl
  have e2 : ({ withUnified a σ with annotations := π } : Adjustment).blockioClass = a.blockioClass := by
    unfold Adjustment.blockioClass Adjustment.resources withUnified
    cases a.linux with
    | none => rfl
    | some l => cases hr : l.resources <;> simp [hr]
  have e3 : ({ withUnified a σ with annotations := π } : Adjustment).rdtClass = a.rdtClass := by
    unfold Adjustment.rdtClass Adjustment.resources withUnified
    cases a.linux with
    | none => rfl
    | some l => cases hr : l.resources <;> simp [hr]
  have e4 : ({ withUnified a σ with annotations := π } : Adjustment).mounts = a.mounts := rfl
  rw [e1, e2, e3, e4]
  cases hc : cdiAfter ext.injectCDI.isSome bad s.cdi a.cdiDevices with
  | error e => rw [hc] at h; cases h
  | ok c =>
  rw [hc] at h; simp only at h ⊢
  cases hb : Resources.applyBlockIO ext.resolveBlockIO s.blockio a.blockioClass with
  | error e => rw [hb] at h; cases h
  | ok b =>
  rw [hb] at h; simp only at h ⊢
  cases hr : Resources.applyRdt ext.resolveRdt s.rdt a.rdtClass with
  | error e => rw [hr] at h; cases h
  | ok r =>
  rw [hr] at h; simp only at h ⊢
  cases hm : Mounts.apply ext.hostPropagation s.mounts s.rootfsPropagation a.mounts with
  | error e => rw [hm] at h; cases h
  | ok mp =>
  rw [hm] at h; simp only at h ⊢
  cases h
  refine ⟨_, rfl, ?_, ?_, ?_⟩
  · intro k
    exact Annotations.lookup_apply_perm s.annotations hπ hn1 k
  · intro k
    simp only [assemble]
    unfold Resources.unifiedAfter Adjustment.resources withUnified
    cases hl : a.linux with
    | none => rfl
    | some l =>
      cases hres : l.resources with
      | none => simp [hres]
      | some rr =>
        simp only [unifiedOf, Adjustment.resources, hl, hres] at hσ hn2
        simp only [Option.map_some, hres]
        exact Resources.lookup_applyUnified_perm s.unified hσ hn2 k
  · simp only [assemble]
    unfold Resources.cpuAfter Resources.memoryAfter Resources.hugepagesAfter Resources.pidsAfter
      Adjustment.linuxDevices Adjustment.cgroupsPath Adjustment.oomScoreAdj Adjustment.resources withUnified
    cases hl : a.linux with
    | none => rfl
    | some l =>
      cases hres : l.resources with
      | none => simp [hres]
      | some rr => simp [hres]

/-- Same inputs, same spec, for EVERY internal iteration order: `adjustOrders` runs `Adjust` with
    the removal loop of the annotations seeing the map in order `π1`, the set loop in an
    independent order `π2`, and the unified loop in order `σ` (these are all the map iterations
    in `Adjust`; everything else ranges over slices).  Whatever the three orders, it succeeds
    whenever `adjust` does and yields an equal spec. -/
theorem C13_deterministic_orders {bad : List Str}
    (hi : ext.injectCDI = some (recordingInjector bad) ∨ ext.injectCDI = none)
    (π1 π2 σ : List (Str × Str)) (h1 : π1.Perm a.annotations) (h2 : π2.Perm a.annotations)
    (hσ : σ.Perm (unifiedOf a)) (hn1 : AList.WF a.annotations) (hn2 : AList.WF (unifiedOf a))
    (h : adjust ext s a = .ok s') :
    ∃ s'', adjustOrders ext s a π1 π2 σ = .ok s'' ∧ SpecEqv s'' s' := by
  rw [adjustOrders_eq]
  exact C13_deterministic hi (Annotations.mergeOrders π1 π2) σ (Annotations.mergeOrders_perm h1 h2) hσ hn1 hn2 h

/-- … and `adjust` itself is the instance "every loop sees the entries as listed". -/
theorem C13_adjust_is_adjustOrders (ext : Externals) (s : Spec) (a : Adjustment) :
    adjust ext s a = adjustOrders ext s a a.annotations a.annotations (unifiedOf a) :=
  adjust_eq_adjustOrders ext s a

example : ([(str "-k", ([] : Str)), (str "k", str "v")] : List (Str × Str)).Perm
    [(str "k", str "v"), (str "-k", [])] := List.Perm.swap _ _ _

/-! ## The hypotheses are satisfiable, and the driver's guards imply them -/

/-- The Boolean guard the driver evaluates on an original environment implies `Env.WF`. -/
theorem C13_env_guard_sound (env : List Str) (h : Check.envWF env = true) : Env.WF env := by
  unfold Check.envWF at h
  simp only [Bool.and_eq_true, List.all_eq_true, decide_eq_true_eq] at h
  refine ⟨?_, h.2⟩
  intro e he
  have := h.1 e he
  cases hs : Env.splitEq e with
  | none => rw [hs] at this; cases this
  | some p =>
    obtain ⟨n, v⟩ := p
    rw [hs] at this
    exact ⟨n, v, rfl, by simpa using this⟩

/-- the externals of the correspondence harness satisfy the injector assumption -/
theorem C13_recording_injector_framed (bad : List Str) (ext : Externals)
    (h : ext.injectCDI = some (recordingInjector bad)) : ext.CDIFramed := by
  intro inj hinj; rw [h] at hinj; cases hinj; exact recordingInjector_framed bad

/-- A concrete instance meeting every hypothesis used above at once (non-vacuity): a spec with
    env, a mount, a device and an annotation; an adjustment that removes and re-sets each. -/
theorem C13_hypotheses_satisfiable :
    let ext : Externals := { injectCDI := some (recordingInjector []) }
    let s : Spec := { annotations := [(str "k", str "old")], env := [str "FOO=old"],
                      mounts := [{ destination := str "/a/b" }, { destination := str "/a" }],
                      devices := [{ path := str "/dev/a" }] }
    let a : Adjustment :=
      { annotations := [(str "-k", []), (str "k", str "new")],
        env := [⟨str "-FOO", []⟩, ⟨str "FOO", str "new"⟩],
        mounts := [{ destination := str "-/a" }, { destination := str "/a", source := str "/src" }],
        linux := some { devices := [{ path := str "-/dev/a" }, { path := str "/dev/a", major := 5 }] },
        cdiDevices := [str "v/c=d"] }
    ext.CDIFramed ∧ (∃ s', adjust ext s a = .ok s') ∧ Env.WF s.env ∧ AList.WF a.annotations ∧
    NodupKeys Oci.Mount.destination s.mounts ∧ NodupKeys Oci.Device.path s.devices ∧
    (∀ x ∈ a.env, '=' ∉ stripMarker x.key) ∧
    LastSet KeyValue.key a.env ⟨str "FOO", str "new"⟩ := by
  intro ext s a
  refine ⟨C13_recording_injector_framed [] ext rfl, ⟨_, rfl⟩, C13_env_guard_sound _ (by decide),
    ?_, by decide, by decide, by decide, by decide, ⟨[⟨str "-FOO", []⟩], [], rfl, by simp⟩⟩
  show (List.map (·.1) [(str "-k", ([] : Str)), (str "k", str "new")]).Nodup
  decide

/-! ## The predicate the driver evaluates on the implementation's output -/

/-- What an accepting verdict of the keyed-family predicate `Check.keyed` certifies about ANY
    result `new` (in the check: the real generator's): for every key of the original or named
    by the adjustment, `new` holds what the adjustment wants (`Check.expected`: the converted
    last set / nothing / the original item), nothing else appears, no key occurs twice, and for
    ordered families the untouched items are unchanged in their order — the statements of the
    `set_wins` / `removed` / `frame` / `frame_order` theorems above. -/
theorem C13_check_keyed_meaning {ε β : Type} [DecidableEq β] (fam : String) (show_ : Str → String)
    (rawKey : ε → Str) (conv : ε → β) (key : β → Str) (isMap ordered : Bool) (L : List ε)
    (old new : List β) :
    Check.keyed fam show_ rawKey conv key isMap ordered L old new = [] ↔
      (∀ k, (k ∈ old.map key ∨ k ∈ Check.named rawKey L) →
        find key k new = Check.expected rawKey conv key L old k) ∧
      (∀ x ∈ new, key x ∈ old.map key ∨ key x ∈ Check.named rawKey L) ∧
      NodupKeys key new ∧
      (ordered = true →
        new.filter (fun x => !(Check.named rawKey L).contains (key x)) =
        old.filter (fun x => !(Check.named rawKey L).contains (key x))) :=
  Check.keyed_nil_iff fam show_ rawKey conv key isMap ordered L old new

/-- No false alarm by construction: the model's device result passes the device predicate
    (keyed conditions and cgroup rules) whenever the guard holds. -/
theorem C13_check_accepts_model_devices (hext : ext.CDIFramed) (h : adjust ext s a = .ok s')
    (hn : NodupKeys Oci.Device.path s.devices) :
    Check.checkDevices s.devices a.linuxDevices s'.devices s.devRules s'.devRules = [] := by
  unfold Check.checkDevices
  rw [devices_eq hext h hn, C13_devices_cgroup_rules hext h,
    Check.keyed_accepts_twoPass "devices" Check.showS LinuxDevice.path LinuxDevice.toOCI Oci.Device.path
      false true a.linuxDevices s.devices (fun _ _ => rfl) hn]
  simp

/-- … and so does the model's mount result: the keyed conditions and sortedness (the Boolean
    `parentsFirst` test is not covered by this theorem; `C13_parent_first` is its model-side
    statement). -/
theorem C13_check_accepts_model_mounts (hext : ext.CDIFramed) (h : adjust ext s a = .ok s')
    (hn : NodupKeys Oci.Mount.destination s.mounts) (hne : a.mounts ≠ []) :
    Check.keyed "mounts" Check.showS Api.Mount.destination Api.Mount.toOCI Oci.Mount.destination
      false false a.mounts s.mounts s'.mounts = [] ∧ Check.sortedMounts s'.mounts = true := by
  have hnd : NodupKeys Oci.Mount.destination
      (gSets Oci.Mount.destination Api.Mount.destination Api.Mount.toOCI
        (gRemovals Oci.Mount.destination Api.Mount.destination s.mounts a.mounts) a.mounts) :=
    nodup_gSets Oci.Mount.destination Api.Mount.destination Api.Mount.toOCI (fun _ _ => rfl) a.mounts
      (nodup_gRemovals Oci.Mount.destination Api.Mount.destination a.mounts hn)
  have hacc := (Check.keyed_nil_iff "mounts" Check.showS Api.Mount.destination Api.Mount.toOCI
      Oci.Mount.destination false false a.mounts s.mounts _).mp
    (Check.keyed_accepts_twoPass "mounts" Check.showS Api.Mount.destination Api.Mount.toOCI
      Oci.Mount.destination false false a.mounts s.mounts (fun _ _ => rfl) hn)
  constructor
  · rw [Check.keyed_nil_iff, mounts_eq hext h hne]
    refine ⟨?_, ?_, Mounts.nodup_sortMounts hnd, by intro hf; cases hf⟩
    · intro k hk
      rw [Mounts.find_sortMounts hnd]; exact hacc.1 k hk
    · intro x hx
      exact hacc.2.1 x ((Mounts.sortMounts_perm _).mem_iff.mp hx)
  · have hs := C13_mounts_sorted hext h hne
    generalize s'.mounts = l at hs
    unfold Mounts.Sorted at hs
    induction l with
    | nil => rfl
    | cons x r ih =>
      cases r with
      | nil => rfl
      | cons y t =>
        rw [List.pairwise_cons] at hs
        simp only [Check.sortedMounts, hs.1 y (by simp), Bool.not_false, Bool.true_and]
        exact ih hs.2

/-! ## The code before the repairs, and why each guard is there (concrete witnesses) -/

/-- Before /repo 1f50159 (`AdjustAnnotations` in one pass): `{"-k": "", "k": "new"}` on a spec
    holding `k` loses `k` when the map yields the set first, keeps it otherwise. -/
theorem unfixed_annotations_order_dependent :
    AList.lookup (Annotations.applyUnfixed [(str "k", str "old")] [(str "k", str "new"), (str "-k", [])]) (str "k") = none ∧
    AList.lookup (Annotations.applyUnfixed [(str "k", str "old")] [(str "-k", []), (str "k", str "new")]) (str "k")
      = some (str "new") := by decide

/-- Before /repo ad4e689: `UpdateArgs(["a","b"])` installs the marker as `argv[0]`. -/
theorem unfixed_args_marker :
    Args.applyUnfixed [str "old"] [[], str "a", str "b"] = [[], str "a", str "b"] ∧
    Args.apply [str "old"] [[], str "a", str "b"] = [str "a", str "b"] := by decide


/-! ## The runtime's callbacks: `WithAnnotationFilter`, `WithResourceChecker`

`adjustWith o ext s a` is `Generator.Adjust` of a generator built with the callbacks `o`
(`NriModel/GenerateOptions.lean`).  Every theorem above is about `adjust`, the generator without
callbacks; these theorems say how the two relate, so that "changes exactly what it names" carries
over to a runtime that installs them: the filter decides WHICH annotation entries are applied (or
refuses the adjustment before anything is touched), the checker has the last word on
`Linux.Resources` and on nothing else. -/

/-- Without callbacks `adjustWith` IS `adjust`. -/
theorem C13_options_default (ext : Externals) (s : Spec) (a : Adjustment) :
    adjustWith {} ext s a = liftGen (adjust ext s a) :=
  adjustWith_default ext s a

/-- A rejecting annotation filter fails the whole `Adjust` with its own error class — for every
    spec, adjustment, external and checker. (It runs first: nothing of the spec has been touched.) -/
theorem C13_annotation_filter_rejects (o : Options) (ext : Externals) (s : Spec) (a : Adjustment)
    (f : AList Str Str → Except Unit (AList Str Str)) (hf : o.filterAnnotations = some f)
    (he : f a.annotations = .error ()) :
    adjustWith o ext s a = .error .annotationFilter :=
  adjustWith_filter_error o ext s a f hf he

/-- An accepting annotation filter changes WHICH annotation entries are applied and nothing else:
    `Adjust` is `Adjust` of the generator without the filter on the adjustment whose annotations
    are the filter's answer — so set-wins / removed / frame / determinism hold of the entries the
    filter let through, and every other family is applied as if there were no filter. -/
theorem C13_annotation_filter_factor (o : Options) (ext : Externals) (s : Spec) (a : Adjustment)
    (f : AList Str Str → Except Unit (AList Str Str)) (hf : o.filterAnnotations = some f)
    (ann : AList Str Str) (hk : f a.annotations = .ok ann) (hc : o.checkResources = none) :
    adjustWith o ext s a = liftGen (adjust ext s { a with annotations := ann }) := by
  rw [adjustWith_filter_ok o ext s a f hf ann hk]
  exact adjustWith_plain { o with filterAnnotations := none } rfl hc ext s _

/-- The checker is consulted only for an adjustment that carries a resources section. -/
theorem C13_checker_only_with_resources (o : Options) (ext : Externals) (s : Spec) (a : Adjustment)
    (hf : o.filterAnnotations = none) (hr : a.resources = none) :
    adjustWith o ext s a = liftGen (adjust ext s a) ∧ checkerSees o ext s a = none := by
  refine ⟨?_, ?_⟩
  · rw [adjustWith_check_skipped o ext s a hr]
    exact adjustWith_plain { o with checkResources := none } hf rfl ext s a
  · unfold checkerSees
    rw [filterStage_none o hf]
    have hr' : ({ a with annotations := a.annotations } : Adjustment).resources = none := hr
    simp only [hr']
    cases adjustPre ext s a <;> rfl

/-- With a resources section the checker runs exactly once, after this adjustment's CPU, memory,
    hugepage, unified and pids values are in the spec (and annotations, env, args, hooks, CDI,
    devices, cgroups path, OOM score before them), before block-I/O class, RDT class, mounts and
    rlimits; its error fails `Adjust` with the checker's class; what it returns is what the rest
    of `Adjust` continues from. -/
theorem C13_checker_position (o : Options) (ext : Externals) (hext : ext.CDIFramed) (s : Spec) (a : Adjustment)
    (hf : o.filterAnnotations = none) (chk : Spec → Except Unit Spec) (hc : o.checkResources = some chk)
    (r : LinuxResources) (hr : a.resources = some r) :
    adjustWith o ext s a =
      (match adjustPre ext s a with
       | .error e => .error (.gen e)
       | .ok s1 =>
         match chk s1 with
         | .error _ => .error .resourceCheck
         | .ok s2 => liftGen (adjustPost ext s2 a)) ∧
    (∀ s1, adjustPre ext s a = .ok s1 → checkerSees o ext s a = some s1 ∧
      s1.cpu = Resources.cpuAfter s.cpu (some r) ∧ s1.memory = Resources.memoryAfter s.memory (some r) ∧
      s1.hugepages = Resources.hugepagesAfter s.hugepages (some r) ∧
      s1.unified = Resources.unifiedAfter s.unified (some r) ∧ s1.pids = Resources.pidsAfter s.pids (some r)) := by
  refine ⟨adjustWith_check o ext s a hf chk hc r hr, fun s1 hpre => ⟨checkerSees_eq o ext s a hf chk hc r hr s1 hpre, ?_⟩⟩
  unfold adjustPre at hpre
  simp only [bind, Except.bind, pure, Except.pure] at hpre
  split at hpre
  · cases hpre
  rename_i s0 h0
  cases hpre
  rw [pre_fields] at h0
  have e0 := injectCDI_framed hext h0
  rw [mid_fields, adjustResources_fields, hr, e0]
  exact ⟨rfl, rfl, rfl, rfl, rfl⟩

/-- A checker that edits only `Linux.Resources` (all the Go callback is handed) cannot disturb
    anything else: when `Adjust` succeeds with it, `Adjust` without it succeeds too and the two
    results agree on every field outside the resources section — annotations, env, args, hooks,
    rlimits, OOM score, mounts, devices, RDT, cgroups path, rootfs propagation, CDI — while the
    CPU, memory, hugepage, unified, pids and device-rule fields are exactly what the checker
    returned (block-I/O: what the checker returned unless the adjustment names a class). -/
theorem C13_checker_frame (o : Options) (ext : Externals) (s : Spec) (a : Adjustment)
    (hf : o.filterAnnotations = none) (chk : Spec → Except Unit Spec) (hc : o.checkResources = some chk)
    (hro : ResourceOnly chk) (r : LinuxResources) (hr : a.resources = some r) {res : Spec}
    (h : adjustWith o ext s a = .ok res) :
    ∃ s1 s2 res0, adjustPre ext s a = .ok s1 ∧ chk s1 = .ok s2 ∧ adjust ext s a = .ok res0 ∧
      blankResources res = blankResources res0 ∧
      res.cpu = s2.cpu ∧ res.memory = s2.memory ∧ res.hugepages = s2.hugepages ∧
      res.unified = s2.unified ∧ res.pids = s2.pids ∧ res.devRules = s2.devRules ∧
      Resources.applyBlockIO ext.resolveBlockIO s2.blockio a.blockioClass = .ok res.blockio := by
  rw [adjustWith_check o ext s a hf chk hc r hr] at h
  cases hpre : adjustPre ext s a with
  | error e => rw [hpre] at h; cases h
  | ok s1 =>
    rw [hpre] at h
    simp only [] at h
    cases hchk : chk s1 with
    | error e => rw [hchk] at h; cases h
    | ok s2 =>
      rw [hchk] at h
      simp only [] at h
      have hpost : adjustPost ext s2 a = .ok res := by
        cases hp : adjustPost ext s2 a with
        | error e => rw [hp] at h; cases h
        | ok x => rw [hp] at h; cases h; rfl
      obtain ⟨t', ht', hb⟩ := (adjustPost_blank ext a (hro s1 s2 hchk)).2 res hpost
      obtain ⟨c1, c2, c3, c4, c5, c6, c7⟩ := adjustPost_resources ext a hpost
      refine ⟨s1, s2, t', rfl, hchk, ?_, hb, c1, c2, c3, c4, c5, c6, c7⟩
      rw [adjust_eq_pre_post, hpre]
      exact ht'

/-- … and it introduces no failure of its own kind other than its own refusal: an error of
    `Adjust` that is not the checker's is the error `Adjust` without the checker gives. -/
theorem C13_checker_no_new_errors (o : Options) (ext : Externals) (s : Spec) (a : Adjustment)
    (hf : o.filterAnnotations = none) (chk : Spec → Except Unit Spec) (hc : o.checkResources = some chk)
    (hro : ResourceOnly chk) (r : LinuxResources) (hr : a.resources = some r) {e : GenError}
    (h : adjustWith o ext s a = .error (.gen e)) :
    adjust ext s a = .error e := by
  rw [adjustWith_check o ext s a hf chk hc r hr] at h
  rw [adjust_eq_pre_post]
  cases hpre : adjustPre ext s a with
  | error e' => rw [hpre] at h; cases h; rfl
  | ok s1 =>
    rw [hpre] at h
    simp only [] at h
    cases hchk : chk s1 with
    | error e' => rw [hchk] at h; cases h
    | ok s2 =>
      rw [hchk] at h
      simp only [] at h
      have hpost : adjustPost ext s2 a = .error e := by
        cases hp : adjustPost ext s2 a with
        | error e' => rw [hp] at h; cases h; rfl
        | ok x => rw [hp] at h; cases h
      exact (adjustPost_blank ext a (hro s1 s2 hchk)).1 e hpost

/-- Non-vacuity: a filter that drops `internal/…` keys and a checker that caps CPU shares at 512,
    on an adjustment that sets an allowed and a dropped annotation, shares 2048 and a mount. -/
def exFilter : AList Str Str → Except Unit (AList Str Str) :=
  fun l => .ok (l.filter fun e => !(str "internal/").isPrefixOf e.1)
def exChecker : Spec → Except Unit Spec :=
  fun s => .ok { s with cpu := { s.cpu with shares := s.cpu.shares.map (fun v => min v 512) } }

example : ResourceOnly exChecker := by
  intro s s' h; cases h; rfl

example :
    (adjustWith { filterAnnotations := some exFilter, checkResources := some exChecker } {} {}
      { annotations := [(str "internal/x", str "1"), (str "ok", str "2")],
        mounts := [{ destination := str "/m" }],
        linux := some { resources := some { cpu := some { shares := some 2048 } } } }).toOption.map
      (fun r => (r.annotations, r.cpu.shares, r.mounts.map (·.destination)))
    = some ([(str "ok", str "2")], some 512, [str "/m"]) := by decide

/-- The code before /repo 6eaf34c (removals before additions): `[FOO=new, -FOO]` on a spec with `FOO`
    removes `FOO`; the repaired code keeps the set. -/
theorem unfixed_env_set_then_remove :
    Env.lookup (Env.applyUnfixed [str "FOO=old"] [⟨str "FOO", str "new"⟩, ⟨str "-FOO", []⟩]) (str "FOO") = none ∧
    Env.lookup (Env.apply [str "FOO=old"] [⟨str "FOO", str "new"⟩, ⟨str "-FOO", []⟩]) (str "FOO")
      = some (str "new") := by decide

theorem unfixed_devices_set_then_remove :
    find Oci.Device.path (str "/dev/a")
      (Devices.applyUnfixed ([{ path := str "/dev/a" }], []) [{ path := str "/dev/a", major := 7 }, { path := str "-/dev/a" }]).1
      = none ∧
    find Oci.Device.path (str "/dev/a")
      (Devices.apply ([{ path := str "/dev/a" }], []) [{ path := str "/dev/a", major := 7 }, { path := str "-/dev/a" }]).1
      = some { path := str "/dev/a", major := 7 } := by decide

theorem unfixed_mounts_set_then_remove :
    (Mounts.applyUnfixed (fun _ => []) [{ destination := str "/a" }] []
        [{ destination := str "/a", source := str "/new" }, { destination := str "-/a" }]) = .ok ([], []) ∧
    (Mounts.apply (fun _ => []) [{ destination := str "/a" }] []
        [{ destination := str "/a", source := str "/new" }, { destination := str "-/a" }])
      = .ok ([{ destination := str "/a", source := str "/new" }], []) := by
  constructor <;> rfl

/-- The repair 6eaf34c (formerly docs/fixes/C13-1.patch) is conservative: the repaired env / device / mount loops compute what
    the code before the repair computes on the same entries with the removals moved to the
    front (stably) — so nothing changes for an adjustment that already lists removals first. -/
theorem C13_repair_conservative (s : Spec) (ext : Externals) (E : List KeyValue) (D : List LinuxDevice)
    (M : List Api.Mount) :
    adjustEnv s E = adjustEnvUnfixed s (removalsFirst KeyValue.key E) ∧
    adjustDevices s D = adjustDevicesUnfixed s (removalsFirst LinuxDevice.path D) ∧
    adjustMounts ext s M = adjustMountsUnfixed ext s (removalsFirst Api.Mount.destination M) := by
  refine ⟨?_, ?_, ?_⟩
  · unfold adjustEnv adjustEnvUnfixed; rw [Env.apply_eq_unfixed]
  · unfold adjustDevices adjustDevicesUnfixed; rw [Devices.apply_eq_unfixed]
  · unfold adjustMounts adjustMountsUnfixed; rw [Mounts.apply_eq_unfixed]

example : removalsFirst KeyValue.key [⟨str "-FOO", []⟩, ⟨str "FOO", str "v"⟩] =
    [⟨str "-FOO", []⟩, ⟨str "FOO", str "v"⟩] := by decide

/-- Finding (DESIGN §6 #10a): a requested memory limit of 0 is not applied — for every spec. -/
theorem memory_limit_zero_ignored (m : Oci.Memory) (r : LinuxMemory) (h : r.limit = some 0) :
    Resources.applyMemory m r = m := by
  unfold Resources.applyMemory; rw [h]; rfl

/-- Guard `Env.WF`: an original entry without `'='` is dropped as soon as env is adjusted. -/
theorem guard_env_noeq_dropped :
    Env.apply [str "NOEQ", str "A=1"] [⟨str "B", str "2"⟩] = [str "A=1", str "B=2"] := by decide

/-- Guard `NodupKeys`: with two devices on one path a removal deletes only the first. -/
theorem guard_duplicate_path :
    (Devices.apply ([{ path := str "/dev/a", major := 1 }, { path := str "/dev/a", major := 2 }], [])
      [{ path := str "-/dev/a" }]).1 = [{ path := str "/dev/a", major := 2 }] := by decide

/-- Guard cleaned paths: `"//"` denotes the root but is sorted after `"/%"`. -/
theorem guard_unclean_child_first :
    Mounts.cleanPath (str "//") = str "/" ∧
    Mounts.sortMounts [{ destination := str "//" }, { destination := str "/%" }] =
      [{ destination := str "/%" }, { destination := str "//" }] := by decide

end Nri.Props.C13
