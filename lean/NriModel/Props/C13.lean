import NriModel.Basic
/-! Property theorems for C13 — placeholder until the model is written. -/
namespace Nri.Props.C13
end Nri.Props.C13
