import NriModel.Extracted.ApiSchema
import NriModel.Result
/-!
A REGENERATED tie for C01 / C02 / C05: the ownership ledger of the collector model (`Result.Item`)
names an item for every field of the protocol messages through which a plugin can change a
container.

`NriModel/Extracted/ApiSchema.lean` is regenerated on every run from the descriptor compiled into
`pkg/api/api.pb.go`.  The theorems below pin the field lists of exactly those messages —
`ContainerAdjustment`, `LinuxContainerAdjustment`, `ContainerUpdate`, `LinuxContainerUpdate`,
`LinuxResources`, `LinuxMemory`, `LinuxCPU`, `LinuxPids`, `HugepageLimit`, `POSIXRlimit`, `Mount`,
`LinuxDevice`, `KeyValue`, `CDIDevice` — and map each field to the `Item` constructor (or to the
reason it carries no ownership).  A field added to one of these messages (a new resource knob, a new
adjustable section) makes `adjustable_fields_pinned` fail until the model — and with it the
statement of "two plugins setting the same item" — has been extended to it: the correspondence
alone would not notice, because no generator would ever set the new field.  Messages no plugin
adjusts through (pods, requests, events) are not pinned: the protocol can grow there freely.
-/
namespace Nri.Props.Coverage
open Nri.Wire Nri.Wire.Extracted

/-- field names of the message called `n` in the regenerated schema -/
def fieldNames (n : String) : List String :=
  match apiSchema.find? (·.name == n) with
  | some m => m.fields.map (·.name)
  | none => []

/-- What the collector model does with a field a plugin can set. -/
inductive Role
  | item (it : String)        -- ownable: the `Result.Item` constructor(s) it is claimed as
  | key                       -- identifies the item inside its family (map key, destination, path, …)
  | value                     -- travels with its item, owned through it
  | section                   -- a sub-message whose fields are listed separately
  | appended                  -- collected from every plugin without ownership (hooks)
  | target                    -- names the container an update is for
  | flag                      -- `ignore_failure`
  | notModelled (why : String)
  deriving DecidableEq, Repr

/-- every field of every message a plugin adjusts or updates a container through -/
def coverage : List (String × List (String × Role)) := [
  ("ContainerAdjustment", [
    ("annotations", .item "annotation"), ("mounts", .item "mount"), ("env", .item "env"),
    ("hooks", .appended), ("linux", .section), ("rlimits", .item "rlimit"),
    ("CDI_devices", .item "cdi"), ("args", .item "args")]),
  ("LinuxContainerAdjustment", [
    ("devices", .item "device"), ("resources", .section), ("cgroups_path", .item "cgroupsPath"),
    ("oom_score_adj", .item "oomScoreAdj")]),
  ("ContainerUpdate", [("container_id", .target), ("linux", .section), ("ignore_failure", .flag)]),
  ("LinuxContainerUpdate", [("resources", .section)]),
  ("LinuxResources", [
    ("memory", .section), ("cpu", .section), ("hugepage_limits", .item "hugepage"),
    ("blockio_class", .item "blockio"), ("rdt_class", .item "rdt"), ("unified", .item "unified"),
    ("devices", .notModelled "NRI v1 emulation field: no claim in result.go, dropped by LinuxResources.Copy (DESIGN §13)"),
    ("pids", .item "pids")]),
  ("LinuxMemory", [
    ("limit", .item "memLimit"), ("reservation", .item "memReservation"), ("swap", .item "memSwap"),
    ("kernel", .item "memKernel"), ("kernel_tcp", .item "memKernelTcp"), ("swappiness", .item "memSwappiness"),
    ("disable_oom_killer", .item "memDisableOom"), ("use_hierarchy", .item "memUseHierarchy")]),
  ("LinuxCPU", [
    ("shares", .item "cpuShares"), ("quota", .item "cpuQuota"), ("period", .item "cpuPeriod"),
    ("realtime_runtime", .item "cpuRtRuntime"), ("realtime_period", .item "cpuRtPeriod"),
    ("cpus", .item "cpusetCpus"), ("mems", .item "cpusetMems")]),
  ("LinuxPids", [("limit", .value)]),
  ("HugepageLimit", [("page_size", .key), ("limit", .value)]),
  ("POSIXRlimit", [("type", .key), ("hard", .value), ("soft", .value)]),
  ("Mount", [("destination", .key), ("type", .value), ("source", .value), ("options", .value)]),
  ("LinuxDevice", [("path", .key), ("type", .value), ("major", .value), ("minor", .value),
                   ("file_mode", .value), ("uid", .value), ("gid", .value)]),
  ("KeyValue", [("key", .key), ("value", .value)]),
  ("CDIDevice", [("name", .key)]) ]

/-- The regenerated protocol has exactly the adjustable fields the table assigns a role to — no
    field a plugin could set is unknown to the model. -/
theorem adjustable_fields_pinned :
    coverage.all (fun (m, fs) => fieldNames m == fs.map (·.1)) = true := by decide

/-- … and every ownable field is claimed as a constructor that exists in `Result.Item` (the names
    are those of the constructors; this list is the constructor list of `Result.Item`). -/
def itemConstructors : List String :=
  ["annotation", "mount", "device", "cdi", "env", "args", "hugepage", "unified", "rlimit",
   "memLimit", "memReservation", "memSwap", "memKernel", "memKernelTcp", "memSwappiness",
   "memDisableOom", "memUseHierarchy", "cpuShares", "cpuQuota", "cpuPeriod", "cpuRtRuntime",
   "cpuRtPeriod", "cpusetCpus", "cpusetMems", "pids", "blockio", "rdt", "cgroupsPath", "oomScoreAdj"]

/-- one value of every constructor of `Result.Item`, in declaration order: adding or removing a
    constructor makes the `cases` below non-exhaustive or this list ill-typed -/
def itemWitnesses : List Nri.Result.Item :=
  [.annotation [], .mount [], .device [], .cdi [], .env [], .args, .hugepage [], .unified [], .rlimit [],
   .memLimit, .memReservation, .memSwap, .memKernel, .memKernelTcp, .memSwappiness, .memDisableOom,
   .memUseHierarchy, .cpuShares, .cpuQuota, .cpuPeriod, .cpuRtRuntime, .cpuRtPeriod, .cpusetCpus,
   .cpusetMems, .pids, .blockio, .rdt, .cgroupsPath, .oomScoreAdj]

def ctorIndex : Nri.Result.Item → Nat
  | .annotation _ => 0 | .mount _ => 1 | .device _ => 2 | .cdi _ => 3 | .env _ => 4 | .args => 5
  | .hugepage _ => 6 | .unified _ => 7 | .rlimit _ => 8 | .memLimit => 9 | .memReservation => 10
  | .memSwap => 11 | .memKernel => 12 | .memKernelTcp => 13 | .memSwappiness => 14
  | .memDisableOom => 15 | .memUseHierarchy => 16 | .cpuShares => 17 | .cpuQuota => 18
  | .cpuPeriod => 19 | .cpuRtRuntime => 20 | .cpuRtPeriod => 21 | .cpusetCpus => 22
  | .cpusetMems => 23 | .pids => 24 | .blockio => 25 | .rdt => 26 | .cgroupsPath => 27
  | .oomScoreAdj => 28

/-- the ownable fields of the protocol and the constructors of `Result.Item` are in one-to-one
    correspondence: every `.item` role names a constructor, every constructor is named by exactly
    one field, and the witness list enumerates the constructors without repetition. -/
theorem ledger_covers_protocol :
    let claimed := coverage.flatMap (fun (_, fs) => fs.filterMap fun (_, r) =>
        match r with | .item it => some it | _ => none)
    (claimed.all (itemConstructors.contains ·) && itemConstructors.all (claimed.contains ·) &&
      claimed.length == 29 && claimed.eraseDups.length == 29 && itemConstructors.length == 29) = true ∧
    itemWitnesses.map ctorIndex = List.range 29 := by decide

end Nri.Props.Coverage
