/-
Basic vocabulary shared by every model: strings as `List Char`, association lists
standing in for Go maps, and Go-slice operations that fail instead of totalising.
Core Lean only (no Mathlib) so that the driver links as a `lean_exe`.
-/

namespace Nri

/-- Strings are lists of code points: all string logic in the models (removal marker,
    `NAME=value` splitting, two-digit indices) is structural recursion over this. -/
abbrev Str := List Char

def str (s : String) : Str := s.toList
def Str.toS (s : Str) : String := String.ofList s

/-- An association list standing in for a Go `map[K]V`. Well-formedness (no duplicate
    keys) is a separate predicate, never a subtype. -/
abbrev AList (κ : Type) (ν : Type) := List (κ × ν)

namespace AList
variable {κ ν : Type} [DecidableEq κ]

def lookup (m : AList κ ν) (k : κ) : Option ν :=
  match m with
  | [] => none
  | (k', v) :: rest => if k' = k then some v else lookup rest k

def erase (m : AList κ ν) (k : κ) : AList κ ν :=
  match m with
  | [] => []
  | (k', v) :: rest => if k' = k then erase rest k else (k', v) :: erase rest k

/-- Go `m[k] = v`: replaces in place if present, otherwise appends. Order is only a
    representation; maps are compared through `lookup`. -/
def insert (m : AList κ ν) (k : κ) (v : ν) : AList κ ν :=
  match m with
  | [] => [(k, v)]
  | (k', v') :: rest => if k' = k then (k, v) :: rest else (k', v') :: insert rest k v

def keys (m : AList κ ν) : List κ := m.map (·.1)

def contains (m : AList κ ν) (k : κ) : Bool := (lookup m k).isSome

def WF (m : AList κ ν) : Prop := (keys m).Nodup

@[simp] theorem lookup_nil (k : κ) : lookup ([] : AList κ ν) k = none := rfl

theorem lookup_insert_self (m : AList κ ν) (k : κ) (v : ν) :
    lookup (insert m k v) k = some v := by
  induction m with
  | nil => simp [insert, lookup]
  | cons e rest ih =>
    obtain ⟨k', v'⟩ := e
    by_cases h : k' = k
    · simp [insert, h, lookup]
    · simp [insert, h, lookup, ih]

theorem lookup_insert_other (m : AList κ ν) (k k₂ : κ) (v : ν) (hne : k ≠ k₂) :
    lookup (insert m k v) k₂ = lookup m k₂ := by
  induction m with
  | nil => simp [insert, lookup, hne]
  | cons e rest ih =>
    obtain ⟨k', v'⟩ := e
    by_cases h : k' = k
    · subst h; simp [insert, lookup, hne]
    · by_cases h2 : k' = k₂
      · subst h2; simp [insert, h, lookup]
      · simp [insert, h, lookup, h2, ih]

theorem lookup_erase_self (m : AList κ ν) (k : κ) : lookup (erase m k) k = none := by
  induction m with
  | nil => rfl
  | cons e rest ih =>
    obtain ⟨k', v'⟩ := e
    by_cases h : k' = k
    · simp [erase, h, ih]
    · simp [erase, h, lookup, ih]

theorem lookup_erase_other (m : AList κ ν) (k k₂ : κ) (hne : k ≠ k₂) :
    lookup (erase m k) k₂ = lookup m k₂ := by
  induction m with
  | nil => rfl
  | cons e rest ih =>
    obtain ⟨k', v'⟩ := e
    by_cases h : k' = k
    · subst h; simp [erase, lookup, hne, ih]
    · by_cases h2 : k' = k₂
      · subst h2; simp [erase, h, lookup]
      · simp [erase, h, lookup, h2, ih]

end AList

/-- Go `s[:n]`: a fault (panic, or exposure of capacity the caller never supplied) when
    `n > len s`; never totalised with `List.take`. -/
def sliceTo {α : Type} (s : List α) (n : Nat) : Option (List α) :=
  if n ≤ s.length then some (s.take n) else none

/-- Go `s[n:]`. -/
def sliceFrom {α : Type} (s : List α) (n : Nat) : Option (List α) :=
  if n ≤ s.length then some (s.drop n) else none

end Nri
