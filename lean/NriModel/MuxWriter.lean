/-
Writer side of one multiplexer end at the BYTE level: what `mux.write`
(`pkg/net/multiplex/mux.go`) has put on the trunk after any sequence of `conn.Write` calls, any
of which may fail in any of its trunk `Write` calls after any number of bytes.

`Mux.lean` models a successful `conn.Write` as "its frames are on the trunk" and a failed one as
an environment choice (`errTrunk partialWrite`); it does not say which BYTES a failed write left
on the trunk.  This file does, because the fail-stop clause of C11 ("never a gap, duplicate or
damaged frame" under "the trunk failing") depends on it: the peer's reader decodes whatever is
on the trunk, so a torn frame may only ever be the LAST thing written.

The Go loop, per frame: `trunk.Write(hdr)`; on error `if n != 0 { setError; Close }; return`.
Then `trunk.Write(payload)`; on error — REPAIRED code (/repo fix "close the multiplexer when a
frame's payload cannot be written"): `setError; Close; return` unconditionally, because the
header of the frame is already out; code BEFORE the repair: `if n != 0 { setError; Close }`, so
a payload write that failed before its first byte left an orphan header on a live trunk.
`fixed = false` transcribes the code before the repair (for the witness theorem).
Core Lean only.
-/
import NriModel.Mux

namespace Nri.Mux

/-- How the failing trunk `Write` call of a frame ends. -/
inductive CallFail
  | hdr (n : Nat)       -- the header call wrote `n` bytes (clamped to < 8) and failed
  | payload (n : Nat)   -- the header went out whole; the payload call wrote `n` bytes (clamped
                        -- to the payload length) and failed
  deriving DecidableEq, Repr

/-- Writer side of a mux end. -/
structure WSt where
  /-- every byte the trunk accepted so far, in order -/
  out : Bytes := []
  /-- `setError` + `Close` have run (`doneC` closed: every later `conn.Write` returns at once) -/
  closed : Bool := false
  /-- ghost: the frames that went out WHOLE, in order -/
  whole : List Frame := []
  deriving Repr

/-- The loop of `mux.write` over the frames of one `conn.Write`; `fail = some (i, cf)`: the
    `i`-th frame's trunk call fails as `cf`.  Result: new state, and whether the Write succeeded. -/
def writeFramesW (fixed : Bool) : List Frame → Option (Nat × CallFail) → WSt → WSt × Bool
  | [], _, s => (s, true)
  | f :: fs, fail, s =>
    match fail with
    | some (0, .hdr n) =>
      let n := min n 7
      ({ s with out := s.out ++ (encodeFrame f).take n, closed := s.closed || n != 0 }, false)
    | some (0, .payload n) =>
      let n := min n f.payload.length
      if n = f.payload.length then
        -- every byte of the frame is out although the call reported an error
        ({ out := s.out ++ encodeFrame f, closed := s.closed || fixed || n != 0, whole := s.whole ++ [f] }, false)
      else
        ({ s with out := s.out ++ (encodeFrame f).take (8 + n), closed := s.closed || fixed || n != 0 }, false)
    | some (i + 1, cf) =>
      writeFramesW fixed fs (some (i, cf)) { s with out := s.out ++ encodeFrame f, whole := s.whole ++ [f] }
    | none =>
      writeFramesW fixed fs none { s with out := s.out ++ encodeFrame f, whole := s.whole ++ [f] }

/-- One `conn.Write`: its frames (the chunks `mux.write` cuts the buffer into, any chunking) and
    where, if anywhere, the trunk fails. -/
structure WOp where
  frames : List Frame
  fail : Option (Nat × CallFail) := none

/-- `conn.Write` on a closed mux returns `EOF` without touching the trunk. -/
def wstep (fixed : Bool) (s : WSt) (op : WOp) : WSt :=
  if s.closed then s else (writeFramesW fixed op.frames op.fail s).1

def wrun (fixed : Bool) (ops : List WOp) (s : WSt := {}) : WSt := ops.foldl (wstep fixed) s

/-- A `conn.Write(buf)` on connection `id`, cut into frames the way `mux.write` does for a maximum
    payload `mp` (`chunkSpec`, proved equal to the Go loop in `Lemmas/MuxCodec.lean: chunks_eq_spec`). -/
def WOp.ofWrite (mp id : Nat) (buf : Bytes) (fail : Option (Nat × CallFail) := none) : WOp :=
  ⟨(chunkSpec mp buf).map (Frame.mk id), fail⟩

/-- every frame of every write has a header that fits: id and length below 2^32 -/
def WOp.Bounded (op : WOp) : Prop :=
  ∀ f ∈ op.frames, f.id < 4294967296 ∧ f.payload.length < 4294967296

end Nri.Mux
