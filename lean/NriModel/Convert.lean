/-
Model of the NRI <-> OCI conversions of pkg/api (resources.go, mount.go, device.go,
hooks.go, env.go, helpers.go), `(*LinuxResources).Copy`, and the optional-value
constructors and getters of optional.go.  Core Lean only (the driver links this file).

Conventions
* Go fixed-width integers are bit patterns: `I64`/`U64`/`I32`/`U32` wrap a `BitVec` and differ
  only in how the pattern is read (`I64.val : Int` two's complement, `U64.val : Nat`).  A Go
  conversion `int64(x)` of a `uint64` keeps the pattern (`U64.toI64`), so an overflowing cast
  is visible as `(x.toI64).val ≠ x.val`.
* Go `int` / `uint` are 64 bit wide (the harness asserts `strconv.IntSize = 64` on every run).
* `*T` is `Option T`; `[]T` is `List T` (a nil slice and an empty slice are the same list —
  nil-ness of results is checked separately, see `appendBuiltNil`/`dupNil`); `map[string]string` is an
  association list with distinct keys, *iterated in an arbitrary order* (`dupMap` is stated for
  every permutation).
* `[]*T` is `List T`: the domain is "no nil element" (what protobuf decoding produces).  A nil
  element is a nil-pointer dereference in every conversion that ranges over such a slice; the
  driver models that as the fault `none` (`allSome`), it is never totalised away.
-/
import NriModel.Basic

namespace Nri.Convert

/-! ## Fixed-width integers -/

structure I64 where
  bits : BitVec 64
deriving DecidableEq
structure U64 where
  bits : BitVec 64
deriving DecidableEq
structure I32 where
  bits : BitVec 32
deriving DecidableEq
structure U32 where
  bits : BitVec 32
deriving DecidableEq

def I64.val (x : I64) : Int := x.bits.toInt
def U64.val (x : U64) : Nat := x.bits.toNat
def I32.val (x : I32) : Int := x.bits.toInt
def U32.val (x : U32) : Nat := x.bits.toNat
def I64.ofInt (i : Int) : I64 := ⟨BitVec.ofInt 64 i⟩
def U64.ofNat (n : Nat) : U64 := ⟨BitVec.ofNat 64 n⟩
def I32.ofInt (i : Int) : I32 := ⟨BitVec.ofInt 32 i⟩
def U32.ofNat (n : Nat) : U32 := ⟨BitVec.ofNat 32 n⟩
/-- Go `int64(x)` for `x uint64` (also `uint`): same bit pattern. -/
def U64.toI64 (x : U64) : I64 := ⟨x.bits⟩
/-- Go `uint64(x)` for `x int64` (also `int`): same bit pattern. -/
def I64.toU64 (x : I64) : U64 := ⟨x.bits⟩

instance : Repr I64 := ⟨fun x _ => repr x.val⟩
instance : Repr U64 := ⟨fun x _ => repr x.val⟩
instance : Repr I32 := ⟨fun x _ => repr x.val⟩
instance : Repr U32 := ⟨fun x _ => repr x.val⟩

/-! ## optional.go — constructors (`String`, `Int`, `Int32`, `UInt32`, `Int64`, `UInt64`,
`Bool`, `FileMode`) and `Get`.  The argument is `interface{}`; the model's argument type
enumerates the dynamic types the type switch distinguishes, `other` standing for every
dynamic type that falls to `default: return nil`, and `nil` for the untyped nil interface value
(the literal `X(nil)`): no `case` of a type switch matches it — there is no `case nil:` in any of
the eight switches — so it too takes the `default` arm. -/

/-- the three-way switch shared by `String`, `Int`, `Int32`, `UInt32`, `Bool`:
    `T`, `*T`, `*OptionalT`, default -/
inductive Arg (α : Type) where
  | val (v : α)
  | ptr (p : Option α)
  | opt (p : Option α)
  | other
  | nil
deriving DecidableEq, Repr

def optOf {α : Type} : Arg α → Option α
  | .val v => some v
  | .ptr none => none
  | .ptr (some v) => some v
  | .opt none => none
  | .opt (some v) => some v
  | .other => none
  | .nil => none

/-- `String(v)` -/
def optString : Arg Str → Option Str := optOf
/-- `Int(v)`: stores `int64(o)`; Go `int` is 64 bit, so the cast is the identity. -/
def optInt : Arg I64 → Option I64 := optOf
/-- `Int32(v)` -/
def optInt32 : Arg I32 → Option I32 := optOf
/-- `UInt32(v)` -/
def optUInt32 : Arg U32 → Option U32 := optOf
/-- `Bool(v)` -/
def optBool : Arg Bool → Option Bool := optOf

inductive Int64Arg where
  | int (v : I64) | uint (v : U64) | uint64 (v : U64) | int64 (v : I64)
  | pInt64 (p : Option I64) | pUint64 (p : Option U64) | opt (p : Option I64)
  | other | nil
deriving DecidableEq, Repr

/-- `Int64(v)`: the unsigned inputs are converted with `int64(o)` (bit pattern kept). -/
def optInt64 : Int64Arg → Option I64
  | .int v => some v
  | .uint v => some v.toI64
  | .uint64 v => some v.toI64
  | .int64 v => some v
  | .pInt64 none => none
  | .pInt64 (some v) => some v
  | .pUint64 none => none
  | .pUint64 (some v) => some v.toI64
  | .opt none => none
  | .opt (some v) => some v
  | .other => none
  | .nil => none

inductive UInt64Arg where
  | int (v : I64) | uint (v : U64) | int64 (v : I64) | uint64 (v : U64)
  | pInt64 (p : Option I64) | pUint64 (p : Option U64) | opt (p : Option U64)
  | other | nil
deriving DecidableEq, Repr

/-- `UInt64(v)`: the signed inputs are converted with `uint64(o)` (bit pattern kept). -/
def optUInt64 : UInt64Arg → Option U64
  | .int v => some v.toU64
  | .uint v => some v
  | .int64 v => some v.toU64
  | .uint64 v => some v
  | .pInt64 none => none
  | .pInt64 (some v) => some v.toU64
  | .pUint64 none => none
  | .pUint64 (some v) => some v
  | .opt none => none
  | .opt (some v) => some v
  | .other => none
  | .nil => none

inductive FileModeArg where
  | pMode (p : Option U32) | mode (v : U32) | opt (p : Option U32) | u32 (v : U32)
  | other | nil
deriving DecidableEq, Repr

/-- `FileMode(v)`; `os.FileMode` is a `uint32`, every cast involved is the identity. -/
def optFileMode : FileModeArg → Option U32
  | .pMode none => none
  | .pMode (some v) => some v
  | .mode v => some v
  | .opt none => none
  | .opt (some v) => some v
  | .u32 v => some v
  | .other => none
  | .nil => none

/-- `(*OptionalX).Get()`: nil ↦ nil, otherwise a pointer to a *copy* of the value. -/
def optGet {α : Type} : Option α → Option α
  | none => none
  | some v => some v

/-! ## helpers.go -/

/-- `DupStringSlice` (values; nil-ness: `dupNil`) -/
def dupStringSlice : List Str → List Str
  | [] => []
  | x :: xs => x :: dupStringSlice xs

/-- copying a Go map entry by entry into a fresh map, `entries` being the order in which the
    `range` happened to yield them -/
def dupMap (entries : AList Str Str) : AList Str Str :=
  entries.foldl (fun acc kv => AList.insert acc kv.1 kv.2) []

/-- `IsMarkedForRemoval` -/
def isMarkedForRemoval : Str → Str × Bool
  | [] => ([], false)
  | c :: cs => if c = '-' then (cs, true) else (c :: cs, false)

/-- `MarkForRemoval` -/
def markForRemoval (k : Str) : Str := '-' :: k

/-- `ClearRemovalMarker` -/
def clearRemovalMarker : Str → Str
  | [] => []
  | c :: cs => if c = '-' then cs else c :: cs

/-! ## resources.go -/

structure OciMemory where
  limit : Option I64
  reservation : Option I64
  swap : Option I64
  kernel : Option I64
  kernelTcp : Option I64
  swappiness : Option U64
  disableOom : Option Bool
  useHierarchy : Option Bool
  /-- `CheckBeforeUpdate`: OCI only -/
  checkBeforeUpdate : Option Bool
deriving DecidableEq, Repr

structure OciCPU where
  shares : Option U64
  quota : Option I64
  /-- `Burst`: OCI only -/
  burst : Option U64
  period : Option U64
  rtRuntime : Option I64
  rtPeriod : Option U64
  cpus : Str
  mems : Str
  /-- `Idle`: OCI only -/
  idle : Option I64
deriving DecidableEq, Repr

structure Hugepage where
  pageSize : Str
  limit : U64
deriving DecidableEq, Repr

structure DevCgroup where
  allow : Bool
  type : Str
  major : Option I64
  minor : Option I64
  access : Str
deriving DecidableEq, Repr

structure Pids where
  limit : I64
deriving DecidableEq, Repr

structure OciResources where
  devices : List DevCgroup
  memory : Option OciMemory
  cpu : Option OciCPU
  pids : Option Pids
  hugepages : List Hugepage
  unified : AList Str Str
  /-- which of `BlockIO`, `Network`, `Rdma` are populated: OCI only, never converted -/
  uncarried : List Str
deriving DecidableEq, Repr

structure NriMemory where
  limit : Option I64
  reservation : Option I64
  swap : Option I64
  kernel : Option I64
  kernelTcp : Option I64
  swappiness : Option U64
  disableOom : Option Bool
  useHierarchy : Option Bool
deriving DecidableEq, Repr

structure NriCPU where
  shares : Option U64
  quota : Option I64
  period : Option U64
  rtRuntime : Option I64
  rtPeriod : Option U64
  cpus : Str
  mems : Str
deriving DecidableEq, Repr

structure NriResources where
  memory : Option NriMemory
  cpu : Option NriCPU
  hugepages : List Hugepage
  /-- NRI only -/
  blockioClass : Option Str
  /-- NRI only -/
  rdtClass : Option Str
  unified : AList Str Str
  devices : List DevCgroup
  pids : Option Pids
deriving DecidableEq, Repr

def emptyOciMemory : OciMemory := ⟨none, none, none, none, none, none, none, none, none⟩
def emptyOciCPU : OciCPU := ⟨none, none, none, none, none, none, [], [], none⟩
def emptyNriMemory : NriMemory := ⟨none, none, none, none, none, none, none, none⟩
def emptyNriCPU : NriCPU := ⟨none, none, none, none, none, [], []⟩

def fromOCIMemory (m : OciMemory) : NriMemory :=
  { limit := optInt64 (.pInt64 m.limit)
    reservation := optInt64 (.pInt64 m.reservation)
    swap := optInt64 (.pInt64 m.swap)
    kernel := optInt64 (.pInt64 m.kernel)
    kernelTcp := optInt64 (.pInt64 m.kernelTcp)
    swappiness := optUInt64 (.pUint64 m.swappiness)
    disableOom := optBool (.ptr m.disableOom)
    useHierarchy := optBool (.ptr m.useHierarchy) }

def fromOCICPU (c : OciCPU) : NriCPU :=
  { shares := optUInt64 (.pUint64 c.shares)
    quota := optInt64 (.pInt64 c.quota)
    period := optUInt64 (.pUint64 c.period)
    rtRuntime := optInt64 (.pInt64 c.rtRuntime)
    rtPeriod := optUInt64 (.pUint64 c.rtPeriod)
    cpus := c.cpus
    mems := c.mems }

def fromOCIDevCgroup (d : DevCgroup) : DevCgroup :=
  { allow := d.allow, type := d.type, major := optInt64 (.pInt64 d.major),
    minor := optInt64 (.pInt64 d.minor), access := d.access }

/-- `FromOCILinuxResources(o, _)`; the annotations argument is ignored by the code. `perm`
    is the order in which `range o.Unified` yields the entries (a permutation of them). -/
def fromOCIResourcesP (perm : AList Str Str) : Option OciResources → Option NriResources
  | none => none
  | some o => some
    { memory := o.memory.map fromOCIMemory
      cpu := o.cpu.map fromOCICPU
      hugepages := o.hugepages.map (fun h => { pageSize := h.pageSize, limit := h.limit })
      devices := o.devices.map fromOCIDevCgroup
      pids := o.pids.map (fun p => { limit := p.limit })
      unified := if o.unified.length ≠ 0 then dupMap perm else []
      blockioClass := none
      rdtClass := none }

def fromOCIResources (o : Option OciResources) : Option NriResources :=
  fromOCIResourcesP (match o with | none => [] | some o => o.unified) o

def toOCIMemory (m : NriMemory) : OciMemory :=
  { limit := optGet m.limit
    reservation := optGet m.reservation
    swap := optGet m.swap
    kernel := optGet m.kernel
    kernelTcp := optGet m.kernelTcp
    swappiness := optGet m.swappiness
    disableOom := optGet m.disableOom
    useHierarchy := optGet m.useHierarchy
    checkBeforeUpdate := none }

def toOCICPU (c : NriCPU) : OciCPU :=
  { shares := optGet c.shares
    quota := optGet c.quota
    burst := none
    period := optGet c.period
    rtRuntime := optGet c.rtRuntime
    rtPeriod := optGet c.rtPeriod
    cpus := c.cpus
    mems := c.mems
    idle := none }

def toOCIDevCgroup (d : DevCgroup) : DevCgroup :=
  { allow := d.allow, type := d.type, major := optGet d.major, minor := optGet d.minor,
    access := d.access }

/-- `(*LinuxResources).ToOCI()`: `CPU` and `Memory` start out as empty (non-nil) sections
    and are replaced when the NRI side has them. -/
def toOCIResourcesP (perm : AList Str Str) : Option NriResources → Option OciResources
  | none => none
  | some r => some
    { memory := some (match r.memory with | none => emptyOciMemory | some m => toOCIMemory m)
      cpu := some (match r.cpu with | none => emptyOciCPU | some c => toOCICPU c)
      hugepages := r.hugepages.map (fun l => { pageSize := l.pageSize, limit := l.limit })
      unified := if r.unified.length ≠ 0 then dupMap perm else []
      devices := r.devices.map toOCIDevCgroup
      pids := r.pids.map (fun p => { limit := p.limit })
      uncarried := [] }

def toOCIResources (r : Option NriResources) : Option OciResources :=
  toOCIResourcesP (match r with | none => [] | some r => r.unified) r

def copyMemory (m : NriMemory) : NriMemory :=
  { limit := optInt64 (.opt m.limit)
    reservation := optInt64 (.opt m.reservation)
    swap := optInt64 (.opt m.swap)
    kernel := optInt64 (.opt m.kernel)
    kernelTcp := optInt64 (.opt m.kernelTcp)
    swappiness := optUInt64 (.opt m.swappiness)
    disableOom := optBool (.opt m.disableOom)
    useHierarchy := optBool (.opt m.useHierarchy) }

def copyCPU (c : NriCPU) : NriCPU :=
  { shares := optUInt64 (.opt c.shares)
    quota := optInt64 (.opt c.quota)
    period := optUInt64 (.opt c.period)
    rtRuntime := optInt64 (.opt c.rtRuntime)
    rtPeriod := optUInt64 (.opt c.rtPeriod)
    cpus := c.cpus
    mems := c.mems }

/-- `(*LinuxResources).Copy()`.  As in the code, `Devices` is NOT copied. -/
def copyResourcesP (perm : AList Str Str) : Option NriResources → Option NriResources
  | none => none
  | some r => some
    { memory := r.memory.map copyMemory
      cpu := r.cpu.map copyCPU
      hugepages := r.hugepages.map (fun l => { pageSize := l.pageSize, limit := l.limit })
      unified := if r.unified.length ≠ 0 then dupMap perm else []
      pids := r.pids.map (fun p => { limit := p.limit })
      blockioClass := optString (.opt r.blockioClass)
      rdtClass := optString (.opt r.rdtClass)
      devices := [] }

def copyResources (r : Option NriResources) : Option NriResources :=
  copyResourcesP (match r with | none => [] | some r => r.unified) r

/-- The fields BOTH representations carry, flattened; a nil `Memory`/`CPU` section reads as
    "every scalar of the section unset" (and empty cpuset strings). -/
structure Carried where
  memLimit : Option I64
  memReservation : Option I64
  memSwap : Option I64
  memKernel : Option I64
  memKernelTcp : Option I64
  memSwappiness : Option U64
  memDisableOom : Option Bool
  memUseHierarchy : Option Bool
  cpuShares : Option U64
  cpuQuota : Option I64
  cpuPeriod : Option U64
  cpuRtRuntime : Option I64
  cpuRtPeriod : Option U64
  cpus : Str
  mems : Str
  hugepages : List Hugepage
  devices : List DevCgroup
  pids : Option Pids
  unified : AList Str Str
deriving DecidableEq, Repr

def OciResources.carried (o : OciResources) : Carried :=
  let m := match o.memory with | none => emptyOciMemory | some m => m
  let c := match o.cpu with | none => emptyOciCPU | some c => c
  { memLimit := m.limit, memReservation := m.reservation, memSwap := m.swap,
    memKernel := m.kernel, memKernelTcp := m.kernelTcp, memSwappiness := m.swappiness,
    memDisableOom := m.disableOom, memUseHierarchy := m.useHierarchy,
    cpuShares := c.shares, cpuQuota := c.quota, cpuPeriod := c.period,
    cpuRtRuntime := c.rtRuntime, cpuRtPeriod := c.rtPeriod, cpus := c.cpus, mems := c.mems,
    hugepages := o.hugepages, devices := o.devices, pids := o.pids, unified := o.unified }

def NriResources.carried (r : NriResources) : Carried :=
  let m := match r.memory with | none => emptyNriMemory | some m => m
  let c := match r.cpu with | none => emptyNriCPU | some c => c
  { memLimit := m.limit, memReservation := m.reservation, memSwap := m.swap,
    memKernel := m.kernel, memKernelTcp := m.kernelTcp, memSwappiness := m.swappiness,
    memDisableOom := m.disableOom, memUseHierarchy := m.useHierarchy,
    cpuShares := c.shares, cpuQuota := c.quota, cpuPeriod := c.period,
    cpuRtRuntime := c.rtRuntime, cpuRtPeriod := c.rtPeriod, cpus := c.cpus, mems := c.mems,
    hugepages := r.hugepages, devices := r.devices, pids := r.pids, unified := r.unified }

/-- what OCI -> NRI -> OCI returns, spelled out: the OCI-only fields are gone and absent
    `Memory`/`CPU` sections come back as present-but-empty ones -/
def ociNorm (o : OciResources) : OciResources :=
  { o with
    memory := some (match o.memory with
      | none => emptyOciMemory | some m => { m with checkBeforeUpdate := none })
    cpu := some (match o.cpu with
      | none => emptyOciCPU | some c => { c with burst := none, idle := none })
    uncarried := [] }

/-- what NRI -> OCI -> NRI returns, spelled out -/
def nriNorm (r : NriResources) : NriResources :=
  { r with
    memory := some (match r.memory with | none => emptyNriMemory | some m => m)
    cpu := some (match r.cpu with | none => emptyNriCPU | some c => c)
    blockioClass := none
    rdtClass := none }

/-! ## mount.go -/

structure OciMount where
  destination : Str
  type : Str
  source : Str
  options : List Str
  /-- `UIDMappings`/`GIDMappings` populated: OCI only -/
  idMapped : Bool
deriving DecidableEq, Repr

structure NriMount where
  destination : Str
  type : Str
  source : Str
  options : List Str
deriving DecidableEq, Repr

/-- `FromOCIMounts` -/
def fromOCIMounts (o : List OciMount) : List NriMount :=
  o.map fun m => { destination := m.destination, type := m.type, source := m.source,
                   options := dupStringSlice m.options }

def isPropagation (opt : Str) : Bool :=
  opt = str "rprivate" || opt = str "rshared" || opt = str "rslave"

/-- the loop of `(*Mount).ToOCI`: appends each option and, when a query pointer was given,
    stores every propagation option into it (so the last one wins) -/
def mountOptLoop : List Str → List Str → Option Str → List Str × Option Str
  | [], acc, q => (acc, q)
  | opt :: rest, acc, q =>
    mountOptLoop rest (acc ++ [opt])
      (match q with
       | none => none
       | some old => if isPropagation opt then some opt else some old)

/-- `(*Mount).ToOCI(propagationQuery)`; `q = none` is a nil query pointer, `some s` a pointer
    to a string currently holding `s`. Returns the mount and the final content of `*q`. -/
def mountToOCI (m : NriMount) (q : Option Str) : OciMount × Option Str :=
  let (opts, q') := mountOptLoop m.options [] q
  ({ destination := m.destination, type := m.type, source := m.source, options := opts,
     idMapped := false }, q')

/-! ## device.go -/

structure Device where
  path : Str
  type : Str
  major : I64
  minor : I64
  fileMode : Option U32
  uid : Option U32
  gid : Option U32
deriving DecidableEq, Repr

def zeroDevice : Device := ⟨[], [], ⟨0⟩, ⟨0⟩, none, none, none⟩

/-- `FromOCILinuxDevices` -/
def fromOCIDevices (o : List Device) : List Device :=
  o.map fun d => { path := d.path, type := d.type, major := d.major, minor := d.minor,
                   fileMode := optFileMode (.pMode d.fileMode),
                   uid := optUInt32 (.ptr d.uid), gid := optUInt32 (.ptr d.gid) }

/-- `(*LinuxDevice).ToOCI()`; a nil receiver yields the zero device -/
def deviceToOCI : Option Device → Device
  | none => zeroDevice
  | some d => { path := d.path, type := d.type, major := d.major, minor := d.minor,
                fileMode := optGet d.fileMode, uid := optGet d.uid, gid := optGet d.gid }

/-- `(*LinuxDevice).AccessString()` — as written: `r` and `w` start as "r"/"w" and the
    file mode can only assign the same letters again, so the mode never matters -/
def accessString (d : Device) : Str :=
  str "rw" ++ (if d.type = str "b" then str "m" else [])

/-! ## hooks.go -/

structure Hook where
  path : Str
  args : List Str
  env : List Str
  /-- OCI `*int` / NRI `*OptionalInt` (int64); Go `int` is 64 bit -/
  timeout : Option I64
deriving DecidableEq, Repr

structure Hooks where
  prestart : List Hook
  createRuntime : List Hook
  createContainer : List Hook
  startContainer : List Hook
  poststart : List Hook
  poststop : List Hook
deriving DecidableEq, Repr

/-- `(*Hook).ToOCI()` -/
def hookToOCI (h : Hook) : Hook :=
  { path := h.path, args := dupStringSlice h.args, env := dupStringSlice h.env,
    timeout := optGet h.timeout }

/-- `FromOCIHookSlice` -/
def fromOCIHookSlice (o : List Hook) : List Hook :=
  o.map fun h => { path := h.path, args := dupStringSlice h.args, env := dupStringSlice h.env,
                   timeout := optInt (.ptr h.timeout) }

/-- `FromOCIHooks` -/
def fromOCIHooks : Option Hooks → Option Hooks
  | none => none
  | some o => some
    { prestart := fromOCIHookSlice o.prestart
      createRuntime := fromOCIHookSlice o.createRuntime
      createContainer := fromOCIHookSlice o.createContainer
      startContainer := fromOCIHookSlice o.startContainer
      poststart := fromOCIHookSlice o.poststart
      poststop := fromOCIHookSlice o.poststop }

/-- `(*Hooks).Append(h)` (value of the receiver afterwards) -/
def hooksAppend (hooks : Hooks) : Option Hooks → Hooks
  | none => hooks
  | some h =>
    { prestart := hooks.prestart ++ h.prestart
      createRuntime := hooks.createRuntime ++ h.createRuntime
      createContainer := hooks.createContainer ++ h.createContainer
      startContainer := hooks.startContainer ++ h.startContainer
      poststart := hooks.poststart ++ h.poststart
      poststop := hooks.poststop ++ h.poststop }

/-- `(*Hooks).Hooks()`: itself if any list is non-empty, else nil -/
def hooksHooks : Option Hooks → Option Hooks
  | none => none
  | some h =>
    if h.prestart.length > 0 then some h
    else if h.createRuntime.length > 0 then some h
    else if h.createContainer.length > 0 then some h
    else if h.startContainer.length > 0 then some h
    else if h.poststart.length > 0 then some h
    else if h.poststop.length > 0 then some h
    else none

/-! ## env.go -/

structure KeyValue where
  key : Str
  value : Str
deriving DecidableEq, Repr

/-- `(*KeyValue).ToOCI()` -/
def kvToOCI (e : KeyValue) : Str := e.key ++ '=' :: e.value

/-- `strings.SplitN(s, "=", 2)` read structurally: the text before the first `=` and, when
    there is an `=`, everything after it (`none` = the one-piece result). `SplitN` with a
    non-empty separator and n = 2 returns one or two pieces, so the `case 0` and `default`
    arms of the switch in `FromOCIEnv` are dead. -/
def splitFirstEq : Str → Str × Option Str
  | [] => ([], none)
  | c :: cs =>
    if c = '=' then ([], some cs)
    else match splitFirstEq cs with
      | (k, v) => (c :: k, v)

/-- body of the loop of `FromOCIEnv` for one entry -/
def fromOCIEnvEntry (keyval : Str) : KeyValue :=
  match splitFirstEq keyval with
  | (k, none) => { key := k, value := [] }
  | (k, some v) => { key := k, value := v }

/-- `FromOCIEnv` (values; `FromOCIEnv(nil) = nil`: `dupNil`) -/
def fromOCIEnv (env : List Str) : List KeyValue := env.map fromOCIEnvEntry

/-! ## nil-ness of results (Go distinguishes a nil slice/map from an empty one; values do not) -/

/-- Which results are nil: `append`-built results (`var s []T` + `append` in a `range`) are nil
    exactly when nothing was appended; `DupStringSlice`, `DupStringMap` and `FromOCIEnv`
    return nil exactly for a nil argument. -/
def appendBuiltNil (len : Nat) : Bool := len == 0
def dupNil (argNil : Bool) : Bool := argNil

/-! ## faults -/

/-- a `[]*T` with a nil element: ranging over it and reading a field is a nil dereference -/
def allSome {α : Type} : List (Option α) → Option (List α)
  | [] => some []
  | none :: _ => none
  | some x :: rest => (allSome rest).map (x :: ·)

end Nri.Convert
