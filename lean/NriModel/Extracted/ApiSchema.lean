/-
GENERATED on every run by `verifh C12 -tier gen` from the descriptor compiled into
pkg/api/api.pb.go (`api.File_pkg_api_api_proto`, read through protoreflect). Do not edit:
bin/setup and bin/check overwrite this file before building the Lean project.
file: pkg/api/api.proto   syntax: proto3   messages: 49
-/
import NriModel.Wire

namespace Nri.Wire.Extracted
open Nri.Wire

def apiSchema : Schema := [
  -- 0
  { name := "RegisterPluginRequest", fields := [
      { name := "plugin_name", num := 1, ty := .string },
      { name := "plugin_idx", num := 2, ty := .string } ] },
  -- 1
  { name := "UpdateContainersRequest", fields := [
      { name := "update", num := 1, ty := .repMsg 37 },
      { name := "evict", num := 2, ty := .repMsg 39 } ] },
  -- 2
  { name := "UpdateContainersResponse", fields := [
      { name := "failed", num := 1, ty := .repMsg 37 } ] },
  -- 3
  { name := "LogRequest", fields := [
      { name := "msg", num := 1, ty := .string },
      { name := "level", num := 2, ty := .scalar .enum } ] },
  -- 4
  { name := "ConfigureRequest", fields := [
      { name := "config", num := 1, ty := .string },
      { name := "runtime_name", num := 2, ty := .string },
      { name := "runtime_version", num := 3, ty := .string },
      { name := "registration_timeout", num := 4, ty := .scalar .int64 },
      { name := "request_timeout", num := 5, ty := .scalar .int64 } ] },
  -- 5
  { name := "ConfigureResponse", fields := [
      { name := "events", num := 2, ty := .scalar .int32 } ] },
  -- 6
  { name := "SynchronizeRequest", fields := [
      { name := "pods", num := 1, ty := .repMsg 18 },
      { name := "containers", num := 2, ty := .repMsg 20 },
      { name := "more", num := 3, ty := .scalar .bool } ] },
  -- 7
  { name := "SynchronizeResponse", fields := [
      { name := "update", num := 1, ty := .repMsg 37 },
      { name := "more", num := 2, ty := .scalar .bool } ] },
  -- 8
  { name := "CreateContainerRequest", fields := [
      { name := "pod", num := 1, ty := .msg 18 },
      { name := "container", num := 2, ty := .msg 20 } ] },
  -- 9
  { name := "CreateContainerResponse", fields := [
      { name := "adjust", num := 1, ty := .msg 35 },
      { name := "update", num := 2, ty := .repMsg 37 },
      { name := "evict", num := 3, ty := .repMsg 39 } ] },
  -- 10
  { name := "UpdateContainerRequest", fields := [
      { name := "pod", num := 1, ty := .msg 18 },
      { name := "container", num := 2, ty := .msg 20 },
      { name := "linux_resources", num := 3, ty := .msg 29 } ] },
  -- 11
  { name := "UpdateContainerResponse", fields := [
      { name := "update", num := 1, ty := .repMsg 37 },
      { name := "evict", num := 2, ty := .repMsg 39 } ] },
  -- 12
  { name := "StopContainerRequest", fields := [
      { name := "pod", num := 1, ty := .msg 18 },
      { name := "container", num := 2, ty := .msg 20 } ] },
  -- 13
  { name := "StopContainerResponse", fields := [
      { name := "update", num := 1, ty := .repMsg 37 } ] },
  -- 14
  { name := "UpdatePodSandboxRequest", fields := [
      { name := "pod", num := 1, ty := .msg 18 },
      { name := "overhead_linux_resources", num := 2, ty := .msg 29 },
      { name := "linux_resources", num := 3, ty := .msg 29 } ] },
  -- 15
  { name := "UpdatePodSandboxResponse", fields := [ ] },
  -- 16
  { name := "StateChangeEvent", fields := [
      { name := "event", num := 1, ty := .scalar .enum },
      { name := "pod", num := 2, ty := .msg 18 },
      { name := "container", num := 3, ty := .msg 20 } ] },
  -- 17
  { name := "Empty", fields := [ ] },
  -- 18
  { name := "PodSandbox", fields := [
      { name := "id", num := 1, ty := .string },
      { name := "name", num := 2, ty := .string },
      { name := "uid", num := 3, ty := .string },
      { name := "namespace", num := 4, ty := .string },
      { name := "labels", num := 5, ty := .mapSS },
      { name := "annotations", num := 6, ty := .mapSS },
      { name := "runtime_handler", num := 7, ty := .string },
      { name := "linux", num := 8, ty := .msg 19 },
      { name := "pid", num := 9, ty := .scalar .uint32 },
      { name := "ips", num := 10, ty := .repString } ] },
  -- 19
  { name := "LinuxPodSandbox", fields := [
      { name := "pod_overhead", num := 1, ty := .msg 29 },
      { name := "pod_resources", num := 2, ty := .msg 29 },
      { name := "cgroup_parent", num := 3, ty := .string },
      { name := "cgroups_path", num := 4, ty := .string },
      { name := "namespaces", num := 5, ty := .repMsg 25 },
      { name := "resources", num := 6, ty := .msg 29 } ] },
  -- 20
  { name := "Container", fields := [
      { name := "id", num := 1, ty := .string },
      { name := "pod_sandbox_id", num := 2, ty := .string },
      { name := "name", num := 3, ty := .string },
      { name := "state", num := 4, ty := .scalar .enum },
      { name := "labels", num := 5, ty := .mapSS },
      { name := "annotations", num := 6, ty := .mapSS },
      { name := "args", num := 7, ty := .repString },
      { name := "env", num := 8, ty := .repString },
      { name := "mounts", num := 9, ty := .repMsg 21 },
      { name := "hooks", num := 10, ty := .msg 22 },
      { name := "linux", num := 11, ty := .msg 24 },
      { name := "pid", num := 12, ty := .scalar .uint32 },
      { name := "rlimits", num := 13, ty := .repMsg 33 },
      { name := "created_at", num := 14, ty := .scalar .int64 },
      { name := "started_at", num := 15, ty := .scalar .int64 },
      { name := "finished_at", num := 16, ty := .scalar .int64 },
      { name := "exit_code", num := 17, ty := .scalar .int32 },
      { name := "status_reason", num := 18, ty := .string },
      { name := "status_message", num := 19, ty := .string } ] },
  -- 21
  { name := "Mount", fields := [
      { name := "destination", num := 1, ty := .string },
      { name := "type", num := 2, ty := .string },
      { name := "source", num := 3, ty := .string },
      { name := "options", num := 4, ty := .repString } ] },
  -- 22
  { name := "Hooks", fields := [
      { name := "prestart", num := 1, ty := .repMsg 23 },
      { name := "create_runtime", num := 2, ty := .repMsg 23 },
      { name := "create_container", num := 3, ty := .repMsg 23 },
      { name := "start_container", num := 4, ty := .repMsg 23 },
      { name := "poststart", num := 5, ty := .repMsg 23 },
      { name := "poststop", num := 6, ty := .repMsg 23 } ] },
  -- 23
  { name := "Hook", fields := [
      { name := "path", num := 1, ty := .string },
      { name := "args", num := 2, ty := .repString },
      { name := "env", num := 3, ty := .repString },
      { name := "timeout", num := 4, ty := .msg 42 } ] },
  -- 24
  { name := "LinuxContainer", fields := [
      { name := "namespaces", num := 1, ty := .repMsg 25 },
      { name := "devices", num := 2, ty := .repMsg 26 },
      { name := "resources", num := 3, ty := .msg 29 },
      { name := "oom_score_adj", num := 4, ty := .msg 42 },
      { name := "cgroups_path", num := 5, ty := .string } ] },
  -- 25
  { name := "LinuxNamespace", fields := [
      { name := "type", num := 1, ty := .string },
      { name := "path", num := 2, ty := .string } ] },
  -- 26
  { name := "LinuxDevice", fields := [
      { name := "path", num := 1, ty := .string },
      { name := "type", num := 2, ty := .string },
      { name := "major", num := 3, ty := .scalar .int64 },
      { name := "minor", num := 4, ty := .scalar .int64 },
      { name := "file_mode", num := 5, ty := .msg 48 },
      { name := "uid", num := 6, ty := .msg 44 },
      { name := "gid", num := 7, ty := .msg 44 } ] },
  -- 27
  { name := "LinuxDeviceCgroup", fields := [
      { name := "allow", num := 1, ty := .scalar .bool },
      { name := "type", num := 2, ty := .string },
      { name := "major", num := 3, ty := .msg 45 },
      { name := "minor", num := 4, ty := .msg 45 },
      { name := "access", num := 5, ty := .string } ] },
  -- 28
  { name := "CDIDevice", fields := [
      { name := "name", num := 1, ty := .string } ] },
  -- 29
  { name := "LinuxResources", fields := [
      { name := "memory", num := 1, ty := .msg 30 },
      { name := "cpu", num := 2, ty := .msg 31 },
      { name := "hugepage_limits", num := 3, ty := .repMsg 32 },
      { name := "blockio_class", num := 4, ty := .msg 41 },
      { name := "rdt_class", num := 5, ty := .msg 41 },
      { name := "unified", num := 6, ty := .mapSS },
      { name := "devices", num := 7, ty := .repMsg 27 },
      { name := "pids", num := 8, ty := .msg 34 } ] },
  -- 30
  { name := "LinuxMemory", fields := [
      { name := "limit", num := 1, ty := .msg 45 },
      { name := "reservation", num := 2, ty := .msg 45 },
      { name := "swap", num := 3, ty := .msg 45 },
      { name := "kernel", num := 4, ty := .msg 45 },
      { name := "kernel_tcp", num := 5, ty := .msg 45 },
      { name := "swappiness", num := 6, ty := .msg 46 },
      { name := "disable_oom_killer", num := 7, ty := .msg 47 },
      { name := "use_hierarchy", num := 8, ty := .msg 47 } ] },
  -- 31
  { name := "LinuxCPU", fields := [
      { name := "shares", num := 1, ty := .msg 46 },
      { name := "quota", num := 2, ty := .msg 45 },
      { name := "period", num := 3, ty := .msg 46 },
      { name := "realtime_runtime", num := 4, ty := .msg 45 },
      { name := "realtime_period", num := 5, ty := .msg 46 },
      { name := "cpus", num := 6, ty := .string },
      { name := "mems", num := 7, ty := .string } ] },
  -- 32
  { name := "HugepageLimit", fields := [
      { name := "page_size", num := 1, ty := .string },
      { name := "limit", num := 2, ty := .scalar .uint64 } ] },
  -- 33
  { name := "POSIXRlimit", fields := [
      { name := "type", num := 1, ty := .string },
      { name := "hard", num := 2, ty := .scalar .uint64 },
      { name := "soft", num := 3, ty := .scalar .uint64 } ] },
  -- 34
  { name := "LinuxPids", fields := [
      { name := "limit", num := 1, ty := .scalar .int64 } ] },
  -- 35
  { name := "ContainerAdjustment", fields := [
      { name := "annotations", num := 2, ty := .mapSS },
      { name := "mounts", num := 3, ty := .repMsg 21 },
      { name := "env", num := 4, ty := .repMsg 40 },
      { name := "hooks", num := 5, ty := .msg 22 },
      { name := "linux", num := 6, ty := .msg 36 },
      { name := "rlimits", num := 7, ty := .repMsg 33 },
      { name := "CDI_devices", num := 8, ty := .repMsg 28 },
      { name := "args", num := 9, ty := .repString } ] },
  -- 36
  { name := "LinuxContainerAdjustment", fields := [
      { name := "devices", num := 1, ty := .repMsg 26 },
      { name := "resources", num := 2, ty := .msg 29 },
      { name := "cgroups_path", num := 3, ty := .string },
      { name := "oom_score_adj", num := 4, ty := .msg 42 } ] },
  -- 37
  { name := "ContainerUpdate", fields := [
      { name := "container_id", num := 1, ty := .string },
      { name := "linux", num := 2, ty := .msg 38 },
      { name := "ignore_failure", num := 3, ty := .scalar .bool } ] },
  -- 38
  { name := "LinuxContainerUpdate", fields := [
      { name := "resources", num := 1, ty := .msg 29 } ] },
  -- 39
  { name := "ContainerEviction", fields := [
      { name := "container_id", num := 1, ty := .string },
      { name := "reason", num := 2, ty := .string } ] },
  -- 40
  { name := "KeyValue", fields := [
      { name := "key", num := 1, ty := .string },
      { name := "value", num := 2, ty := .string } ] },
  -- 41
  { name := "OptionalString", fields := [
      { name := "value", num := 1, ty := .string } ] },
  -- 42
  { name := "OptionalInt", fields := [
      { name := "value", num := 1, ty := .scalar .int64 } ] },
  -- 43
  { name := "OptionalInt32", fields := [
      { name := "value", num := 1, ty := .scalar .int32 } ] },
  -- 44
  { name := "OptionalUInt32", fields := [
      { name := "value", num := 1, ty := .scalar .uint32 } ] },
  -- 45
  { name := "OptionalInt64", fields := [
      { name := "value", num := 1, ty := .scalar .int64 } ] },
  -- 46
  { name := "OptionalUInt64", fields := [
      { name := "value", num := 1, ty := .scalar .uint64 } ] },
  -- 47
  { name := "OptionalBool", fields := [
      { name := "value", num := 1, ty := .scalar .bool } ] },
  -- 48
  { name := "OptionalFileMode", fields := [
      { name := "value", num := 1, ty := .scalar .uint32 } ] }
]

/-- features of the descriptor outside the model (must be empty) -/
def unsupportedFeatures : List String := []

end Nri.Wire.Extracted
