/-
Devices: `Devices.apply` is the generic two-pass shape on the device list (given distinct
paths in the original), and the device-cgroup rules are the original rules followed by one
rule per device set.  Core Lean only.
-/
import NriModel.Lemmas.GenerateKeyed

namespace Nri.Generate
open Nri.Api

namespace Devices

theorem toOCI_path (d : LinuxDevice) : d.toOCI.path = d.path := rfl

theorem removals_eq (devs : List Oci.Device) (L : List LinuxDevice) :
    removals devs L = gRemovals Oci.Device.path LinuxDevice.path devs L := rfl

/-- With distinct paths `AddDevice` after `RemoveDevice` always appends. -/
theorem setStep_fst {st : State} (d : LinuxDevice) (h : NodupKeys Oci.Device.path st.1) :
    (setStep st d).1 = removeFirst Oci.Device.path d.path st.1 ++ [d.toOCI] := by
  unfold setStep addStep
  simp only
  apply addOrReplace_of_absent
  have := find_removeFirst_self Oci.Device.path (k := d.path) h
  rw [find_eq_none_iff] at this
  intro y hy; rw [toOCI_path]; exact this y hy

theorem sets_fst (st : State) (L : List LinuxDevice) (h : NodupKeys Oci.Device.path st.1) :
    (sets st L).1 = gSets Oci.Device.path LinuxDevice.path LinuxDevice.toOCI st.1 L := by
  induction L generalizing st with
  | nil => rfl
  | cons d r ih =>
    simp only [sets, gSets, List.foldl_cons]
    by_cases hm : isMarked d.path = true
    · simp only [hm, if_true]
      have := ih st h
      simpa [sets, gSets] using this
    · have hm' : isMarked d.path = false := by simpa using hm
      simp only [hm', Bool.false_eq_true, if_false]
      have hn : NodupKeys Oci.Device.path (setStep st d).1 := by
        rw [setStep_fst d h]
        exact nodup_gSets_step Oci.Device.path LinuxDevice.path LinuxDevice.toOCI
          (fun _ _ => rfl) hm' h
      have := ih (setStep st d) hn
      simp only [sets, gSets] at this
      rw [this, setStep_fst d h]

theorem sets_snd (st : State) (L : List LinuxDevice) :
    (sets st L).2 = st.2 ++ (L.filter (fun d => !isMarked d.path)).map LinuxDevice.cgroupRule := by
  induction L generalizing st with
  | nil => simp [sets]
  | cons d r ih =>
    simp only [sets, List.foldl_cons]
    by_cases hm : isMarked d.path = true
    · simp only [hm, if_true]
      have := ih st
      simp only [sets] at this
      rw [this]; simp [hm]
    · have hm' : isMarked d.path = false := by simpa using hm
      simp only [hm', Bool.false_eq_true, if_false]
      have := ih (setStep st d)
      simp only [sets] at this
      rw [this]; simp [hm', setStep, addStep]

/-- The device list after the repaired `AdjustDevices`, as the generic two passes. -/
theorem apply_fst (st : State) (L : List LinuxDevice) (h : NodupKeys Oci.Device.path st.1) :
    (apply st L).1 =
      gSets Oci.Device.path LinuxDevice.path LinuxDevice.toOCI
        (gRemovals Oci.Device.path LinuxDevice.path st.1 L) L := by
  unfold apply
  rw [sets_fst _ _ (by simpa [removals_eq] using nodup_gRemovals Oci.Device.path LinuxDevice.path L h)]
  rfl

/-- The cgroup rules after `AdjustDevices`: nothing retracted, one rule appended per set. -/
theorem apply_snd (st : State) (L : List LinuxDevice) :
    (apply st L).2 = st.2 ++ (L.filter (fun d => !isMarked d.path)).map LinuxDevice.cgroupRule := by
  unfold apply; rw [sets_snd]

end Devices
end Nri.Generate
