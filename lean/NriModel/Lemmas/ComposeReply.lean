/-
The collector's combined reply as a fold: the reply after one plugin's adjustment is
`replyStep` of the reply so far (it reads neither the container view nor the ledger), update
lists do not touch it, so the reply of a successful creation request is
`foldl replyStep reply0` over the plugins' adjustments.  Core Lean only.
-/
import NriModel.Compose
import NriModel.Lemmas.ResultView

namespace Nri.Compose
open Nri Nri.NApi Nri.Result

theorem adjustData_reply (st : State) (a : Adjustment) :
    (adjustData Quirks.fixed st a).reply = replyStep st.reply a := by
  unfold adjustData replyStep
  simp only [cdiData, rlimitData]
  cases hl : a.hasLinux
  · simp only [Bool.false_eq_true, ↓reduceIte]
    cases hh : a.hooks <;> cases ha : a.args <;>
      simp [hooksData, argsData, envData, mountData, annData, Quirks.fixed, annStep, keyedStep, loneOf,
        hooksStep, argsStep]
  · simp only [↓reduceIte]
    cases hh : a.hooks <;> cases ha : a.args <;> cases hr : a.resources <;> cases ho : a.oomScoreAdj <;>
      by_cases hc : a.cgroupsPath = [] <;>
      simp [oomData, cgroupsData, resData, deviceData, hooksData, argsData, envData, mountData, annData,
        Quirks.fixed, hc, annStep, keyedStep, loneOf, hooksStep, argsStep, resStep, Option.orElse]

/-- one plugin's response to a creation request: the reply moves by `replyStep` of its
    adjustment; its update list does not touch the reply -/
theorem apply_reply (st st' : State) (p : Plugin) (r : Response) (id : Cid) (hk : st.kind = .create id)
    (h : apply Quirks.fixed st p r = .ok st') :
    st'.reply = (match r.adjust with | some a => replyStep st.reply a | none => st.reply) := by
  unfold apply at h
  rw [hk] at h
  simp only [] at h
  cases h1 : adjust Quirks.fixed st p r.adjust with
  | error e => rw [h1] at h; cases h
  | ok st1 =>
    rw [h1] at h
    rw [(updateAll_view _ st1 st' p r.updates h).2]
    cases ha : r.adjust with
    | none => rw [ha] at h1; simp [adjust] at h1; subst h1; rfl
    | some a =>
      rw [ha] at h1
      obtain ⟨o, _, rfl⟩ := (adjust_ok_iff _ st st1 p a).1 h1
      exact adjustData_reply st a

theorem adjsOf_cons_none (p : Plugin) (rest : List (Plugin × Option Response)) :
    adjsOf ((p, none) :: rest) = adjsOf rest := by
  simp [adjsOf, List.filterMap_cons, adjOf]

theorem adjsOf_cons_some (p : Plugin) (r : Response) (rest : List (Plugin × Option Response)) :
    adjsOf ((p, some r) :: rest) =
      (match r.adjust with | some a => a :: adjsOf rest | none => adjsOf rest) := by
  cases ha : r.adjust <;> simp [adjsOf, adjOf, ha]

/-- **The combined reply is a fold** of `replyStep` over the plugins' adjustments. -/
theorem run_reply (rs : List (Plugin × Option Response)) :
    ∀ (st st' : State) (id : Cid), st.kind = .create id → run Quirks.fixed st rs = .ok st' →
      st'.reply = (adjsOf rs).foldl replyStep st.reply := by
  induction rs with
  | nil => intro st st' id _ h; simp [run] at h; subst h; simp [adjsOf]
  | cons x rest ih =>
    intro st st' id hk h
    obtain ⟨p, r⟩ := x
    cases r with
    | none =>
      simp only [run] at h
      rw [adjsOf_cons_none]; exact ih st st' id hk h
    | some r =>
      simp only [run] at h
      cases h1 : apply Quirks.fixed st p r with
      | error e => rw [h1] at h; cases h
      | ok st1 =>
        rw [h1] at h
        have hk1 : st1.kind = .create id := by rw [apply_kind _ st st1 p r h1]; exact hk
        rw [ih st1 st' id hk1 h, apply_reply st st1 p r id hk h1, adjsOf_cons_some]
        cases ha : r.adjust <;> simp

theorem initCreate_reply (c0 : Container) : (initCreate c0).reply = reply0 := rfl

end Nri.Compose
