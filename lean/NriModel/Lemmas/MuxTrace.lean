/-
Trace-level facts about the one-end transition system: ghost fields equal the trace
functions (`delivered`, `received`), the error latch, enabledness after close.
-/
import NriModel.Lemmas.MuxLts

namespace Nri.Mux

@[simp] theorem doClose_err (s : MuxSt) : (doClose s).err = s.err := by
  unfold doClose; split <;> rfl
@[simp] theorem doClose_seen (s : MuxSt) : (doClose s).seen = s.seen := by
  unfold doClose; split <;> rfl
@[simp] theorem doClose_cfg (s : MuxSt) : (doClose s).cfg = s.cfg := by
  unfold doClose; split <;> rfl
@[simp] theorem doClose_cmap (s : MuxSt) : (doClose s).cmap = s.cmap := by
  unfold doClose; split <;> rfl
@[simp] theorem doClose_closed (s : MuxSt) : (doClose s).closed = true := by
  unfold doClose; split <;> simp_all
@[simp] theorem doClose_readerDone (s : MuxSt) : (doClose s).readerDone = s.readerDone := by
  unfold doClose; split <;> rfl
@[simp] theorem setError_seen (s : MuxSt) (e : Err) : (setError s e).seen = s.seen := by
  unfold setError; split <;> rfl
@[simp] theorem setError_cfg (s : MuxSt) (e : Err) : (setError s e).cfg = s.cfg := by
  unfold setError; split <;> rfl
@[simp] theorem setError_objs (s : MuxSt) (e : Err) : (setError s e).objs = s.objs := by
  unfold setError; split <;> rfl
@[simp] theorem setError_cmap (s : MuxSt) (e : Err) : (setError s e).cmap = s.cmap := by
  unfold setError; split <;> rfl
@[simp] theorem setError_closed (s : MuxSt) (e : Err) : (setError s e).closed = s.closed := by
  unfold setError; split <;> rfl
@[simp] theorem setError_readerDone (s : MuxSt) (e : Err) :
    (setError s e).readerDone = s.readerDone := by
  unfold setError; split <;> rfl
theorem setError_err (s : MuxSt) (e : Err) : (setError s e).err = some (s.err.getD e) := by
  unfold setError; split <;> simp_all

/-- the error latch: once set, `m.err` never changes -/
theorem step_err_mono {s s' : MuxSt} {ev : Ev} {e : Err} (hs : step s ev = some s')
    (he : s.err = some e) : s'.err = some e := by
  cases ev <;> simp only [Mux.step] at hs <;> (repeat' split at hs) <;>
    (try cases hs) <;> simp_all [setError_err]

theorem step_read_err {s s' : MuxSt} {h bl bc : Nat} {e : Err}
    (hs : step s (.read h bl bc (.err e)) = some s') : s'.err = some e := by
  simp only [Mux.step] at hs
  (repeat' split at hs) <;> (try cases hs)
  rename_i hc; rw [setError_err]; simp [hc.2]

theorem run_err_mono {s s' : MuxSt} {tr : List Ev} {e : Err} (hr : run s tr = some s')
    (he : s.err = some e) : s'.err = some e := by
  induction tr generalizing s with
  | nil => simp [run] at hr; subst hr; exact he
  | cons ev tr ih =>
    simp only [run] at hr
    split at hr
    · rename_i s1 h1; exact ih hr (step_err_mono h1 he)
    · cases hr

/-- every error a Read returned during a run is the error latched at its end -/
theorem readErrors_latched {s s' : MuxSt} {tr : List Ev} (hr : run s tr = some s') :
    ∀ e ∈ readErrors tr, s'.err = some e := by
  induction tr generalizing s with
  | nil => intro e he; simp [readErrors] at he
  | cons ev tr ih =>
    simp only [run] at hr
    split at hr
    · rename_i s1 h1
      intro e he
      cases ev with
      | read h bl bc r =>
        cases r with
        | err e' =>
          simp only [readErrors, List.mem_cons] at he
          rcases he with rfl | he
          · exact run_err_mono hr (step_read_err h1)
          · exact ih hr e he
        | data p n => exact ih hr e (by simpa [readErrors] using he)
        | enomem => exact ih hr e (by simpa [readErrors] using he)
      | _ => exact ih hr e (by simpa [readErrors] using he)
    · cases hr

/-! ### ghost fields are the trace functions -/

theorem step_seen {s s' : MuxSt} {ev : Ev} (hs : step s ev = some s') :
    s'.seen = s.seen ++ delivered [ev] := by
  cases ev <;> simp only [Mux.step] at hs <;> (repeat' split at hs) <;>
    (try cases hs) <;> simp_all [delivered]

/-- what Read has handed out on handle `h` so far (`[]` for a handle not yet created) -/
def rcOf (objs : List Conn) (h : Nat) : List Bytes :=
  match objs[h]? with
  | some c => c.rcvd
  | none => []

def rc (s : MuxSt) (h : Nat) : List Bytes := rcOf s.objs h

theorem rcOf_set {objs : List Conn} {h0 : Nat} {c0 : Conn} (c' : Conn) (h : Nat)
    (hc0 : objs[h0]? = some c0) :
    rcOf (objs.set h0 c') h = if h0 = h then c'.rcvd else rcOf objs h := by
  have hlt0 : h0 < objs.length := (List.getElem?_eq_some_iff.mp hc0).1
  unfold rcOf
  by_cases hh : h0 = h
  · subst hh; simp [hlt0]
  · simp [hh]

theorem rcOf_append_new (objs : List Conn) (c : Conn) (h : Nat) (hc : c.rcvd = []) :
    rcOf (objs ++ [c]) h = rcOf objs h := by
  unfold rcOf
  by_cases hlt : h < objs.length
  · rw [List.getElem?_append_left hlt]
  · have hn : objs[h]? = none := List.getElem?_eq_none_iff.mpr (by omega)
    rw [hn]
    by_cases he : h = objs.length
    · subst he; simp [hc]
    · have : (objs ++ [c])[h]? = none := List.getElem?_eq_none_iff.mpr (by simp; omega)
      rw [this]

theorem rcOf_closeHandles (objs : List Conn) (hs : List Nat) (h : Nat) :
    rcOf (closeHandles objs hs) h = rcOf objs h := by
  simp only [rcOf, closeHandles_get]
  by_cases hm : h ∈ hs <;> cases ho : objs[h]? <;> simp [hm, Conn.close]

theorem doClose_rc (s : MuxSt) (h : Nat) : rc (doClose s) h = rc s h := by
  unfold doClose; split
  · rfl
  · exact rcOf_closeHandles _ _ _

theorem setError_rc (s : MuxSt) (e : Err) (h : Nat) : rc (setError s e) h = rc s h := by
  simp [rc]

theorem step_rc {s s' : MuxSt} {ev : Ev} (h : Nat) (hs : step s ev = some s') :
    rc s' h = rc s h ++ received h [ev] := by
  cases ev with
  | read h0 bl bc r =>
    simp only [Mux.step] at hs
    split at hs
    · cases hs
    · rename_i c0 hc0
      split at hs
      · cases r with
        | err e => simp only at hs; split at hs <;> cases hs; simp [setError_rc, received]
        | enomem =>
          simp only at hs
          split at hs
          · cases hs
          · split at hs
            · cases hs
              simp only [rc, rcOf_set _ h hc0, received, List.append_nil]
              split
              · rename_i hh; subst hh; simp [rcOf, hc0]
              · rfl
            · cases hs
        | data p n =>
          simp only at hs
          split at hs
          · cases hs
          · split at hs
            · cases hs
              simp only [rc, rcOf_set _ h hc0, received]
              by_cases hh : h0 = h
              · subst hh; simp [rcOf, hc0]
              · simp [hh]
            · cases hs
      · cases hs
  | deliver f =>
    simp only [Mux.step] at hs
    split at hs
    · cases hs
    · split at hs
      · cases hs; simp [rc, received]
      · split at hs
        · cases hs
        · rename_i c0 hc0
          split at hs
          · cases hs
            simp only [rc, rcOf_set _ h hc0, received, List.append_nil]
            split
            · rename_i hh; subst hh; simp [rcOf, hc0]
            · rfl
          · cases hs
  | closeConn h0 =>
    simp only [Mux.step] at hs
    split at hs
    · cases hs
    · rename_i c0 hc0
      cases hs
      simp only [rc, rcOf_set _ h hc0, received, List.append_nil]
      split
      · rename_i hh; subst hh; simp [rcOf, hc0]
      · rfl
  | openNew id h0 =>
    simp only [Mux.step] at hs
    split at hs
    · cases hs; simp [rc, rcOf_append_new, received]
    · cases hs
  | openReserved => simp only [Mux.step] at hs; cases hs; simp [received]
  | openOld id h0 =>
    simp only [Mux.step] at hs; split at hs <;> cases hs; simp [received]
  | readerExit =>
    simp only [Mux.step] at hs; split at hs <;> cases hs; simp [received, rc]
  | closeMux => simp only [Mux.step] at hs; cases hs; simp [received, doClose_rc]
  | readerFail e =>
    simp only [Mux.step] at hs; split at hs <;> cases hs
    simp only [received, List.append_nil]
    exact (doClose_rc (setError s e) h).trans (setError_rc s e h)
  | overflow f =>
    simp only [Mux.step] at hs
    (repeat' split at hs) <;> (try cases hs)
    simp only [received, List.append_nil]
    exact (doClose_rc (setError s .overflow) h).trans (setError_rc s .overflow h)
  | write h0 p r =>
    simp only [Mux.step] at hs
    (repeat' split at hs) <;> (try cases hs) <;> simp only [received, List.append_nil]
    · rfl
    · exact (doClose_rc (setError s .wfail) h).trans (setError_rc s .wfail h)

theorem step_cfg {s s' : MuxSt} {ev : Ev} (hs : step s ev = some s') : s'.cfg = s.cfg := by
  cases ev <;> simp only [Mux.step] at hs <;> (repeat' split at hs) <;>
    (try cases hs) <;> simp_all

/-! ### run-level versions -/

theorem run_cfg {s s' : MuxSt} {tr : List Ev} (hr : run s tr = some s') : s'.cfg = s.cfg := by
  induction tr generalizing s with
  | nil => simp [run] at hr; rw [hr]
  | cons ev tr ih =>
    simp only [run] at hr
    split at hr
    · rename_i s1 h1; rw [ih hr, step_cfg h1]
    · cases hr


theorem delivered_cons (ev : Ev) (tr : List Ev) :
    delivered (ev :: tr) = delivered [ev] ++ delivered tr := by
  cases ev <;> simp [delivered]

theorem received_cons (h : Nat) (ev : Ev) (tr : List Ev) :
    received h (ev :: tr) = received h [ev] ++ received h tr := by
  cases ev with
  | read h' bl bc r =>
    cases r with
    | data p n => by_cases hh : h' = h <;> simp [received, hh]
    | err e => simp [received]
    | enomem => simp [received]
  | _ => simp [received]

theorem run_seen {s s' : MuxSt} {tr : List Ev} (hr : run s tr = some s') :
    s'.seen = s.seen ++ delivered tr := by
  induction tr generalizing s with
  | nil => simp [run] at hr; subst hr; simp [delivered]
  | cons ev tr ih =>
    simp only [run] at hr
    split at hr
    · rename_i s1 h1
      rw [ih hr, step_seen h1, delivered_cons ev tr, List.append_assoc]
    · cases hr

theorem run_rc {s s' : MuxSt} {tr : List Ev} (h : Nat) (hr : run s tr = some s') :
    rc s' h = rc s h ++ received h tr := by
  induction tr generalizing s with
  | nil => simp [run] at hr; subst hr; simp [received]
  | cons ev tr ih =>
    simp only [run] at hr
    split at hr
    · rename_i s1 h1
      rw [ih hr, step_rc h h1, received_cons h ev tr, List.append_assoc]
    · cases hr

theorem run_inv {s s' : MuxSt} {tr : List Ev} (hi : Inv s) (hg : bigBuffers tr = true)
    (hr : run s tr = some s') : Inv s' := by
  induction tr generalizing s with
  | nil => simp [run] at hr; subst hr; exact hi
  | cons ev tr ih =>
    simp only [bigBuffers, List.all_cons, Bool.and_eq_true] at hg
    simp only [run] at hr
    split at hr
    · rename_i s1 h1
      exact ih (hi.step hg.1 h1) (by simpa [bigBuffers] using hg.2) hr
    · cases hr

theorem run_append {s : MuxSt} {a b : List Ev} :
    run s (a ++ b) = (run s a).bind (fun s1 => run s1 b) := by
  induction a generalizing s with
  | nil => simp [run]
  | cons ev a ih =>
    simp only [List.cons_append, run]
    split
    · exact ih
    · simp

/-! ### objects persist; identity, base and closedness are stable -/

theorem set_get {objs : List Conn} {h0 h : Nat} {c0 c : Conn} (c' : Conn)
    (hc0 : objs[h0]? = some c0) (hc : objs[h]? = some c) :
    (objs.set h0 c')[h]? = some (if h0 = h then c' else c) := by
  have hlt0 : h0 < objs.length := (List.getElem?_eq_some_iff.mp hc0).1
  by_cases hh : h0 = h
  · subst hh; simp [hlt0]
  · simp [hh, hc]

/-- the part of a conn object no step ever changes, and closedness only ever grows -/
def Stable (c c' : Conn) : Prop :=
  c'.id = c.id ∧ c'.base = c.base ∧ (c.closed = true → c'.closed = true)

theorem Stable.refl (c : Conn) : Stable c c := ⟨rfl, rfl, id⟩

theorem Stable.trans {a b c : Conn} (h1 : Stable a b) (h2 : Stable b c) : Stable a c :=
  ⟨h2.1.trans h1.1, h2.2.1.trans h1.2.1, fun h => h2.2.2 (h1.2.2 h)⟩

theorem set_stable {objs : List Conn} {h0 h : Nat} {c0 c : Conn} (c' : Conn)
    (hc0 : objs[h0]? = some c0) (hc : objs[h]? = some c) (hst : Stable c0 c') :
    ∃ c1, (objs.set h0 c')[h]? = some c1 ∧ Stable c c1 := by
  refine ⟨_, set_get c' hc0 hc, ?_⟩
  by_cases hh : h0 = h
  · subst hh; rw [hc0] at hc; cases hc; simpa using hst
  · simpa [hh] using Stable.refl c

theorem closeHandles_stable {objs : List Conn} (hs : List Nat) {h : Nat} {c : Conn}
    (hc : objs[h]? = some c) : ∃ c1, (closeHandles objs hs)[h]? = some c1 ∧ Stable c c1 := by
  rw [closeHandles_get]
  by_cases hm : h ∈ hs
  · exact ⟨c.close, by simp [hm, hc], rfl, rfl, fun _ => rfl⟩
  · exact ⟨c, by simp [hm, hc], Stable.refl c⟩

theorem doClose_stable (s : MuxSt) {h : Nat} {c : Conn} (hc : s.objs[h]? = some c) :
    ∃ c1, (doClose s).objs[h]? = some c1 ∧ Stable c c1 := by
  unfold doClose; split
  · exact ⟨c, hc, Stable.refl c⟩
  · exact closeHandles_stable _ hc

theorem step_stable {s s' : MuxSt} {ev : Ev} {h : Nat} {c : Conn} (hs : step s ev = some s')
    (hc : s.objs[h]? = some c) : ∃ c1, s'.objs[h]? = some c1 ∧ Stable c c1 := by
  cases ev with
  | read h0 bl bc r =>
    simp only [Mux.step] at hs
    split at hs
    · cases hs
    · rename_i c0 hc0
      split at hs
      · cases r with
        | err e =>
          simp only at hs; split at hs <;> cases hs
          exact ⟨c, by simpa using hc, Stable.refl c⟩
        | enomem =>
          simp only at hs
          split at hs
          · cases hs
          · split at hs
            · cases hs; exact set_stable _ hc0 hc ⟨rfl, rfl, id⟩
            · cases hs
        | data p n =>
          simp only at hs
          split at hs
          · cases hs
          · split at hs
            · cases hs; exact set_stable _ hc0 hc ⟨rfl, rfl, id⟩
            · cases hs
      · cases hs
  | deliver f =>
    simp only [Mux.step] at hs
    split at hs
    · cases hs
    · split at hs
      · cases hs; exact ⟨c, hc, Stable.refl c⟩
      · split at hs
        · cases hs
        · rename_i c0 hc0
          split at hs
          · cases hs; exact set_stable _ hc0 hc ⟨rfl, rfl, id⟩
          · cases hs
  | closeConn h0 =>
    simp only [Mux.step] at hs
    split at hs
    · cases hs
    · rename_i c0 hc0
      cases hs; exact set_stable _ hc0 hc ⟨rfl, rfl, fun _ => rfl⟩
  | openNew id h0 =>
    simp only [Mux.step] at hs
    split at hs
    · cases hs
      have hlt := (List.getElem?_eq_some_iff.mp hc).1
      exact ⟨c, by simp only; rw [List.getElem?_append_left hlt]; exact hc, Stable.refl c⟩
    · cases hs
  | openReserved => simp only [Mux.step] at hs; cases hs; exact ⟨c, hc, Stable.refl c⟩
  | openOld id h0 =>
    simp only [Mux.step] at hs; split at hs <;> cases hs; exact ⟨c, hc, Stable.refl c⟩
  | readerExit =>
    simp only [Mux.step] at hs; split at hs <;> cases hs; exact ⟨c, hc, Stable.refl c⟩
  | closeMux => simp only [Mux.step] at hs; cases hs; exact doClose_stable s hc
  | readerFail e =>
    simp only [Mux.step] at hs; split at hs <;> cases hs
    exact doClose_stable (setError s e) (by simpa using hc)
  | overflow f =>
    simp only [Mux.step] at hs
    (repeat' split at hs) <;> (try cases hs)
    exact doClose_stable (setError s .overflow) (by simpa using hc)
  | write h0 p r =>
    simp only [Mux.step] at hs
    (repeat' split at hs) <;> (try cases hs)
    · exact ⟨c, hc, Stable.refl c⟩
    · exact ⟨c, hc, Stable.refl c⟩
    · exact doClose_stable (setError s .wfail) (by simpa using hc)
    · exact ⟨c, hc, Stable.refl c⟩

theorem run_stable {s s' : MuxSt} {tr : List Ev} {h : Nat} {c : Conn} (hr : run s tr = some s')
    (hc : s.objs[h]? = some c) : ∃ c1, s'.objs[h]? = some c1 ∧ Stable c c1 := by
  induction tr generalizing s c with
  | nil => simp [run] at hr; subst hr; exact ⟨c, hc, Stable.refl c⟩
  | cons ev tr ih =>
    simp only [run] at hr
    split at hr
    · rename_i s1 h1
      obtain ⟨c1, hc1, st1⟩ := step_stable h1 hc
      obtain ⟨c2, hc2, st2⟩ := ih hr hc1
      exact ⟨c2, hc2, st1.trans st2⟩
    · cases hr

/-! ### closing -/

theorem lookup_mem_values {m : AList Nat Nat} {k v : Nat} (h : AList.lookup m k = some v) :
    v ∈ m.map (·.2) := by
  induction m with
  | nil => simp [AList.lookup] at h
  | cons e rest ih =>
    obtain ⟨k', v'⟩ := e
    simp only [AList.lookup] at h
    split at h
    · cases h; simp
    · simp only [List.map_cons, List.mem_cons]; exact Or.inr (ih h)

/-- `mux.Close` on a mux that was not yet closed leaves every existing conn closed -/
theorem doClose_all_closed {s : MuxSt} (hi : Inv s) (hnc : s.closed = false) {h : Nat} {c : Conn}
    (hc : (doClose s).objs[h]? = some c) : c.closed = true := by
  unfold doClose at hc
  simp only [hnc, Bool.false_eq_true, if_false, closeHandles_get] at hc
  split at hc
  · cases ho : s.objs[h]? with
    | none => simp [ho] at hc
    | some c0 => simp [ho] at hc; subst hc; rfl
  · rename_i hnm
    have := (hi.obj h c hc).unmapped_closed
    apply this
    intro hl
    exact hnm (lookup_mem_values hl)

/-! ### draining after the reader has gone -/

def qlOf (objs : List Conn) (h : Nat) : Nat :=
  match objs[h]? with
  | some c => c.queue.length
  | none => 0

theorem qlOf_set {objs : List Conn} {h0 : Nat} {c0 : Conn} (c' : Conn) (h : Nat)
    (hc0 : objs[h0]? = some c0) :
    qlOf (objs.set h0 c') h = if h0 = h then c'.queue.length else qlOf objs h := by
  have hlt0 : h0 < objs.length := (List.getElem?_eq_some_iff.mp hc0).1
  unfold qlOf
  by_cases hh : h0 = h
  · subst hh; simp [hlt0]
  · simp [hh]

theorem qlOf_closeHandles (objs : List Conn) (hs : List Nat) (h : Nat) :
    qlOf (closeHandles objs hs) h = qlOf objs h := by
  simp only [qlOf, closeHandles_get]
  by_cases hm : h ∈ hs <;> cases ho : objs[h]? <;> simp [hm, Conn.close]

theorem qlOf_doClose (s : MuxSt) (h : Nat) : qlOf (doClose s).objs h = qlOf s.objs h := by
  unfold doClose; split
  · rfl
  · exact qlOf_closeHandles _ _ _

theorem qlOf_append_new (objs : List Conn) (c : Conn) (h : Nat) (hc : c.queue = []) :
    qlOf (objs ++ [c]) h = qlOf objs h := by
  unfold qlOf
  by_cases hlt : h < objs.length
  · rw [List.getElem?_append_left hlt]
  · have hn : objs[h]? = none := List.getElem?_eq_none_iff.mpr (by omega)
    rw [hn]
    by_cases he : h = objs.length
    · subst he; simp [hc]
    · have : (objs ++ [c])[h]? = none := List.getElem?_eq_none_iff.mpr (by simp; omega)
      rw [this]

/-- once the reader goroutine has returned nothing is queued any more: each step keeps
    `readerDone`, and the queue of `h` shrinks by what Read hands out -/
theorem step_drain {s s' : MuxSt} {ev : Ev} (h : Nat) (hs : step s ev = some s')
    (hd : s.readerDone = true) :
    s'.readerDone = true ∧ qlOf s'.objs h + (received h [ev]).length ≤ qlOf s.objs h := by
  cases ev with
  | read h0 bl bc r =>
    simp only [Mux.step] at hs
    split at hs
    · cases hs
    · rename_i c0 hc0
      split at hs
      · cases r with
        | err e =>
          simp only at hs; split at hs <;> cases hs
          simp [hd, received]
        | enomem =>
          simp only at hs
          split at hs
          · cases hs
          · rename_i q rest hq
            split at hs
            · cases hs
              refine ⟨hd, ?_⟩
              simp only [qlOf_set _ h hc0, received, List.length_nil, Nat.add_zero]
              split
              · rename_i hh; subst hh; simp [qlOf, hc0, hq]
              · exact Nat.le_refl _
            · cases hs
        | data p n =>
          simp only at hs
          split at hs
          · cases hs
          · rename_i q rest hq
            split at hs
            · cases hs
              refine ⟨hd, ?_⟩
              simp only [qlOf_set _ h hc0, received]
              by_cases hh : h0 = h
              · subst hh; simp [qlOf, hc0, hq]
              · simp [hh]
            · cases hs
      · cases hs
  | deliver f => simp [Mux.step, hd] at hs
  | overflow f => simp [Mux.step, hd] at hs
  | readerFail e => simp [Mux.step, hd] at hs
  | readerExit => simp [Mux.step, hd] at hs
  | closeConn h0 =>
    simp only [Mux.step] at hs
    split at hs
    · cases hs
    · rename_i c0 hc0
      cases hs
      refine ⟨hd, ?_⟩
      simp only [qlOf_set _ h hc0, received, List.length_nil, Nat.add_zero]
      split
      · rename_i hh; subst hh; simp [qlOf, hc0]
      · exact Nat.le_refl _
  | openNew id h0 =>
    simp only [Mux.step] at hs
    split at hs
    · cases hs; exact ⟨hd, by simp [qlOf_append_new, received]⟩
    · cases hs
  | openReserved => simp only [Mux.step] at hs; cases hs; exact ⟨hd, by simp [received]⟩
  | openOld id h0 =>
    simp only [Mux.step] at hs; split at hs <;> cases hs; exact ⟨hd, by simp [received]⟩
  | closeMux =>
    simp only [Mux.step] at hs; cases hs
    exact ⟨by simpa using hd, by simp [received, qlOf_doClose]⟩
  | write h0 p r =>
    simp only [Mux.step] at hs
    (repeat' split at hs) <;> (try cases hs)
    · exact ⟨hd, by simp [received]⟩
    · exact ⟨hd, by simp [received]⟩
    · exact ⟨by simpa using hd, by simp [received, qlOf_doClose]⟩
    · exact ⟨hd, by simp [received]⟩

theorem run_drain {s s' : MuxSt} {tr : List Ev} (h : Nat) (hr : run s tr = some s')
    (hd : s.readerDone = true) : (received h tr).length ≤ qlOf s.objs h := by
  induction tr generalizing s with
  | nil => simp [received]
  | cons ev tr ih =>
    simp only [run] at hr
    split at hr
    · rename_i s1 h1
      have ⟨hd1, hq⟩ := step_drain h h1 hd
      have := ih hr hd1
      rw [received_cons, List.length_append]; omega
    · cases hr

/-! ### with the repaired `Open` (`cfg.lateClosed`): a closed mux has only closed connections -/

theorem doClose_length (s : MuxSt) : (doClose s).objs.length = s.objs.length := by
  unfold doClose; split <;> simp [closeHandles_length]

/-- only `openNew` creates an object -/
theorem step_length {s s' : MuxSt} {ev : Ev} (hs : step s ev = some s')
    (hno : ∀ id h, ev ≠ .openNew id h) : s'.objs.length = s.objs.length := by
  cases ev with
  | openNew id h => exact absurd rfl (hno id h)
  | read h0 bl bc r =>
    simp only [Mux.step] at hs
    (repeat' split at hs) <;> (try cases hs) <;> simp
  | deliver f =>
    simp only [Mux.step] at hs
    (repeat' split at hs) <;> (try cases hs) <;> simp
  | closeConn h0 =>
    simp only [Mux.step] at hs
    (repeat' split at hs) <;> (try cases hs) <;> simp
  | openReserved => simp only [Mux.step] at hs; cases hs; rfl
  | openOld id h0 => simp only [Mux.step] at hs; split at hs <;> cases hs; rfl
  | readerExit => simp only [Mux.step] at hs; split at hs <;> cases hs; rfl
  | closeMux => simp only [Mux.step] at hs; cases hs; exact doClose_length s
  | readerFail e =>
    simp only [Mux.step] at hs; split at hs <;> cases hs
    simpa using doClose_length (setError s e)
  | overflow f =>
    simp only [Mux.step] at hs
    (repeat' split at hs) <;> (try cases hs)
    simpa using doClose_length (setError s .overflow)
  | write h0 p r =>
    simp only [Mux.step] at hs
    (repeat' split at hs) <;> (try cases hs) <;> (try rfl)
    simpa using doClose_length (setError s .wfail)

/-- "a closed mux has only closed connections" -/
def AllClosed (s : MuxSt) : Prop :=
  s.closed = true → ∀ (h : Nat) (c : Conn), s.objs[h]? = some c → c.closed = true

theorem step_allClosed {s s' : MuxSt} {ev : Ev} (hlate : s.cfg.lateClosed = true) (hi : Inv s)
    (hj : AllClosed s) (hs : step s ev = some s') : AllClosed s' := by
  intro hcl' h c' hc'
  by_cases hcl : s.closed = true
  · -- already closed: objects keep their closedness, a new one is born closed
    by_cases hnew : ∃ id h0, ev = .openNew id h0
    · obtain ⟨id, h0, rfl⟩ := hnew
      simp only [Mux.step] at hs
      split at hs
      · rename_i hcond
        cases hs
        by_cases hlt : h < s.objs.length
        · simp only [List.getElem?_append_left hlt] at hc'
          exact hj hcl h c' hc'
        · have hge : s.objs.length ≤ h := Nat.le_of_not_lt hlt
          simp only [List.getElem?_append_right hge] at hc'
          cases hx : h - s.objs.length with
          | zero => simp [hx] at hc'; subst hc'; simp [hlate, hcl]
          | succ n => simp [hx] at hc'
      · cases hs
    · have hno : ∀ id h0, ev ≠ .openNew id h0 := fun id h0 he => hnew ⟨id, h0, he⟩
      have hlen := step_length hs hno
      have hlt : h < s.objs.length := by
        rw [← hlen]; exact (List.getElem?_eq_some_iff.mp hc').1
      obtain ⟨c, hc⟩ : ∃ c, s.objs[h]? = some c := ⟨s.objs[h], by simp [hlt]⟩
      obtain ⟨c1, hc1, st⟩ := step_stable hs hc
      rw [hc'] at hc1; cases hc1
      exact st.2.2 (hj hcl h c hc)
  · -- this step closed the mux: it went through `doClose` on an open mux
    have hopen : s.closed = false := by simpa using hcl
    cases ev with
    | closeMux =>
      simp only [Mux.step] at hs; cases hs
      exact doClose_all_closed hi hopen hc'
    | readerFail e =>
      simp only [Mux.step] at hs; split at hs <;> cases hs
      exact doClose_all_closed (hi.setError e) (by simpa using hopen) hc'
    | overflow f =>
      simp only [Mux.step] at hs
      (repeat' split at hs) <;> (try cases hs)
      exact doClose_all_closed (hi.setError .overflow) (by simpa using hopen) hc'
    | write h0 p r =>
      simp only [Mux.step] at hs
      (repeat' split at hs) <;> (try cases hs) <;> (try simp_all)
      exact doClose_all_closed (hi.setError .wfail) (by simpa using hopen) hc'
    | openNew id h0 =>
      simp only [Mux.step] at hs; split at hs <;> cases hs; simp_all
    | openOld id h0 => simp only [Mux.step] at hs; split at hs <;> cases hs; simp_all
    | openReserved => simp only [Mux.step] at hs; cases hs; simp_all
    | readerExit => simp only [Mux.step] at hs; split at hs <;> cases hs; simp_all
    | closeConn h0 =>
      simp only [Mux.step] at hs
      (repeat' split at hs) <;> (try cases hs) <;> simp_all
    | deliver f =>
      simp only [Mux.step] at hs
      (repeat' split at hs) <;> (try cases hs) <;> simp_all
    | read h0 bl bc r =>
      simp only [Mux.step] at hs
      (repeat' split at hs) <;> (try cases hs) <;> simp_all

theorem run_allClosed {s s' : MuxSt} {tr : List Ev} (hlate : s.cfg.lateClosed = true)
    (hi : Inv s) (hj : AllClosed s) (hg : bigBuffers tr = true) (hr : run s tr = some s') :
    AllClosed s' := by
  induction tr generalizing s with
  | nil => simp [run] at hr; subst hr; exact hj
  | cons ev tr ih =>
    simp only [bigBuffers, List.all_cons, Bool.and_eq_true] at hg
    simp only [run] at hr
    split at hr
    · rename_i s1 h1
      exact ih (by rw [step_cfg h1]; exact hlate) (hi.step hg.1 h1) (step_allClosed hlate hi hj h1)
        (by simpa [bigBuffers] using hg.2) hr
    · cases hr

end Nri.Mux
