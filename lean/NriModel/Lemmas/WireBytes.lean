/-
Bytes in the wire model are natural numbers; this file shows the encoder only ever emits
numbers below 256 (C12), for well-typed values of a well-formed schema.
-/
import NriModel.Lemmas.WireProps

namespace Nri.Wire

def AllLt (bs : Bytes) : Prop := ∀ b ∈ bs, b < 256

theorem AllLt.append {a b : Bytes} (ha : AllLt a) (hb : AllLt b) : AllLt (a ++ b) := by
  intro x hx
  rcases List.mem_append.mp hx with h | h
  · exact ha x h
  · exact hb x h

theorem varint_allLt (n : Nat) (h : n < 2 ^ 64) : AllLt (encodeVarint n) := encodeVarint_lt n h

theorem allLt_nil : AllLt [] := by intro b hb; simp at hb

theorem okStr_allLt (bs : Bytes) (h : okStr bs = true) : AllLt bs := by
  simp only [okStr, Bool.and_eq_true, List.all_eq_true, decide_eq_true_eq] at h
  exact h.1

theorem lenDelim_allLt (num : Nat) (p : Bytes) (h2 : num < 536870912) (hp : AllLt p)
    (hl : p.length < 2 ^ 64) : AllLt (lenDelim num p) := by
  unfold lenDelim tag
  exact (varint_allLt _ (by omega)).append ((varint_allLt _ hl).append hp)

theorem encStrs_allLt (num : Nat) (h2 : num < 536870912) : ∀ (l : List Bytes),
    l.all okStr = true → (encStrs num l).length < 2 ^ 64 → AllLt (encStrs num l) := by
  intro l
  induction l with
  | nil => intro _ _; exact allLt_nil
  | cons s r ih =>
    intro hok hb
    simp only [List.all_cons, Bool.and_eq_true] at hok
    simp only [encStrs, List.length_append] at hb ⊢
    have := lenDelim_length_pos num s
    exact (lenDelim_allLt num s h2 (okStr_allLt s hok.1) (by omega)).append (ih hok.2 (by omega))

theorem encMap_allLt (num : Nat) (h2 : num < 536870912) : ∀ (l : List (Bytes × Bytes)),
    l.all okEntry = true → (encMap num l).length < 2 ^ 64 → AllLt (encMap num l) := by
  intro l
  induction l with
  | nil => intro _ _; exact allLt_nil
  | cons e r ih =>
    intro hok hb
    simp only [List.all_cons, Bool.and_eq_true, okEntry] at hok
    simp only [encMap, List.length_append] at hb ⊢
    have h0 := lenDelim_length_pos num (encEntry e.1 e.2)
    have h1 := lenDelim_length_pos 1 e.1
    have h2' := lenDelim_length_pos 2 e.2
    have hel : (encEntry e.1 e.2).length = (lenDelim 1 e.1).length + (lenDelim 2 e.2).length := by
      simp [encEntry]
    refine (lenDelim_allLt num _ h2 ?_ (by omega)).append (ih hok.2 (by omega))
    unfold encEntry
    exact (lenDelim_allLt 1 _ (by omega) (okStr_allLt _ hok.1.1) (by omega)).append
      (lenDelim_allLt 2 _ (by omega) (okStr_allLt _ hok.1.2) (by omega))

mutual
theorem encField_allLt (S : Schema) (hS : S.WF = true) (f : Field) (h2 : f.num < 536870912) :
    ∀ v, wtVal S f.ty v = true → (encField S f v).length < 2 ^ 64 → AllLt (encField S f v)
  | .int i => by
    intro hwt hb
    cases hty : f.ty <;> simp only [hty, wtVal] at hwt <;> try (simp at hwt)
    rename_i k
    simp only [encField, hty] at hb ⊢
    split
    · exact allLt_nil
    · unfold tag
      exact (varint_allLt _ (by omega)).append (varint_allLt _ (toU64_lt k i hwt))
  | .str bs => by
    intro hwt hb
    cases hty : f.ty <;> simp only [hty, wtVal] at hwt <;> try (simp at hwt)
    simp only [encField, hty] at hb ⊢
    split
    · exact allLt_nil
    · rename_i hne
      simp only [hne, if_false] at hb
      have := lenDelim_length_pos f.num bs
      exact lenDelim_allLt _ _ h2 (okStr_allLt _ hwt) (by omega)
  | .none => by intro _ _; simp only [encField]; exact allLt_nil
  | .msg fs => by
    intro hwt hb
    cases hty : f.ty <;> simp only [hty, wtVal] at hwt <;> try (simp at hwt)
    rename_i m
    simp only [encField, hty] at hb ⊢
    have := lenDelim_length_pos f.num (encFields S (S.fieldsOf m) fs)
    have hwf := Schema.WF.fields S hS m
    simp only [fieldsWF, Bool.and_eq_true] at hwf
    exact lenDelim_allLt _ _ h2 (encFields_allLt S hS S.length (S.fieldsOf m) hwf.1 fs hwt (by omega)) (by omega)
  | .strs l => by
    intro hwt hb
    cases hty : f.ty <;> simp only [hty, wtVal] at hwt <;> try (simp at hwt)
    simp only [encField, hty] at hb ⊢
    exact encStrs_allLt _ h2 l (by simpa using hwt) hb
  | .list l => by
    intro hwt hb
    cases hty : f.ty <;> simp only [hty, wtVal] at hwt <;> try (simp at hwt)
    rename_i m
    simp only [encField, hty] at hb ⊢
    exact encRep_allLt S hS f.num m h2 l hwt hb
  | .smap l => by
    intro hwt hb
    cases hty : f.ty <;> simp only [hty, wtVal] at hwt <;> try (simp at hwt)
    simp only [encField, hty] at hb ⊢
    exact encMap_allLt _ h2 l (by simpa using hwt.1) hb
theorem encFields_allLt (S : Schema) (hS : S.WF = true) (n : Nat) : ∀ (fs : List Field),
    fs.all (Field.ok n) = true → ∀ (vs : List Val), wtFields S fs vs = true →
    (encFields S fs vs).length < 2 ^ 64 → AllLt (encFields S fs vs)
  | [], _, _, _, _ => by simp only [encFields]; exact allLt_nil
  | _ :: _, _, [], _, _ => by simp only [encFields]; exact allLt_nil
  | f :: fs, hok, v :: vs, hwt, hb => by
    simp only [List.all_cons, Bool.and_eq_true] at hok
    simp only [wtFields, Bool.and_eq_true] at hwt
    simp only [encFields, List.length_append] at hb ⊢
    have hf := hok.1
    simp only [Field.ok, Bool.and_eq_true, decide_eq_true_eq] at hf
    exact (encField_allLt S hS f hf.1.2 v hwt.1 (by omega)).append
      (encFields_allLt S hS n fs hok.2 vs hwt.2 (by omega))
theorem encRep_allLt (S : Schema) (hS : S.WF = true) (num m : Nat) (h2 : num < 536870912) :
    ∀ (l : List Val), wtList S m l = true → (encRep S num m l).length < 2 ^ 64 →
    AllLt (encRep S num m l)
  | [], _, _ => by simp only [encRep]; exact allLt_nil
  | .msg fs :: vs, hwt, hb => by
    simp only [wtList, Bool.and_eq_true] at hwt
    simp only [encRep, List.length_append] at hb ⊢
    have := lenDelim_length_pos num (encFields S (S.fieldsOf m) fs)
    have hwf := Schema.WF.fields S hS m
    simp only [fieldsWF, Bool.and_eq_true] at hwf
    exact (lenDelim_allLt _ _ h2 (encFields_allLt S hS S.length (S.fieldsOf m) hwf.1 fs hwt.1 (by omega))
      (by omega)).append (encRep_allLt S hS num m h2 vs hwt.2 (by omega))
  | .int _ :: _, hwt, _ | .str _ :: _, hwt, _ | .none :: _, hwt, _ | .strs _ :: _, hwt, _
  | .list _ :: _, hwt, _ | .smap _ :: _, hwt, _ => by simp [wtList] at hwt
end

/-- every byte the encoder writes is a byte -/
theorem encode_allLt (S : Schema) (hS : S.WF = true) (m : Nat) (v : List Val)
    (hv : WellTyped S m v = true) (hlen : (encode S m v).length < 2 ^ 64) :
    ∀ b ∈ encode S m v, b < 256 := by
  have hwf := Schema.WF.fields S hS m
  simp only [fieldsWF, Bool.and_eq_true] at hwf
  exact encFields_allLt S hS S.length _ hwf.1 v hv hlen

end Nri.Wire
