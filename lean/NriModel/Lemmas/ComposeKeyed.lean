/-
C03, the keyed list families (devices, mounts; the environment uses the effect part only).

Generator side: under distinct keys the two passes "all removals, then all sets" of
`AdjustDevices`/`AdjustMounts` are `putAll (l.filter (not removed)) sets`, where
`putAll l S` moves every key of `S` to the end in order (`RemoveX` = filter, `AddX` = append).
`putAll` commutes with filters on keys, absorbs a pre-filter of keys it sets anyway, and splits
over `++`.

Collector side: what `keyedStep R a` (the reply list after one response) removes and sets.

Composition: `twoPass x (keyedStep R a) = twoPass (twoPass x R) a` as LISTS — no ledger fact
is needed, only `keyOk` of the response's keys (a removal marker of the reply must not itself
be "removed" by a key `--k`).
Core Lean only.
-/
import NriModel.Lemmas.ComposeBasic

namespace Nri.Compose
open Nri Nri.Generate

/-! ### `putAll` -/

section PutAll
variable {α : Type} (key : α → Str)

/-- remove the key, append the item — for each item in order -/
def putAll (l : List α) (S : List α) : List α :=
  S.foldl (fun l y => l.filter (fun x => key x != key y) ++ [y]) l

theorem putAll_append (l A B : List α) : putAll key l (A ++ B) = putAll key (putAll key l A) B := by
  simp [putAll, List.foldl_append]

theorem putAll_filter (q : Str → Bool) (l S : List α) :
    (putAll key l S).filter (fun x => q (key x)) =
      putAll key (l.filter (fun x => q (key x))) (S.filter (fun x => q (key x))) := by
  induction S generalizing l with
  | nil => rfl
  | cons y r ih =>
    simp only [putAll, List.foldl_cons] at ih ⊢
    rw [ih]
    by_cases hq : q (key y) = true
    · simp only [List.filter_cons, hq, if_true, List.foldl_cons, List.filter_append, List.filter_nil,
        List.filter_filter]
      congr 2
      apply List.filter_congr
      intro x _
      exact Bool.and_comm _ _
    · have hq' : q (key y) = false := by simpa using hq
      simp only [List.filter_cons, hq', Bool.false_eq_true, if_false, List.filter_append,
        List.filter_nil, List.append_nil, List.filter_filter]
      congr 1
      apply List.filter_congr
      intro x _
      by_cases hx : key x = key y
      · rw [hx, hq']; simp
      · have : (key x != key y) = true := by simpa using hx
        simp [this]

/-- pre-filtering keys that `S` sets anyway changes nothing -/
theorem putAll_absorb (q : Str → Bool) (l S : List α)
    (hq : ∀ k, q k = false → ∃ y ∈ S, key y = k) :
    putAll key (l.filter (fun x => q (key x))) S = putAll key l S := by
  induction S generalizing l q with
  | nil =>
    simp only [putAll, List.foldl_nil]
    apply List.filter_eq_self.2
    intro x _
    cases h : q (key x)
    · obtain ⟨y, hy, _⟩ := hq _ h; cases hy
    · rfl
  | cons y r ih =>
    simp only [putAll, List.foldl_cons] at ih ⊢
    -- both sides continue from lists that agree after dropping key y
    let q' : Str → Bool := fun k => q k || k == key y
    have h1 : List.filter (fun x => key x != key y) (List.filter (fun x => q (key x)) l) ++ [y] =
        List.filter (fun x => q' (key x)) (List.filter (fun x => key x != key y) l ++ [y]) := by
      simp only [List.filter_append, List.filter_filter, List.filter_cons, List.filter_nil, q']
      simp only [beq_self_eq_true, Bool.or_true, if_true]
      congr 1
      apply List.filter_congr
      intro x _
      by_cases hx : key x = key y
      · simp [hx]
      · have : (key x == key y) = false := by simpa using hx
        simp [this, bne, Bool.and_comm]
    rw [h1]
    apply ih q'
    intro k hk
    simp only [q', Bool.or_eq_false_iff, beq_eq_false_iff_ne] at hk
    obtain ⟨z, hz, hzk⟩ := hq k hk.1
    rcases List.mem_cons.mp hz with rfl | hz
    · exact absurd hzk.symm hk.2
    · exact ⟨z, hz, hzk⟩

theorem mem_putAll {l S : List α} {x : α} (h : x ∈ putAll key l S) : x ∈ l ∨ x ∈ S := by
  induction S generalizing l with
  | nil => exact .inl h
  | cons y r ih =>
    simp only [putAll, List.foldl_cons] at h ih
    rcases ih h with h | h
    · rcases List.mem_append.mp h with h | h
      · exact .inl (List.mem_filter.mp h).1
      · simp only [List.mem_singleton] at h; exact .inr (by simp [h])
    · exact .inr (List.mem_cons_of_mem _ h)

theorem putAll_perm {l l' : List α} (S : List α) (h : l.Perm l') : (putAll key l S).Perm (putAll key l' S) := by
  induction S generalizing l l' with
  | nil => exact h
  | cons y r ih =>
    simp only [putAll, List.foldl_cons] at ih ⊢
    exact ih ((h.filter _).append_right _)

end PutAll

/-! ### the generator's two passes in filter form -/

section TwoPass
variable {α ε : Type} (key : α → Str) (rawKey : ε → Str) (conv : ε → α)

/-- key `k` is marked for removal by some entry of `L` -/
def delOf (L : List ε) (k : Str) : Bool :=
  L.any fun e => Api.isMarked (rawKey e) && Api.stripMarker (rawKey e) == k

/-- key `k` is set by some entry of `L` -/
def setOf (L : List ε) (k : Str) : Bool :=
  L.any fun e => !Api.isMarked (rawKey e) && rawKey e == k

/-- the items `L` sets, in order -/
def setsOf (L : List ε) : List α := (L.filter fun e => !Api.isMarked (rawKey e)).map conv

/-- removals, then sets — in filter form -/
def twoPass (l : List α) (L : List ε) : List α :=
  putAll key (l.filter fun x => !delOf rawKey L (key x)) (setsOf rawKey conv L)

theorem removeFirst_eq_filter {l : List α} (h : NodupKeys key l) (k : Str) :
    removeFirst key k l = l.filter (fun x => key x != k) := by
  induction l with
  | nil => rfl
  | cons y r ih =>
    unfold NodupKeys at h ih
    simp only [List.map_cons, List.nodup_cons] at h
    unfold removeFirst
    by_cases hy : key y = k
    · simp only [hy, if_true, List.filter_cons, bne_self_eq_false, Bool.false_eq_true, if_false]
      symm
      apply List.filter_eq_self.2
      intro x hx
      have : key x ≠ k := by
        intro hxk; apply h.1; exact List.mem_map.mpr ⟨x, hx, by rw [hxk, hy]⟩
      simpa using this
    · have : (key y != k) = true := by simpa using hy
      simp only [hy, if_false, List.filter_cons, this, if_true, ih h.2]

theorem gRemovals_eq_filter {l : List α} (L : List ε) (h : NodupKeys key l) :
    gRemovals key rawKey l L = l.filter (fun x => !delOf rawKey L (key x)) := by
  induction L generalizing l with
  | nil =>
    simp only [gRemovals, List.foldl_nil, delOf, List.any_nil, Bool.not_false]
    exact (List.filter_eq_self.2 (fun _ _ => rfl)).symm
  | cons e r ih =>
    simp only [gRemovals, List.foldl_cons] at ih ⊢
    by_cases hm : Api.isMarked (rawKey e) = true
    · simp only [hm, if_true]
      rw [ih (nodup_removeFirst key h), removeFirst_eq_filter key h, List.filter_filter]
      apply List.filter_congr
      intro x _
      simp only [delOf, List.any_cons, hm, Bool.true_and, Bool.not_or]
      by_cases hx : key x = Api.stripMarker (rawKey e)
      · simp [hx]
      · have h1 : (key x != Api.stripMarker (rawKey e)) = true := by simpa using hx
        have h2 : (Api.stripMarker (rawKey e) == key x) = false := by
          simpa using fun h3 => hx h3.symm
        simp [h1, h2]
    · have hm' : Api.isMarked (rawKey e) = false := by simpa using hm
      simp only [hm', Bool.false_eq_true, if_false]
      rw [ih h]
      apply List.filter_congr
      intro x _
      simp [delOf, List.any_cons, hm']

variable (hconv : ∀ e, Api.isMarked (rawKey e) = false → key (conv e) = rawKey e)

include hconv in
theorem gSets_eq_putAll {l : List α} (L : List ε) (h : NodupKeys key l) :
    gSets key rawKey conv l L = putAll key l (setsOf rawKey conv L) := by
  induction L generalizing l with
  | nil => rfl
  | cons e r ih =>
    simp only [gSets, List.foldl_cons] at ih ⊢
    by_cases hm : Api.isMarked (rawKey e) = true
    · simp only [hm, if_true]
      rw [ih h]
      simp [setsOf, hm]
    · have hm' : Api.isMarked (rawKey e) = false := by simpa using hm
      simp only [hm', Bool.false_eq_true, if_false]
      rw [ih (nodup_gSets_step key rawKey conv hconv hm' h), removeFirst_eq_filter key h]
      simp [setsOf, hm', putAll, hconv e hm']

include hconv in
/-- **(G)** the generator's two passes on a list with distinct keys -/
theorem gTwoPass_eq {l : List α} (L : List ε) (h : NodupKeys key l) :
    gSets key rawKey conv (gRemovals key rawKey l L) L = twoPass key rawKey conv l L := by
  rw [gSets_eq_putAll key rawKey conv hconv L (nodup_gRemovals key rawKey L h), gRemovals_eq_filter key rawKey L h]
  rfl

include hconv in
theorem setsOf_keys (L : List ε) (k : Str) :
    (∃ y ∈ setsOf rawKey conv L, key y = k) ↔ setOf rawKey L k = true := by
  unfold setsOf setOf
  simp only [List.mem_map, List.mem_filter, List.any_eq_true, Bool.and_eq_true, Bool.not_eq_true',
    beq_iff_eq]
  constructor
  · rintro ⟨y, ⟨e, ⟨he, hm⟩, rfl⟩, hk⟩
    exact ⟨e, he, hm, by rw [← hconv e hm, hk]⟩
  · rintro ⟨e, he, hm, hk⟩
    exact ⟨conv e, ⟨e, ⟨he, hm⟩, rfl⟩, by rw [hconv e hm, hk]⟩

include hconv in
/-- **(C)** composition, given how the new reply list `L'` relates to the old one `R` and the
    response `a`: it sets what `R` set and `a` does not remove, then what `a` sets; it removes
    what `R` removed and what `a` removes without setting it again. -/
theorem twoPass_compose (x : List α) (R a L' : List ε)
    (hsets : setsOf rawKey conv L' =
      (setsOf rawKey conv R).filter (fun y => !delOf rawKey a (key y)) ++ setsOf rawKey conv a)
    (hdel : ∀ k, delOf rawKey L' k = (delOf rawKey R k || (delOf rawKey a k && !setOf rawKey a k))) :
    twoPass key rawKey conv x L' = twoPass key rawKey conv (twoPass key rawKey conv x R) a := by
  unfold twoPass
  have habs : ∀ k, (!setOf rawKey a k) = false → ∃ y ∈ setsOf rawKey conv a, key y = k := by
    intro k hk
    rw [setsOf_keys key rawKey conv hconv]
    simpa using hk
  -- right-hand side
  rw [← putAll_absorb key (fun k => !setOf rawKey a k) _ (setsOf rawKey conv a) habs]
  rw [putAll_filter key (fun k => !delOf rawKey a k), putAll_filter key (fun k => !setOf rawKey a k)]
  -- left-hand side
  rw [hsets, putAll_append]
  rw [← putAll_absorb key (fun k => !setOf rawKey a k) (putAll key _ _) (setsOf rawKey conv a) habs]
  rw [putAll_filter key (fun k => !setOf rawKey a k)]
  congr 2
  · simp only [List.filter_filter]
    apply List.filter_congr
    intro y _
    rw [hdel]
    cases delOf rawKey R (key y) <;> cases delOf rawKey a (key y) <;> cases setOf rawKey a (key y) <;> rfl

end TwoPass

/-! ### what the new reply list sets and removes -/

section KeyedStep
variable {ε : Type} (rawKey : ε → Str)

theorem keyedStep_nil (R : List ε) : keyedStep rawKey R [] = R := by
  simp [keyedStep, loneOf, Result.delKeys]

/-- keeping the last entry of each raw key does not change which keys are named -/
theorem dedup_any (q : Str → Bool) (L : List ε) :
    (L.foldr (fun x acc => if acc.any (fun y => rawKey y = rawKey x) then acc else x :: acc) []).any
        (fun e => q (rawKey e)) = L.any (fun e => q (rawKey e)) := by
  induction L with
  | nil => rfl
  | cons x r ih =>
    simp only [List.foldr_cons, List.any_cons]
    split
    · rename_i h
      rw [ih]
      obtain ⟨y, hy, hk⟩ := List.any_eq_true.1 h
      have hk : rawKey y = rawKey x := by simpa using hk
      cases hq : q (rawKey x)
      · simp
      · have : (r.any fun e => q (rawKey e)) = true := by
          rw [← ih]
          exact List.any_eq_true.2 ⟨y, hy, by rw [hk, hq]⟩
        simp [this]
    · simp only [List.any_cons, ih]

theorem mem_dedup {L : List ε} {x : ε}
    (h : x ∈ L.foldr (fun x acc => if acc.any (fun y => rawKey y = rawKey x) then acc else x :: acc) []) :
    x ∈ L := by
  induction L with
  | nil => simp at h
  | cons y r ih =>
    simp only [List.foldr_cons] at h
    split at h
    · exact List.mem_cons_of_mem _ (ih h)
    · rcases List.mem_cons.mp h with h | h
      · simp [h]
      · exact List.mem_cons_of_mem _ (ih h)

theorem mem_loneOf {a : List ε} {x : ε} (h : x ∈ loneOf rawKey a) :
    x ∈ a ∧ Api.isMarked (rawKey x) = true := by
  unfold loneOf at h
  have := mem_dedup rawKey h
  rw [List.mem_filter] at this
  simp only [isMarked_snd, Bool.and_eq_true] at this
  exact ⟨this.1, this.2.1⟩

variable {α : Type} (key : α → Str) (conv : ε → α)

theorem setsOf_append (A B : List ε) :
    setsOf rawKey conv (A ++ B) = setsOf rawKey conv A ++ setsOf rawKey conv B := by
  simp [setsOf]

theorem delOf_append (A B : List ε) (k : Str) :
    delOf rawKey (A ++ B) k = (delOf rawKey A k || delOf rawKey B k) := by
  simp [delOf]

theorem setOf_append (A B : List ε) (k : Str) :
    setOf rawKey (A ++ B) k = (setOf rawKey A k || setOf rawKey B k) := by
  simp [setOf]

theorem setsOf_keyedStep (hconv : ∀ e, Api.isMarked (rawKey e) = false → key (conv e) = rawKey e)
    (R a : List ε) :
    setsOf rawKey conv (keyedStep rawKey R a) =
      (setsOf rawKey conv R).filter (fun y => !delOf rawKey a (key y)) ++ setsOf rawKey conv a := by
  unfold keyedStep
  rw [setsOf_append, setsOf_append]
  have h3 : setsOf rawKey conv (loneOf rawKey a) = [] := by
    unfold setsOf
    rw [List.map_eq_nil_iff, List.filter_eq_nil_iff]
    intro x hx
    simp [(mem_loneOf rawKey hx).2]
  have h2 : setsOf rawKey conv (a.filter fun x => !(NApi.isMarked (rawKey x)).2) = setsOf rawKey conv a := by
    unfold setsOf
    simp only [isMarked_snd, List.filter_filter, Bool.and_self]
  rw [h3, h2, List.append_nil]
  congr 1
  unfold setsOf
  rw [List.filter_filter, List.filter_map, List.filter_filter]
  congr 1
  apply List.filter_congr
  intro x _
  cases hm : Api.isMarked (rawKey x)
  · simp only [Bool.not_false, Bool.true_and, Bool.and_true, Function.comp]
    rw [hconv x hm, delKeys_contains, List.any_map]
    rfl
  · simp

theorem delOf_keyedStep (R a : List ε) (hk : ∀ k ∈ a.map rawKey, keyOk k = true) (k : Str) :
    delOf rawKey (keyedStep rawKey R a) k =
      (delOf rawKey R k || (delOf rawKey a k && !setOf rawKey a k)) := by
  unfold keyedStep
  rw [delOf_append, delOf_append]
  have h2 : delOf rawKey (a.filter fun x => !(NApi.isMarked (rawKey x)).2) k = false := by
    unfold delOf
    rw [Bool.eq_false_iff]; intro h
    obtain ⟨e, he, hq⟩ := List.any_eq_true.1 h
    simp only [List.mem_filter, isMarked_snd, Bool.not_eq_true'] at he
    simp [he.2] at hq
  have h1 : delOf rawKey (R.filter fun x => !(Result.delKeys (a.map rawKey)).contains (rawKey x)) k =
      delOf rawKey R k := by
    unfold delOf
    rw [Bool.eq_iff_iff]
    simp only [List.any_eq_true, List.mem_filter, Bool.and_eq_true, beq_iff_eq, Bool.not_eq_true']
    constructor
    · rintro ⟨e, ⟨he, _⟩, hq⟩; exact ⟨e, he, hq⟩
    · rintro ⟨e, he, hm, hq⟩
      refine ⟨e, ⟨he, ?_⟩, hm, hq⟩
      -- a removal marker of the reply is never dropped
      rw [Bool.eq_false_iff]; intro hc
      have := delKeys_unmarked _ hk _ (List.contains_iff_mem.1 hc)
      rw [hm] at this; cases this
  have h3 : delOf rawKey (loneOf rawKey a) k = (delOf rawKey a k && !setOf rawKey a k) := by
    unfold loneOf delOf
    simp only []
    have hmod : ∀ x : ε, ((a.filter fun x => !Api.isMarked (rawKey x)).map rawKey).contains
        (Api.stripMarker (rawKey x)) = setOf rawKey a (Api.stripMarker (rawKey x)) := by
      intro x
      rw [Bool.eq_iff_iff]
      simp only [List.contains_iff_mem, List.mem_map, List.mem_filter, Bool.not_eq_true',
        setOf, List.any_eq_true, Bool.and_eq_true, beq_iff_eq]
      constructor
      · rintro ⟨e, ⟨he, hm⟩, hk⟩; exact ⟨e, he, hm, hk⟩
      · rintro ⟨e, he, hm, hk⟩; exact ⟨e, ⟨he, hm⟩, hk⟩
    have := dedup_any rawKey (fun r => Api.isMarked r && Api.stripMarker r == k)
      (a.filter fun x => (NApi.isMarked (rawKey x)).2 &&
        !((a.filter fun x => !(NApi.isMarked (rawKey x)).2).map rawKey).contains (NApi.clearMarker (rawKey x)))
    rw [this, List.any_filter]
    rw [Bool.eq_iff_iff]
    simp only [isMarked_snd, clearMarker_eq]
    simp only [List.any_eq_true, Bool.and_eq_true, hmod, Bool.not_eq_true', beq_iff_eq]
    constructor
    · rintro ⟨e, he, ⟨_, hs⟩, hm, hk⟩
      exact ⟨⟨e, he, hm, hk⟩, by rw [← hk]; exact hs⟩
    · rintro ⟨⟨e, he, hm, hk⟩, hs⟩
      exact ⟨e, he, ⟨hm, by rw [hk]; exact hs⟩, hm, hk⟩
  rw [h1, h2, h3]
  simp

end KeyedStep

end Nri.Compose
