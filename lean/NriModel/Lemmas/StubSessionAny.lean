/-
Facts that hold of the session machine in EVERY variant (also of the code before the patch,
also after a `stall`): bookkeeping of close notifications. Used for `C16_onclose_atmost_once_any`.
-/
import NriModel.Lemmas.StubSession

namespace Nri.StubSession

/-- close-notification bookkeeping, any variant -/
structure Book (s : State) : Prop where
  infl_rng : ∀ x ∈ s.inflight, 1 ≤ x ∧ x ≤ s.cur
  fired_rng : ∀ x ∈ s.fired, 1 ≤ x ∧ x ≤ s.cur
  infl_nodup : s.inflight.Nodup
  fired_nodup : s.fired.Nodup
  disj : ∀ x ∈ s.inflight, x ∉ s.fired

theorem book_init (src : ConnSrc) : Book (initWith src) := by constructor <;> simp [initWith]

theorem book_closeClient {s : State} (hb : Book s) (sid : Nat) (h1 : 1 ≤ sid) (h2 : sid ≤ s.cur) :
    Book (closeClient s sid) := by
  obtain ⟨b1, b2, b3, b4, b5⟩ := hb
  simp only [closeClient]
  have e1 : sid ∉ s.inflight → (s.inflight ++ [sid]).Nodup := fun h => nodup_snoc b3 h
  constructor <;> grind

/-- only these fields matter -/
theorem book_congr {s t : State} (hb : Book s) (h1 : t.inflight = s.inflight) (h2 : t.fired = s.fired)
    (h3 : s.cur ≤ t.cur) : Book t := by
  obtain ⟨b1, b2, b3, b4, b5⟩ := hb
  constructor <;> grind

theorem book_closeStub {s : State} (hb : Book s) (hc : s.started = true → 1 ≤ s.cur) :
    Book (closeStub s) := by
  unfold closeStub
  split
  · rename_i hs
    exact book_congr (book_closeClient hb s.cur (hc hs) (Nat.le_refl _)) rfl rfl (Nat.le_refl _)
  · exact hb

/-- with `started → 1 ≤ cur` as a second invariant -/
structure Book' (s : State) : Prop extends Book s where
  cur_pos : s.started = true → 1 ≤ s.cur

theorem book'_init (src : ConnSrc) : Book' (initWith src) := ⟨book_init src, by simp [initWith]⟩

theorem book'_key (v : Variant) {s : State} (hb : Book' s) :
    ∀ (s1 : State), s1.inflight = s.inflight → s1.fired = s.fired → s1.cur = s.cur →
      Book' (failStart v { s1 with cur := s1.cur + 1 }) ∧
      Book' (establish { s1 with cur := s1.cur + 1 }) ∧
      Book' (establish (lose { s1 with cur := s1.cur + 1 })) ∧
      Book' { lose { s1 with cur := s1.cur + 1 } with wedged := true } ∧
      Book' { ({ s1 with cur := s1.cur + 1 } : State) with wedged := true } := by
  obtain ⟨hb, hc⟩ := hb
  intro s1 e1 e2 e3
  have b0 : Book ({ s1 with cur := s1.cur + 1 } : State) :=
    book_congr hb (by simp [e1]) (by simp [e2]) (by simp [e3])
  have b1 := book_closeClient b0 (s1.cur + 1) (by omega) (by simp)
  refine ⟨⟨?_, ?_⟩, ⟨?_, ?_⟩, ⟨?_, ?_⟩, ⟨?_, ?_⟩, ⟨?_, ?_⟩⟩
  · exact book_congr b1 (by simp [failStart, markDead]) (by simp [failStart, markDead]) (by simp [failStart, markDead, closeClient])
  · simp [failStart, markDead, closeClient]
  · exact book_congr b0 (by simp [establish]) (by simp [establish]) (by simp [establish])
  · simp [establish]
  · exact book_congr b1 (by simp [establish, lose, markDead]) (by simp [establish, lose, markDead]) (by simp [establish, lose, markDead, closeClient])
  · simp [establish, lose, markDead, closeClient]
  · exact book_congr b1 (by simp [lose, markDead]) (by simp [lose, markDead]) (by simp [lose, markDead, closeClient])
  · simp [lose, markDead, closeClient]
  · exact book_congr b0 (by simp) (by simp) (by simp)
  · simp

theorem book'_attempt (v : Variant) {s s1 s' : State} {o : Script} {r : StartRes} (hb : Book' s)
    (e1 : s1.inflight = s.inflight) (e2 : s1.fired = s.fired) (e3 : s1.cur = s.cur)
    (h : attempt v s1 o r = some s') : Book' s' := by
  obtain ⟨k1, k2, k3, k4, k5⟩ := book'_key v hb s1 e1 e2 e3
  unfold attempt at h
  cases o <;> simp only at h <;> grind

theorem book'_step (v : Variant) {s s' : State} {e : Event} (hb : Book' s)
    (h : step? v s e = some s') : Book' s' := by
  have hb0 := hb
  obtain ⟨hb, hc⟩ := hb
  cases e with
  | start o r =>
    simp only [step?] at h
    split at h
    · cases h
    · unfold startStep at h
      split at h
      · have : s' = s := by grind
        subst this; exact hb0
      · split at h
        · exact book'_attempt v hb0 rfl rfl rfl h
        · split at h
          · split at h
            · simp at h; subst h; exact hb0
            · split at h
              · simp at h; subst h
                exact (book'_key v hb0 (adopt s) rfl rfl rfl).1
              · cases h
          · split at h
            · exact book'_attempt v hb0 (by simp [adopt]) (by simp [adopt]) (by simp [adopt]) h
            · split at h
              · have : s' = s := by grind
                subst this; exact hb0
              · exact book'_attempt v hb0 (by simp [adopt]) (by simp [adopt]) (by simp [adopt]) h
  | stop =>
    simp only [step?] at h
    split at h
    · cases h
    · simp at h; subst h
      refine ⟨book_closeStub hb hc, ?_⟩
      unfold closeStub; split <;> simp_all
  | connLost =>
    simp only [step?] at h
    split at h
    · simp at h; subst h
      rename_i ha
      have hs : s.started = true := by simp [alive] at ha; exact ha.2.1.1
      refine ⟨book_congr (book_closeClient hb s.cur (hc hs) (Nat.le_refl _)) (by simp [lose, markDead]) (by simp [lose, markDead]) (by simp [lose, markDead, closeClient]), ?_⟩
      simp [lose, markDead, closeClient]; exact hc
    · cases h
  | closeNotify sid =>
    simp only [step?] at h
    split at h
    · cases h
    · rename_i hcond
      simp at h; subst h
      have hin : sid ∈ s.inflight := by simp at hcond; exact hcond.2
      -- the state on which the bookkeeping update is done
      have hgen : ∀ (s1 : State), Book s1 → sid ∈ s1.inflight → (s1.started = true → 1 ≤ s1.cur) →
          Book' { s1 with inflight := s1.inflight.erase sid, fired := s1.fired ++ [sid] } := by
        intro s1 ⟨b1, b2, b3, b4, b5⟩ hin1 hc1
        have e1 : ∀ x, x ∈ s1.inflight.erase sid ↔ x ≠ sid ∧ x ∈ s1.inflight :=
          fun x => List.Nodup.mem_erase_iff b3
        have e2 : (s1.inflight.erase sid).Nodup := List.Nodup.erase _ b3
        have e3 : (s1.fired ++ [sid]).Nodup := nodup_snoc b4 (b5 sid hin1)
        refine ⟨?_, hc1⟩
        constructor <;> grind
      split
      · have hb1 := book_closeStub hb hc
        have hin1 : sid ∈ (closeStub s).inflight := by
          unfold closeStub; split
          · simp only [markDead, closeClient]; split <;> simp [hin]
          · exact hin
        exact hgen _ hb1 hin1 (by unfold closeStub; split <;> simp_all)
      · exact hgen _ hb hin hc
  | wait ret =>
    simp only [step?] at h
    by_cases hret : ret = true
    · have : s' = s := by grind
      subst this; exact ⟨hb, hc⟩
    · have : Book' s' := by
        split at h
        · cases h
        · have hret' : ret = false := by simpa using hret
          subst hret'
          split at h
          · simp at h; subst h
            exact ⟨book_congr hb rfl rfl (Nat.le_refl _), hc⟩
          · cases h
      exact this
  | waitRet sid =>
    simp only [step?] at h
    split at h
    · simp at h; subst h
      exact ⟨book_congr hb rfl rfl (Nat.le_refl _), hc⟩
    · cases h
  | dispatch ok =>
    simp only [step?] at h
    have : s' = s := by grind
    subst this; exact ⟨hb, hc⟩

theorem book'_run (v : Variant) {s s' : State} (hb : Book' s) :
    ∀ (h : List Event), run v s h = some s' → Book' s' := by
  intro h
  induction h generalizing s with
  | nil => intro hr; simp [run] at hr; subst hr; exact hb
  | cons e es ih =>
    intro hr
    simp only [run] at hr
    split at hr
    · rename_i s1 hs1; exact ih (book'_step v hb hs1) hr
    · cases hr

end Nri.StubSession
