/-
Field-order freedom of the wire model (C12): the records of a message's fields, written
in any order of the fields, decode to the same value.
-/
import NriModel.Lemmas.WireProps

namespace Nri.Wire

theorem findField_spec : ∀ (fs : List Field) (n i : Nat) (f : Field),
    findField fs n = some (i, f) → fs[i]? = some f ∧ f.num = n := by
  intro fs
  induction fs with
  | nil => intro n i f h; simp [findField] at h
  | cons g fs ih =>
    intro n i f h
    simp only [findField] at h
    split at h
    · rename_i hg
      simp at h
      obtain ⟨rfl, rfl⟩ := h
      simp [hg]
    · split at h
      · rename_i j g' hrec
        simp at h
        obtain ⟨rfl, rfl⟩ := h
        have := ih n j g' hrec
        simp [this]
      · simp at h

theorem findField_of_getElem (fs : List Field) (hnd : (fs.map (·.num)).Nodup) (i : Nat) (f : Field)
    (h : fs[i]? = some f) : findField fs f.num = some (i, f) := by
  obtain ⟨hi, rfl⟩ := List.getElem?_eq_some_iff.mp h
  have hsplit : fs = fs.take i ++ fs[i] :: fs.drop (i + 1) := by
    simp
  have := findField_append (fs.take i) fs[i] (fs.drop (i + 1)) (by rw [← hsplit]; exact hnd)
  rw [← hsplit] at this
  simpa [Nat.min_eq_left (Nat.le_of_lt hi)] using this

/-- store the values of a list of (field, value) pairs at the fields' positions -/
def applyPairs (fields : List Field) (acc : List Val) : List (Field × Val) → List Val
  | [] => acc
  | p :: r =>
    match findField fields p.1.num with
    | some (i, _) => applyPairs fields (acc.set i p.2) r
    | none => applyPairs fields acc r

def encPairs (S : Schema) (π : List (Field × Val)) : Bytes := π.flatMap fun p => encField S p.1 p.2

theorem applyPairs_length (fields : List Field) : ∀ (π : List (Field × Val)) (acc : List Val),
    (applyPairs fields acc π).length = acc.length := by
  intro π
  induction π with
  | nil => intro acc; rfl
  | cons p r ih =>
    intro acc
    simp only [applyPairs]
    split <;> simp [ih]

/-- positions no pair of the list refers to are left alone -/
theorem applyPairs_other (fields : List Field) : ∀ (π : List (Field × Val)) (acc : List Val) (j : Nat),
    (∀ p ∈ π, ∀ i g, findField fields p.1.num = some (i, g) → i ≠ j) →
    (applyPairs fields acc π)[j]? = acc[j]? := by
  intro π
  induction π with
  | nil => intro acc j _; rfl
  | cons p r ih =>
    intro acc j h
    simp only [applyPairs]
    split
    · rename_i i g hf
      rw [ih _ j (fun q hq => h q (by simp [hq]))]
      have := h p (by simp) i g hf
      simp [this]
    · exact ih _ j (fun q hq => h q (by simp [hq]))

theorem decMsg_pairs (S : Schema) (hS : S.WF = true) (m : Nat) :
    ∀ (π : List (Field × Val)) (acc : List Val),
      (π.map (·.1.num)).Nodup →
      (∀ p ∈ π, ∃ i : Nat, (S.fieldsOf m)[i]? = some p.1 ∧ acc[i]? = some p.1.ty.default ∧
          wtVal S p.1.ty p.2 = true) →
      (encPairs S π).length < 2 ^ 64 →
      ∀ (fuel : Nat) (rest : Bytes) (out : List Val),
        decMsg S fuel m (applyPairs (S.fieldsOf m) acc π) rest = some out →
        decMsg S (fuel + (encPairs S π).length) m acc (encPairs S π ++ rest) = some out := by
  have hwf := Schema.WF.fields S hS m
  simp only [fieldsWF, Bool.and_eq_true, decide_eq_true_eq, List.all_eq_true] at hwf
  intro π
  induction π with
  | nil =>
    intro acc _ _ _ fuel rest out h
    simpa [encPairs, applyPairs] using h
  | cons p π ih =>
    intro acc hnd hall hb fuel rest out h
    obtain ⟨f, x⟩ := p
    obtain ⟨i, hfi, hacc, hwt⟩ := hall (f, x) (by simp)
    have hfind := findField_of_getElem _ hwf.2 i f hfi
    have hfok := hwf.1 f (List.mem_of_getElem? hfi)
    simp only [Field.ok, Bool.and_eq_true, decide_eq_true_eq] at hfok
    simp only [List.map_cons, List.nodup_cons] at hnd
    have henc : encPairs S ((f, x) :: π) = encField S f x ++ encPairs S π := by
      simp [encPairs]
    rw [henc] at hb ⊢
    simp only [List.length_append] at hb ⊢
    simp only [applyPairs, hfind] at h
    have hrest := ih (acc.set i x) hnd.2 (by
        intro q hq
        obtain ⟨j, hfj, haj, hwj⟩ := hall q (by simp [hq])
        refine ⟨j, hfj, ?_, hwj⟩
        have hne : i ≠ j := by
          intro e
          subst e
          have : q.1 = f := by rw [hfi] at hfj; exact (Option.some.inj hfj).symm
          apply hnd.1
          simp only [List.mem_map]
          exact ⟨q, hq, by rw [this]⟩
        simp [hne, haj]) (by omega) fuel rest out h
    have := decMsg_field S m f i acc x hfind hfok.1.1 hfok.1.2 hacc hwt
      (nested_all S hS _ x (Nat.le_refl _) f.ty hwt) (by omega)
      (fuel + (encPairs S π).length) (encPairs S π ++ rest) out hrest
    rw [List.append_assoc]
    have e : fuel + ((encField S f x).length + (encPairs S π).length)
        = fuel + (encPairs S π).length + (encField S f x).length := by omega
    rw [e]
    exact this

theorem wtFields_zip (S : Schema) : ∀ (fs : List Field) (vs : List Val), wtFields S fs vs = true →
    ∀ p ∈ fs.zip vs, wtVal S p.1.ty p.2 = true := by
  intro fs
  induction fs with
  | nil => intro vs _ p hp; simp at hp
  | cons f fs ih =>
    intro vs h p hp
    cases vs with
    | nil => simp at hp
    | cons v vs =>
      simp only [wtFields, Bool.and_eq_true] at h
      simp only [List.zip_cons_cons, List.mem_cons] at hp
      rcases hp with rfl | hp
      · exact h.1
      · exact ih vs h.2 p hp

/-- **Field order is free**: the fields' records in any order decode to the value. -/
theorem decode_perm (S : Schema) (hS : S.WF = true) (m : Nat) (v : List Val)
    (hv : WellTyped S m v = true) (π : List (Field × Val))
    (hπ : π.Perm ((S.fieldsOf m).zip v)) (hlen : (encPairs S π).length < 2 ^ 64) :
    decode S m (encPairs S π) = some v := by
  have hwf := Schema.WF.fields S hS m
  simp only [fieldsWF, Bool.and_eq_true, decide_eq_true_eq, List.all_eq_true] at hwf
  have hvl := wtFields_length S _ _ hv
  have hzl : ((S.fieldsOf m).zip v).length = (S.fieldsOf m).length := by simp [hvl]
  -- membership in π = being a (field, value) pair of the message at some position
  have hmem : ∀ p : Field × Val, p ∈ π ↔ ∃ i : Nat, (S.fieldsOf m)[i]? = some p.1 ∧ v[i]? = some p.2 := by
    intro p
    rw [hπ.mem_iff, List.mem_iff_getElem?]
    constructor
    · rintro ⟨i, hi⟩
      rw [List.getElem?_zip_eq_some] at hi
      exact ⟨i, hi⟩
    · rintro ⟨i, hi⟩
      exact ⟨i, by rw [List.getElem?_zip_eq_some]; exact hi⟩
  have hnd : (π.map (·.1.num)).Nodup := by
    have : (π.map (·.1.num)).Perm (((S.fieldsOf m).zip v).map (·.1.num)) := hπ.map _
    rw [this.nodup_iff]
    have e : ((S.fieldsOf m).zip v).map (·.1.num) = (S.fieldsOf m).map (·.num) := by
      have e1 : ((S.fieldsOf m).zip v).map (fun x => x.1.num)
          = (((S.fieldsOf m).zip v).map Prod.fst).map (·.num) := by simp
      rw [e1, List.map_fst_zip (by omega)]
    rw [e]; exact hwf.2
  have key := decMsg_pairs S hS m π (emptyMsg S m) hnd (by
      intro p hp
      obtain ⟨i, hfi, hvi⟩ := (hmem p).mp hp
      refine ⟨i, hfi, ?_, wtFields_zip S _ _ hv p (hπ.mem_iff.mp hp)⟩
      simp [emptyMsg, hfi]) hlen 0 [] (applyPairs (S.fieldsOf m) (emptyMsg S m) π)
      (decMsg_nil S 0 m _)
  simp only [List.append_nil, Nat.zero_add] at key
  unfold decode
  rw [key]
  congr 1
  -- every position holds the value of the message
  apply List.ext_getElem?
  intro j
  by_cases hj : j < (S.fieldsOf m).length
  · obtain ⟨f, hf⟩ : ∃ f, (S.fieldsOf m)[j]? = some f := ⟨_, List.getElem?_eq_getElem hj⟩
    obtain ⟨x, hx⟩ : ∃ x, v[j]? = some x := ⟨_, List.getElem?_eq_getElem (by omega)⟩
    have hp : (f, x) ∈ π := (hmem (f, x)).mpr ⟨j, hf, hx⟩
    rw [hx]
    -- split π around the pair and follow the stores
    obtain ⟨π₁, π₂, rfl⟩ := List.append_of_mem hp
    have hfind := findField_of_getElem _ hwf.2 j f hf
    have hnd' := hnd
    simp only [List.map_append, List.map_cons] at hnd'
    have hdisj : ∀ q, q ∈ π₁ ∨ q ∈ π₂ → ∀ i g, findField (S.fieldsOf m) q.1.num = some (i, g) → i ≠ j := by
      intro q hq i g hfq e
      subst e
      have hs := findField_spec _ _ _ _ hfq
      have : g = f := by rw [hf] at hs; exact (Option.some.inj hs.1).symm
      subst this
      have hnum : q.1.num = g.num := hs.2.symm
      rcases hq with hq | hq
      · have := (List.nodup_append.mp hnd').2.2 q.1.num (List.mem_map.mpr ⟨q, hq, rfl⟩) g.num (by simp)
        exact this hnum
      · have := (List.nodup_cons.mp (List.nodup_append.mp hnd').2.1).1
        exact this (List.mem_map.mpr ⟨q, hq, hnum⟩)
    have happ : ∀ (l₁ l₂ : List (Field × Val)) (acc : List Val),
        applyPairs (S.fieldsOf m) acc (l₁ ++ l₂) = applyPairs (S.fieldsOf m) (applyPairs (S.fieldsOf m) acc l₁) l₂ := by
      intro l₁
      induction l₁ with
      | nil => intro l₂ acc; rfl
      | cons a l₁ ih =>
        intro l₂ acc
        simp only [List.cons_append, applyPairs]
        split <;> exact ih _ _
    rw [happ]
    simp only [applyPairs, hfind]
    rw [applyPairs_other _ π₂ _ j (fun q hq => hdisj q (Or.inr hq))]
    have hl : j < (applyPairs (S.fieldsOf m) (emptyMsg S m) π₁).length := by
      rw [applyPairs_length]; simp [emptyMsg, hj]
    simp [hl]
  · have h1 : (applyPairs (S.fieldsOf m) (emptyMsg S m) π).length ≤ j := by
      rw [applyPairs_length]; simp [emptyMsg]; omega
    rw [List.getElem?_eq_none h1, List.getElem?_eq_none (by omega)]

end Nri.Wire

namespace Nri.Wire

/-! ### map entries: order on the wire is only a representation -/

theorem lookup_of_mem (l : List (Bytes × Bytes)) (hnd : (l.map (·.1)).Nodup) (k v : Bytes)
    (h : (k, v) ∈ l) : AList.lookup l k = some v := by
  induction l with
  | nil => simp at h
  | cons e r ih =>
    obtain ⟨k', v'⟩ := e
    simp only [List.map_cons, List.nodup_cons] at hnd
    simp only [List.mem_cons, Prod.mk.injEq] at h
    by_cases hk : k' = k
    · subst hk
      rcases h with h | h
      · simp [AList.lookup, h.2]
      · exact absurd (List.mem_map.mpr ⟨(k', v), h, rfl⟩) hnd.1
    · rcases h with h | h
      · exact absurd h.1.symm hk
      · simp [AList.lookup, hk, ih hnd.2 h]

theorem lookup_none_of_not_mem (l : List (Bytes × Bytes)) (k : Bytes) (h : k ∉ l.map (·.1)) :
    AList.lookup l k = none := by
  induction l with
  | nil => rfl
  | cons e r ih =>
    obtain ⟨k', v'⟩ := e
    simp only [List.map_cons, List.mem_cons, not_or] at h
    have : ¬ k' = k := fun e => h.1 e.symm
    simp [AList.lookup, this, ih h.2]

/-- two orderings of the entries of one Go map answer every lookup alike -/
theorem lookup_perm (l l' : List (Bytes × Bytes)) (hp : l'.Perm l) (hnd : (l.map (·.1)).Nodup)
    (k : Bytes) : AList.lookup l' k = AList.lookup l k := by
  have hnd' : (l'.map (·.1)).Nodup := (hp.map _).nodup_iff.mpr hnd
  by_cases hk : k ∈ l.map (·.1)
  · obtain ⟨⟨k0, v⟩, hm, rfl⟩ := List.mem_map.mp hk
    rw [lookup_of_mem l hnd k0 v hm, lookup_of_mem l' hnd' k0 v (hp.mem_iff.mpr hm)]
  · rw [lookup_none_of_not_mem l k hk,
      lookup_none_of_not_mem l' k (fun h => hk ((hp.map _).mem_iff.mp h))]

end Nri.Wire
