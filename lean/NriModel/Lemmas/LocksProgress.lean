/-
Progress facts of the sync-lock model: the plugin inside the exclusive section can always leave
it, and with no block held an idle plugin can run through its whole registration.
-/
import NriModel.Lemmas.Locks

namespace Nri.Locks

/-- the state after `p` registered from `s` -/
def registered (s : State) (p : Pid) : State :=
  { s with writer := none, pl := setP s.pl p { phase := .active, snap := s.store, got := [] } }

/-- the registration of an idle plugin runs to completion when the lock is free -/
theorem run_register {s : State} {p : Pid} (hw : s.writer = none) (hh : s.holding = [])
    (hp : (s.pl p).phase = .idle) :
    run s (register p) = some (registered s p) := by
  have e1 : step? s (.syncBegin p) =
      some { s with writer := some p, pl := setP s.pl p { phase := .syncing } } := by
    simp [step?, hw, hh, hp]
  have e2 : step? { s with writer := some p, pl := setP s.pl p { phase := .syncing } } (.snapshot p) =
      some { s with writer := some p, pl := setP s.pl p { phase := .snapped, snap := s.store } } := by
    simp only [step?, setP_same, and_self, if_true]
    congr 2
    funext q; by_cases hq : q = p <;> simp [setP, hq]
  have e3 : step? { s with writer := some p, pl := setP s.pl p { phase := .snapped, snap := s.store } }
      (.activate p) =
      some { s with writer := some p,
                    pl := setP s.pl p { phase := .active, snap := s.store, got := [] } } := by
    simp only [step?, setP_same, and_self, if_true]
    congr 2
    funext q; by_cases hq : q = p <;> simp [setP, hq]
  have e4 : step? { s with writer := some p,
                           pl := setP s.pl p { phase := .active, snap := s.store, got := [] } }
      (.syncEnd p) = some (registered s p) := by
    simp [step?, registered]
  simp only [register, run, e1, e2, e3, e4]

/-- what `run_finish` / `progress_one` promise about the state reached -/
structure Freed (s s' : State) (q : Pid) : Prop where
  writer : s'.writer = none
  holding : s'.holding = s.holding
  store : s'.store = s.store
  frame : ∀ p, p ≠ q → s'.pl p = s.pl p
  active : (s'.pl q).phase = .active
  good : Good s'

/-- whoever is inside the exclusive section can leave it (the lock is never stuck) -/
theorem run_finish {s : State} (g : Good s) {q : Pid} (hw : s.writer = some q) :
    ∃ s', run s (finish q (s.pl q).phase) = some s' ∧ Freed s s' q := by
  have hbusy := g.writerBusy q hw
  have endOf : ∀ t : State, Good t → t.writer = some q → (t.pl q).phase = .active →
      ∃ s', run t [.syncEnd q] = some s' ∧ Freed t s' q := by
    intro t gt tw tp
    have e : step? t (.syncEnd q) = some { t with writer := none } := by simp [step?, tw, tp]
    refine ⟨{ t with writer := none }, by simp [run, e], ?_⟩
    exact ⟨rfl, rfl, rfl, fun _ _ => rfl, tp, good_step gt e⟩
  have actOf : ∀ t : State, Good t → t.writer = some q → (t.pl q).phase = .snapped →
      ∃ s', run t [.activate q, .syncEnd q] = some s' ∧ Freed t s' q := by
    intro t gt tw tp
    have e : step? t (.activate q) =
        some { t with pl := setP t.pl q { phase := .active, snap := (t.pl q).snap, got := [] } } := by
      simp [step?, tw, tp]
    obtain ⟨s', h1, f⟩ := endOf _ (good_step gt e) tw (by simp)
    refine ⟨s', by simp only [run, e]; exact h1, ⟨f.writer, f.holding, f.store, ?_, f.active, f.good⟩⟩
    intro p hp; rw [f.frame p hp]; exact setP_other _ _ hp
  have snapOf : ∀ t : State, Good t → t.writer = some q → (t.pl q).phase = .syncing →
      ∃ s', run t [.snapshot q, .activate q, .syncEnd q] = some s' ∧ Freed t s' q := by
    intro t gt tw tp
    have e : step? t (.snapshot q) =
        some { t with pl := setP t.pl q { phase := .snapped, snap := t.store } } := by
      simp [step?, tw, tp]
    obtain ⟨s', h1, f⟩ := actOf _ (good_step gt e) tw (by simp)
    refine ⟨s', by simp only [run, e]; exact h1, ⟨f.writer, f.holding, f.store, ?_, f.active, f.good⟩⟩
    intro p hp; rw [f.frame p hp]; exact setP_other _ _ hp
  cases hph : (s.pl q).phase with
  | idle => exact absurd hph hbusy
  | syncing => simpa [finish] using snapOf s g hw hph
  | snapped => simpa [finish] using actOf s g hw hph
  | active => simpa [finish] using endOf s g hw hph

/-- the history that frees the exclusive section (if occupied) and then registers `p` -/
def completion (s : State) (p : Pid) : List Ev :=
  (match s.writer with
   | some q => finish q (s.pl q).phase
   | none => []) ++ register p

structure Completed (s s' : State) (p : Pid) : Prop where
  active : (s'.pl p).phase = .active
  snap : (s'.pl p).snap = s.store
  writer : s'.writer = none
  holding : s'.holding = []
  store : s'.store = s.store
  /-- plugins other than `p` and the former writer are untouched -/
  frame : ∀ r, r ≠ p → s.writer ≠ some r → s'.pl r = s.pl r
  /-- nobody is deactivated -/
  keeps : ∀ r, (s.pl r).phase = .active → (s'.pl r).phase = .active
  good : Good s'

/-- with no block held an idle plugin can complete its registration, whoever is in the
    exclusive section at the moment -/
theorem progress_one {s : State} (g : Good s) (hh : s.holding = []) {p : Pid}
    (hp : (s.pl p).phase = .idle) :
    ∃ s', run s (completion s p) = some s' ∧ Completed s s' p := by
  unfold completion
  cases hw : s.writer with
  | none =>
    simp only [List.nil_append]
    have hr := run_register hw hh hp
    refine ⟨registered s p, hr, ?_⟩
    refine ⟨by simp [registered], by simp [registered], rfl, hh, rfl, ?_, ?_, good_run_from g hr⟩
    · intro r hr _; exact setP_other _ _ hr
    · intro r hra
      have : r ≠ p := by intro h; subst h; rw [hp] at hra; cases hra
      show (setP s.pl p _ r).phase = .active
      rw [setP_other _ _ this]; exact hra
  | some q =>
    obtain ⟨s1, h1, f⟩ := run_finish g hw
    have hqp : p ≠ q := by
      intro h; subst h; exact g.writerBusy p hw hp
    have hp1 : (s1.pl p).phase = .idle := by rw [f.frame p hqp]; exact hp
    have hh1 : s1.holding = [] := f.holding.trans hh
    have hr := run_register f.writer hh1 hp1
    refine ⟨registered s1 p, by simp only [run_append, h1, Option.bind_some]; exact hr, ?_⟩
    refine ⟨by simp [registered], by simp [registered, f.store], rfl, hh1, f.store, ?_, ?_,
      good_run_from f.good hr⟩
    · intro r hr hrq
      have : r ≠ q := by intro h; subst h; exact hrq hw
      show setP s1.pl p _ r = s.pl r
      rw [setP_other _ _ hr, f.frame r this]
    · intro r hra
      have hrp : r ≠ p := by intro h; subst h; rw [hp] at hra; cases hra
      show (setP s1.pl p _ r).phase = .active
      rw [setP_other _ _ hrp]
      by_cases hrq : r = q
      · subst hrq; exact f.active
      · rw [f.frame r hrq]; exact hra

/-- with no block held every pending (idle) registration of a list of distinct plugins can
    complete, and no active plugin is deactivated on the way -/
theorem progress_all {s : State} (g : Good s) (hh : s.holding = []) :
    ∀ (ps : List Pid), ps.Nodup → (∀ p ∈ ps, (s.pl p).phase = .idle) →
    ∃ h' s', run s h' = some s' ∧ (∀ p ∈ ps, (s'.pl p).phase = .active) ∧
      (∀ r, (s.pl r).phase = .active → (s'.pl r).phase = .active) ∧
      s'.writer = none ∧ s'.holding = [] ∧ s'.store = s.store := by
  intro ps
  induction ps generalizing s with
  | nil =>
    intro _ _
    cases hw : s.writer with
    | none => exact ⟨[], s, rfl, by simp, fun _ h => h, hw, hh, rfl⟩
    | some q =>
      obtain ⟨s1, h1, f⟩ := run_finish g hw
      refine ⟨_, s1, h1, by simp, ?_, f.writer, f.holding.trans hh, f.store⟩
      intro r hra
      by_cases hrq : r = q
      · subst hrq; exact f.active
      · rw [f.frame r hrq]; exact hra
  | cons p ps ih =>
    intro hnd hidle
    obtain ⟨hpn, hnd'⟩ := List.nodup_cons.1 hnd
    obtain ⟨s1, h1, c⟩ := progress_one g hh (hidle p List.mem_cons_self)
    have hidle1 : ∀ r ∈ ps, (s1.pl r).phase = .idle := by
      intro r hr
      have hrp : r ≠ p := by intro h; subst h; exact hpn hr
      have hri := hidle r (List.mem_cons_of_mem _ hr)
      have hrw : s.writer ≠ some r := by
        intro h; exact g.writerBusy r h hri
      rw [c.frame r hrp hrw]; exact hri
    obtain ⟨h2, s2, r2, a2, k2, w2, hh2, st2⟩ := ih c.good c.holding hnd' hidle1
    refine ⟨completion s p ++ h2, s2, by simp only [run_append, h1, Option.bind_some]; exact r2,
      ?_, fun r hra => k2 r (c.keeps r hra), w2, hh2, st2.trans c.store⟩
    intro r hr
    rcases List.mem_cons.1 hr with rfl | hr
    · exact k2 r c.active
    · exact a2 r hr

/-! ### draining: everything in flight can complete and every block can be released -/

structure Drained (s s' : State) : Prop where
  holding : s'.holding = s.holding
  writer : s'.writer = s.writer
  phase : ∀ p, (s'.pl p).phase = (s.pl p).phase
  good : Good s'

/-- every half-done creation can be completed (by the half that is missing) -/
theorem drain_half {s : State} (g : Good s) :
    ∃ h s', run s h = some s' ∧ s'.half = [] ∧ Drained s s' := by
  generalize hn : s.half.length = n
  induction n generalizing s with
  | zero =>
    exact ⟨[], s, rfl, List.eq_nil_of_length_eq_zero hn, rfl, rfl, fun _ => rfl, g⟩
  | succ n ih =>
    match hhalf : s.half with
    | [] => rw [hhalf] at hn; cases hn
    | (b, c) :: rest =>
      have hm : (b, c) ∈ s.half := by rw [hhalf]; exact List.mem_cons_self
      have hb : b ∈ s.holding := g.halfHeld _ hm
      have hlen : (s.half.erase (b, c)).length = n := by
        rw [List.length_erase_of_mem hm, hn]; rfl
      rcases g.halfXor _ hm with ⟨hst, hs⟩ | ⟨hst, hs⟩
      · -- recorded, not yet relayed
        have e : step? s (.relay b c) =
            some { s with sent := c :: s.sent, half := s.half.erase (b, c), pl := deliver s.pl c } := by
          simp only [step?]
          rw [if_pos ⟨hb, hs⟩, if_pos hst, if_pos hm]
        obtain ⟨h, s', hr, hh, d⟩ := ih (good_step g e) hlen
        refine ⟨.relay b c :: h, s', by simp only [run, e]; exact hr, hh, d.holding, d.writer, ?_, d.good⟩
        intro p; rw [d.phase p]; exact deliver_phase _ _ _
      · -- relayed, not yet recorded
        have e : step? s (.record b c) =
            some { s with store := c :: s.store, half := s.half.erase (b, c) } := by
          simp only [step?]
          rw [if_pos ⟨hb, hst⟩, if_pos hs, if_pos hm]
        obtain ⟨h, s', hr, hh, d⟩ := ih (good_step g e) hlen
        exact ⟨.record b c :: h, s', by simp only [run, e]; exact hr, hh, d.holding, d.writer,
          d.phase, d.good⟩

/-- with nothing half done every held block can be released -/
theorem drain_blocks {s : State} (g : Good s) (hh : s.half = []) :
    ∃ h s', run s h = some s' ∧ s'.holding = [] ∧ s'.writer = s.writer ∧
      (∀ p, s'.pl p = s.pl p) ∧ Good s' := by
  generalize hn : s.holding.length = n
  induction n generalizing s with
  | zero => exact ⟨[], s, rfl, List.eq_nil_of_length_eq_zero hn, rfl, fun _ => rfl, g⟩
  | succ n ih =>
    match hhold : s.holding with
    | [] => rw [hhold] at hn; cases hn
    | b :: rest =>
      have e : step? s (.unblock b) = some { s with holding := rest } := by
        have h1 : b ∈ s.holding := by rw [hhold]; exact List.mem_cons_self
        have h2 : ∀ x ∈ s.half, x.1 ≠ b := by
          rw [hh]; intro x hx; cases hx
        simp only [step?]
        rw [if_pos h1, if_pos h2]
        simp [hhold]
      have hlen : rest.length = n := by
        rw [hhold] at hn; simpa using hn
      obtain ⟨h, s', hr, h0, hw, hp, g'⟩ := ih (s := { s with holding := rest }) (good_step g e) hh hlen
      exact ⟨.unblock b :: h, s', by simp only [run, e]; exact hr, h0, hw, hp, g'⟩

/-- **No deadlock.** From ANY state satisfying the invariant — blocks held, creations in
    flight, somebody in the exclusive section — an idle plugin's registration can complete:
    finish what is in flight, release the blocks, let the writer leave, register. -/
theorem no_deadlock {s : State} (g : Good s) {p : Pid} (hp : (s.pl p).phase = .idle) :
    ∃ h s', run s h = some s' ∧ (s'.pl p).phase = .active ∧ s'.writer = none ∧ s'.holding = [] := by
  obtain ⟨h1, s1, r1, hh1, d1⟩ := drain_half g
  obtain ⟨h2, s2, r2, h02, _, hp2, g2⟩ := drain_blocks d1.good hh1
  have hp' : (s2.pl p).phase = .idle := by rw [hp2 p, d1.phase p]; exact hp
  obtain ⟨s3, r3, c⟩ := progress_one g2 h02 hp'
  refine ⟨h1 ++ (h2 ++ completion s2 p), s3, ?_, c.active, c.writer, c.holding⟩
  simp only [run_append, r1, r2, Option.bind_some]
  exact r3

end Nri.Locks
