/-
Lemmas about the conversion model (`NriModel/Convert.lean`). Core Lean only.
-/
import NriModel.Convert

namespace Nri.Convert

/-! ## optional constructors and getters -/

@[simp] theorem optGet_eq {α : Type} (o : Option α) : optGet o = o := by cases o <;> rfl
@[simp] theorem optInt64_pInt64 (p : Option I64) : optInt64 (.pInt64 p) = p := by cases p <;> rfl
@[simp] theorem optInt64_opt (p : Option I64) : optInt64 (.opt p) = p := by cases p <;> rfl
@[simp] theorem optUInt64_pUint64 (p : Option U64) : optUInt64 (.pUint64 p) = p := by cases p <;> rfl
@[simp] theorem optUInt64_opt (p : Option U64) : optUInt64 (.opt p) = p := by cases p <;> rfl
@[simp] theorem optOf_ptr {α : Type} (p : Option α) : optOf (.ptr p) = p := by cases p <;> rfl
@[simp] theorem optOf_opt {α : Type} (p : Option α) : optOf (.opt p) = p := by cases p <;> rfl
@[simp] theorem optFileMode_pMode (p : Option U32) : optFileMode (.pMode p) = p := by cases p <;> rfl
@[simp] theorem optFileMode_opt (p : Option U32) : optFileMode (.opt p) = p := by cases p <;> rfl

/-- `int64(u)` keeps the value exactly when `u < 2^63` -/
theorem U64.toI64_val (u : U64) : u.toI64.val = (u.val : Int) ↔ u.val < 2 ^ 63 := by
  obtain ⟨b⟩ := u
  simp only [U64.toI64, I64.val, U64.val]
  rw [BitVec.toInt_eq_toNat_cond]
  have := b.isLt
  split <;> omega

/-- `uint64(i)` keeps the value exactly when `0 ≤ i` -/
theorem I64.toU64_val (i : I64) : (i.toU64.val : Int) = i.val ↔ 0 ≤ i.val := by
  obtain ⟨b⟩ := i
  simp only [I64.toU64, I64.val, U64.val]
  rw [BitVec.toInt_eq_toNat_cond]
  have := b.isLt
  split <;> omega

/-! ## helpers.go -/

@[simp] theorem dupStringSlice_eq (s : List Str) : dupStringSlice s = s := by
  induction s with
  | nil => rfl
  | cons x xs ih => simp [dupStringSlice, ih]

theorem insert_of_not_mem (m : AList Str Str) (k v : Str) (h : k ∉ AList.keys m) :
    AList.insert m k v = m ++ [(k, v)] := by
  induction m with
  | nil => rfl
  | cons e rest ih =>
    obtain ⟨k', v'⟩ := e
    have hne : k' ≠ k := fun hh => h (by simp [AList.keys, hh])
    have hr : k ∉ AList.keys rest := fun hh => h (by
      simp only [AList.keys, List.map_cons, List.mem_cons] at hh ⊢
      exact Or.inr hh)
    simp [AList.insert, hne, ih hr]

theorem foldl_insert (m acc : AList Str Str) (hwf : (AList.keys (acc ++ m)).Nodup) :
    m.foldl (fun a kv => AList.insert a kv.1 kv.2) acc = acc ++ m := by
  induction m generalizing acc with
  | nil => simp
  | cons e rest ih =>
    obtain ⟨k, v⟩ := e
    have hk : k ∉ AList.keys acc := by
      simp only [AList.keys, List.map_append, List.map_cons] at hwf
      have := (List.nodup_append.mp hwf).2.2
      intro hh
      have := this k (by simpa [AList.keys] using hh) k (by simp)
      exact this rfl
    simp only [List.foldl_cons]
    rw [insert_of_not_mem acc k v hk, ih]
    · simp
    · simpa using hwf

/-- copying a Go map (distinct keys) entry by entry reproduces it -/
theorem dupMap_eq (m : AList Str Str) (hwf : AList.WF m) : dupMap m = m := by
  unfold dupMap
  rw [foldl_insert m [] (show (AList.keys ([] ++ m)).Nodup from hwf)]
  rfl

theorem lookup_eq_some_iff (m : AList Str Str) (hwf : AList.WF m) (k v : Str) :
    AList.lookup m k = some v ↔ (k, v) ∈ m := by
  induction m with
  | nil => simp [AList.lookup]
  | cons e rest ih =>
    obtain ⟨k', v'⟩ := e
    have hwf' : AList.WF rest := by
      unfold AList.WF AList.keys at hwf ⊢
      exact (List.nodup_cons.mp hwf).2
    have hk' : k' ∉ AList.keys rest := by
      unfold AList.WF AList.keys at hwf
      exact (List.nodup_cons.mp hwf).1
    unfold AList.lookup
    by_cases h : k' = k
    · subst h
      simp only [if_true, List.mem_cons, Prod.mk.injEq, true_and]
      constructor
      · intro hh; exact Or.inl (Option.some.inj hh).symm
      · rintro (hh | hh)
        · rw [hh]
        · exact absurd (List.mem_map.mpr ⟨(k', v), hh, rfl⟩) hk'
    · simp only [h, if_false, List.mem_cons, Prod.mk.injEq]
      rw [ih hwf']
      constructor
      · intro hh; exact Or.inr hh
      · rintro (⟨hh, _⟩ | hh)
        · exact absurd hh.symm h
        · exact hh

/-- whatever order `range` yields the entries in, the copy is the same map -/
theorem dupMap_perm (m perm : AList Str Str) (hwf : AList.WF m) (hp : perm.Perm m) (k : Str) :
    AList.lookup (dupMap perm) k = AList.lookup m k := by
  have hwfp : AList.WF perm := by
    unfold AList.WF AList.keys at hwf ⊢
    exact (List.Perm.nodup_iff (List.Perm.map _ hp)).mpr hwf
  rw [dupMap_eq perm hwfp]
  apply Option.ext
  intro v
  rw [lookup_eq_some_iff perm hwfp, lookup_eq_some_iff m hwf]
  exact hp.mem_iff

/-! ## resources.go -/

@[simp] theorem fromOCIMemory_toOCIMemory (m : NriMemory) : fromOCIMemory (toOCIMemory m) = m := by
  cases m; simp [fromOCIMemory, toOCIMemory, optBool]

@[simp] theorem toOCIMemory_fromOCIMemory (m : OciMemory) :
    toOCIMemory (fromOCIMemory m) = { m with checkBeforeUpdate := none } := by
  cases m; simp [fromOCIMemory, toOCIMemory, optBool]

@[simp] theorem fromOCICPU_toOCICPU (c : NriCPU) : fromOCICPU (toOCICPU c) = c := by
  cases c; simp [fromOCICPU, toOCICPU]

@[simp] theorem toOCICPU_fromOCICPU (c : OciCPU) :
    toOCICPU (fromOCICPU c) = { c with burst := none, idle := none } := by
  cases c; simp [fromOCICPU, toOCICPU]

@[simp] theorem fromOCIMemory_empty : fromOCIMemory emptyOciMemory = emptyNriMemory := rfl
@[simp] theorem fromOCICPU_empty : fromOCICPU emptyOciCPU = emptyNriCPU := rfl
@[simp] theorem toOCIMemory_empty : toOCIMemory emptyNriMemory = emptyOciMemory := rfl
@[simp] theorem toOCICPU_empty : toOCICPU emptyNriCPU = emptyOciCPU := rfl

@[simp] theorem fromOCIDevCgroup_eq (d : DevCgroup) : fromOCIDevCgroup d = d := by
  cases d; simp [fromOCIDevCgroup]
@[simp] theorem toOCIDevCgroup_eq (d : DevCgroup) : toOCIDevCgroup d = d := by
  cases d; simp [toOCIDevCgroup]
@[simp] theorem copyMemory_eq (m : NriMemory) : copyMemory m = m := by
  cases m; simp [copyMemory, optBool]
@[simp] theorem copyCPU_eq (c : NriCPU) : copyCPU c = c := by
  cases c; simp [copyCPU]

@[simp] theorem map_hugepage_id (l : List Hugepage) :
    l.map (fun h => ({ pageSize := h.pageSize, limit := h.limit } : Hugepage)) = l := by
  induction l with
  | nil => rfl
  | cons x xs ih => simp [ih]

@[simp] theorem map_pids_id (p : Option Pids) : p.map (fun p => ({ limit := p.limit } : Pids)) = p := by
  cases p <;> rfl

theorem unified_copy (m : AList Str Str) (hwf : AList.WF m) :
    (if m.length ≠ 0 then dupMap m else []) = m := by
  cases m with
  | nil => rfl
  | cons e rest => simp [dupMap_eq _ hwf]

theorem fromOCI_toOCI (r : NriResources) (hwf : AList.WF r.unified) :
    fromOCIResources (toOCIResources (some r)) = some (nriNorm r) := by
  obtain ⟨mem, cpu, hp, bc, rc, uni, dev, pids⟩ := r
  simp only at hwf
  simp only [toOCIResources, toOCIResourcesP, fromOCIResources, fromOCIResourcesP, nriNorm,
    unified_copy uni hwf, Option.map_some, map_hugepage_id, map_pids_id, List.map_map]
  congr 2
  · cases mem <;> simp
  · cases cpu <;> simp
  · induction dev with
    | nil => rfl
    | cons d ds ih => simp [ih]

theorem toOCI_fromOCI (o : OciResources) (hwf : AList.WF o.unified) :
    toOCIResources (fromOCIResources (some o)) = some (ociNorm o) := by
  obtain ⟨dev, mem, cpu, pids, hp, uni, unc⟩ := o
  simp only at hwf
  simp only [toOCIResources, toOCIResourcesP, fromOCIResources, fromOCIResourcesP, ociNorm,
    unified_copy uni hwf, map_hugepage_id, map_pids_id, List.map_map]
  congr 2
  · induction dev with
    | nil => rfl
    | cons d ds ih => simp [ih]
  · cases mem <;> simp
  · cases cpu <;> simp

theorem copy_eq (r : NriResources) (hwf : AList.WF r.unified) :
    copyResources (some r) = some { r with devices := [] } := by
  obtain ⟨mem, cpu, hp, bc, rc, uni, dev, pids⟩ := r
  simp only at hwf
  simp only [copyResources, copyResourcesP, unified_copy uni hwf, map_hugepage_id, map_pids_id, optString,
    optOf_opt]
  congr 2
  · cases mem <;> simp
  · cases cpu <;> simp

theorem ociNorm_carried (o : OciResources) : (ociNorm o).carried = o.carried := by
  obtain ⟨dev, mem, cpu, pids, hp, uni, unc⟩ := o
  cases mem <;> cases cpu <;> rfl

theorem nriNorm_carried (r : NriResources) : (nriNorm r).carried = r.carried := by
  obtain ⟨mem, cpu, hp, bc, rc, uni, dev, pids⟩ := r
  cases mem <;> cases cpu <;> rfl

theorem fromOCI_carried (o : OciResources) (hwf : AList.WF o.unified) :
    ∃ n, fromOCIResources (some o) = some n ∧ n.carried = o.carried := by
  obtain ⟨dev, mem, cpu, pids, hp, uni, unc⟩ := o
  simp only at hwf
  refine ⟨_, rfl, ?_⟩
  simp only [unified_copy uni hwf, NriResources.carried, OciResources.carried,
    map_hugepage_id, map_pids_id]
  have hd : dev.map fromOCIDevCgroup = dev := by
    induction dev with
    | nil => rfl
    | cons d ds ih => simp [ih]
  rw [hd]
  cases mem <;> cases cpu <;>
    simp [fromOCIMemory, fromOCICPU, emptyNriMemory, emptyOciMemory, emptyNriCPU, emptyOciCPU, optBool]

theorem toOCI_carried (r : NriResources) (hwf : AList.WF r.unified) :
    ∃ o, toOCIResources (some r) = some o ∧ o.carried = r.carried := by
  obtain ⟨mem, cpu, hp, bc, rc, uni, dev, pids⟩ := r
  simp only at hwf
  refine ⟨_, rfl, ?_⟩
  simp only [unified_copy uni hwf, NriResources.carried, OciResources.carried,
    map_hugepage_id, map_pids_id]
  have hd : dev.map toOCIDevCgroup = dev := by
    induction dev with
    | nil => rfl
    | cons d ds ih => simp [ih]
  rw [hd]
  cases mem <;> cases cpu <;>
    simp [toOCIMemory, toOCICPU, emptyNriMemory, emptyOciMemory, emptyNriCPU, emptyOciCPU]

/-! ## mount.go -/

theorem mountOptLoop_fst (opts acc : List Str) (q : Option Str) :
    (mountOptLoop opts acc q).1 = acc ++ opts := by
  induction opts generalizing acc q with
  | nil => simp [mountOptLoop]
  | cons o rest ih => simp [mountOptLoop, ih]

/-- the last propagation option in a list, if any -/
def lastPropagation (opts : List Str) : Option Str :=
  opts.foldl (fun a o => if isPropagation o then some o else a) none

theorem mountOptLoop_snd_none (opts acc : List Str) : (mountOptLoop opts acc none).2 = none := by
  induction opts generalizing acc with
  | nil => rfl
  | cons o rest ih => simp [mountOptLoop, ih]

theorem mountOptLoop_snd_some (opts acc : List Str) (init : Str) :
    (mountOptLoop opts acc (some init)).2 =
      some (opts.foldl (fun a o => if isPropagation o then o else a) init) := by
  induction opts generalizing acc init with
  | nil => rfl
  | cons o rest ih =>
    simp only [mountOptLoop, List.foldl_cons]
    by_cases h : isPropagation o = true
    · simp [h, ih]
    · simp [h, ih]

theorem mountToOCI_fst (m : NriMount) (q : Option Str) :
    (mountToOCI m q).1 = { destination := m.destination, type := m.type, source := m.source,
                           options := m.options, idMapped := false } := by
  unfold mountToOCI
  have := mountOptLoop_fst m.options [] q
  simp only [List.nil_append] at this
  cases h : mountOptLoop m.options [] q with
  | mk a b => simp [h] at this ⊢; exact this

/-! ## env.go -/

/-- re-joining what `splitFirstEq` returned, as `ToOCI` does after `FromOCIEnv` -/
def joinKV : Str × Option Str → Str
  | (k, none) => k ++ ['=']
  | (k, some v) => k ++ '=' :: v

theorem kvToOCI_fromOCIEnvEntry (s : Str) : kvToOCI (fromOCIEnvEntry s) = joinKV (splitFirstEq s) := by
  unfold fromOCIEnvEntry
  cases h : splitFirstEq s with
  | mk k v => cases v <;> simp [kvToOCI, joinKV]

theorem joinKV_splitFirstEq (s : Str) :
    joinKV (splitFirstEq s) = if '=' ∈ s then s else s ++ ['='] := by
  induction s with
  | nil => simp [splitFirstEq, joinKV]
  | cons c cs ih =>
    unfold splitFirstEq
    by_cases hc : c = '='
    · subst hc; simp [joinKV]
    · simp only [hc, if_false]
      cases h : splitFirstEq cs with
      | mk k v =>
        rw [h] at ih
        have hne : ¬ ('=' = c) := fun hh => hc hh.symm
        cases v with
        | none =>
          simp only [joinKV] at ih ⊢
          by_cases hm : '=' ∈ cs
          · simp only [hm, if_true] at ih
            simp [hm, ih]
          · simp only [hm, if_false] at ih
            simp [hm, hne, ih]
        | some v =>
          simp only [joinKV] at ih ⊢
          by_cases hm : '=' ∈ cs
          · simp only [hm, if_true] at ih
            simp [hm, ih]
          · simp only [hm, if_false] at ih
            simp [hm, hne, ih]

theorem splitFirstEq_append (k v : Str) (h : '=' ∉ k) : splitFirstEq (k ++ '=' :: v) = (k, some v) := by
  induction k with
  | nil => simp [splitFirstEq]
  | cons c cs ih =>
    have hc : c ≠ '=' := fun hh => h (by simp [hh])
    have hcs : '=' ∉ cs := fun hh => h (by simp [hh])
    simp only [List.cons_append]
    unfold splitFirstEq
    simp [hc, ih hcs]

theorem fromOCIEnvEntry_kvToOCI (kv : KeyValue) (h : '=' ∉ kv.key) : fromOCIEnvEntry (kvToOCI kv) = kv := by
  unfold fromOCIEnvEntry kvToOCI
  rw [splitFirstEq_append _ _ h]

end Nri.Convert
