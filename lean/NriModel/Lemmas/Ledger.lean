/-
Helper lemmas about the ownership ledger of the result.go model: `claim`, `clear`,
`clearAll`, `claimAll`, `claimAllPartial`. Core Lean only.
-/
import NriModel.Result

namespace Nri.Result
open Nri.NApi

theorem owner_clear_self (o : Owners) (c : Cid) (it : Item) : (clear o c it).owner c it = none := by
  unfold clear Owners.owner; exact AList.lookup_erase_self o (c, it)

theorem owner_clear_other (o : Owners) (c c' : Cid) (it it' : Item) (h : (c, it) ≠ (c', it')) :
    (clear o c it).owner c' it' = o.owner c' it' := by
  unfold clear Owners.owner; exact AList.lookup_erase_other o (c, it) (c', it') h

theorem claim_ok_iff (o o' : Owners) (c : Cid) (it : Item) (p : Plugin) :
    claim o c it p = .ok o' ↔ o.owner c it = none ∧ o' = AList.insert o (c, it) p := by
  unfold claim
  cases h : o.owner c it with
  | none => simp; exact eq_comm
  | some q => simp

theorem claim_error_iff (o : Owners) (c : Cid) (it : Item) (p : Plugin) (e : Err) :
    claim o c it p = .error e ↔ ∃ q, o.owner c it = some q ∧ e = .conflict c it p q := by
  unfold claim
  cases h : o.owner c it with
  | none => simp
  | some q => simp; exact eq_comm

theorem owner_insert_self (o : Owners) (c : Cid) (it : Item) (p : Plugin) :
    Owners.owner (AList.insert o (c, it) p) c it = some p := by
  unfold Owners.owner; exact AList.lookup_insert_self o (c, it) p

theorem owner_insert_other (o : Owners) (c c' : Cid) (it it' : Item) (p : Plugin)
    (h : (c, it) ≠ (c', it')) :
    Owners.owner (AList.insert o (c, it) p) c' it' = o.owner c' it' := by
  unfold Owners.owner; exact AList.lookup_insert_other o (c, it) (c', it') p h

/-! ### clearAll -/

theorem owner_clearAll_mem (o : Owners) (c : Cid) (its : List Item) (it : Item) (h : it ∈ its) :
    (clearAll o c its).owner c it = none := by
  induction its generalizing o with
  | nil => cases h
  | cons x rest ih =>
    simp only [clearAll]
    by_cases hx : it ∈ rest
    · exact ih _ hx
    · have : it = x := by
        cases h with
        | head => rfl
        | tail _ h' => exact absurd h' hx
      subst this
      -- cleared now, and no later clear re-adds anything
      clear h hx ih
      suffices ∀ (o : Owners), o.owner c it = none → (clearAll o c rest).owner c it = none from
        this _ (owner_clear_self o c it)
      intro o ho
      induction rest generalizing o with
      | nil => simpa [clearAll] using ho
      | cons y r ih2 =>
        simp only [clearAll]
        apply ih2
        by_cases hy : (c, y) = (c, it)
        · cases hy; exact owner_clear_self o c it
        · rw [owner_clear_other o c c y it hy]; exact ho

theorem owner_clearAll_other (o : Owners) (c c' : Cid) (its : List Item) (it : Item)
    (h : c' ≠ c ∨ it ∉ its) : (clearAll o c its).owner c' it = o.owner c' it := by
  induction its generalizing o with
  | nil => rfl
  | cons x rest ih =>
    simp only [clearAll]
    have h' : c' ≠ c ∨ it ∉ rest := by
      cases h with
      | inl h => exact .inl h
      | inr h => exact .inr (fun hm => h (List.mem_cons_of_mem _ hm))
    rw [ih _ h']
    apply owner_clear_other
    intro heq
    cases heq
    cases h with
    | inl h => exact h rfl
    | inr h => exact h (List.mem_cons_self)

/-- clearing never creates an owner -/
theorem owner_clearAll_some (o : Owners) (c c' : Cid) (its : List Item) (it : Item) (q : Plugin)
    (h : (clearAll o c its).owner c' it = some q) : o.owner c' it = some q := by
  by_cases hm : c' = c ∧ it ∈ its
  · obtain ⟨rfl, hm⟩ := hm
    rw [owner_clearAll_mem o c' its it hm] at h; cases h
  · have : c' ≠ c ∨ it ∉ its := by
      by_cases hc : c' = c
      · exact .inr (fun h' => hm ⟨hc, h'⟩)
      · exact .inl hc
    rwa [owner_clearAll_other o c c' its it this] at h

/-! ### claimAll -/

/-- an item already owned keeps its owner through a successful `claimAll` -/
theorem claimAll_keeps (c : Cid) (p : Plugin) (o o' : Owners) (its : List Item)
    (h : claimAll c p o its = .ok o') (c' : Cid) (it : Item) (q : Plugin)
    (ho : o.owner c' it = some q) : o'.owner c' it = some q := by
  induction its generalizing o with
  | nil => simp [claimAll] at h; subst h; exact ho
  | cons x rest ih =>
    simp only [claimAll] at h
    cases hc : claim o c x p with
    | error e => rw [hc] at h; cases h
    | ok o1 =>
      rw [hc] at h
      obtain ⟨hnone, rfl⟩ := (claim_ok_iff o o1 c x p).1 hc
      apply ih _ h
      have hne : (c, x) ≠ (c', it) := by
        intro heq; cases heq; rw [hnone] at ho; cases ho
      rw [owner_insert_other o c c' x it p hne]; exact ho

/-- every claimed item is owned by the claimant afterwards -/
theorem claimAll_owns (c : Cid) (p : Plugin) (o o' : Owners) (its : List Item)
    (h : claimAll c p o its = .ok o') (it : Item) (hm : it ∈ its) : o'.owner c it = some p := by
  induction its generalizing o with
  | nil => cases hm
  | cons x rest ih =>
    simp only [claimAll] at h
    cases hc : claim o c x p with
    | error e => rw [hc] at h; cases h
    | ok o1 =>
      rw [hc] at h
      obtain ⟨_, rfl⟩ := (claim_ok_iff o o1 c x p).1 hc
      cases hm with
      | head => exact claimAll_keeps c p _ o' rest h c it p (owner_insert_self o c it p)
      | tail _ hm' => exact ih _ h hm'

/-- claiming an item that has an owner fails -/
theorem claimAll_fails_of_owned (c : Cid) (p : Plugin) (o : Owners) (its : List Item) (it : Item)
    (q : Plugin) (ho : o.owner c it = some q) (hm : it ∈ its) : ∃ e, claimAll c p o its = .error e := by
  induction its generalizing o with
  | nil => cases hm
  | cons x rest ih =>
    simp only [claimAll]
    cases hc : claim o c x p with
    | error e => exact ⟨e, rfl⟩
    | ok o1 =>
      obtain ⟨hnone, rfl⟩ := (claim_ok_iff o o1 c x p).1 hc
      cases hm with
      | head => rw [hnone] at ho; cases ho
      | tail _ hm' =>
        apply ih _ _ hm'
        have hne : (c, x) ≠ (c, it) := by
          intro heq; cases heq; rw [hnone] at ho; cases ho
        rw [owner_insert_other o c c x it p hne]; exact ho

/-- where the owners after a successful `claimAll` come from -/
theorem claimAll_owner_inv (c : Cid) (p : Plugin) (o o' : Owners) (its : List Item)
    (h : claimAll c p o its = .ok o') (c' : Cid) (it : Item) (q : Plugin)
    (ho : o'.owner c' it = some q) : o.owner c' it = some q ∨ (c' = c ∧ it ∈ its ∧ q = p) := by
  induction its generalizing o with
  | nil => simp [claimAll] at h; subst h; exact .inl ho
  | cons x rest ih =>
    simp only [claimAll] at h
    cases hc : claim o c x p with
    | error e => rw [hc] at h; cases h
    | ok o1 =>
      rw [hc] at h
      obtain ⟨_, rfl⟩ := (claim_ok_iff o o1 c x p).1 hc
      cases ih _ h with
      | inl h1 =>
        by_cases heq : (c, x) = (c', it)
        · cases heq
          rw [owner_insert_self] at h1
          exact .inr ⟨rfl, List.mem_cons_self, (Option.some.inj h1).symm⟩
        · rw [owner_insert_other o c c' x it p heq] at h1; exact .inl h1
      | inr h2 => exact .inr ⟨h2.1, List.mem_cons_of_mem _ h2.2.1, h2.2.2⟩

/-- a failing `claimAll` names an item of the list that was owned at that moment -/
theorem claimAll_error_inv (c : Cid) (p : Plugin) (o : Owners) (its : List Item) (e : Err)
    (h : claimAll c p o its = .error e) :
    ∃ it q, it ∈ its ∧ e = .conflict c it p q ∧
      (o.owner c it = some q ∨ (q = p ∧ 2 ≤ its.count it)) := by
  induction its generalizing o with
  | nil => simp [claimAll] at h
  | cons x rest ih =>
    simp only [claimAll] at h
    cases hc : claim o c x p with
    | error e' =>
      rw [hc] at h; cases h
      obtain ⟨q, hq, rfl⟩ := (claim_error_iff o c x p e).1 hc
      exact ⟨x, q, List.mem_cons_self, rfl, .inl hq⟩
    | ok o1 =>
      rw [hc] at h
      obtain ⟨hnone, rfl⟩ := (claim_ok_iff o o1 c x p).1 hc
      obtain ⟨it, q, hm, he, hw⟩ := ih _ h
      refine ⟨it, q, List.mem_cons_of_mem _ hm, he, ?_⟩
      cases hw with
      | inl h1 =>
        by_cases heq : x = it
        · subst heq
          rw [owner_insert_self] at h1
          refine .inr ⟨(Option.some.inj h1).symm, ?_⟩
          have : 1 ≤ rest.count x := List.count_pos_iff.2 hm
          simp [List.count_cons]; omega
        · have hne : (c, x) ≠ (c, it) := by intro h'; cases h'; exact heq rfl
          rw [owner_insert_other o c c x it p hne] at h1; exact .inl h1
      | inr h2 =>
        refine .inr ⟨h2.1, ?_⟩
        have := h2.2
        simp [List.count_cons]; omega

/-- `claimAll` succeeds exactly when no item is owned and no item is named twice -/
theorem claimAll_ok_of (c : Cid) (p : Plugin) (o : Owners) (its : List Item)
    (hfree : ∀ it ∈ its, o.owner c it = none) (hnd : its.Nodup) : ∃ o', claimAll c p o its = .ok o' := by
  induction its generalizing o with
  | nil => exact ⟨o, rfl⟩
  | cons x rest ih =>
    simp only [claimAll]
    have hx := hfree x List.mem_cons_self
    have : claim o c x p = .ok (AList.insert o (c, x) p) := (claim_ok_iff _ _ _ _ _).2 ⟨hx, rfl⟩
    rw [this]
    apply ih
    · intro it hm
      have hne : (c, x) ≠ (c, it) := by
        intro h'; cases h'
        exact (List.nodup_cons.1 hnd).1 hm
      rw [owner_insert_other o c c x it p hne]
      exact hfree it (List.mem_cons_of_mem _ hm)
    · exact (List.nodup_cons.1 hnd).2

/-! ### claimAllPartial -/

theorem claimAllPartial_keeps (c : Cid) (p : Plugin) (o : Owners) (its : List Item)
    (c' : Cid) (it : Item) (q : Plugin) (ho : o.owner c' it = some q) :
    (claimAllPartial c p o its).1.owner c' it = some q := by
  induction its generalizing o with
  | nil => exact ho
  | cons x rest ih =>
    simp only [claimAllPartial]
    cases hc : claim o c x p with
    | error e => exact ho
    | ok o1 =>
      obtain ⟨hnone, rfl⟩ := (claim_ok_iff o o1 c x p).1 hc
      apply ih
      have hne : (c, x) ≠ (c', it) := by
        intro heq; cases heq; rw [hnone] at ho; cases ho
      rw [owner_insert_other o c c' x it p hne]; exact ho

/-- the partial run reports no error exactly when the total one succeeds, with the same ledger -/
theorem claimAllPartial_none_iff (c : Cid) (p : Plugin) (o o' : Owners) (its : List Item) :
    claimAllPartial c p o its = (o', none) ↔ claimAll c p o its = .ok o' := by
  induction its generalizing o with
  | nil => simp [claimAllPartial, claimAll]
  | cons x rest ih =>
    simp only [claimAllPartial, claimAll]
    cases hc : claim o c x p with
    | error e => simp
    | ok o1 => exact ih o1

theorem claimAllPartial_some_iff (c : Cid) (p : Plugin) (o : Owners) (its : List Item) (e : Err) :
    (claimAllPartial c p o its).2 = some e ↔ claimAll c p o its = .error e := by
  induction its generalizing o with
  | nil => simp [claimAllPartial, claimAll]
  | cons x rest ih =>
    simp only [claimAllPartial, claimAll]
    cases hc : claim o c x p with
    | error e' => simp
    | ok o1 => exact ih o1

theorem claimAllPartial_owner_inv (c : Cid) (p : Plugin) (o : Owners) (its : List Item)
    (c' : Cid) (it : Item) (q : Plugin)
    (ho : (claimAllPartial c p o its).1.owner c' it = some q) :
    o.owner c' it = some q ∨ (c' = c ∧ it ∈ its ∧ q = p) := by
  induction its generalizing o with
  | nil => exact .inl ho
  | cons x rest ih =>
    simp only [claimAllPartial] at ho
    cases hc : claim o c x p with
    | error e => rw [hc] at ho; exact .inl ho
    | ok o1 =>
      rw [hc] at ho
      obtain ⟨_, rfl⟩ := (claim_ok_iff o o1 c x p).1 hc
      cases ih _ ho with
      | inl h1 =>
        by_cases heq : (c, x) = (c', it)
        · cases heq
          rw [owner_insert_self] at h1
          exact .inr ⟨rfl, List.mem_cons_self, (Option.some.inj h1).symm⟩
        · rw [owner_insert_other o c c' x it p heq] at h1; exact .inl h1
      | inr h2 => exact .inr ⟨h2.1, List.mem_cons_of_mem _ h2.2.1, h2.2.2⟩

end Nri.Result
