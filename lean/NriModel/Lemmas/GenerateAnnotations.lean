/-
Association-list folds: what `lookup` returns after a fold of `insert`s / `erase`s, and why
the result does not depend on the order of the entries when their keys are distinct.
Used for annotations, for the unified map and for the `mod` map of `AdjustEnv`.
Core Lean only.
-/
import NriModel.Lemmas.GenerateKeyed

namespace Nri.Generate
open Nri.Api

section Folds
variable {ε ν : Type}

/-- `lookup` after a fold of guarded inserts: the value of the LAST inserting entry for `k`. -/
theorem lookup_foldl_insert (p : ε → Bool) (f : ε → Str) (g : ε → ν) (L : List ε)
    (m : AList Str ν) (k : Str) :
    AList.lookup (L.foldl (fun m e => if p e then AList.insert m (f e) (g e) else m) m) k =
      pick (lastMatch (fun e => p e && f e == k) L) g (AList.lookup m k) := by
  induction L generalizing m with
  | nil => simp [lastMatch]
  | cons e r ih =>
    simp only [List.foldl_cons, lastMatch]
    rw [ih]
    cases lastMatch (fun e => p e && f e == k) r with
    | some x => simp
    | none =>
      simp only
      by_cases hp : p e = true
      · simp only [hp, if_true, Bool.true_and]
        by_cases hk : f e = k
        · subst hk; simp [AList.lookup_insert_self]
        · have : (f e == k) = false := by simpa using hk
          simp [this, AList.lookup_insert_other _ _ _ _ hk]
      · simp [hp]

/-- `lookup` after a fold of guarded erases. -/
theorem lookup_foldl_erase (p : ε → Bool) (f : ε → Str) (L : List ε) (m : AList Str ν) (k : Str) :
    AList.lookup (L.foldl (fun m e => if p e then AList.erase m (f e) else m) m) k =
      if L.any (fun e => p e && f e == k) then none else AList.lookup m k := by
  induction L generalizing m with
  | nil => simp
  | cons e r ih =>
    simp only [List.foldl_cons, List.any_cons]
    rw [ih]
    by_cases hp : p e = true
    · simp only [hp, if_true, Bool.true_and]
      by_cases hk : f e = k
      · subst hk; simp [AList.lookup_erase_self]
      · have : (f e == k) = false := by simpa using hk
        simp [this, AList.lookup_erase_other _ _ _ hk]
    · simp [hp]

/-- If at most one entry can satisfy `q`, `lastMatch q` is invariant under permutation. -/
theorem lastMatch_perm {q : ε → Bool} {L π : List ε} (hp : π.Perm L)
    (huniq : ∀ x ∈ L, ∀ y ∈ L, q x = true → q y = true → x = y) :
    lastMatch q π = lastMatch q L := by
  cases h : lastMatch q L with
  | none =>
    rw [lastMatch_none_iff] at h ⊢
    intro e he; exact h e (hp.mem_iff.mp he)
  | some e =>
    obtain ⟨heL, hqe⟩ := lastMatch_some h
    cases h2 : lastMatch q π with
    | none =>
      rw [lastMatch_none_iff] at h2
      have := h2 e (hp.mem_iff.mpr heL)
      rw [hqe] at this; cases this
    | some e' =>
      obtain ⟨he', hqe'⟩ := lastMatch_some h2
      rw [huniq e' (hp.mem_iff.mp he') e heL hqe' hqe]

theorem any_perm {q : ε → Bool} {L π : List ε} (hp : π.Perm L) : π.any q = L.any q := by
  rw [Bool.eq_iff_iff, List.any_eq_true, List.any_eq_true]
  constructor
  · rintro ⟨x, hx, hq⟩; exact ⟨x, hp.mem_iff.mp hx, hq⟩
  · rintro ⟨x, hx, hq⟩; exact ⟨x, hp.mem_iff.mpr hx, hq⟩

/-- Distinct keys: two entries with the same key are the same entry. -/
theorem eq_of_key_eq {κ : Type} (f : ε → κ) {L : List ε} (hn : (L.map f).Nodup) {x y : ε}
    (hx : x ∈ L) (hy : y ∈ L) (h : f x = f y) : x = y := by
  induction L with
  | nil => simp at hx
  | cons a r ih =>
    simp only [List.map_cons, List.nodup_cons] at hn
    rcases List.mem_cons.mp hx with hx | hx <;> rcases List.mem_cons.mp hy with hy | hy
    · rw [hx, hy]
    · exfalso; apply hn.1; rw [← hx, h]; exact List.mem_map.mpr ⟨y, hy, rfl⟩
    · exfalso; apply hn.1; rw [← hy, ← h]; exact List.mem_map.mpr ⟨x, hx, rfl⟩
    · exact ih hn.2 hx hy

end Folds

namespace Annotations

/-- the entry removes key `k` -/
def removes (k : Str) (e : Str × Str) : Bool := isMarked e.1 && stripMarker e.1 == k
/-- the entry sets key `k` -/
def setsKey (k : Str) (e : Str × Str) : Bool := !isMarked e.1 && e.1 == k

theorem lookup_removals (ann : AList Str Str) (E : List (Str × Str)) (k : Str) :
    AList.lookup (removals ann E) k = if E.any (removes k) then none else AList.lookup ann k := by
  unfold removals
  exact lookup_foldl_erase (fun e => isMarked e.1) (fun e => stripMarker e.1) E ann k

theorem lookup_sets (ann : AList Str Str) (E : List (Str × Str)) (k : Str) :
    AList.lookup (sets ann E) k =
      pick (lastMatch (setsKey k) E) (·.2) (AList.lookup ann k) := by
  unfold sets setsKey
  have hf : (fun (m : AList Str Str) (e : Str × Str) =>
      if isMarked e.1 = true then m else AList.insert m e.1 e.2) =
      (fun m e => if (!isMarked e.1) = true then AList.insert m e.1 e.2 else m) := by
    funext m e; cases isMarked e.1 <;> simp
  rw [hf]
  exact lookup_foldl_insert (fun e : Str × Str => !isMarked e.1) (fun e => e.1) (fun e => e.2) E ann k

/-- What the repaired `AdjustAnnotations` leaves under every key. -/
theorem lookup_apply (ann : AList Str Str) (E : List (Str × Str)) (k : Str) :
    AList.lookup (apply ann E) k =
      pick (lastMatch (setsKey k) E) (·.2)
        (if E.any (removes k) then none else AList.lookup ann k) := by
  unfold apply
  rw [lookup_sets, lookup_removals]

/-- Order independence (distinct keys, as in a Go map). -/
theorem lookup_apply_perm (ann : AList Str Str) {E π : List (Str × Str)} (hp : π.Perm E)
    (hn : (E.map (·.1)).Nodup) (k : Str) :
    AList.lookup (apply ann π) k = AList.lookup (apply ann E) k := by
  rw [lookup_apply, lookup_apply, any_perm hp]
  rw [lastMatch_perm hp]
  intro x hx y hy qx qy
  apply eq_of_key_eq (·.1) hn hx hy
  simp only [setsKey, Bool.and_eq_true, beq_iff_eq] at qx qy
  rw [qx.2, qy.2]

/-! ### two independent iteration orders (the two `range` loops of `AdjustAnnotations`) -/

/-- the single order that reproduces the pair `(π1, π2)`: removals as `π1` yields them, then
    sets as `π2` yields them -/
def mergeOrders (π1 π2 : List (Str × Str)) : List (Str × Str) :=
  π1.filter (fun e => isMarked e.1) ++ π2.filter (fun e => !isMarked e.1)

theorem removals_filter_marked (ann : AList Str Str) (π : List (Str × Str)) :
    removals ann (π.filter (fun e => isMarked e.1)) = removals ann π := by
  unfold removals
  induction π generalizing ann with
  | nil => rfl
  | cons e r ih =>
    cases hm : isMarked e.1
    · simp only [List.filter_cons, hm, Bool.false_eq_true, if_false, List.foldl_cons]; exact ih ann
    · simp only [List.filter_cons, hm, if_true, List.foldl_cons]; exact ih _

theorem removals_filter_unmarked (ann : AList Str Str) (π : List (Str × Str)) :
    removals ann (π.filter (fun e => !isMarked e.1)) = ann := by
  unfold removals
  induction π generalizing ann with
  | nil => rfl
  | cons e r ih =>
    cases hm : isMarked e.1
    · simp only [List.filter_cons, hm, Bool.not_false, if_true, List.foldl_cons, Bool.false_eq_true,
        if_false]; exact ih ann
    · simp only [List.filter_cons, hm, Bool.not_true, Bool.false_eq_true, if_false]; exact ih ann

theorem sets_filter_unmarked (ann : AList Str Str) (π : List (Str × Str)) :
    sets ann (π.filter (fun e => !isMarked e.1)) = sets ann π := by
  unfold sets
  induction π generalizing ann with
  | nil => rfl
  | cons e r ih =>
    cases hm : isMarked e.1
    · simp only [List.filter_cons, hm, Bool.not_false, if_true, List.foldl_cons, Bool.false_eq_true,
        if_false]; exact ih _
    · simp only [List.filter_cons, hm, Bool.not_true, Bool.false_eq_true, if_false, List.foldl_cons,
        if_true]; exact ih ann

theorem sets_filter_marked (ann : AList Str Str) (π : List (Str × Str)) :
    sets ann (π.filter (fun e => isMarked e.1)) = ann := by
  unfold sets
  induction π generalizing ann with
  | nil => rfl
  | cons e r ih =>
    cases hm : isMarked e.1
    · simp only [List.filter_cons, hm, Bool.false_eq_true, if_false]; exact ih ann
    · simp only [List.filter_cons, hm, if_true, List.foldl_cons]; exact ih ann

/-- Two loops with orders `π1`, `π2` compute EXACTLY (as lists) what both loops compute on the
    merged order. -/
theorem applyOrders_eq_apply (ann : AList Str Str) (π1 π2 : List (Str × Str)) :
    applyOrders ann π1 π2 = apply ann (mergeOrders π1 π2) := by
  unfold applyOrders apply mergeOrders
  have hr : removals ann (π1.filter (fun e => isMarked e.1) ++ π2.filter (fun e => !isMarked e.1))
      = removals ann π1 := by
    have : ∀ A B, removals ann (A ++ B) = removals (removals ann A) B := by
      intro A B; unfold removals; rw [List.foldl_append]
    rw [this, removals_filter_marked, removals_filter_unmarked]
  have hs : ∀ m, sets m (π1.filter (fun e => isMarked e.1) ++ π2.filter (fun e => !isMarked e.1))
      = sets m π2 := by
    intro m
    have : ∀ A B, sets m (A ++ B) = sets (sets m A) B := by
      intro A B; unfold sets; rw [List.foldl_append]
    rw [this, sets_filter_marked, sets_filter_unmarked]
  rw [hr, hs]

theorem mergeOrders_perm {E π1 π2 : List (Str × Str)} (h1 : π1.Perm E) (h2 : π2.Perm E) :
    (mergeOrders π1 π2).Perm E := by
  unfold mergeOrders
  refine ((h1.filter _).append (h2.filter _)).trans ?_
  exact List.filter_append_perm (fun e => isMarked e.1) E

/-- Order independence for two INDEPENDENT iteration orders of the same map. -/
theorem lookup_applyOrders (ann : AList Str Str) {E π1 π2 : List (Str × Str)} (h1 : π1.Perm E)
    (h2 : π2.Perm E) (hn : (E.map (·.1)).Nodup) (k : Str) :
    AList.lookup (applyOrders ann π1 π2) k = AList.lookup (apply ann E) k := by
  rw [applyOrders_eq_apply]
  exact lookup_apply_perm ann (mergeOrders_perm h1 h2) hn k

end Annotations

namespace Resources

theorem lookup_applyUnified (u : AList Str Str) (E : List (Str × Str)) (k : Str) :
    AList.lookup (applyUnified u E) k =
      pick (lastMatch (fun e : Str × Str => e.1 == k) E) (·.2) (AList.lookup u k) := by
  unfold applyUnified
  have := lookup_foldl_insert (fun _ : Str × Str => true) (fun e => e.1) (fun e => e.2) E u k
  simp only [if_true, Bool.true_and] at this
  exact this

theorem lookup_applyUnified_perm (u : AList Str Str) {E π : List (Str × Str)} (hp : π.Perm E)
    (hn : (E.map (·.1)).Nodup) (k : Str) :
    AList.lookup (applyUnified u π) k = AList.lookup (applyUnified u E) k := by
  rw [lookup_applyUnified, lookup_applyUnified, lastMatch_perm hp]
  intro x hx y hy qx qy
  apply eq_of_key_eq (·.1) hn hx hy
  simp only [beq_iff_eq] at qx qy
  rw [qx, qy]

end Resources
end Nri.Generate
