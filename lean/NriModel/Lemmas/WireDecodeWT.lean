/-
The decoder of the wire model only ever returns well-typed values (C12): whatever bytes
it is given, every scalar it stores is in the range of its Go type, every string is valid
UTF-8, every map has distinct keys, every message has the shape its schema says.
-/
import NriModel.Lemmas.WireBytes
import NriModel.Lemmas.WireOrder

namespace Nri.Wire

theorem AllLt.of_cons {b : Nat} {bs : Bytes} (h : AllLt (b :: bs)) : AllLt bs :=
  fun x hx => h x (by simp [hx])

theorem AllLt.take {bs : Bytes} (h : AllLt bs) (n : Nat) : AllLt (bs.take n) :=
  fun x hx => h x (List.mem_of_mem_take hx)

theorem AllLt.drop {bs : Bytes} (h : AllLt bs) (n : Nat) : AllLt (bs.drop n) :=
  fun x hx => h x (List.mem_of_mem_drop hx)

theorem decVarintAux_rest (f : Nat) : ∀ (bs : Bytes) (v : Nat) (r : Bytes),
    AllLt bs → decVarintAux f bs = some (v, r) → AllLt r := by
  induction f with
  | zero =>
    intro bs v r hb h
    cases bs with
    | nil => simp [decVarintAux] at h
    | cons b t =>
      simp only [decVarintAux] at h
      split at h
      · simp at h; rw [← h.2]; exact hb.of_cons
      · simp at h
  | succ f ih =>
    intro bs v r hb h
    cases bs with
    | nil => simp [decVarintAux] at h
    | cons b t =>
      simp only [decVarintAux] at h
      split at h
      · simp at h; rw [← h.2]; exact hb.of_cons
      · split at h
        · rename_i v' r' hrec
          simp at h
          rw [← h.2]
          exact ih t v' r' hb.of_cons hrec
        · simp at h

theorem decodeVarint_rest (bs : Bytes) (v : Nat) (r : Bytes) (hb : AllLt bs)
    (h : decodeVarint bs = some (v, r)) : AllLt r := decVarintAux_rest 9 bs v r hb h

/-- what a well-formed record carries -/
def Item.ok : Item → Prop
  | .varint x => x < 2 ^ 64
  | .len p => AllLt p
  | .fixed _ => True

theorem parseField_ok (bs : Bytes) (hb : AllLt bs) (num : Nat) (it : Item) (rest : Bytes)
    (h : parseField bs = some (num, it, rest)) : it.ok ∧ AllLt rest := by
  unfold parseField at h
  split at h
  · simp at h
  · rename_i t r hd
    have hr := decodeVarint_rest bs t r hb hd
    split at h
    · simp at h
    · split at h
      · split at h
        · rename_i x r' hd2
          simp at h
          obtain ⟨-, rfl, rfl⟩ := h
          exact ⟨decodeVarint_lt r x r' hr hd2, decodeVarint_rest r x r' hr hd2⟩
        · simp at h
      · split at h
        · split at h
          · rename_i n r' hd2
            split at h
            · simp at h
              obtain ⟨-, rfl, rfl⟩ := h
              have hr' := decodeVarint_rest r n r' hr hd2
              exact ⟨hr'.take n, hr'.drop n⟩
            · simp at h
          · simp at h
        · split at h
          · split at h
            · simp at h
              obtain ⟨-, rfl, rfl⟩ := h
              exact ⟨trivial, hr.drop 8⟩
            · simp at h
          · split at h
            · split at h
              · simp at h
                obtain ⟨-, rfl, rfl⟩ := h
                exact ⟨trivial, hr.drop 4⟩
              · simp at h
            · simp at h

theorem okStr_nil : okStr [] = true := by simp [okStr, validUtf8]

theorem decEntry_ok : ∀ (fuel : Nat) (k0 v0 bs k v : Bytes), okStr k0 = true → okStr v0 = true →
    decEntry fuel k0 v0 bs = some (k, v) → okStr k = true ∧ okStr v = true := by
  intro fuel
  induction fuel with
  | zero =>
    intro k0 v0 bs k v hk hv h
    cases bs with
    | nil => simp [decEntry] at h; obtain ⟨rfl, rfl⟩ := h; exact ⟨hk, hv⟩
    | cons b t => simp [decEntry] at h
  | succ fuel ih =>
    intro k0 v0 bs k v hk hv h
    cases bs with
    | nil => simp [decEntry] at h; obtain ⟨rfl, rfl⟩ := h; exact ⟨hk, hv⟩
    | cons b t =>
      simp only [decEntry] at h
      split at h
      · rename_i num p rest _
        split at h
        · split at h
          · rename_i hp; exact ih _ _ _ _ _ hp hv h
          · simp at h
        · split at h
          · split at h
            · rename_i hp; exact ih _ _ _ _ _ hk hp h
            · simp at h
          · exact ih _ _ _ _ _ hk hv h
      · split at h
        · simp at h
        · exact ih _ _ _ _ _ hk hv h
      · simp at h

/-- a Go map assignment keeps the entries legal and the keys distinct -/
theorem insert_wt (l : List (Bytes × Bytes)) (k v : Bytes) (hk : okStr k = true) (hv : okStr v = true)
    (hall : l.all okEntry = true) (hnd : (l.map (·.1)).Nodup) :
    (AList.insert l k v).all okEntry = true ∧ ((AList.insert l k v).map (·.1)).Nodup := by
  induction l with
  | nil => simp [AList.insert, okEntry, hk, hv]
  | cons e r ih =>
    obtain ⟨k', v'⟩ := e
    simp only [List.all_cons, Bool.and_eq_true] at hall
    simp only [List.map_cons, List.nodup_cons] at hnd
    by_cases h : k' = k
    · subst h
      simp only [AList.insert, if_true, List.all_cons, Bool.and_eq_true, List.map_cons, List.nodup_cons]
      exact ⟨⟨by simp [okEntry, hk, hv], hall.2⟩, hnd⟩
    · have ih' := ih hall.2 hnd.2
      simp only [AList.insert, h, if_false, List.all_cons, Bool.and_eq_true, List.map_cons,
        List.nodup_cons]
      refine ⟨⟨hall.1, ih'.1⟩, ?_, ih'.2⟩
      -- k' is not among the keys after the insertion: they are the old keys plus k
      intro hm
      have hkeys : ∀ (l : List (Bytes × Bytes)) (x : Bytes),
          x ∈ (AList.insert l k v).map (·.1) → x = k ∨ x ∈ l.map (·.1) := by
        intro l
        induction l with
        | nil => intro x hx; simp [AList.insert] at hx; exact Or.inl hx
        | cons e r ih2 =>
          obtain ⟨k2, v2⟩ := e
          intro x hx
          by_cases h2 : k2 = k
          · simp only [AList.insert, h2, if_true, List.map_cons, List.mem_cons] at hx ⊢
            rcases hx with hx | hx
            · exact Or.inl hx
            · exact Or.inr (Or.inr hx)
          · simp only [AList.insert, h2, if_false, List.map_cons, List.mem_cons] at hx
            rcases hx with hx | hx
            · exact Or.inr (by simp [hx])
            · rcases ih2 x hx with h3 | h3
              · exact Or.inl h3
              · exact Or.inr (by simp only [List.map_cons, List.mem_cons]; exact Or.inr h3)
      rcases hkeys r k' hm with h3 | h3
      · exact h h3
      · exact hnd.1 h3

theorem wtList_append (S : Schema) (m : Nat) : ∀ (l : List Val) (fs : List Val),
    wtList S m l = true → wtFields S (S.fieldsOf m) fs = true → wtList S m (l ++ [.msg fs]) = true := by
  intro l
  induction l with
  | nil => intro fs _ h; simp [wtList, h]
  | cons v l ih =>
    intro fs hl h
    cases v with
    | msg fs' =>
      simp only [wtList, Bool.and_eq_true] at hl
      simp [wtList, hl.1, ih fs hl.2 h]
    | _ => simp [wtList] at hl

theorem wtFields_get (S : Schema) : ∀ (fs : List Field) (vs : List Val) (i : Nat) (f : Field) (x : Val),
    wtFields S fs vs = true → fs[i]? = some f → vs[i]? = some x → wtVal S f.ty x = true := by
  intro fs vs i f x hwt hf hx
  have hz : (f, x) ∈ fs.zip vs := by
    rw [List.mem_iff_getElem?]
    exact ⟨i, by rw [List.getElem?_zip_eq_some]; exact ⟨hf, hx⟩⟩
  exact wtFields_zip S fs vs hwt _ hz

/-- one record keeps the message under construction well-typed -/
theorem applyItem_wt (S : Schema) (hS : S.WF = true)
    (rec : Nat → List Val → Bytes → Option (List Val))
    (hrec : ∀ m acc p out, AllLt p → wtFields S (S.fieldsOf m) acc = true →
      rec m acc p = some out → wtFields S (S.fieldsOf m) out = true)
    (m : Nat) (acc : List Val) (hacc : wtFields S (S.fieldsOf m) acc = true)
    (num : Nat) (it : Item) (hit : it.ok) (acc' : List Val)
    (h : applyItem S rec (S.fieldsOf m) acc num it = some acc') :
    wtFields S (S.fieldsOf m) acc' = true := by
  unfold applyItem at h
  cases hf : findField (S.fieldsOf m) num with
  | none => simp only [hf] at h; simp at h; rw [← h]; exact hacc
  | some x =>
    obtain ⟨i, f⟩ := x
    have hfi := (findField_spec _ _ _ _ hf).1
    simp only [hf] at h
    cases hty : f.ty <;> cases it <;> simp only [hty] at h <;> try (simp at h)
    · -- scalar
      rename_i k x
      rw [← h]
      exact wtFields_set S _ acc i f _ hacc hfi (by
        simp only [hty, wtVal]; exact ofU64_inRange k x hit)
    · -- string
      rename_i p
      obtain ⟨hp, rfl⟩ := h
      exact wtFields_set S _ acc i f _ hacc hfi (by simp only [hty, wtVal]; exact hp)
    · -- singular message
      rename_i m' p
      split at h
      · rename_i fs hr
        simp at h
        rw [← h]
        have hcur : wtFields S (S.fieldsOf m') (curMsg S m' acc[i]?) = true := by
          unfold curMsg
          split
          · rename_i fs0 hv0
            have := wtFields_get S _ acc i f _ hacc hfi hv0
            simpa [hty, wtVal] using this
          · exact wellTyped_emptyMsg S hS m'
        exact wtFields_set S _ acc i f _ hacc hfi (by
          simp only [hty, wtVal]; exact hrec m' _ p fs hit hcur hr)
      · simp at h
    · -- repeated string
      rename_i p
      obtain ⟨hp, h⟩ := h
      split at h
      · rename_i l hv0
        simp at h
        rw [← h]
        have := wtFields_get S _ acc i f _ hacc hfi hv0
        simp only [hty, wtVal] at this
        exact wtFields_set S _ acc i f _ hacc hfi (by
          simp only [hty, wtVal, List.all_append, this, Bool.true_and]; simp [hp])
      · simp at h
    · -- repeated message
      rename_i m' p
      split at h
      · rename_i fs hr
        split at h
        · rename_i l hv0
          simp at h
          rw [← h]
          have := wtFields_get S _ acc i f _ hacc hfi hv0
          simp only [hty, wtVal] at this
          exact wtFields_set S _ acc i f _ hacc hfi (by
            simp only [hty, wtVal]
            exact wtList_append S m' l fs this
              (hrec m' _ p fs hit (wellTyped_emptyMsg S hS m') hr))
        · simp at h
      · simp at h
    · -- map
      rename_i p
      split at h
      · rename_i k v he
        split at h
        · rename_i l hv0
          simp at h
          rw [← h]
          have := wtFields_get S _ acc i f _ hacc hfi hv0
          simp only [hty, wtVal, Bool.and_eq_true, decide_eq_true_eq] at this
          have hkv := decEntry_ok _ [] [] p k v okStr_nil okStr_nil he
          have hi := insert_wt l k v hkv.1 hkv.2 this.1 this.2
          exact wtFields_set S _ acc i f _ hacc hfi (by
            simp only [hty, wtVal, Bool.and_eq_true, decide_eq_true_eq]; exact hi)
        · simp at h
      · simp at h

theorem decMsg_wt (S : Schema) (hS : S.WF = true) : ∀ (fuel m : Nat) (acc : List Val) (bs : Bytes)
    (out : List Val), AllLt bs → wtFields S (S.fieldsOf m) acc = true →
    decMsg S fuel m acc bs = some out → wtFields S (S.fieldsOf m) out = true := by
  intro fuel
  induction fuel with
  | zero =>
    intro m acc bs out _ hacc h
    cases bs with
    | nil => simp [decMsg] at h; rw [← h]; exact hacc
    | cons b t => simp [decMsg] at h
  | succ fuel ih =>
    intro m acc bs out hb hacc h
    cases bs with
    | nil => simp [decMsg] at h; rw [← h]; exact hacc
    | cons b t =>
      cases hp : parseField (b :: t) with
      | none => simp [decMsg, hp] at h
      | some x =>
        obtain ⟨num, it, rest⟩ := x
        rw [decMsg_step S fuel m acc _ rest num it hp] at h
        have hok := parseField_ok _ hb num it rest hp
        cases ha : applyItem S (decMsg S fuel) (S.fieldsOf m) acc num it with
        | none => simp [ha] at h
        | some acc' =>
          simp only [ha] at h
          exact ih m acc' rest out hok.2
            (applyItem_wt S hS (decMsg S fuel) (fun m acc p out => ih m acc p out) m acc hacc num it
              hok.1 acc' ha) h

/-- the decoder returns well-typed values only -/
theorem decode_wt (S : Schema) (hS : S.WF = true) (m : Nat) (bs : Bytes) (v : List Val)
    (hb : ∀ b ∈ bs, b < 256) (h : decode S m bs = some v) : WellTyped S m v = true :=
  decMsg_wt S hS _ m _ bs v hb (wellTyped_emptyMsg S hS m) h

end Nri.Wire
