/-
Lemmas for Props/Builder.lean, part 1: the items the message built by a program sets are,
up to order, the items the syntactic reading `progSets` lists — multiplicities included.

Method. `adjustSets a` is a concatenation of per-family lists; one helper call changes one
family (and may allocate the linux section). For every call the family's list changes as the
call's effect `setEff` says (`applyEff`: append / put / drop / nothing) up to a permutation;
`lift_*` carries that through the concatenation — for put and drop this needs that the item
occurs in no other family, which is where "an item belongs to exactly one family" enters.
Core Lean only.
-/
import NriModel.Builder
import NriModel.Lemmas.ResultAbs

namespace Nri.Builder
open Nri Nri.NApi Nri.Result Nri.Ledger

/-! ### `applyEff` and permutations -/

def Eff.item? : Eff → Option Item
  | .append _ _ => none      -- an append needs no side condition
  | .put it _ => some it
  | .drop it => some it
  | .nop => none

theorem applyEff_perm (e : Eff) {l₁ l₂ : List Item} (h : l₁.Perm l₂) : (applyEff l₁ e).Perm (applyEff l₂ e) := by
  cases e with
  | append it v => exact h.append_right _
  | put it v =>
    simp only [applyEff]
    by_cases hm : it ∈ l₁
    · have hm2 : it ∈ l₂ := h.mem_iff.1 hm
      simp [hm, hm2, h]
    · have hm2 : it ∉ l₂ := fun x => hm (h.mem_iff.2 x)
      simp only [hm, hm2, ↓reduceIte]
      exact h.append_right _
  | drop it => exact h.filter _
  | nop => exact h

theorem mem_applyEff (e : Eff) (l : List Item) (x : Item) :
    x ∈ applyEff l e ↔
      match e with
      | .append it _ => x ∈ l ∨ x = it
      | .put it _ => x ∈ l ∨ x = it
      | .drop it => x ∈ l ∧ x ≠ it
      | .nop => x ∈ l := by
  cases e with
  | append it v => simp [applyEff]
  | put it v =>
    simp only [applyEff]
    by_cases hm : it ∈ l
    · simp only [hm, ↓reduceIte]
      constructor
      · exact .inl
      · rintro (h | rfl)
        · exact h
        · exact hm
    · simp [hm]
  | drop it => simp [applyEff]
  | nop => simp [applyEff]

/-- an effect on the middle of a concatenation is the same effect on the whole, provided the
    item of a put / drop occurs in neither neighbour -/
theorem lift_mid (e : Eff) (X Y old new : List Item)
    (hX : ∀ it, e.item? = some it → it ∉ X) (hY : ∀ it, e.item? = some it → it ∉ Y)
    (h : new.Perm (applyEff old e)) :
    (X ++ new ++ Y).Perm (applyEff (X ++ old ++ Y) e) := by
  cases e with
  | append it v =>
    simp only [applyEff] at h ⊢
    have h1 : (X ++ new ++ Y).Perm (X ++ (old ++ [it]) ++ Y) := (h.append_left X).append_right Y
    refine h1.trans ?_
    simp only [List.append_assoc]
    refine List.Perm.append_left X (List.Perm.append_left old ?_)
    exact List.perm_append_comm
  | put it v =>
    have hx := hX it rfl
    have hy := hY it rfl
    simp only [applyEff] at h ⊢
    by_cases hm : it ∈ old
    · have : it ∈ X ++ old ++ Y := by simp [hm]
      simp only [hm, ↓reduceIte] at h
      simp only [this, ↓reduceIte]
      exact (h.append_left X).append_right Y
    · have : it ∉ X ++ old ++ Y := by simp [hm, hx, hy]
      simp only [hm, ↓reduceIte] at h
      simp only [this, ↓reduceIte]
      have h1 : (X ++ new ++ Y).Perm (X ++ (old ++ [it]) ++ Y) := (h.append_left X).append_right Y
      refine h1.trans ?_
      simp only [List.append_assoc]
      refine List.Perm.append_left X (List.Perm.append_left old ?_)
      exact List.perm_append_comm
  | drop it =>
    have hx := hX it rfl
    have hy := hY it rfl
    simp only [applyEff] at h ⊢
    rw [List.filter_append, List.filter_append]
    have fx : X.filter (fun x => decide (x ≠ it)) = X := by
      apply List.filter_eq_self.2
      intro a ha; simp only [ne_eq, decide_not, Bool.not_eq_eq_eq_not, Bool.not_true, decide_eq_false_iff_not]
      intro heq; subst heq; exact hx ha
    have fy : Y.filter (fun x => decide (x ≠ it)) = Y := by
      apply List.filter_eq_self.2
      intro a ha; simp only [ne_eq, decide_not, Bool.not_eq_eq_eq_not, Bool.not_true, decide_eq_false_iff_not]
      intro heq; subst heq; exact hy ha
    rw [fx, fy]
    exact (h.append_left X).append_right Y
  | nop =>
    simp only [applyEff] at h ⊢
    exact (h.append_left X).append_right Y

theorem lift_left (e : Eff) (Y old new : List Item)
    (hY : ∀ it, e.item? = some it → it ∉ Y) (h : new.Perm (applyEff old e)) :
    (new ++ Y).Perm (applyEff (old ++ Y) e) := by
  have := lift_mid e [] Y old new (by intro it _; simp) hY h
  simpa using this

theorem lift_right (e : Eff) (X old new : List Item)
    (hX : ∀ it, e.item? = some it → it ∉ X) (h : new.Perm (applyEff old e)) :
    (X ++ new).Perm (applyEff (X ++ old) e) := by
  have := lift_mid e X [] old new hX (by intro it _; simp) h
  simpa using this

/-! ### flat forms of the collector's item lists -/

theorem resSets_flat (r : Resources) :
    resSets r = memSets (r.memory.getD {}) ++ cpuSets (r.cpu.getD {}) ++
      (r.hugepages.map fun l => Item.hugepage l.pageSize) ++ (r.unified.map fun x => Item.unified x.1) ++
      (if r.blockioClass.isSome then [Item.blockio] else []) ++ (if r.rdtClass.isSome then [Item.rdt] else []) ++
      (if r.pids.isSome then [Item.pids] else []) := by
  unfold resSets resSetsWith
  cases r.memory <;> cases r.cpu <;> simp [memSets, cpuSets]

/-- the linux section is either allocated or carries nothing -/
def AdjWF (a : Adjustment) : Prop :=
  a.hasLinux = false → a.devices = [] ∧ a.resources = none ∧ a.cgroupsPath = [] ∧ a.oomScoreAdj = none

/-- the families of the linux section, read without looking at `hasLinux` -/
def linuxSets (a : Adjustment) : List Item :=
  deviceSets a.devices ++ resSets (a.resources.getD {}) ++ cgroupsSets a.cgroupsPath ++ oomSets a.oomScoreAdj

theorem resSets_empty : resSets {} = [] := by decide

theorem adjustSets_flat (a : Adjustment) (wf : AdjWF a) :
    adjustSets a = annSets a.annotations ++ mountSets a.mounts ++ envSets a.env ++ argsSets a.args ++
      linuxSets a ++ rlimitSets a.rlimits ++ cdiSets a.cdiDevices := by
  unfold adjustSets linuxSets
  cases hl : a.hasLinux with
  | true =>
    cases hr : a.resources <;> simp [resSets_empty]
  | false =>
    obtain ⟨h1, h2, h3, h4⟩ := wf hl
    simp [h1, h2, h3, h4, deviceSets, resSets_empty, cgroupsSets, oomSets]

theorem adjWF_empty : AdjWF {} := by intro _; exact ⟨rfl, rfl, rfl, rfl⟩

theorem adjWF_step (a : Adjustment) (op : AOp) (wf : AdjWF a) : AdjWF (stepA a op) := by
  intro h
  cases op <;> first
    | exact wf h
    | (simp [stepA] at h)

/-! ### no family contains another family's items -/

section fam
variable (it : Item)

theorem not_res_annSets (m : AList Str Str) (h : it ∈ annSets m) : ∃ k, it = .annotation k := by
  simp only [annSets, List.mem_map] at h; obtain ⟨x, _, rfl⟩ := h; exact ⟨_, rfl⟩
theorem fam_mountSets (ms : List Mount) (h : it ∈ mountSets ms) : ∃ k, it = .mount k := by
  simp only [mountSets, List.mem_map] at h; obtain ⟨x, _, rfl⟩ := h; exact ⟨_, rfl⟩
theorem fam_envSets (es : List KeyValue) (h : it ∈ envSets es) : ∃ k, it = .env k := by
  simp only [envSets, List.mem_map] at h; obtain ⟨x, _, rfl⟩ := h; exact ⟨_, rfl⟩
theorem fam_argsSets (args : List Str) (h : it ∈ argsSets args) : it = .args := by
  unfold argsSets at h; split at h <;> simp at h; exact h
theorem fam_deviceSets (ds : List Device) (h : it ∈ deviceSets ds) : ∃ k, it = .device k := by
  simp only [deviceSets, List.mem_map] at h; obtain ⟨x, _, rfl⟩ := h; exact ⟨_, rfl⟩
theorem fam_cgroupsSets (p : Str) (h : it ∈ cgroupsSets p) : it = .cgroupsPath := by
  unfold cgroupsSets at h; split at h <;> simp at h; exact h
theorem fam_oomSets (v : Option Int) (h : it ∈ oomSets v) : it = .oomScoreAdj := by
  unfold oomSets at h; split at h <;> simp at h; exact h
theorem fam_rlimitSets (ls : List Rlimit) (h : it ∈ rlimitSets ls) : ∃ k, it = .rlimit k := by
  simp only [rlimitSets, List.mem_map] at h; obtain ⟨x, _, rfl⟩ := h; exact ⟨_, rfl⟩
theorem fam_cdiSets (ls : List Str) (h : it ∈ cdiSets ls) : ∃ k, it = .cdi k := by
  simp only [cdiSets, List.mem_map] at h; obtain ⟨x, _, rfl⟩ := h; exact ⟨_, rfl⟩

/-- the items of a `LinuxResources` message -/
def isRes : Item → Bool
  | .hugepage _ | .unified _ | .memLimit | .memReservation | .memSwap | .memKernel | .memKernelTcp
  | .memSwappiness | .memDisableOom | .memUseHierarchy | .cpuShares | .cpuQuota | .cpuPeriod
  | .cpuRtRuntime | .cpuRtPeriod | .cpusetCpus | .cpusetMems | .pids | .blockio | .rdt => true
  | _ => false

theorem fam_resSets (r : Resources) (h : it ∈ resSets r) : isRes it = true := by
  rw [resSets_flat] at h
  simp only [List.mem_append] at h
  rcases h with (((((h | h) | h) | h) | h) | h) | h
  · rcases mem_memSets_scalar _ it h with h | h | h | h | h | h | h | h <;> subst h <;> rfl
  · rcases mem_cpuSets_scalar _ it h with h | h | h | h | h | h | h <;> subst h <;> rfl
  · obtain ⟨l, _, rfl⟩ := List.mem_map.1 h; rfl
  · obtain ⟨l, _, rfl⟩ := List.mem_map.1 h; rfl
  · split at h <;> simp at h; subst h; rfl
  · split at h <;> simp at h; subst h; rfl
  · split at h <;> simp at h; subst h; rfl
end fam


/-! ### the 29 families, one list each -/

/-- `adjustSets` with every family written out, right-nested (order as `result.adjust` claims) -/
def flatSets (a : Adjustment) : List Item :=
  let r := a.resources.getD {}
  let m := r.memory.getD {}
  let c := r.cpu.getD {}
  annSets a.annotations ++ (mountSets a.mounts ++ (envSets a.env ++ (argsSets a.args ++ (deviceSets a.devices ++
  ((if m.limit.isSome then [Item.memLimit] else []) ++
  ((if m.reservation.isSome then [Item.memReservation] else []) ++
  ((if m.swap.isSome then [Item.memSwap] else []) ++
  ((if m.kernel.isSome then [Item.memKernel] else []) ++
  ((if m.kernelTcp.isSome then [Item.memKernelTcp] else []) ++
  ((if m.swappiness.isSome then [Item.memSwappiness] else []) ++
  ((if m.disableOomKiller.isSome then [Item.memDisableOom] else []) ++
  ((if m.useHierarchy.isSome then [Item.memUseHierarchy] else []) ++
  ((if c.shares.isSome then [Item.cpuShares] else []) ++
  ((if c.quota.isSome then [Item.cpuQuota] else []) ++
  ((if c.period.isSome then [Item.cpuPeriod] else []) ++
  ((if c.realtimeRuntime.isSome then [Item.cpuRtRuntime] else []) ++
  ((if c.realtimePeriod.isSome then [Item.cpuRtPeriod] else []) ++
  ((if c.cpus ≠ [] then [Item.cpusetCpus] else []) ++
  ((if c.mems ≠ [] then [Item.cpusetMems] else []) ++
  ((r.hugepages.map fun l => Item.hugepage l.pageSize) ++
  ((r.unified.map fun x => Item.unified x.1) ++
  ((if r.blockioClass.isSome then [Item.blockio] else []) ++
  ((if r.rdtClass.isSome then [Item.rdt] else []) ++
  ((if r.pids.isSome then [Item.pids] else []) ++
  (cgroupsSets a.cgroupsPath ++ (oomSets a.oomScoreAdj ++ (rlimitSets a.rlimits ++ cdiSets a.cdiDevices)))))))))))))))))))))))))))

theorem adjustSets_flatSets (a : Adjustment) (wf : AdjWF a) : adjustSets a = flatSets a := by
  rw [adjustSets_flat a wf]
  simp only [linuxSets, resSets_flat, memSets, cpuSets, flatSets, List.append_assoc]

/-- discharges "the item of a put / drop does not occur in this other family" -/
macro "fam_side" : tactic =>
  `(tactic| (intro it hit; simp only [setEff, resEff] at hit; (repeat' split at hit) <;>
      first
      | (simp only [Eff.item?, reduceCtorEq] at hit; done)
      | (simp only [Eff.item?, Option.some.injEq] at hit; subst hit;
         simp [annSets, mountSets, envSets, argsSets, deviceSets, cgroupsSets, oomSets, rlimitSets, cdiSets])))

/-- step over the first family of the concatenation -/
macro "peel" : tactic => `(tactic| (refine lift_right _ _ _ _ ?_ ?_; fam_side))
/-- the family at the head is the one that changes, as `h` says -/
macro "hit " h:term : tactic => `(tactic| (refine lift_left _ _ _ _ ?_ $h; fam_side))

/-! ### what one call does to its own family -/

theorem unmarked_mark (k : Str) : unmarked (markForRemoval k) = false := by
  simp [unmarked, isMarked, markForRemoval]

theorem annSets_cons (k v : Str) (m : AList Str Str) :
    annSets ((k, v) :: m) = if unmarked k then Item.annotation k :: annSets m else annSets m := by
  unfold annSets annSet unmarked
  cases h : (isMarked k).2 <;> simp [List.filter_cons, h]

theorem annSets_insert (m : AList Str Str) (k v : Str) :
    (annSets (AList.insert m k v)).Perm
      (applyEff (annSets m) (if unmarked k then .put (.annotation k) (.str v) else .nop)) := by
  induction m with
  | nil =>
    cases h : unmarked k <;> simp [AList.insert, annSets_cons, applyEff, h] <;> simp [annSets, annSet]
  | cons e rest ih =>
    obtain ⟨k', v'⟩ := e
    by_cases hk : k' = k
    · subst hk
      cases h : unmarked k' <;> simp [AList.insert, annSets_cons, applyEff, h]
    · simp only [AList.insert, hk, ↓reduceIte, annSets_cons]
      cases h : unmarked k
      · simp only [h, applyEff, Bool.false_eq_true, ↓reduceIte] at ih ⊢
        split
        · exact ih.cons _
        · exact ih
      · simp only [h, applyEff, ↓reduceIte] at ih ⊢
        have hne : ¬ k = k' := fun x => hk x.symm
        cases h' : unmarked k'
        · simpa [h'] using ih
        · simp only [↓reduceIte, List.mem_cons, Item.annotation.injEq, hne, false_or]
          split
          · rename_i hm; simp only [hm, ↓reduceIte] at ih; exact ih.cons _
          · rename_i hm; simp only [hm, ↓reduceIte] at ih; exact ih.cons _

theorem annSets_remove (m : AList Str Str) (k : Str) :
    (annSets (AList.insert m (markForRemoval k) [])).Perm (applyEff (annSets m) .nop) := by
  have := annSets_insert m (markForRemoval k) []
  simpa [unmarked_mark] using this

theorem mountSets_snoc (ms : List Mount) (m : Mount) :
    (mountSets (ms ++ [m])).Perm
      (applyEff (mountSets ms) (if unmarked m.destination then .append (.mount m.destination) (.mount m) else .nop)) := by
  unfold unmarked
  cases h : (isMarked m.destination).2 <;> simp [mountSets, applyEff, List.filter_append, h]

theorem mountSets_marker (ms : List Mount) (p : Str) :
    (mountSets (ms ++ [{ destination := markForRemoval p }])).Perm (applyEff (mountSets ms) .nop) := by
  have := mountSets_snoc ms { destination := markForRemoval p }
  simpa [unmarked_mark] using this

theorem envSets_snoc (es : List KeyValue) (k v : Str) :
    (envSets (es ++ [{ key := k, value := v }])).Perm
      (applyEff (envSets es) (if unmarked k then .append (.env k) (.str v) else .nop)) := by
  unfold unmarked
  cases h : (isMarked k).2 <;> simp [envSets, applyEff, List.filter_append, h]

theorem envSets_marker (es : List KeyValue) (k : Str) :
    (envSets (es ++ [{ key := markForRemoval k }])).Perm (applyEff (envSets es) .nop) := by
  have := envSets_snoc es (markForRemoval k) []
  simpa [unmarked_mark] using this

theorem deviceSets_snoc (ds : List Device) (d : Device) :
    (deviceSets (ds ++ [d])).Perm
      (applyEff (deviceSets ds) (if unmarked d.path then .append (.device d.path) (.device d) else .nop)) := by
  unfold unmarked
  cases h : (isMarked d.path).2 <;> simp [deviceSets, applyEff, List.filter_append, h]

theorem deviceSets_marker (ds : List Device) (p : Str) :
    (deviceSets (ds ++ [{ path := markForRemoval p }])).Perm (applyEff (deviceSets ds) .nop) := by
  have := deviceSets_snoc ds { path := markForRemoval p }
  simpa [unmarked_mark] using this

theorem argsSets_set (old args : List Str) :
    (argsSets args).Perm (applyEff (argsSets old) (if args = [] then .drop .args else .put .args (.strs args))) := by
  by_cases h : args = [] <;> by_cases h2 : old = [] <;> simp [argsSets, applyEff, h, h2]

theorem argsSets_update (old args : List Str) :
    (argsSets ([] :: args)).Perm (applyEff (argsSets old) (.put .args (.strs ([] :: args)))) := by
  by_cases h2 : old = [] <;> simp [argsSets, applyEff, h2]

theorem rlimitSets_snoc (ls : List Rlimit) (t : Str) (hard soft : Nat) :
    (rlimitSets (ls ++ [{ type := t, hard := hard, soft := soft }])).Perm
      (applyEff (rlimitSets ls) (.append (.rlimit t) (.rlimit hard soft))) := by
  simp [rlimitSets, applyEff]

theorem cdiSets_snoc (ls : List Str) (n : Str) :
    (cdiSets (ls ++ [n])).Perm (applyEff (cdiSets ls) (.append (.cdi n) .unit)) := by
  simp [cdiSets, applyEff]

theorem cgroupsSets_set (old s : Str) :
    (cgroupsSets s).Perm
      (applyEff (cgroupsSets old) (if s = [] then .drop .cgroupsPath else .put .cgroupsPath (.str s))) := by
  by_cases h : s = [] <;> by_cases h2 : old = [] <;> simp [cgroupsSets, applyEff, h, h2]

theorem oomSets_set (old v : Option Int) :
    (oomSets v).Perm
      (applyEff (oomSets old) (match v with | some x => .put .oomScoreAdj (.int x) | none => .drop .oomScoreAdj)) := by
  cases v <;> cases old <;> simp [oomSets, applyEff]

/-- an optional scalar: the field is assigned `some _` -/
theorem ite_put (c : Prop) [Decidable c] (it : Item) (v : Val) :
    [it].Perm (applyEff (if c then [it] else []) (.put it v)) := by
  by_cases h : c <;> simp [applyEff, h]

/-- a string scalar (`cpus`, `mems`): assigning the empty string unsets it -/
theorem ite_str (c : Prop) [Decidable c] (it : Item) (s : Str) :
    (if s ≠ [] then [it] else []).Perm
      (applyEff (if c then [it] else []) (if s = [] then .drop it else .put it (.str s))) := by
  by_cases h : c <;> by_cases h2 : s = [] <;> simp [applyEff, h, h2]

theorem hugepages_snoc (hs : List Hugepage) (size : Str) (v : Nat) :
    ((hs ++ [({ pageSize := size, limit := v } : Hugepage)]).map fun l => Item.hugepage l.pageSize).Perm
      (applyEff (hs.map fun l => Item.hugepage l.pageSize) (.append (.hugepage size) (.nat v))) := by
  simp [applyEff]

theorem unified_insert (m : AList Str Str) (k v : Str) :
    ((AList.insert m k v).map fun x => Item.unified x.1).Perm
      (applyEff (m.map fun x => Item.unified x.1) (.put (.unified k) (.str v))) := by
  induction m with
  | nil => simp [AList.insert, applyEff]
  | cons e rest ih =>
    obtain ⟨k', v'⟩ := e
    by_cases h : k' = k
    · subst h; simp [AList.insert, applyEff]
    · simp only [AList.insert, h, ↓reduceIte, List.map_cons]
      simp only [applyEff, List.mem_cons, Item.unified.injEq] at ih ⊢
      have hne : ¬ k = k' := fun x => h x.symm
      simp only [hne, false_or]
      split
      · rename_i hm; simp only [hm, ↓reduceIte] at ih; exact ih.cons _
      · rename_i hm; simp only [hm, ↓reduceIte] at ih; exact (ih.cons _)

/-! ### one call, whole message -/

theorem stepA_sets (a : Adjustment) (op : AOp) :
    (flatSets (stepA a op)).Perm (applyEff (flatSets a) (setEff op)) := by
  cases op with
  | addAnnotation k v => unfold flatSets; hit (annSets_insert _ k v)
  | removeAnnotation k => unfold flatSets; hit (annSets_remove _ k)
  | addMount m => unfold flatSets; peel; hit (mountSets_snoc _ m)
  | removeMount p => unfold flatSets; peel; hit (mountSets_marker _ p)
  | addEnv k v => unfold flatSets; peel; peel; hit (envSets_snoc _ k v)
  | removeEnv k => unfold flatSets; peel; peel; hit (envSets_marker _ k)
  | setArgs args => unfold flatSets; (iterate 3 peel); hit (argsSets_set _ args)
  | updateArgs args => unfold flatSets; (iterate 3 peel); hit (argsSets_update _ args)
  | addHooks h => exact List.Perm.refl _
  | addRlimit t hard soft => unfold flatSets; (iterate 27 peel); hit (rlimitSets_snoc _ t hard soft)
  | addDevice d => unfold flatSets; (iterate 4 peel); hit (deviceSets_snoc _ d)
  | removeDevice p => unfold flatSets; (iterate 4 peel); hit (deviceSets_marker _ p)
  | addCDIDevice n => unfold flatSets; (iterate 28 peel); exact cdiSets_snoc _ n
  | setLinuxCgroupsPath s => unfold flatSets; (iterate 25 peel); hit (cgroupsSets_set _ s)
  | setLinuxOomScoreAdj v => unfold flatSets; (iterate 26 peel); hit (oomSets_set _ v)
  | res r =>
    cases r with
    | memLimit v => unfold flatSets; (iterate 5 peel); hit (ite_put _ Item.memLimit (.int v))
    | memReservation v => unfold flatSets; (iterate 6 peel); hit (ite_put _ Item.memReservation (.int v))
    | memSwap v => unfold flatSets; (iterate 7 peel); hit (ite_put _ Item.memSwap (.int v))
    | memKernel v => unfold flatSets; (iterate 8 peel); hit (ite_put _ Item.memKernel (.int v))
    | memKernelTcp v => unfold flatSets; (iterate 9 peel); hit (ite_put _ Item.memKernelTcp (.int v))
    | memSwappiness v => unfold flatSets; (iterate 10 peel); hit (ite_put _ Item.memSwappiness (.nat v))
    | memDisableOom => unfold flatSets; (iterate 11 peel); hit (ite_put _ Item.memDisableOom (.bool true))
    | memUseHierarchy => unfold flatSets; (iterate 12 peel); hit (ite_put _ Item.memUseHierarchy (.bool true))
    | cpuShares v => unfold flatSets; (iterate 13 peel); hit (ite_put _ Item.cpuShares (.nat v))
    | cpuQuota v => unfold flatSets; (iterate 14 peel); hit (ite_put _ Item.cpuQuota (.int v))
    | cpuPeriod v => unfold flatSets; (iterate 15 peel); hit (ite_put _ Item.cpuPeriod (.nat (u64OfInt v)))
    | cpuRtRuntime v => unfold flatSets; (iterate 16 peel); hit (ite_put _ Item.cpuRtRuntime (.int v))
    | cpuRtPeriod v => unfold flatSets; (iterate 17 peel); hit (ite_put _ Item.cpuRtPeriod (.nat v))
    | cpus s => unfold flatSets; (iterate 18 peel); hit (ite_str _ Item.cpusetCpus s)
    | mems s => unfold flatSets; (iterate 19 peel); hit (ite_str _ Item.cpusetMems s)
    | hugepage size v => unfold flatSets; (iterate 20 peel); hit (hugepages_snoc _ size v)
    | unified k v => unfold flatSets; (iterate 21 peel); hit (unified_insert _ k v)
    | blockio s => unfold flatSets; (iterate 22 peel); hit (ite_put _ Item.blockio (.str s))
    | rdt s => unfold flatSets; (iterate 23 peel); hit (ite_put _ Item.rdt (.str s))
    | pids v => unfold flatSets; (iterate 24 peel); hit (ite_put _ Item.pids (.int v))

/-! ### whole programs -/

theorem foldA_sets (prog : List AOp) : ∀ (a : Adjustment) (acc : List Item), AdjWF a → (flatSets a).Perm acc →
    AdjWF (prog.foldl stepA a) ∧
    (flatSets (prog.foldl stepA a)).Perm (prog.foldl (fun acc op => applyEff acc (setEff op)) acc) := by
  induction prog with
  | nil => intro a acc wf h; exact ⟨wf, h⟩
  | cons op rest ih =>
    intro a acc wf h
    simp only [List.foldl_cons]
    exact ih (stepA a op) _ (adjWF_step a op wf) ((stepA_sets a op).trans (applyEff_perm _ h))

theorem runA_wf (prog : List AOp) : AdjWF (runA prog) :=
  (foldA_sets prog {} [] adjWF_empty (by decide)).1

theorem runA_sets_perm (prog : List AOp) : (adjustSets (runA prog)).Perm (progSets prog) := by
  rw [adjustSets_flatSets _ (runA_wf prog)]
  exact (foldA_sets prog {} [] adjWF_empty (by decide)).2

/-- the same for a bare `LinuxResources`: read off the adjustment whose only content it is -/
theorem stepR_sets (r : Resources) (rop : ROp) :
    (resSets (stepR r rop)).Perm (applyEff (resSets r) (resEff rop)) := by
  have wf : AdjWF { hasLinux := true, resources := some r } := by intro h; cases h
  have h := stepA_sets { hasLinux := true, resources := some r } (.res rop)
  rw [← adjustSets_flatSets _ wf, ← adjustSets_flatSets _ (adjWF_step _ _ wf)] at h
  have e1 : adjustSets { hasLinux := true, resources := some r } = resSets r := by
    simp [adjustSets, annSets, annSet, mountSets, envSets, argsSets, deviceSets, cgroupsSets, oomSets, rlimitSets, cdiSets]
  have e2 : adjustSets (stepA { hasLinux := true, resources := some r } (.res rop)) = resSets (stepR r rop) := by
    simp [stepA, adjustSets, annSets, annSet, mountSets, envSets, argsSets, deviceSets, cgroupsSets, oomSets, rlimitSets, cdiSets]
  rw [e1, e2] at h
  exact h

theorem setsUpd_eq (u : Update) : setsUpd u = resSets (u.resources.getD {}) := by
  unfold setsUpd resItems
  cases u.resources <;> simp [resSets_empty]

theorem stepU_sets (u : Update) (op : UOp) :
    (setsUpd (stepU u op)).Perm (applyEff (setsUpd u) (setEffU op)) := by
  rw [setsUpd_eq, setsUpd_eq]
  cases op with
  | setContainerId id => exact List.Perm.refl _
  | setIgnoreFailure => exact List.Perm.refl _
  | res r => exact stepR_sets _ r

theorem foldU_sets (prog : List UOp) : ∀ (u : Update) (acc : List Item), (setsUpd u).Perm acc →
    (setsUpd (prog.foldl stepU u)).Perm (prog.foldl (fun acc op => applyEff acc (setEffU op)) acc) := by
  induction prog with
  | nil => intro u acc h; exact h
  | cons op rest ih =>
    intro u acc h
    simp only [List.foldl_cons]
    exact ih (stepU u op) _ ((stepU_sets u op).trans (applyEff_perm _ h))

theorem runU_sets_perm (prog : List UOp) : (setsUpd (runU prog)).Perm (progSetsU prog) :=
  foldU_sets prog _ [] (by decide)

end Nri.Builder
