/-
Lemmas for Props/Builder.lean, part 3: values. One resource helper writes exactly its own field
(`stepR_writes`, `stepR_frame`, `stepR_hugepages`), and every (item, value) pair the syntactic
reading `progValsR` lists is what `fieldVal` reads back from the message the program built
(`foldR_vals`). `fieldVal` (Lemmas/ResultWalkVals.lean) reads the 18 scalars and the unified
keys; hugepage limits are a slice and are read as a list. Core Lean only.
-/
import NriModel.Lemmas.BuilderSets
import NriModel.Lemmas.ResultWalkVals

namespace Nri.Builder
open Nri Nri.NApi Nri.Result Nri.Ledger Nri.UpdateWalk

/-- the item a resource helper writes -/
def ROp.item : ROp → Item
  | .memLimit _ => .memLimit | .memReservation _ => .memReservation | .memSwap _ => .memSwap
  | .memKernel _ => .memKernel | .memKernelTcp _ => .memKernelTcp | .memSwappiness _ => .memSwappiness
  | .memDisableOom => .memDisableOom | .memUseHierarchy => .memUseHierarchy
  | .cpuShares _ => .cpuShares | .cpuQuota _ => .cpuQuota | .cpuPeriod _ => .cpuPeriod
  | .cpuRtRuntime _ => .cpuRtRuntime | .cpuRtPeriod _ => .cpuRtPeriod | .cpus _ => .cpusetCpus
  | .mems _ => .cpusetMems | .pids _ => .pids | .hugepage s _ => .hugepage s | .blockio _ => .blockio
  | .rdt _ => .rdt | .unified k _ => .unified k

/-- what `fieldVal` reads in that field afterwards -/
def ROp.fval : ROp → FVal
  | .memLimit v => .int (some v) | .memReservation v => .int (some v) | .memSwap v => .int (some v)
  | .memKernel v => .int (some v) | .memKernelTcp v => .int (some v) | .memSwappiness v => .nat (some v)
  | .memDisableOom => .bool (some true) | .memUseHierarchy => .bool (some true)
  | .cpuShares v => .nat (some v) | .cpuQuota v => .int (some v) | .cpuPeriod v => .nat (some (u64OfInt v))
  | .cpuRtRuntime v => .int (some v) | .cpuRtPeriod v => .nat (some v) | .cpus s => .str s
  | .mems s => .str s | .pids v => .int (some v) | .hugepage _ _ => .other | .blockio s => .ostr (some s)
  | .rdt s => .ostr (some s) | .unified _ v => .ostr (some v)

theorem stepR_writes (r : Resources) (rop : ROp) : fieldVal rop.item (stepR r rop) = rop.fval := by
  cases rop <;> first
    | rfl
    | simp [stepR, ROp.item, ROp.fval, fieldVal, AList.lookup_insert_self]

/-- every other field reads as before -/
theorem stepR_frame (r : Resources) (rop : ROp) (it : Item) (h : it ≠ rop.item) :
    fieldVal it (stepR r rop) = fieldVal it r := by
  cases rop <;> cases it <;> first
    | rfl
    | exact absurd rfl h
    | (simp only [stepR, fieldVal]
       rw [AList.lookup_insert_other]
       intro heq; exact h (by rw [ROp.item, heq]))

theorem stepR_hugepages (r : Resources) (rop : ROp) :
    (stepR r rop).hugepages = r.hugepages ++ (match rop with | .hugepage s v => [{ pageSize := s, limit := v }] | _ => []) := by
  cases rop <;> simp [stepR, withMem, withCpu]

/-- the reading of a program value in the vocabulary of `fieldVal` -/
def fvalOf : Item → Val → FVal
  | .cpusetCpus, .str s => .str s
  | .cpusetMems, .str s => .str s
  | _, .str s => .ostr (some s)
  | _, .int v => .int (some v)
  | _, .nat v => .nat (some v)
  | _, .bool b => .bool (some b)
  | _, _ => .other

def isHugepage : Item → Bool
  | .hugepage _ => true
  | _ => false

/-- what a `put` of a resource helper says is what the helper writes -/
theorem resEff_put (rop : ROp) (it : Item) (v : Val) (h : resEff rop = .put it v) :
    it = rop.item ∧ fvalOf it v = rop.fval ∧ isHugepage it = false := by
  cases rop <;> simp only [resEff] at h <;> (try split at h) <;> cases h <;> exact ⟨rfl, rfl, rfl⟩

theorem resEff_drop (rop : ROp) (it : Item) (h : resEff rop = .drop it) : it = rop.item := by
  cases rop <;> simp only [resEff] at h <;> (try split at h) <;> cases h <;> rfl

theorem resEff_append (rop : ROp) (it : Item) (v : Val) (h : resEff rop = .append it v) : isHugepage it = true := by
  cases rop <;> simp only [resEff] at h <;> (try split at h) <;> cases h <;> rfl

theorem resEff_ne_nop (rop : ROp) : resEff rop ≠ .nop := by
  cases rop <;> simp only [resEff] <;> (try split) <;> simp

/-- every non-hugepage pair of `acc` reads back from `r` -/
def ValsOK (r : Resources) (acc : List (Item × Val)) : Prop :=
  ∀ it v, (it, v) ∈ acc → isHugepage it = false → fieldVal it r = fvalOf it v

theorem stepR_vals (r : Resources) (rop : ROp) (acc : List (Item × Val)) (h : ValsOK r acc) :
    ValsOK (stepR r rop) (applyEffV acc (resEff rop)) := by
  intro it v hm hh
  cases he : resEff rop with
  | nop => exact absurd he (resEff_ne_nop rop)
  | append x w =>
    rw [he] at hm
    simp only [applyEffV, List.mem_append, List.mem_singleton, Prod.mk.injEq] at hm
    have hx := resEff_append rop x w he
    rcases hm with hm | ⟨rfl, rfl⟩
    · rw [stepR_frame _ _ _ (by
        intro heq
        cases rop <;> simp only [resEff] at he <;> (try split at he) <;> cases he
        rw [heq] at hh; cases hh)]
      exact h it v hm hh
    · rw [hx] at hh; cases hh
  | put x w =>
    rw [he] at hm
    obtain ⟨hx, hv, _⟩ := resEff_put rop x w he
    simp only [applyEffV] at hm
    by_cases hit : it = x
    · subst hit
      have : v = w := by
        split at hm
        · simp only [List.mem_map] at hm
          obtain ⟨y, _, hy⟩ := hm
          split at hy
          · cases hy; rfl
          · rename_i hne; cases hy; exact absurd rfl hne
        · rename_i hany
          simp only [List.mem_append, List.mem_singleton, Prod.mk.injEq] at hm
          rcases hm with hm | ⟨_, rfl⟩
          · exact absurd (List.any_eq_true.2 ⟨(it, v), hm, by simp⟩) hany
          · rfl
      subst this
      rw [hx, stepR_writes, ← hv, ← hx]
    · have hmem : (it, v) ∈ acc := by
        split at hm
        · simp only [List.mem_map] at hm
          obtain ⟨y, hy1, hy⟩ := hm
          split at hy
          · cases hy; exact absurd rfl hit
          · cases hy; exact hy1
        · simp only [List.mem_append, List.mem_singleton, Prod.mk.injEq] at hm
          rcases hm with hm | ⟨h1, _⟩
          · exact hm
          · exact absurd h1 hit
      rw [stepR_frame _ _ _ (by rw [← hx]; exact hit)]
      exact h it v hmem hh
  | drop x =>
    rw [he] at hm
    have hx := resEff_drop rop x he
    simp only [applyEffV, List.mem_filter, ne_eq, decide_not, Bool.not_eq_eq_eq_not, Bool.not_true,
      decide_eq_false_iff_not] at hm
    rw [stepR_frame _ _ _ (by rw [← hx]; exact hm.2)]
    exact h it v hm.1 hh

theorem foldR_vals (prog : List ROp) : ∀ (r : Resources) (acc : List (Item × Val)), ValsOK r acc →
    ValsOK (prog.foldl stepR r) (prog.foldl (fun acc op => applyEffV acc (resEff op)) acc) := by
  induction prog with
  | nil => intro r acc h; exact h
  | cons op rest ih => intro r acc h; exact ih _ _ (stepR_vals r op acc h)

/-! ### `progVals` lists the same items as `progSets` -/

theorem applyEffV_fst (acc : List (Item × Val)) (e : Eff) :
    (applyEffV acc e).map (·.1) = applyEff (acc.map (·.1)) e := by
  cases e with
  | append it v => simp [applyEffV, applyEff]
  | nop => rfl
  | drop it =>
    simp only [applyEffV, applyEff, List.filter_map]
    rfl
  | put it v =>
    simp only [applyEffV, applyEff]
    have hiff : acc.any (fun x => decide (x.1 = it)) = true ↔ it ∈ acc.map (·.1) := by
      simp only [List.any_eq_true, decide_eq_true_eq, List.mem_map]
    by_cases hm : it ∈ acc.map (·.1)
    · simp only [hiff.2 hm, ↓reduceIte, hm, List.map_map]
      apply List.map_congr_left
      intro x _
      simp only [Function.comp]
      split
      · rename_i h; exact h.symm
      · rfl
    · have : ¬ (acc.any (fun x => decide (x.1 = it)) = true) := fun h => hm (hiff.1 h)
      simp [this, hm]

theorem fold_vals_fst {α : Type} (f : α → Eff) (prog : List α) : ∀ (acc : List (Item × Val)),
    (prog.foldl (fun acc op => applyEffV acc (f op)) acc).map (·.1) =
      prog.foldl (fun acc op => applyEff acc (f op)) (acc.map (·.1)) := by
  induction prog with
  | nil => intro acc; rfl
  | cons op rest ih => intro acc; simp only [List.foldl_cons]; rw [ih, applyEffV_fst]

theorem progVals_fst (prog : List AOp) : (progVals prog).map (·.1) = progSets prog := fold_vals_fst setEff prog []
theorem progValsU_fst (prog : List UOp) : (progValsU prog).map (·.1) = progSetsU prog := fold_vals_fst setEffU prog []

end Nri.Builder
