/-
Invariant of the repaired stub session machine and its preservation (helper lemmas for
`Props/C16.lean`).
-/
import NriModel.StubSession

namespace Nri.StubSession

@[simp] theorem mem_ins (x y : Nat) (l : List Nat) : y ∈ ins x l ↔ y = x ∨ y ∈ l := by
  unfold ins; split <;> simp_all <;> grind

theorem nodup_ins (x : Nat) (l : List Nat) (h : l.Nodup) : (ins x l).Nodup := by
  unfold ins; split
  · exact h
  · rw [List.nodup_append]; simp_all; grind

/-- The invariant of the repaired machine on in-domain histories. -/
structure Good (s : State) : Prop where
  notWedged : s.wedged = false
  connNone : s.started = false → s.conn = none
  connCur : s.started = true → s.conn = some s.dials ∧ 1 ≤ s.dials
  infl_rng : ∀ x ∈ s.inflight, 1 ≤ x ∧ x ≤ s.cur
  fired_rng : ∀ x ∈ s.fired, 1 ≤ x ∧ x ≤ s.cur
  infl_nodup : s.inflight.Nodup
  fired_nodup : s.fired.Nodup
  disj : ∀ x ∈ s.inflight, x ∉ s.fired
  endedClosed : ∀ x, 1 ≤ x → x ≤ s.cur → (x ≠ s.cur ∨ s.started = false) →
    x ∈ s.inflight ∨ x ∈ s.fired
  endedDone : ∀ x, 1 ≤ x → x ≤ s.cur → (x ≠ s.cur ∨ s.started = false) → x ∈ s.done
  done_rng : ∀ x ∈ s.done, 1 ≤ x ∧ x ≤ s.cur ∧ (x = s.cur → s.started = false)
  dead_rng : ∀ c ∈ s.dead, 1 ≤ c ∧ c ≤ s.dials
  aliveConn : alive s = true → s.dials ∉ s.dead
  estab_rng : ∀ x ∈ s.estab, 1 ≤ x ∧ x ≤ s.cur
  startedEstab : s.started = true → s.cur ∈ s.estab
  waiting_rng : ∀ x ∈ s.waiting, 1 ≤ x ∧ x ≤ s.cur

theorem good_init (src : ConnSrc) : Good (initWith src) := by
  constructor <;> simp [initWith, alive] <;> omega



theorem nodup_snoc {l : List Nat} {x : Nat} (h : l.Nodup) (hx : x ∉ l) : (l ++ [x]).Nodup := by
  rw [List.nodup_append]; simp_all; grind

theorem good_stop {s : State} (hg : Good s) : Good (closeStub s) := by
  obtain ⟨h1, h2, h3, h4, h5, h6, h7, h8, h9, h10, h11, h12, h13, h14, h15, h16⟩ := hg
  unfold closeStub
  split
  · simp only [closeClient, markDead]
    have e1 : s.cur ∉ s.inflight → (s.inflight ++ [s.cur]).Nodup := fun h => nodup_snoc h6 h
    constructor <;> simp only [alive] at * <;> grind [mem_ins]
  · constructor <;> assumption

theorem good_lose {s : State} (hg : Good s) (ha : alive s = true) : Good (lose s) := by
  obtain ⟨h1, h2, h3, h4, h5, h6, h7, h8, h9, h10, h11, h12, h13, h14, h15, h16⟩ := hg
  simp only [lose, closeClient, markDead]
  have e1 : s.cur ∉ s.inflight → (s.inflight ++ [s.cur]).Nodup := fun h => nodup_snoc h6 h
  constructor <;> simp only [alive] at * <;> grind [mem_ins]

theorem good_notify {s : State} {sid : Nat} (hg : Good s) (ha : sid ∈ s.inflight) :
    Good (let s1 := if sid = s.cur then closeStub s else s
          { s1 with inflight := s1.inflight.erase sid, fired := s1.fired ++ [sid] }) := by
  obtain ⟨h1, h2, h3, h4, h5, h6, h7, h8, h9, h10, h11, h12, h13, h14, h15, h16⟩ := hg
  have e1 : ∀ x, x ∈ s.inflight.erase sid ↔ x ≠ sid ∧ x ∈ s.inflight :=
    fun x => List.Nodup.mem_erase_iff h6
  have e2 : (s.inflight.erase sid).Nodup := List.Nodup.erase _ h6
  have e3 : (s.fired ++ [sid]).Nodup := nodup_snoc h7 (h8 sid ha)
  by_cases hc : sid = s.cur
  · simp only [hc, if_true]
    unfold closeStub
    split
    · simp only [closeClient, markDead]
      subst hc
      simp only [ha, true_or, if_true]
      constructor <;> simp only [alive] at * <;> grind [mem_ins]
    · constructor <;> simp only [alive] at * <;> grind
  · simp only [hc, if_false]
    constructor <;> simp only [alive] at * <;> grind

/-- the state inside `Start` once `connect()` has produced a new connection (dialled, or —
    `pre` — the pre-made one taken into use) and the session's client exists -/
def fresh (pre : Bool) (s : State) : State :=
  { s with conn := some (s.dials + 1), dials := s.dials + 1, cur := s.cur + 1,
           preUsed := s.preUsed || pre }

theorem good_fail {s : State} {pre : Bool} (hg : Good s) (hs : s.started = false) : Good (failStart fixed (fresh pre s)) := by
  obtain ⟨h1, h2, h3, h4, h5, h6, h7, h8, h9, h10, h11, h12, h13, h14, h15, h16⟩ := hg
  simp only [failStart, closeClient, markDead, fresh, fixed]
  have e0 : s.cur + 1 ∉ s.inflight := by grind
  have e0' : s.cur + 1 ∉ s.fired := by grind
  have e1 : (s.inflight ++ [s.cur + 1]).Nodup := nodup_snoc h6 e0
  simp only [e0, e0', or_self, if_false]
  constructor <;> simp only [alive] at * <;> grind [mem_ins]

theorem good_estab {s : State} {pre : Bool} (hg : Good s) (hs : s.started = false) : Good (establish (fresh pre s)) := by
  obtain ⟨h1, h2, h3, h4, h5, h6, h7, h8, h9, h10, h11, h12, h13, h14, h15, h16⟩ := hg
  simp only [establish, fresh]
  constructor <;> simp only [alive] at * <;> grind

theorem good_estab_lose {s : State} {pre : Bool} (hg : Good s) (hs : s.started = false) : Good (establish (lose (fresh pre s))) := by
  obtain ⟨h1, h2, h3, h4, h5, h6, h7, h8, h9, h10, h11, h12, h13, h14, h15, h16⟩ := hg
  simp only [establish, lose, closeClient, markDead, fresh]
  have e0 : s.cur + 1 ∉ s.inflight := by grind
  have e0' : s.cur + 1 ∉ s.fired := by grind
  have e1 : (s.inflight ++ [s.cur + 1]).Nodup := nodup_snoc h6 e0
  simp only [e0, e0', or_self, if_false]
  constructor <;> simp only [alive] at * <;> grind [mem_ins]

theorem attempt_cases {s1 s' : State} {o : Script} {r : StartRes} (ho : o ≠ .stall)
    (h : attempt fixed s1 o r = some s') :
    ((∃ k, r = .err k) ∧ s' = failStart fixed { s1 with cur := s1.cur + 1 }) ∨
    (o = .ok ∧ r = .ok ∧ s' = establish { s1 with cur := s1.cur + 1 }) ∨
    (o = .dropLate ∧ r = .ok ∧ s' = establish (lose { s1 with cur := s1.cur + 1 })) := by
  unfold attempt at h
  cases o <;> simp [fixed] at h ⊢ <;> grind

theorem start_cases {s s' : State} {o : Script} {r : StartRes} (hg : Good s) (ho : o ≠ .stall)
    (h : startStep fixed s o r = some s') :
    (s.started = true ∧ r = .err .already ∧ s' = s) ∨
    (s.started = false ∧ (r = .err .dial ∨ r = .err .preconn) ∧ s' = s) ∨
    (∃ pre, s.started = false ∧ (∃ k, r = .err k) ∧ s' = failStart fixed (fresh pre s)) ∨
    (∃ pre, s.started = false ∧ o = .ok ∧ r = .ok ∧ s' = establish (fresh pre s)) ∨
    (∃ pre, s.started = false ∧ o = .dropLate ∧ r = .ok ∧ s' = establish (lose (fresh pre s))) := by
  have h2 := hg.connNone
  unfold startStep at h
  by_cases hs : s.started = true
  · simp only [hs, if_true] at h
    grind
  · have hs' : s.started = false := by simpa using hs
    have hc := h2 hs'
    simp only [hs', hc] at h
    simp only [Bool.false_eq_true, if_false] at h
    split at h
    · -- the consumed environment descriptor
      split at h
      · simp at h; subst h; exact Or.inr (Or.inl ⟨hs', Or.inr (by assumption), rfl⟩)
      · split at h
        · simp at h; subst h
          refine Or.inr (Or.inr (Or.inl ⟨false, hs', ⟨_, by assumption⟩, ?_⟩))
          simp [fresh, adopt]
        · cases h
    · split at h
      · -- the pre-made connection
        rename_i hpre
        by_cases hof : o = .dialFail
        · simp only [hof, if_true] at h
          rcases attempt_cases (by simp) h with ⟨hk, rfl⟩ | ⟨h0, _⟩ | ⟨h0, _⟩
          · exact Or.inr (Or.inr (Or.inl ⟨true, hs', hk, by simp [fresh, adopt]⟩))
          · cases h0
          · cases h0
        · simp only [hof, if_false] at h
          rcases attempt_cases ho h with ⟨hk, rfl⟩ | ⟨h0, h1, rfl⟩ | ⟨h0, h1, rfl⟩
          · exact Or.inr (Or.inr (Or.inl ⟨true, hs', hk, by simp [fresh, adopt]⟩))
          · exact Or.inr (Or.inr (Or.inr (Or.inl ⟨true, hs', h0, h1, by simp [fresh, adopt]⟩)))
          · exact Or.inr (Or.inr (Or.inr (Or.inr ⟨true, hs', h0, h1, by simp [fresh, adopt]⟩)))
      · -- the dialer
        split at h
        · split at h
          · simp at h; subst h; exact Or.inr (Or.inl ⟨hs', Or.inl (by assumption), rfl⟩)
          · cases h
        · rcases attempt_cases ho h with ⟨hk, rfl⟩ | ⟨h0, h1, rfl⟩ | ⟨h0, h1, rfl⟩
          · exact Or.inr (Or.inr (Or.inl ⟨false, hs', hk, by simp [fresh, adopt]⟩))
          · exact Or.inr (Or.inr (Or.inr (Or.inl ⟨false, hs', h0, h1, by simp [fresh, adopt]⟩)))
          · exact Or.inr (Or.inr (Or.inr (Or.inr ⟨false, hs', h0, h1, by simp [fresh, adopt]⟩)))

theorem good_step {s s' : State} {e : Event} (hg : Good s) (hd : inDomain e = true)
    (h : step? fixed s e = some s') : Good s' := by
  have h1 := hg.notWedged
  cases e with
  | start o r =>
    simp only [step?, h1] at h
    have ho : o ≠ .stall := by intro hh; subst hh; simp [inDomain] at hd
    rcases start_cases hg ho h with ⟨_, _, rfl⟩ | ⟨_, _, rfl⟩ | ⟨_, hs, _, rfl⟩ | ⟨_, hs, _, _, rfl⟩ |
      ⟨_, hs, _, _, rfl⟩
    · exact hg
    · exact hg
    · exact good_fail hg hs
    · exact good_estab hg hs
    · exact good_estab_lose hg hs
  | stop =>
    simp only [step?, h1] at h
    simp at h; subst h; exact good_stop hg
  | connLost =>
    simp only [step?, h1] at h
    simp at h; obtain ⟨ha, h⟩ := h; subst h; exact good_lose hg ha
  | closeNotify sid =>
    simp only [step?, h1, fixed] at h
    simp at h; obtain ⟨ha, h⟩ := h; subst h; exact good_notify hg ha
  | wait ret =>
    simp only [step?, h1] at h
    by_cases hret : ret = true
    · have : s' = s := by grind
      subst this; exact hg
    · simp only [hret, Bool.false_eq_true, if_false] at h
      split at h
      · simp at h; subst h
        rename_i hcond
        have hst : s.started = true := by simp at hcond; exact hcond.1
        obtain ⟨g1, g2, g3, g4, g5, g6, g7, g8, g9, g10, g11, g12, g13, g14, g15, g16⟩ := hg
        have := g14 _ (g15 hst)
        constructor <;> simp only [alive] at * <;> grind
      · cases h
  | waitRet sid =>
    simp only [step?] at h
    split at h
    · simp at h; subst h
      obtain ⟨g1, g2, g3, g4, g5, g6, g7, g8, g9, g10, g11, g12, g13, g14, g15, g16⟩ := hg
      have e1 : ∀ x, x ∈ s.waiting.erase sid → x ∈ s.waiting := fun x hx => List.mem_of_mem_erase hx
      constructor <;> simp only [alive] at * <;> grind
    · cases h
  | dispatch ok =>
    simp only [step?] at h
    have : s' = s := by grind
    subst this; exact hg


/-- `s` is reachable by the repaired machine through a history inside C16's domain. -/
def Reach (s : State) : Prop :=
  ∃ (src : ConnSrc) (h : List Event),
    (∀ e ∈ h, inDomain e = true) ∧ run fixed (initWith src) h = some s

theorem good_run {s s' : State} (hg : Good s) :
    ∀ (h : List Event), (∀ e ∈ h, inDomain e = true) → run fixed s h = some s' → Good s' := by
  intro h
  induction h generalizing s with
  | nil => intro _ hr; simp [run] at hr; subst hr; exact hg
  | cons e es ih =>
    intro hd hr
    simp only [run] at hr
    split at hr
    · rename_i s1 hs1
      exact ih (good_step hg (hd e (by simp)) hs1) (fun e' he' => hd e' (by simp [he'])) hr
    · cases hr

theorem Reach.good {s : State} (h : Reach s) : Good s := by
  obtain ⟨src, hist, hd, hr⟩ := h
  exact good_run (good_init src) hist hd hr

theorem Reach.step {s s' : State} {e : Event} (h : Reach s) (hd : inDomain e = true)
    (hs : step? fixed s e = some s') : Reach s' := by
  obtain ⟨src, hist, hd0, hr⟩ := h
  refine ⟨src, hist ++ [e], ?_, ?_⟩
  · intro e' he'; simp at he'; rcases he' with h1 | h1
    · exact hd0 e' h1
    · subst h1; exact hd
  · have : ∀ (l : List Event) (a b : State), run fixed a l = some b →
        run fixed a (l ++ [e]) = step? fixed b e := by
      intro l
      induction l with
      | nil => intro a b hab; simp [run] at hab; subst hab; simp [run]; cases step? fixed a e <;> rfl
      | cons x xs ih =>
        intro a b hab
        simp only [run, List.cons_append] at hab ⊢
        split at hab
        · rename_i a1 ha1; exact ih a1 b hab
        · cases hab
    rw [this hist (initWith src) s hr]; exact hs


theorem notify_inflight {s : State} (hg : Good s) {sid : Nat} (hin : sid ∈ s.inflight) :
    ∃ s', step? fixed s (.closeNotify sid) = some s' ∧ s'.inflight = s.inflight.erase sid := by
  have hw := hg.notWedged
  refine ⟨_, by simp [step?, hw, hin]; rfl, ?_⟩
  simp only [fixed]
  by_cases hc : sid = s.cur
  · subst hc
    simp
    unfold closeStub; split
    · simp [closeClient, markDead, hin]
    · rfl
  · simp [hc]

/-- every pending close notification can be delivered (here: in list order); afterwards
    none is pending -/
theorem drain {s : State} (hr : Reach s) :
    ∃ s', run fixed s (s.inflight.map .closeNotify) = some s' ∧ Reach s' ∧ s'.inflight = [] := by
  generalize hn : s.inflight.length = n
  induction n generalizing s with
  | zero =>
    have : s.inflight = [] := List.eq_nil_of_length_eq_zero hn
    exact ⟨s, by simp [this, run], hr, this⟩
  | succ n ih =>
    match hl : s.inflight with
    | [] => simp [hl] at hn
    | x :: rest =>
      have hin : x ∈ s.inflight := by simp [hl]
      obtain ⟨s1, h1, h2⟩ := notify_inflight hr.good hin
      have h2' : s1.inflight = rest := by rw [h2, hl]; simp
      have hr1 : Reach s1 := hr.step (by rfl) h1
      obtain ⟨s', h3, h4, h5⟩ := ih hr1 (by rw [h2']; simp [hl] at hn; exact hn)
      refine ⟨s', ?_, h4, h5⟩
      simp only [List.map_cons, run, h1]
      rw [h2'] at h3; exact h3

end Nri.StubSession
