/-
Lemmas about the rlimit-name normalisation of the ulimit adjuster (property C20).
-/
import NriModel.Plugins

namespace Nri.Plugins
open Nri

theorem tableLookup_mem {t : List (Char × Char)} {c u : Char} (h : tableLookup t c = some u) :
    u ∈ t.map (·.2) := by
  induction t with
  | nil => simp [tableLookup] at h
  | cons p rest ih =>
    obtain ⟨a, b⟩ := p
    unfold tableLookup at h
    by_cases hac : a = c
    · simp [hac] at h; simp [h]
    · simp [hac] at h; simp [ih h]

theorem upperTable_values_fixed : ∀ u ∈ upperTable.map (·.2), tableLookup upperTable u = none := by
  decide

theorem upperChar_idem (c : Char) : upperChar (upperChar c) = upperChar c := by
  unfold upperChar
  cases h : tableLookup upperTable c with
  | none => simp [h]
  | some u => simp [upperTable_values_fixed u (tableLookup_mem h)]

theorem toUpper_idem (s : Str) : toUpper (toUpper s) = toUpper s := by
  unfold toUpper
  rw [List.map_map]
  apply List.map_congr_left
  intro c _
  exact upperChar_idem c

theorem toUpper_append (s t : Str) : toUpper (s ++ t) = toUpper s ++ toUpper t := by
  simp [toUpper]

theorem stripPrefix?_append (p s : Str) : stripPrefix? p (p ++ s) = some s := by
  induction p with
  | nil => rfl
  | cons a p ih => simp [stripPrefix?, ih]

theorem stripPrefix?_some {p s r : Str} (h : stripPrefix? p s = some r) : s = p ++ r := by
  induction p generalizing s with
  | nil => simp [stripPrefix?] at h; simp [h]
  | cons a p ih =>
    cases s with
    | nil => simp [stripPrefix?] at h
    | cons b s =>
      unfold stripPrefix? at h
      by_cases hab : a = b
      · simp [hab] at h; simp [hab, ih h]
      · simp [hab] at h

theorem trimPrefix_append (p s : Str) : trimPrefix p (p ++ s) = s := by
  simp [trimPrefix, stripPrefix?_append]

theorem valid_upper : ∀ v ∈ validNames, toUpper v = v := by decide
theorem valid_noprefix : ∀ v ∈ validNames, stripPrefix? rlimitPrefix v = none := by decide
theorem rlimitPrefix_upper : toUpper rlimitPrefix = rlimitPrefix := by decide

/-- what is accepted, and as what -/
theorem normalise_some_iff (t n : Str) :
    normalise t = some n ↔
      ∃ v ∈ validNames, n = rlimitPrefix ++ v ∧ (toUpper t = v ∨ toUpper t = rlimitPrefix ++ v) := by
  unfold normalise
  constructor
  · intro h
    simp only at h
    split at h
    · rename_i hv
      refine ⟨_, hv, (Option.some.inj h).symm, ?_⟩
      unfold trimPrefix
      cases hs : stripPrefix? rlimitPrefix (toUpper t) with
      | none => exact Or.inl rfl
      | some r => exact Or.inr (stripPrefix?_some hs)
    · cases h
  · rintro ⟨v, hv, rfl, h | h⟩
    · have : trimPrefix rlimitPrefix (toUpper t) = v := by
        rw [h]; unfold trimPrefix; rw [valid_noprefix v hv]
      simp [this, hv]
    · have : trimPrefix rlimitPrefix (toUpper t) = v := by
        rw [h]; exact trimPrefix_append _ _
      simp [this, hv]

end Nri.Plugins
