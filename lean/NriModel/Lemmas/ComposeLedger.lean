/-
What C03 needs from the ownership ledger (C01): along a successful creation request at most
one plugin sets the memory limit — the item `memLimit` is claimed by every plugin that sets it
and never released — so when a plugin sets it, the reply collected so far carries none
(`MemFree`).  (Every other family composes without the ledger.)  Core Lean only.
-/
import NriModel.Lemmas.ComposeScalars
import NriModel.Lemmas.ResultAbs

namespace Nri.Compose
open Nri Nri.NApi Nri.Result Nri.Ledger

/-- ledger/reply agreement for the memory limit -/
def MemHeld (st : State) : Prop :=
  (limitOf st.reply).isSome → ∃ w, st.owners.owner (cidOf st.kind) .memLimit = some w

theorem memLimit_mem_sets (a : Adjustment) (h : (limitOf a).isSome) : Item.memLimit ∈ adjustSets a := by
  unfold limitOf resOf at h
  cases hl : a.hasLinux with
  | false => simp [hl] at h
  | true =>
    simp only [hl, if_true] at h
    cases hr : a.resources with
    | none => simp [hr] at h
    | some r =>
      cases hm : r.memory with
      | none => simp [hr, hm] at h
      | some m =>
        simp only [hr, hm, Option.bind_some] at h
        unfold adjustSets
        simp only [hl, if_true, hr, List.mem_append]
        refine .inl (.inl (.inr (.inl (.inl (.inr ?_)))))
        unfold resSets resSetsWith
        simp only [hm, List.mem_append]
        refine .inl (.inl (.inl (.inl (.inl (.inl ?_)))))
        unfold memSets
        simp [h]

theorem memLimit_not_removed (a : Adjustment) : Item.memLimit ∉ removesAdj a := by
  unfold removesAdj
  simp only [List.mem_append, List.mem_map, not_or]
  refine ⟨⟨⟨⟨?_, ?_⟩, ?_⟩, ?_⟩, ?_⟩
  · rintro ⟨_, _, h⟩; cases h
  · rintro ⟨_, _, h⟩; cases h
  · rintro ⟨_, _, h⟩; cases h
  · split <;> simp
  · split
    · simp
    · simp

theorem memHeld_adjust (st st' : State) (p : Plugin) (a : Adjustment) (hl : st.reply.hasLinux = true)
    (mh : MemHeld st) (h : adjust Quirks.fixed st p (some a) = .ok st') :
    MemFree st.reply a ∧ MemHeld st' := by
  have hk := adjust_kind _ st st' p (some a) h
  have hfree : MemFree st.reply a := by
    intro ha
    cases hR : limitOf st.reply with
    | none => rfl
    | some l =>
      exfalso
      obtain ⟨w, hw⟩ := mh (by rw [hR]; rfl)
      obtain ⟨e, he⟩ := adjust_fails_of_owned Quirks.fixed st p a .memLimit w hw (memLimit_mem_sets a ha)
        (fun hc => memLimit_not_removed a (adjustClears_subset_removes st a _ hc))
      rw [he] at h; cases h
  refine ⟨hfree, ?_⟩
  obtain ⟨o, hc, hst'⟩ := (adjust_ok_iff _ st st' p a).1 h
  have hreply : st'.reply = replyStep st.reply a := by rw [hst']; exact adjustData_reply st a
  intro hs
  rw [hreply, limitOf_step _ _ hl] at hs
  rw [hk]
  cases ha : limitOf a with
  | some l =>
    exact ⟨p, adjust_owns _ st st' p a h _ (memLimit_mem_sets a (by rw [ha]; rfl))⟩
  | none =>
    rw [ha] at hs
    simp only [Option.orElse] at hs
    obtain ⟨w, hw⟩ := mh hs
    refine ⟨w, adjust_keeps _ st st' p (some a) h _ _ w hw ?_⟩
    intro a' ha' _ hc
    cases ha'
    exact memLimit_not_removed a (adjustClears_subset_removes st a _ hc)

theorem replyStep_hasLinux (R a : Adjustment) : (replyStep R a).hasLinux = R.hasLinux := rfl

theorem foldl_replyStep_hasLinux (as : List Adjustment) (R : Adjustment) :
    (as.foldl replyStep R).hasLinux = R.hasLinux := by
  induction as generalizing R with
  | nil => rfl
  | cons a rest ih => simp only [List.foldl_cons]; rw [ih]; rfl

/-- **Along a successful creation request the memory limit is set at most once.** -/
theorem run_memFree (rs : List (Plugin × Option Response)) :
    ∀ (st st' : State) (id : Cid), st.kind = .create id → st.reply.hasLinux = true → MemHeld st →
      run Quirks.fixed st rs = .ok st' → Chain MemFree st.reply (adjsOf rs) := by
  induction rs with
  | nil => intro st st' id _ _ _ _; trivial
  | cons x rest ih =>
    intro st st' id hk hl mh h
    obtain ⟨p, r⟩ := x
    cases r with
    | none =>
      simp only [run] at h
      rw [adjsOf_cons_none]; exact ih st st' id hk hl mh h
    | some r =>
      simp only [run] at h
      cases h1 : apply Quirks.fixed st p r with
      | error e => rw [h1] at h; cases h
      | ok st1 =>
        rw [h1] at h
        have hk1 : st1.kind = .create id := by rw [apply_kind _ st st1 p r h1]; exact hk
        have hrep := apply_reply st st1 p r id hk h1
        rw [adjsOf_cons_some]
        -- split `apply` into `adjust` and `updateAll`
        have h1' := h1
        unfold apply at h1'
        rw [hk] at h1'
        simp only [] at h1'
        cases h2 : adjust Quirks.fixed st p r.adjust with
        | error e => rw [h2] at h1'; cases h1'
        | ok st2 =>
          rw [h2] at h1'
          have hv := updateAll_view _ st2 st1 p r.updates h1'
          have hk2 : st2.kind = st.kind := adjust_kind _ st st2 p r.adjust h2
          have hk12 : st1.kind = st2.kind := updateAll_kind _ st2 st1 p r.updates h1'
          cases ha : r.adjust with
          | none =>
            rw [ha] at hrep h2
            simp only at hrep
            simp only [adjust] at h2
            cases h2
            simp only
            rw [← hrep]
            apply ih st1 st' id hk1 (by rw [hrep]; exact hl) _ h
            intro hs
            rw [hrep] at hs
            obtain ⟨w, hw⟩ := mh hs
            exact ⟨w, by rw [hk12]; exact updateAll_keeps _ _ st1 p r.updates h1' _ _ w hw⟩
          | some a =>
            rw [ha] at hrep h2
            simp only at hrep
            obtain ⟨hfree, mh2⟩ := memHeld_adjust st st2 p a hl mh h2
            simp only
            refine ⟨hfree, ?_⟩
            rw [← hrep]
            apply ih st1 st' id hk1 (by rw [hrep]; exact hl) _ h
            intro hs
            rw [hv.2] at hs
            obtain ⟨w, hw⟩ := mh2 hs
            exact ⟨w, by rw [hk12]; exact updateAll_keeps _ st2 st1 p r.updates h1' _ _ w hw⟩

theorem memHeld_init (c0 : Container) : MemHeld (initCreate c0) := by
  intro h; simp [initCreate, limitOf, resOf, normRes] at h

end Nri.Compose
