/-
What C03 needs from the ownership ledger (C01): along a successful creation request a scalar
item that is never released — the memory limit, the block-I/O class, the RDT class — is set by
at most one plugin: every plugin that sets it claims it, so when a plugin sets it the reply
collected so far carries none (`Free`).
The memory limit needs this for the EQUALITY of the specs (`AdjustResources` ignores a limit
of 0, so setters `5` then `0` would differ); the two classes need it only for "the combined
application succeeds ⇒ the sequential one does" (an earlier class the resolver rejects would
be masked by a later one).  Every other family composes without the ledger.
Core Lean only.
-/
import NriModel.Lemmas.ComposeScalars
import NriModel.Lemmas.ResultAbs

namespace Nri.Compose
open Nri Nri.NApi Nri.Result Nri.Ledger

/-- a never-released scalar item together with how adjustments/replies carry it -/
structure ScalarItem where
  it : Item
  /-- the adjustment (or the reply) carries a value for the item -/
  sets : Adjustment → Bool
  mem : ∀ a, sets a = true → it ∈ adjustSets a
  notRemoved : ∀ a, it ∉ removesAdj a
  step : ∀ R a, R.hasLinux = true → sets (replyStep R a) = (sets a || sets R)

/-- ledger/reply agreement for the item -/
def Held (S : ScalarItem) (st : State) : Prop :=
  S.sets st.reply = true → ∃ w, st.owners.owner (cidOf st.kind) S.it = some w

/-- when a plugin sets the item, the reply so far does not carry it -/
def Free (S : ScalarItem) (R a : Adjustment) : Prop := S.sets a = true → S.sets R = false

theorem held_adjust (S : ScalarItem) (st st' : State) (p : Plugin) (a : Adjustment)
    (hl : st.reply.hasLinux = true) (mh : Held S st) (h : adjust Quirks.fixed st p (some a) = .ok st') :
    Free S st.reply a ∧ Held S st' := by
  have hk := adjust_kind _ st st' p (some a) h
  have hfree : Free S st.reply a := by
    intro ha
    cases hR : S.sets st.reply with
    | false => rfl
    | true =>
      exfalso
      obtain ⟨w, hw⟩ := mh hR
      obtain ⟨e, he⟩ := adjust_fails_of_owned Quirks.fixed st p a S.it w hw (S.mem a ha)
        (fun hc => S.notRemoved a (adjustClears_subset_removes st a _ hc))
      rw [he] at h; cases h
  refine ⟨hfree, ?_⟩
  obtain ⟨o, hc, hst'⟩ := (adjust_ok_iff _ st st' p a).1 h
  have hreply : st'.reply = replyStep st.reply a := by rw [hst']; exact adjustData_reply st a
  intro hs
  rw [hreply, S.step _ _ hl] at hs
  rw [hk]
  cases ha : S.sets a with
  | true => exact ⟨p, adjust_owns _ st st' p a h _ (S.mem a ha)⟩
  | false =>
    rw [ha, Bool.false_or] at hs
    obtain ⟨w, hw⟩ := mh hs
    refine ⟨w, adjust_keeps _ st st' p (some a) h _ _ w hw ?_⟩
    intro a' ha' _ hc
    cases ha'
    exact S.notRemoved a (adjustClears_subset_removes st a _ hc)

theorem replyStep_hasLinux (R a : Adjustment) : (replyStep R a).hasLinux = R.hasLinux := rfl

theorem foldl_replyStep_hasLinux (as : List Adjustment) (R : Adjustment) :
    (as.foldl replyStep R).hasLinux = R.hasLinux := by
  induction as generalizing R with
  | nil => rfl
  | cons a rest ih => simp only [List.foldl_cons]; rw [ih]; rfl

/-- **Along a successful creation request a never-released scalar item is set at most once.** -/
theorem run_free (S : ScalarItem) (rs : List (Plugin × Option Response)) :
    ∀ (st st' : State) (id : Cid), st.kind = .create id → st.reply.hasLinux = true → Held S st →
      run Quirks.fixed st rs = .ok st' → Chain (Free S) st.reply (adjsOf rs) := by
  induction rs with
  | nil => intro st st' id _ _ _ _; trivial
  | cons x rest ih =>
    intro st st' id hk hl mh h
    obtain ⟨p, r⟩ := x
    cases r with
    | none =>
      simp only [run] at h
      rw [adjsOf_cons_none]; exact ih st st' id hk hl mh h
    | some r =>
      simp only [run] at h
      cases h1 : apply Quirks.fixed st p r with
      | error e => rw [h1] at h; cases h
      | ok st1 =>
        rw [h1] at h
        have hk1 : st1.kind = .create id := by rw [apply_kind _ st st1 p r h1]; exact hk
        have hrep := apply_reply st st1 p r id hk h1
        rw [adjsOf_cons_some]
        -- split `apply` into `adjust` and `updateAll`
        have h1' := h1
        unfold apply at h1'
        rw [hk] at h1'
        simp only [] at h1'
        cases h2 : adjust Quirks.fixed st p r.adjust with
        | error e => rw [h2] at h1'; cases h1'
        | ok st2 =>
          rw [h2] at h1'
          have hv := updateAll_view _ st2 st1 p r.updates h1'
          have hk2 : st2.kind = st.kind := adjust_kind _ st st2 p r.adjust h2
          have hk12 : st1.kind = st2.kind := updateAll_kind _ st2 st1 p r.updates h1'
          cases ha : r.adjust with
          | none =>
            rw [ha] at hrep h2
            simp only at hrep
            simp only [adjust] at h2
            cases h2
            simp only
            rw [← hrep]
            apply ih st1 st' id hk1 (by rw [hrep]; exact hl) _ h
            intro hs
            rw [hrep] at hs
            obtain ⟨w, hw⟩ := mh hs
            exact ⟨w, by rw [hk12]; exact updateAll_keeps _ _ st1 p r.updates h1' _ _ w hw⟩
          | some a =>
            rw [ha] at hrep h2
            simp only at hrep
            obtain ⟨hfree, mh2⟩ := held_adjust S st st2 p a hl mh h2
            simp only
            refine ⟨hfree, ?_⟩
            rw [← hrep]
            apply ih st1 st' id hk1 (by rw [hrep]; exact hl) _ h
            intro hs
            rw [hv.2] at hs
            obtain ⟨w, hw⟩ := mh2 hs
            exact ⟨w, by rw [hk12]; exact updateAll_keeps _ st2 st1 p r.updates h1' _ _ w hw⟩

/-! ### the three items -/

theorem not_removed_scalar (it : Item) (a : Adjustment)
    (h1 : ∀ k, it ≠ .annotation k) (h2 : ∀ k, it ≠ .mount k) (h3 : ∀ k, it ≠ .env k)
    (h4 : it ≠ .args) (h5 : ∀ k, it ≠ .device k) : it ∉ removesAdj a := by
  unfold removesAdj
  simp only [List.mem_append, List.mem_map, not_or]
  refine ⟨⟨⟨⟨?_, ?_⟩, ?_⟩, ?_⟩, ?_⟩
  · rintro ⟨k, _, h⟩; exact h1 k h.symm
  · rintro ⟨k, _, h⟩; exact h2 k h.symm
  · rintro ⟨k, _, h⟩; exact h3 k h.symm
  · split
    · simp only [List.mem_singleton]; exact h4
    · simp
  · split
    · simp only [List.mem_map, not_exists, not_and]
      intro k _ h; exact h5 k h.symm
    · simp

theorem mem_resSets (a : Adjustment) (r : Resources) (it : Item) (hl : a.hasLinux = true)
    (hr : a.resources = some r) (h : it ∈ resSets r) : it ∈ adjustSets a := by
  unfold adjustSets
  simp only [hl, if_true, hr, List.mem_append]
  exact .inl (.inl (.inr (.inl (.inl (.inr h)))))

def memItem : ScalarItem where
  it := .memLimit
  sets a := (limitOf a).isSome
  mem a h := by
    unfold limitOf resOf at h
    cases hl : a.hasLinux with
    | false => simp [hl] at h
    | true =>
      simp only [hl, if_true] at h
      cases hr : a.resources with
      | none => simp [hr] at h
      | some r =>
        cases hm : r.memory with
        | none => simp [hr, hm] at h
        | some m =>
          simp only [hr, hm, Option.bind_some] at h
          apply mem_resSets a r _ hl hr
          unfold resSets resSetsWith
          simp only [hm, List.mem_append]
          refine .inl (.inl (.inl (.inl (.inl (.inl ?_)))))
          unfold memSets
          simp [h]
  notRemoved a := not_removed_scalar _ a (by simp) (by simp) (by simp) (by simp) (by simp)
  step R a hR := by
    rw [limitOf_step R a hR]
    cases limitOf a <;> simp [Option.orElse]

def blockioItem : ScalarItem where
  it := .blockio
  sets a := (blockioOf a).isSome
  mem a h := by
    unfold blockioOf resOf at h
    cases hl : a.hasLinux with
    | false => simp [hl] at h
    | true =>
      simp only [hl, if_true] at h
      cases hr : a.resources with
      | none => simp [hr] at h
      | some r =>
        simp only [hr, Option.bind_some] at h
        apply mem_resSets a r _ hl hr
        unfold resSets resSetsWith
        simp [h]
  notRemoved a := not_removed_scalar _ a (by simp) (by simp) (by simp) (by simp) (by simp)
  step R a hR := by
    rw [blockioOf_step R a hR]
    cases blockioOf a <;> simp [Option.orElse]

def rdtItem : ScalarItem where
  it := .rdt
  sets a := (rdtOf a).isSome
  mem a h := by
    unfold rdtOf resOf at h
    cases hl : a.hasLinux with
    | false => simp [hl] at h
    | true =>
      simp only [hl, if_true] at h
      cases hr : a.resources with
      | none => simp [hr] at h
      | some r =>
        simp only [hr, Option.bind_some] at h
        apply mem_resSets a r _ hl hr
        unfold resSets resSetsWith
        simp [h]
  notRemoved a := not_removed_scalar _ a (by simp) (by simp) (by simp) (by simp) (by simp)
  step R a hR := by
    rw [rdtOf_step R a hR]
    cases rdtOf a <;> simp [Option.orElse]

theorem held_init (S : ScalarItem) (c0 : Container) (h0 : S.sets reply0 = false) : Held S (initCreate c0) := by
  intro h
  rw [initCreate_reply, h0] at h
  cases h

theorem memItem_reply0 : memItem.sets reply0 = false := by
  simp [memItem, limitOf, resOf, reply0, normRes]
theorem blockioItem_reply0 : blockioItem.sets reply0 = false := by
  simp [blockioItem, blockioOf, resOf, reply0, normRes]
theorem rdtItem_reply0 : rdtItem.sets reply0 = false := by
  simp [rdtItem, rdtOf, resOf, reply0, normRes]

theorem memFree_of_free (R a : Adjustment) (h : Free memItem R a) : MemFree R a := by
  intro ha
  have := h ha
  simp only [memItem] at this
  cases hl : limitOf R with
  | none => rfl
  | some l => rw [hl] at this; cases this

/-- what the ledger guarantees at each step of a successful creation request -/
structure LedgerOk (R a : Adjustment) : Prop where
  mem : MemFree R a
  blockio : (blockioOf a).isSome → blockioOf R = none
  rdt : (rdtOf a).isSome → rdtOf R = none

theorem run_ledgerOk (c0 : Container) (rs : List (Plugin × Option Response)) (st' : State)
    (h : run Quirks.fixed (initCreate c0) rs = .ok st') : Chain LedgerOk reply0 (adjsOf rs) := by
  have h1 := run_free memItem rs (initCreate c0) st' c0.id rfl rfl (held_init _ c0 memItem_reply0) h
  have h2 := run_free blockioItem rs (initCreate c0) st' c0.id rfl rfl (held_init _ c0 blockioItem_reply0) h
  have h3 := run_free rdtItem rs (initCreate c0) st' c0.id rfl rfl (held_init _ c0 rdtItem_reply0) h
  rw [initCreate_reply] at h1 h2 h3
  refine Chain.mono ?_ (Chain.and (Chain.and h1 h2) h3)
  rintro R a ⟨⟨f1, f2⟩, f3⟩
  refine ⟨memFree_of_free R a f1, ?_, ?_⟩
  · intro ha
    have := f2 ha
    simp only [blockioItem] at this
    cases hl : blockioOf R with
    | none => rfl
    | some l => rw [hl] at this; cases this
  · intro ha
    have := f3 ha
    simp only [rdtItem] at this
    cases hl : rdtOf R with
    | none => rfl
    | some l => rw [hl] at this; cases this

end Nri.Compose
