/-
Sender-side lemmas for property C09: the loop invariant `Good`, the measure `mu`, and a
relational characterisation `StepSpec` of one iteration of the repaired loop under the
invariant. Everything about `run` is then an induction on the fuel over `StepSpec`.
-/
import NriModel.Lemmas.SyncChunk

namespace Nri.SyncChunk

variable {α β υ ε σ : Type}

/-- Loop invariant of the repaired `synchronize`: the per-message counts never exceed what
    remains, and a kind that still has objects to send has a non-zero count. -/
structure Good (s : SState α β) : Prop where
  pLe : s.podsPer ≤ s.podsLeft.length
  cLe : s.ctrsPer ≤ s.ctrsLeft.length
  pPos : 0 < s.podsLeft.length → 0 < s.podsPer
  cPos : 0 < s.ctrsLeft.length → 0 < s.ctrsPer

/-- Termination measure: objects left plus objects per message. -/
def mu (s : SState α β) : Nat :=
  s.podsLeft.length + s.ctrsLeft.length + s.podsPer + s.ctrsPer

theorem good_init (pods : List α) (ctrs : List β) : Good (SState.init pods ctrs) :=
  ⟨Nat.le_refl _, Nat.le_refl _, id, id⟩

theorem mu_init (pods : List α) (ctrs : List β) :
    mu (SState.init pods ctrs) + 1 = fuelBound pods ctrs := by
  simp [mu, SState.init, fuelBound]; omega

/-- state after a successfully answered `more` chunk -/
def advance (s : SState α β) : SState α β :=
  ⟨s.podsLeft.drop s.podsPer, s.ctrsLeft.drop s.ctrsPer,
   min s.podsPer (s.podsLeft.drop s.podsPer).length,
   min s.ctrsPer (s.ctrsLeft.drop s.ctrsPer).length⟩

theorem expected_count (s : SState α β) (hG : Good s) :
    (expected s).count = s.podsPer + s.ctrsPer := by
  simp [expected, Chunk.count, List.length_take, Nat.min_eq_left hG.pLe, Nat.min_eq_left hG.cLe]

theorem expected_more_false (s : SState α β) (hG : Good s) (h : (expected s).more = false) :
    expected s = ⟨s.podsLeft, s.ctrsLeft, false⟩ := by
  have hp := hG.pLe
  have hc := hG.cLe
  simp only [expected, Bool.or_eq_false_iff, decide_eq_false_iff_not, Nat.not_lt] at h
  obtain ⟨h1, h2⟩ := h
  have e1 : s.podsPer = s.podsLeft.length := Nat.le_antisymm hp h1
  have e2 : s.ctrsPer = s.ctrsLeft.length := Nat.le_antisymm hc h2
  simp [expected, e1, e2]

theorem good_advance (s : SState α β) (hG : Good s) : Good (advance s) := by
  have h1 := hG.pLe; have h2 := hG.cLe; have h3 := hG.pPos; have h4 := hG.cPos
  refine ⟨?_, ?_, ?_, ?_⟩ <;> simp only [advance, List.length_drop] <;> omega

theorem mu_advance (s : SState α β) (hG : Good s) (hm : (expected s).more = true) :
    mu (advance s) < mu s ∧ 0 < (expected s).count := by
  have h1 := hG.pLe; have h2 := hG.cLe; have h3 := hG.pPos; have h4 := hG.cPos
  rw [expected_count s hG]
  simp only [expected, Bool.or_eq_true, decide_eq_true_eq] at hm
  simp only [mu, advance, List.length_drop]
  omega

/-- One iteration of the repaired loop, under the invariant, is exactly one of these. -/
inductive StepSpec (E : Env α β υ ε σ) (w : σ) (s : SState α β) :
    σ × List (Ev α β υ) × StepRes α β υ ε → Prop where
  | done (w' : σ) (r : Reply υ) :
      (expected s).more = false → E.size (expected s) ≤ E.limit →
      E.peer w (expected s) = (w', .ok r) →
      StepSpec E w s (w', [.sent (expected s) r], .stop (.done r.update))
  | noSplit (w' : σ) (r : Reply υ) :
      (expected s).more = true → E.size (expected s) ≤ E.limit →
      E.peer w (expected s) = (w', .ok r) → (r.update ≠ [] ∨ r.more = false) →
      StepSpec E w s (w', [.sent (expected s) r], .stop (.failed .noSplit))
  | advance (w' : σ) (r : Reply υ) :
      (expected s).more = true → E.size (expected s) ≤ E.limit →
      E.peer w (expected s) = (w', .ok r) → r.update = [] → r.more = true →
      StepSpec E w s (w', [.sent (expected s) r], .next (advance s))
  | peerErr (w' : σ) (e : ε) :
      E.size (expected s) ≤ E.limit → E.peer w (expected s) = (w', .error e) →
      StepSpec E w s (w', [.errored (expected s)],
        .stop (.failed (if E.exhausted e then .tooLarge else .peer e)))
  | giveUp :
      E.limit < E.size (expected s) →
      E.policy s.podsPer s.ctrsPer E.limit (E.size (expected s)) = none →
      StepSpec E w s (w, [.rejected (expected s) (E.size (expected s))], .stop (.failed .tooLarge))
  | shrink (p k : Nat) :
      E.limit < E.size (expected s) → p + k < s.podsPer + s.ctrsPer →
      Good { s with podsPer := p, ctrsPer := k } →
      StepSpec E w s (w, [.rejected (expected s) (E.size (expected s))],
        .next { s with podsPer := p, ctrsPer := k })

/-- `step` with the two slice expressions in range, written over `expected s`. -/
theorem step_eq (E : Env α β υ ε σ) (w : σ) (s : SState α β) (hG : Good s) :
    step E w s =
      if E.size (expected s) ≤ E.limit then
        match E.peer w (expected s) with
        | (w', .ok r) =>
          if (expected s).more = false then (w', [.sent (expected s) r], .stop (.done r.update))
          else if !r.update.isEmpty || r.more != (expected s).more then
            (w', [.sent (expected s) r], .stop (.failed .noSplit))
          else (w', [.sent (expected s) r], .next (advance s))
        | (w', .error e) =>
          (w', [.errored (expected s)], .stop (.failed (if E.exhausted e then .tooLarge else .peer e)))
      else
        match E.policy s.podsPer s.ctrsPer E.limit (E.size (expected s)) with
        | none => (w, [.rejected (expected s) (E.size (expected s))], .stop (.failed .tooLarge))
        | some (p, k) =>
          (w, [.rejected (expected s) (E.size (expected s))],
            .next { s with podsPer := if E.clamp then min p s.podsLeft.length else p,
                           ctrsPer := if E.clamp then min k s.ctrsLeft.length else k }) := by
  have h1 : sliceTo s.podsLeft s.podsPer = some (s.podsLeft.take s.podsPer) := by
    simp [sliceTo, hG.pLe]
  have h2 : sliceTo s.ctrsLeft s.ctrsPer = some (s.ctrsLeft.take s.ctrsPer) := by
    simp [sliceTo, hG.cLe]
  unfold step
  rw [h1, h2]
  rfl

theorem step_spec (E : Env α β υ ε σ) (m : Nat) (hc : E.clamp = true) (hπ : Shrinks m E.policy)
    (w : σ) (s : SState α β) (hG : Good s) : StepSpec E w s (step E w s) := by
  rw [step_eq E w s hG]
  by_cases hfit : E.size (expected s) ≤ E.limit
  · rw [if_pos hfit]
    rcases hp : E.peer w (expected s) with ⟨w', res⟩
    cases res with
    | error e => exact StepSpec.peerErr w' e hfit hp
    | ok r =>
      simp only []
      by_cases hm : (expected s).more = false
      · rw [if_pos hm]; exact .done w' r hm hfit hp
      · rw [if_neg hm]
        have hm' : (expected s).more = true := by simpa using hm
        by_cases hb : (!r.update.isEmpty || r.more != (expected s).more) = true
        · rw [if_pos hb]
          refine .noSplit w' r hm' hfit hp ?_
          rw [hm'] at hb
          cases hu : r.update with
          | nil =>
            right
            simp [hu] at hb
            exact hb
          | cons a l => left; simp
        · rw [if_neg hb]
          rw [hm'] at hb
          have hu : r.update = [] := by
            cases hu : r.update with
            | nil => rfl
            | cons a l => simp [hu] at hb
          have hrm : r.more = true := by
            cases hr : r.more with
            | true => rfl
            | false => simp [hu, hr] at hb
          exact .advance w' r hm' hfit hp hu hrm
  · rw [if_neg hfit]
    have hlt : E.limit < E.size (expected s) := Nat.lt_of_not_le hfit
    cases hpol : E.policy s.podsPer s.ctrsPer E.limit (E.size (expected s)) with
    | none => exact .giveUp hlt hpol
    | some pk =>
      obtain ⟨p, k⟩ := pk
      simp only [hc, if_true]
      have hd := hπ.decreases _ _ _ _ _ _ hpol
      have hpos := hπ.positive _ _ _ _ _ _ hpol
      have h1 := hG.pLe; have h2 := hG.cLe; have h3 := hG.pPos; have h4 := hG.cPos
      refine .shrink _ _ hlt ?_ ⟨?_, ?_, ?_, ?_⟩
      · omega
      · exact Nat.min_le_right _ _
      · exact Nat.min_le_right _ _
      · intro (hl : 0 < s.podsLeft.length)
        have := hpos.1 (h3 hl)
        show 0 < min p s.podsLeft.length
        omega
      · intro (hl : 0 < s.ctrsLeft.length)
        have := hpos.2 (h4 hl)
        show 0 < min k s.ctrsLeft.length
        omega

theorem run_zero (E : Env α β υ ε σ) (w : σ) (s : SState α β) :
    run E 0 w s = ⟨[], .outOfFuel, w⟩ := rfl

theorem run_succ (E : Env α β υ ε σ) (n : Nat) (w : σ) (s : SState α β) :
    run E (n + 1) w s =
      match step E w s with
      | (w', evs, .stop o) => ⟨evs, o, w'⟩
      | (w', evs, .next s') => ⟨evs ++ (run E n w' s').evs, (run E n w' s').out, (run E n w' s').world⟩ := rfl

theorem stepSpec_next_good {E : Env α β υ ε σ} {w w' : σ} {s s' : SState α β}
    {evs : List (Ev α β υ)} (hG : Good s) (h : StepSpec E w s (w', evs, .next s')) :
    Good s' ∧ mu s' < mu s := by
  cases h with
  | advance w' r hm _ _ _ _ => exact ⟨good_advance s hG, (mu_advance s hG hm).1⟩
  | shrink p k _ hlt hg => exact ⟨hg, by simp only [mu]; omega⟩

/-- Induction over the repaired loop: a property of runs follows from its three cases. -/
theorem run_induction (E : Env α β υ ε σ) (m : Nat) (hc : E.clamp = true)
    (hπ : Shrinks m E.policy) (P : Nat → σ → SState α β → Run α β υ ε σ → Prop)
    (h0 : ∀ w s, Good s → P 0 w s ⟨[], .outOfFuel, w⟩)
    (hstop : ∀ n w s w' evs o, Good s → StepSpec E w s (w', evs, .stop o) →
      P (n + 1) w s ⟨evs, o, w'⟩)
    (hnext : ∀ n w s w' evs s' r, Good s → StepSpec E w s (w', evs, .next s') → Good s' →
      mu s' < mu s → r = run E n w' s' → P n w' s' r →
      P (n + 1) w s ⟨evs ++ r.evs, r.out, r.world⟩) :
    ∀ fuel w s, Good s → P fuel w s (run E fuel w s) := by
  intro fuel
  induction fuel with
  | zero => intro w s hG; exact h0 w s hG
  | succ n ih =>
    intro w s hG
    have hs := step_spec E m hc hπ w s hG
    rw [run_succ]
    rcases hstep : step E w s with ⟨w', evs, res⟩
    rw [hstep] at hs
    cases res with
    | stop o => exact hstop n w s w' evs o hG hs
    | next s' =>
      obtain ⟨hG', hmu⟩ := stepSpec_next_good hG hs
      exact hnext n w s w' evs s' _ hG hs hG' hmu rfl (ih w' s' hG')

theorem plan_sent_append (c : Chunk α β) (r : Reply υ) (evs : List (Ev α β υ)) :
    plan ([Ev.sent c r] ++ evs) = c :: plan evs := rfl

theorem plan_rejected_append (c : Chunk α β) (n : Nat) (evs : List (Ev α β υ)) :
    plan ([Ev.rejected (υ := υ) c n] ++ evs) = plan evs := rfl

theorem expected_more_true (s : SState α β) (h : (expected s).more = true) :
    expected s = ⟨s.podsLeft.take s.podsPer, s.ctrsLeft.take s.ctrsPer, true⟩ := by
  simp only [expected] at h ⊢
  rw [h]

/-- The repaired loop never faults, terminates within `mu s + 1` iterations, produces a
    valid plan when it succeeds, and never sends an empty `more` chunk. -/
theorem run_main (E : Env α β υ ε σ) (m : Nat) (hc : E.clamp = true) (hπ : Shrinks m E.policy) :
    ∀ fuel w s, Good s →
      (run E fuel w s).out ≠ .fault ∧
      (mu s < fuel → (run E fuel w s).out ≠ .outOfFuel) ∧
      (∀ u, (run E fuel w s).out = .done u →
        ValidPlan (fun c => E.size c ≤ E.limit) s.podsLeft s.ctrsLeft (plan (run E fuel w s).evs)) ∧
      (∀ c ∈ plan (run E fuel w s).evs, c.more = true → 0 < c.count) := by
  apply run_induction E m hc hπ
    (fun fuel _ s r => r.out ≠ .fault ∧ (mu s < fuel → r.out ≠ .outOfFuel) ∧
      (∀ u, r.out = .done u →
        ValidPlan (fun c => E.size c ≤ E.limit) s.podsLeft s.ctrsLeft (plan r.evs)) ∧
      (∀ c ∈ plan r.evs, c.more = true → 0 < c.count))
  · intro w s _
    refine ⟨by simp, by intro h; omega, (by intro u h; cases h), (by intro c h; simp [plan] at h)⟩
  · intro n w s w' evs o hG hs
    cases hs with
    | done w' r hm hfit hp =>
      refine ⟨by simp, by simp, ?_, ?_⟩
      · intro u _
        rw [show plan [Ev.sent (expected s) r] = [expected s] from rfl, expected_more_false s hG hm]
        apply ValidPlan.last
        rw [← expected_more_false s hG hm]; exact hfit
      · intro c hc hmc
        rw [show plan [Ev.sent (expected s) r] = [expected s] from rfl] at hc
        simp only [List.mem_singleton] at hc
        subst hc; rw [hm] at hmc; cases hmc
    | noSplit w' r hm hfit hp hr =>
      refine ⟨by simp, by simp, (by intro u h; cases h), ?_⟩
      intro c hc _
      rw [show plan [Ev.sent (expected s) r] = [expected s] from rfl] at hc
      simp only [List.mem_singleton] at hc
      subst hc; exact (mu_advance s hG hm).2
    | peerErr w' e hfit hp =>
      refine ⟨by simp, by simp, (by intro u h; cases h), (by intro c h; simp [plan] at h)⟩
    | giveUp hlt hpol =>
      refine ⟨by simp, by simp, (by intro u h; cases h), (by intro c h; simp [plan] at h)⟩
  · intro n w s w' evs s' r hG hs hG' hmu _ ih
    obtain ⟨ih1, ih2, ih3, ih4⟩ := ih
    cases hs with
    | advance w' r0 hm hfit hp hu hrm =>
      refine ⟨ih1, by intro h; exact ih2 (by omega), ?_, ?_⟩
      · intro u hu'
        rw [plan_sent_append, expected_more_true s hm]
        have hcnt := (mu_advance s hG hm).2
        rw [expected_count s hG] at hcnt
        refine ValidPlan.more _ _ _ _ _ hG.pLe hG.cLe hcnt ?_ (ih3 u hu')
        rw [← expected_more_true s hm]; exact hfit
      · intro c hc hmc
        rw [plan_sent_append] at hc
        rcases List.mem_cons.mp hc with rfl | hc
        · exact (mu_advance s hG hm).2
        · exact ih4 c hc hmc
    | shrink p k hlt hdec hg =>
      refine ⟨ih1, by intro h; exact ih2 (by omega), ?_, ?_⟩
      · intro u hu'
        rw [plan_rejected_append]
        exact ih3 u hu'
      · intro c hc hmc
        rw [plan_rejected_append] at hc
        exact ih4 c hc hmc

end Nri.SyncChunk
