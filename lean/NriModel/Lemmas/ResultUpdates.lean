/-
Lemmas about the update list the result.go model collects (`State.updates`, `State.own`):
which targets have an entry, that there is one entry per target, and that the entry of the
container being updated is kept apart. Core Lean only.
-/
import NriModel.Lemmas.ResultSteps

namespace Nri.Result
open Nri.NApi Nri.Ledger

def ids (l : List Update) : List Cid := l.map (·.containerId)

/-- the target containers a chain's update lists mention -/
def touched : List (Plugin × Option Response) → List Cid
  | [] => []
  | (_, none) :: rest => touched rest
  | (_, some r) :: rest => ids r.updates ++ touched rest

/-- well-formedness of the collected update list -/
structure UpdWF (st : State) : Prop where
  nodup : (ids st.updates).Nodup
  third : ∀ id ∈ ids st.updates, isOwn st.kind id = false
  own : ∀ e, st.own = some e → isOwn st.kind e.containerId = true

/-! ### the creation adjustment does not touch the update list -/

theorem adjustData_updates (q st a) :
    (adjustData q st a).updates = st.updates ∧ (adjustData q st a).own = st.own := by
  have h1 : ∀ s x, (annData q s x).updates = s.updates ∧ (annData q s x).own = s.own := by
    intro s x; unfold annData; simp
  have h4 : ∀ s x, (argsData s x).updates = s.updates ∧ (argsData s x).own = s.own := by
    intro s x; unfold argsData; split <;> exact ⟨rfl, rfl⟩
  have h5 : ∀ s x, (hooksData s x).updates = s.updates ∧ (hooksData s x).own = s.own := by
    intro s x; unfold hooksData; split <;> exact ⟨rfl, rfl⟩
  have h7 : ∀ s x, (resData s x).updates = s.updates ∧ (resData s x).own = s.own := by
    intro s x; unfold resData; split <;> exact ⟨rfl, rfl⟩
  have h8 : ∀ s x, (cgroupsData s x).updates = s.updates ∧ (cgroupsData s x).own = s.own := by
    intro s x; unfold cgroupsData; split <;> exact ⟨rfl, rfl⟩
  have h9 : ∀ s x, (oomData s x).updates = s.updates ∧ (oomData s x).own = s.own := by
    intro s x; unfold oomData; split <;> exact ⟨rfl, rfl⟩
  unfold adjustData
  simp only []
  split
  · constructor
    · show (cdiData (rlimitData _ _) _).updates = _
      simp only [cdiData, rlimitData, (h9 _ _).1, (h8 _ _).1, (h7 _ _).1, deviceData, (h5 _ _).1, (h4 _ _).1, envData, mountData, (h1 _ _).1]
    · show (cdiData (rlimitData _ _) _).own = _
      simp only [cdiData, rlimitData, (h9 _ _).2, (h8 _ _).2, (h7 _ _).2, deviceData, (h5 _ _).2, (h4 _ _).2, envData, mountData, (h1 _ _).2]
  · constructor
    · show (cdiData (rlimitData _ _) _).updates = _
      simp only [cdiData, rlimitData, (h5 _ _).1, (h4 _ _).1, envData, mountData, (h1 _ _).1]
    · show (cdiData (rlimitData _ _) _).own = _
      simp only [cdiData, rlimitData, (h5 _ _).2, (h4 _ _).2, envData, mountData, (h1 _ _).2]

theorem adjust_updates (q st st' p a) (h : adjust q st p a = .ok st') :
    st'.updates = st.updates ∧ st'.own = st.own := by
  cases a with
  | none => simp [adjust] at h; subst h; exact ⟨rfl, rfl⟩
  | some a =>
    obtain ⟨o, _, rfl⟩ := (adjust_ok_iff q st st' p a).1 h
    exact adjustData_updates q st a

/-! ### getUpdate -/

theorem ids_map_keep (l : List Update) (f : Update → Update) (hf : ∀ e, (f e).containerId = e.containerId) :
    ids (l.map f) = ids l := by
  unfold ids; rw [List.map_map]; congr 1; funext e; exact hf e

/-- what `getUpdate` does to the entry list, when it succeeds -/
theorem getUpdate_spec (q st st1 p u) (h : getUpdate q st p u = .ok st1) :
    (isOwn st.kind u.containerId = true →
       ids st1.updates = ids st.updates ∧ ∃ e, st1.own = some e ∧
         (e.containerId = u.containerId ∨ ∃ e0, st.own = some e0 ∧ e.containerId = e0.containerId)) ∧
    (isOwn st.kind u.containerId = false →
       st1.own = st.own ∧
       (ids st1.updates = ids st.updates ∧ u.containerId ∈ ids st.updates ∨
        ids st1.updates = ids st.updates ++ [u.containerId] ∧ u.containerId ∉ ids st.updates)) := by
  have hgo : getUpdate.go q st u = .ok st1 := by
    unfold getUpdate at h
    split at h
    · split at h
      · cases h
      · exact h
    · exact h
  unfold getUpdate.go at hgo
  constructor
  · intro hown
    simp only [hown, ↓reduceIte] at hgo
    split at hgo
    · rename_i e0 he0
      cases hgo
      exact ⟨rfl, _, rfl, .inr ⟨e0, he0, rfl⟩⟩
    · cases hgo
      refine ⟨rfl, _, rfl, .inl ?_⟩
      split <;> rfl
  · intro hown
    simp only [hown, Bool.false_eq_true, ↓reduceIte] at hgo
    split at hgo
    · rename_i hany
      cases hgo
      refine ⟨rfl, .inl ⟨?_, ?_⟩⟩
      · apply ids_map_keep; intro e; split <;> rfl
      · simp only [List.any_eq_true, decide_eq_true_eq] at hany
        obtain ⟨e, he, heq⟩ := hany
        exact List.mem_map.2 ⟨e, he, heq⟩
    · rename_i hany
      cases hgo
      refine ⟨rfl, .inr ⟨?_, ?_⟩⟩
      · simp [ids, emptyUpdate]
      · intro hm
        apply hany
        simp only [List.any_eq_true, decide_eq_true_eq]
        obtain ⟨e, he, heq⟩ := List.mem_map.1 hm
        exact ⟨e, he, heq⟩

theorem setEntryRes_ids (st id res) :
    ids (setEntryRes st id res).updates = ids st.updates ∧
    ((setEntryRes st id res).own.map (·.containerId)) = st.own.map (·.containerId) := by
  unfold setEntryRes
  split
  · refine ⟨rfl, ?_⟩
    cases st.own <;> rfl
  · refine ⟨?_, rfl⟩
    apply ids_map_keep; intro e; split <;> rfl

theorem updData_ids (q st u) :
    ids (updData q st u).updates = ids st.updates ∧
    ((updData q st u).own.map (·.containerId)) = st.own.map (·.containerId) := by
  unfold updData
  split
  · exact ⟨rfl, rfl⟩
  · exact setEntryRes_ids _ _ _

/-- the entry list after one update of a response: the same targets, plus the update's
    target if it is new; an ignored, dropped update still creates its (empty) entry -/
theorem update1_ids (q st st' p u) (h : update1 q st p u = .ok st') :
    (isOwn st.kind u.containerId = true →
       ids st'.updates = ids st.updates ∧ ∃ e, st'.own = some e ∧
         (e.containerId = u.containerId ∨ ∃ e0, st.own = some e0 ∧ e.containerId = e0.containerId)) ∧
    (isOwn st.kind u.containerId = false →
       st'.own.map (·.containerId) = st.own.map (·.containerId) ∧
       (ids st'.updates = ids st.updates ∧ u.containerId ∈ ids st.updates ∨
        ids st'.updates = ids st.updates ++ [u.containerId] ∧ u.containerId ∉ ids st.updates)) := by
  rcases update1_cases q st p u with ⟨e, _, he⟩ | ⟨st1, hg, h2⟩
  · rw [he] at h; cases h
  · have hs := getUpdate_spec q st st1 p u hg
    have hfin : ids st'.updates = ids st1.updates ∧ st'.own.map (·.containerId) = st1.own.map (·.containerId) := by
      rcases h2 with ⟨o, _, hu⟩ | ⟨o, e, _, (⟨_, hu⟩ | ⟨_, hu⟩)⟩
      · rw [hu] at h; cases h; exact updData_ids q st1 u
      · rw [hu] at h; cases h; exact ⟨rfl, rfl⟩
      · rw [hu] at h; cases h
    constructor
    · intro hown
      obtain ⟨hi, e, he1, hc⟩ := hs.1 hown
      refine ⟨by rw [hfin.1, hi], ?_⟩
      have hm := hfin.2
      rw [he1] at hm
      cases ho' : st'.own with
      | none => rw [ho'] at hm; cases hm
      | some e' =>
        rw [ho'] at hm
        simp at hm
        refine ⟨e', rfl, ?_⟩
        rw [hm]; exact hc
    · intro hown
      obtain ⟨ho, hi⟩ := hs.2 hown
      refine ⟨by rw [hfin.2, ho], ?_⟩
      rcases hi with ⟨h1, h2'⟩ | ⟨h1, h2'⟩
      · exact .inl ⟨by rw [hfin.1, h1], h2'⟩
      · exact .inr ⟨by rw [hfin.1, h1], h2'⟩

end Nri.Result

namespace Nri.Result
open Nri.NApi Nri.Ledger

theorem update1_entries (q st st' p u) (h : update1 q st p u = .ok st') (wf : UpdWF st) :
    UpdWF st' ∧
    (∀ id, id ∈ ids st'.updates ↔ id ∈ ids st.updates ∨ (id = u.containerId ∧ isOwn st.kind id = false)) ∧
    (st'.own.isSome = true ↔ st.own.isSome = true ∨ isOwn st.kind u.containerId = true) := by
  have hk := update1_kind q st st' p u h
  have hi := update1_ids q st st' p u h
  cases hown : isOwn st.kind u.containerId with
  | true =>
    obtain ⟨hids, e, he, hc⟩ := hi.1 hown
    refine ⟨⟨by rw [hids]; exact wf.nodup, by rw [hids, hk]; exact wf.third, ?_⟩, ?_, ?_⟩
    · intro e' he'
      rw [he] at he'; cases he'
      rw [hk]
      rcases hc with hc | ⟨e0, he0, hc⟩
      · rw [hc]; exact hown
      · rw [hc]; exact wf.own e0 he0
    · intro id
      rw [hids]
      constructor
      · exact fun h => .inl h
      · rintro (h | ⟨rfl, h⟩)
        · exact h
        · rw [hown] at h; cases h
    · rw [he]; simp
  | false =>
    obtain ⟨ho, hids⟩ := hi.2 hown
    have hsome : st'.own.isSome = st.own.isSome := by
      cases h1 : st'.own <;> cases h2 : st.own <;> simp [h1, h2] at ho ⊢
    refine ⟨⟨?_, ?_, ?_⟩, ?_, ?_⟩
    · rcases hids with ⟨h1, _⟩ | ⟨h1, h2⟩
      · rw [h1]; exact wf.nodup
      · rw [h1]
        exact List.nodup_append.2 ⟨wf.nodup, by simp, by
          intro a ha b hb; simp at hb; subst hb; intro heq; subst heq; exact h2 ha⟩
    · intro id hid
      rw [hk]
      rcases hids with ⟨h1, _⟩ | ⟨h1, _⟩
      · rw [h1] at hid; exact wf.third id hid
      · rw [h1] at hid
        rcases List.mem_append.1 hid with h3 | h3
        · exact wf.third id h3
        · simp at h3; subst h3; exact hown
    · intro e' he'
      rw [hk]
      cases h2 : st.own with
      | none => rw [he', h2] at ho; cases ho
      | some e0 =>
        rw [he', h2] at ho; simp at ho
        rw [ho]; exact wf.own e0 h2
    · intro id
      rcases hids with ⟨h1, h2⟩ | ⟨h1, _⟩
      · rw [h1]
        constructor
        · exact fun h => .inl h
        · rintro (h | ⟨rfl, _⟩)
          · exact h
          · exact h2
      · rw [h1]
        simp only [List.mem_append, List.mem_singleton]
        constructor
        · rintro (h | rfl)
          · exact .inl h
          · exact .inr ⟨rfl, hown⟩
        · rintro (h | ⟨rfl, _⟩)
          · exact .inl h
          · exact .inr rfl
    · rw [hsome]; simp

theorem updateAll_entries (q st st' p us) (h : updateAll q st p us = .ok st') (wf : UpdWF st) :
    UpdWF st' ∧
    (∀ id, id ∈ ids st'.updates ↔ id ∈ ids st.updates ∨ (id ∈ ids us ∧ isOwn st.kind id = false)) ∧
    (st'.own.isSome = true ↔ st.own.isSome = true ∨ ∃ id ∈ ids us, isOwn st.kind id = true) := by
  induction us generalizing st with
  | nil => simp [updateAll] at h; subst h; simp [ids, wf]
  | cons u rest ih =>
    simp only [updateAll] at h
    cases h1 : update1 q st p u with
    | error e => rw [h1] at h; cases h
    | ok st1 =>
      rw [h1] at h
      have hk := update1_kind q st st1 p u h1
      obtain ⟨wf1, hid1, hown1⟩ := update1_entries q st st1 p u h1 wf
      obtain ⟨wf', hid', hown'⟩ := ih st1 h wf1
      refine ⟨wf', ?_, ?_⟩
      · intro id
        rw [hid' id, hid1 id, hk]
        simp only [ids, List.map_cons, List.mem_cons]
        constructor
        · rintro ((h | ⟨rfl, h⟩) | ⟨h, h2⟩)
          · exact .inl h
          · exact .inr ⟨.inl rfl, h⟩
          · exact .inr ⟨.inr h, h2⟩
        · rintro (h | ⟨(rfl | h), h2⟩)
          · exact .inl (.inl h)
          · exact .inl (.inr ⟨rfl, h2⟩)
          · exact .inr ⟨h, h2⟩
      · rw [hown', hown1, hk]
        simp only [ids, List.map_cons, List.mem_cons]
        constructor
        · rintro ((h | h) | ⟨id, h, h2⟩)
          · exact .inl h
          · exact .inr ⟨_, .inl rfl, h⟩
          · exact .inr ⟨id, .inr h, h2⟩
        · rintro (h | ⟨id, (rfl | h), h2⟩)
          · exact .inl (.inl h)
          · exact .inl (.inr h2)
          · exact .inr ⟨id, h, h2⟩

theorem apply_entries (q st st' p r) (h : apply q st p r = .ok st') (wf : UpdWF st) :
    UpdWF st' ∧
    (∀ id, id ∈ ids st'.updates ↔ id ∈ ids st.updates ∨ (id ∈ ids r.updates ∧ isOwn st.kind id = false)) ∧
    (st'.own.isSome = true ↔ st.own.isSome = true ∨ ∃ id ∈ ids r.updates, isOwn st.kind id = true) := by
  unfold apply at h
  split at h
  · cases h1 : adjust q st p r.adjust with
    | error e => rw [h1] at h; cases h
    | ok st1 =>
      rw [h1] at h
      have hk := adjust_kind q st st1 p r.adjust h1
      obtain ⟨hu, ho⟩ := adjust_updates q st st1 p r.adjust h1
      have wf1 : UpdWF st1 := ⟨by rw [hu]; exact wf.nodup, by rw [hu, hk]; exact wf.third, by rw [ho, hk]; exact wf.own⟩
      have := updateAll_entries q st1 st' p r.updates h wf1
      rw [hu, ho, hk] at this
      exact this
  · exact updateAll_entries q st st' p r.updates h wf

theorem run_entries (q st st' rs) (h : run q st rs = .ok st') (wf : UpdWF st) :
    UpdWF st' ∧
    (∀ id, id ∈ ids st'.updates ↔ id ∈ ids st.updates ∨ (id ∈ touched rs ∧ isOwn st.kind id = false)) ∧
    (st'.own.isSome = true ↔ st.own.isSome = true ∨ ∃ id ∈ touched rs, isOwn st.kind id = true) := by
  induction rs generalizing st with
  | nil => simp [run] at h; subst h; simp [touched, wf]
  | cons x rest ih =>
    obtain ⟨p, r⟩ := x
    cases r with
    | none => simp only [run] at h; simpa [touched] using ih st h wf
    | some r =>
      simp only [run] at h
      cases h1 : apply q st p r with
      | error e => rw [h1] at h; cases h
      | ok st1 =>
        rw [h1] at h
        have hk := apply_kind q st st1 p r h1
        obtain ⟨wf1, hid1, hown1⟩ := apply_entries q st st1 p r h1 wf
        obtain ⟨wf', hid', hown'⟩ := ih st1 h wf1
        refine ⟨wf', ?_, ?_⟩
        · intro id
          rw [hid' id, hid1 id, hk]
          simp only [touched, List.mem_append]
          constructor
          · rintro ((h | ⟨h, h2⟩) | ⟨h, h2⟩)
            · exact .inl h
            · exact .inr ⟨.inl h, h2⟩
            · exact .inr ⟨.inr h, h2⟩
          · rintro (h | ⟨(h | h), h2⟩)
            · exact .inl (.inl h)
            · exact .inl (.inr ⟨h, h2⟩)
            · exact .inr ⟨h, h2⟩
        · rw [hown', hown1, hk]
          simp only [touched, List.mem_append]
          constructor
          · rintro ((h | ⟨id, h, h2⟩) | ⟨id, h, h2⟩)
            · exact .inl h
            · exact .inr ⟨id, .inl h, h2⟩
            · exact .inr ⟨id, .inr h, h2⟩
          · rintro (h | ⟨id, (h | h), h2⟩)
            · exact .inl (.inl h)
            · exact .inl (.inr ⟨id, h, h2⟩)
            · exact .inr ⟨id, h, h2⟩

/-- an update that targets the container being created fails the request -/
theorem updateAll_fails_of_self (q st p us id) (hk : st.kind = .create id) (u : Update) (hu : u ∈ us)
    (hid : u.containerId = id) : ∃ e, updateAll q st p us = .error e := by
  induction us generalizing st with
  | nil => cases hu
  | cons x rest ih =>
    simp only [updateAll]
    cases h1 : update1 q st p x with
    | error e => exact ⟨e, rfl⟩
    | ok st1 =>
      cases hu with
      | head =>
        exfalso
        unfold update1 getUpdate at h1
        rw [hk] at h1
        simp [hid] at h1
      | tail _ hu' =>
        exact ih st1 (by rw [update1_kind q st st1 p x h1]; exact hk) hu'

end Nri.Result
