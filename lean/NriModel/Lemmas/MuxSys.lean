/-
The reader of the two-ended model (`MuxSys.lean`) consumes the trunk with `decodeOne`, one
frame at a time; this is the same function as the `decode` the C10/C11 theorems are about.
-/
import NriModel.MuxSys
import NriModel.Lemmas.MuxCodec

namespace Nri.Mux

theorem decode_eq_decodeOne (s : Bytes) :
    decode s = match decodeOne s with
      | some (f, rest) => (f :: (decode rest).1, (decode rest).2)
      | none => ([], s) := by
  match s with
  | x0 :: x1 :: x2 :: x3 :: x4 :: x5 :: x6 :: x7 :: rest =>
    rw [decode]
    simp only [decodeOne]
    split <;> rfl
  | [] => rw [decode_short _ (by simp)]; rfl
  | [_] => rw [decode_short _ (by simp)]; rfl
  | [_, _] => rw [decode_short _ (by simp)]; rfl
  | [_, _, _] => rw [decode_short _ (by simp)]; rfl
  | [_, _, _, _] => rw [decode_short _ (by simp)]; rfl
  | [_, _, _, _, _] => rw [decode_short _ (by simp)]; rfl
  | [_, _, _, _, _, _] => rw [decode_short _ (by simp)]; rfl
  | [_, _, _, _, _, _, _] => rw [decode_short _ (by simp)]; rfl

/-- the tap forwards a prefix of what is written to it -/
theorem Wire.push_sent_prefix (w : Wire) (bs : Bytes) : w.sent <+: (w.push bs).sent := by
  unfold Wire.push
  split
  · exact List.prefix_refl _
  · split
    · exact List.prefix_append _ _
    · split <;> exact List.prefix_append _ _

end Nri.Mux
