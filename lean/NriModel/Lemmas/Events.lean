/-
Lemmas about the event-mask model (`NriModel/Events.lean`): bit-level reading of
`isSet`/`set`/`clear`, their algebra and frame lemmas, and the structural pieces of the
`parse ∘ pretty` round trip (C14_mask). Core Lean only.
-/
import NriModel.Events

namespace Nri.Events

/-! ## bits -/

theorem getLsbD_bit (e i : Nat) : (bit e).getLsbD i = decide (i = e - 1 ∧ i < 32) := by
  unfold bit
  rw [BitVec.getLsbD_shiftLeft, BitVec.getLsbD_one]
  by_cases h : i = e - 1 ∧ i < 32
  · obtain ⟨h1, h2⟩ := h
    subst h1
    simp [h2]
  · simp only [h, decide_false]
    by_cases h2 : i < 32
    · have : i ≠ e - 1 := fun hh => h ⟨hh, h2⟩
      by_cases h3 : i < e - 1
      · simp [h3]
      · have : i - (e - 1) ≠ 0 := by omega
        simp [this]
    · simp [h2]

theorem and_bit (m : Mask) (e : Nat) :
    m &&& bit e = if m.getLsbD (e - 1) then bit e else 0#32 := by
  apply BitVec.eq_of_getLsbD_eq
  intro i hi
  rw [BitVec.getLsbD_and, getLsbD_bit]
  by_cases h : i = e - 1
  · subst h
    cases hm : m.getLsbD (e - 1) <;> simp [getLsbD_bit, hi]
  · split <;> simp [h, getLsbD_bit]

theorem bit_ne_zero {e : Nat} (h : e - 1 < 32) : bit e ≠ 0#32 := by
  intro hz
  have := getLsbD_bit e (e - 1)
  rw [hz] at this
  simp [h] at this

/-- `IsSet(e)` reads bit `e-1` -/
theorem isSet_eq (m : Mask) (e : Nat) : isSet m e = m.getLsbD (e - 1) := by
  unfold isSet
  rw [and_bit]
  cases hm : m.getLsbD (e - 1)
  · simp
  · have hlt : e - 1 < 32 := by
      rcases Nat.lt_or_ge (e - 1) 32 with hge | hge
      · exact hge
      · have := BitVec.getLsbD_of_ge m (e - 1) hge
        rw [this] at hm
        cases hm
    simpa using bit_ne_zero hlt

theorem getLsbD_set (m : Mask) (e i : Nat) :
    (set m e).getLsbD i = (m.getLsbD i || decide (i = e - 1 ∧ i < 32)) := by
  unfold set; rw [BitVec.getLsbD_or, getLsbD_bit]

theorem getLsbD_clear (m : Mask) (e i : Nat) :
    (clear m e).getLsbD i = (m.getLsbD i && !decide (i = e - 1 ∧ i < 32)) := by
  unfold clear
  rw [BitVec.getLsbD_and, BitVec.getLsbD_not, getLsbD_bit]
  by_cases hi : i < 32
  · simp [hi]
  · have := BitVec.getLsbD_of_ge m i (by omega)
    simp [this]

/-! ## algebra of IsSet / Set / Clear -/

theorem isSet_set_self (m : Mask) {e : Nat} (h : e ≤ 32) : isSet (set m e) e = true := by
  rw [isSet_eq, getLsbD_set]
  have : e - 1 < 32 := by omega
  simp [this]

theorem isSet_clear_self (m : Mask) (e : Nat) : isSet (clear m e) e = false := by
  rw [isSet_eq, getLsbD_clear]
  by_cases h : e - 1 < 32
  · simp [h]
  · have := BitVec.getLsbD_of_ge m (e - 1) (by omega)
    simp [this]

/-- frame: setting event `e` does not change the reading of another event `e'` (both ≥ 1) -/
theorem isSet_set_other (m : Mask) {e e' : Nat} (h1 : 1 ≤ e) (h2 : 1 ≤ e') (hne : e ≠ e') :
    isSet (set m e) e' = isSet m e' := by
  rw [isSet_eq, isSet_eq, getLsbD_set]
  have : ¬ (e' - 1 = e - 1 ∧ e' - 1 < 32) := by omega
  simp [this]

theorem isSet_clear_other (m : Mask) {e e' : Nat} (h1 : 1 ≤ e) (h2 : 1 ≤ e') (hne : e ≠ e') :
    isSet (clear m e) e' = isSet m e' := by
  rw [isSet_eq, isSet_eq, getLsbD_clear]
  have : ¬ (e' - 1 = e - 1 ∧ e' - 1 < 32) := by omega
  simp [this]

theorem isSet_clear_le (m : Mask) (e e' : Nat) : isSet (clear m e) e' = true → isSet m e' = true := by
  rw [isSet_eq, isSet_eq, getLsbD_clear]
  intro h
  simp at h
  exact h.1

theorem set_set_comm (m : Mask) (e e' : Nat) : set (set m e) e' = set (set m e') e := by
  unfold set; rw [BitVec.or_assoc, BitVec.or_comm (bit e), ← BitVec.or_assoc]

theorem set_idem (m : Mask) (e : Nat) : set (set m e) e = set m e := by
  unfold set; rw [BitVec.or_assoc, BitVec.or_self]

theorem clear_set_self (m : Mask) (e : Nat) : clear (set m e) e = clear m e := by
  apply BitVec.eq_of_getLsbD_eq
  intro i _
  rw [getLsbD_clear, getLsbD_clear, getLsbD_set]
  cases decide (i = e - 1 ∧ i < 32) <;> simp

theorem set_clear_of_isSet (m : Mask) (e : Nat) (h : isSet m e = true) : set (clear m e) e = m := by
  rw [isSet_eq] at h
  apply BitVec.eq_of_getLsbD_eq
  intro i _
  rw [getLsbD_set, getLsbD_clear]
  by_cases hi : i = e - 1 ∧ i < 32
  · obtain ⟨h1, _⟩ := hi
    subst h1
    simp [h]
  · simp [hi]

theorem valid_eq : valid = 0x1fff#32 := by decide

theorem getLsbD_valid (i : Nat) : valid.getLsbD i = decide (i < 13) := by
  rw [valid_eq, show (0x1fff#32) = BitVec.ofNat 32 (2 ^ 13 - 1) from rfl, BitVec.getLsbD_ofNat,
    Nat.testBit_two_pow_sub_one]
  by_cases h : i < 13
  · have : i < 32 := by omega
    simp [h, this]
  · simp [h]

/-- for event numbers ≥ 1, `ValidEvents` has exactly the events 1 … 13 -/
theorem isSet_valid {e : Nat} (h : 1 ≤ e) : isSet valid e = decide (e ≤ 13) := by
  rw [isSet_eq, getLsbD_valid]
  by_cases h2 : e ≤ 13
  · have : e - 1 < 13 := by omega
    simp [h2, this]
  · have : ¬ e - 1 < 13 := by omega
    simp [h2, this]

/-- a mask within `ValidEvents` has no bit at or above 13 -/
theorem getLsbD_of_valid {m : Mask} (h : m &&& ~~~valid = 0#32) {i : Nat} (hi : 13 ≤ i) :
    m.getLsbD i = false := by
  by_cases h32 : i < 32
  · have := congrArg (fun x => BitVec.getLsbD x i) h
    simp only [BitVec.getLsbD_and, BitVec.getLsbD_not, getLsbD_valid] at this
    have hn : ¬ i < 13 := by omega
    simpa [h32, hn] using this
  · exact BitVec.getLsbD_of_ge _ i (by omega)


/-- "within `ValidEvents`" is "at most 8191" -/
theorem within_valid_iff (m : Mask) : m &&& ~~~valid = 0#32 ↔ m.toNat ≤ 8191 := by
  constructor
  · intro h
    have : m.toNat < 2 ^ 13 := by
      apply Nat.lt_pow_two_of_testBit
      intro i hi
      have := getLsbD_of_valid h hi
      simpa [BitVec.getLsbD] using this
    omega
  · intro h
    apply BitVec.eq_of_getLsbD_eq
    intro i hi
    rw [BitVec.getLsbD_and, BitVec.getLsbD_not, getLsbD_valid]
    by_cases h13 : i < 13
    · simp [h13]
    · have : m.getLsbD i = false := by
        rw [BitVec.getLsbD]
        apply Nat.testBit_lt_two_pow
        have : 2 ^ 13 ≤ 2 ^ i := Nat.pow_le_pow_right (by omega) (by omega)
        omega
      simp [this]

/-! ## `PrettyString`: the loop, read as "the list of set events" and "what is left" -/

/-- the event numbers `prettyLoop` finds set, in order -/
def evs : Nat → Nat → Mask → List Nat
  | 0, _, _ => []
  | f + 1, e, m => if isSet m e then e :: evs f (e + 1) (clear m e) else evs f (e + 1) m

/-- the mask `prettyLoop` is left with -/
def rest : Nat → Nat → Mask → Mask
  | 0, _, m => m
  | f + 1, e, m => if isSet m e then rest f (e + 1) (clear m e) else rest f (e + 1) m

theorem prettyLoop_eq (fuel : Nat) (e : Nat) (m : Mask) (acc : List Str) :
    prettyLoop fuel e m acc = (acc.reverse ++ (evs fuel e m).map prettyName, rest fuel e m) := by
  induction fuel generalizing e m acc with
  | zero => simp [prettyLoop, evs, rest]
  | succ f ih =>
    unfold prettyLoop evs rest
    by_cases h : isSet m e = true
    · simp [h, ih]
    · simp [h, ih]

theorem mem_evs {fuel : Nat} {e : Nat} {m : Mask} {x : Nat} (hx : x ∈ evs fuel e m) :
    e ≤ x ∧ x < e + fuel ∧ isSet m x = true := by
  induction fuel generalizing e m with
  | zero => simp [evs] at hx
  | succ f ih =>
    unfold evs at hx
    by_cases h : isSet m e = true
    · simp only [h, if_true, List.mem_cons] at hx
      rcases hx with rfl | hx
      · exact ⟨Nat.le_refl _, by omega, h⟩
      · obtain ⟨h1, h2, h3⟩ := ih hx
        exact ⟨by omega, by omega, isSet_clear_le m e x h3⟩
    · simp only [h] at hx
      obtain ⟨h1, h2, h3⟩ := ih hx
      exact ⟨by omega, by omega, h3⟩

/-- OR-ing the found events onto `acc`, together with what is left, gives back `acc ||| m` -/
theorem foldl_set_evs (fuel : Nat) (e : Nat) (m acc : Mask) :
    (evs fuel e m).foldl set acc ||| rest fuel e m = acc ||| m := by
  induction fuel generalizing e m acc with
  | zero => simp [evs, rest]
  | succ f ih =>
    unfold evs rest
    by_cases h : isSet m e = true
    · simp only [h, if_true, List.foldl_cons]
      rw [ih]
      have := set_clear_of_isSet m e h
      unfold set at this ⊢
      rw [BitVec.or_assoc, BitVec.or_comm (bit e), this]
    · simp only [h]
      exact ih _ _ _

theorem getLsbD_lt {x : Mask} {i : Nat} (hx : x.getLsbD i = true) : i < 32 := by
  rcases Nat.lt_or_ge i 32 with h | h
  · exact h
  · rw [BitVec.getLsbD_of_ge x i h] at hx; cases hx

theorem getLsbD_rest (fuel : Nat) {e : Nat} (he : 1 ≤ e) (m : Mask) (i : Nat) :
    (rest fuel e m).getLsbD i = true ↔
      (m.getLsbD i = true ∧ ¬ (e - 1 ≤ i ∧ i < e - 1 + fuel)) := by
  induction fuel generalizing e m with
  | zero =>
    unfold rest
    constructor
    · intro h; exact ⟨h, by omega⟩
    · intro h; exact h.1
  | succ f ih =>
    unfold rest
    by_cases h : isSet m e = true
    · rw [if_pos h, ih (by omega), getLsbD_clear]
      simp only [Bool.and_eq_true, Bool.not_eq_true', decide_eq_false_iff_not, Nat.add_sub_cancel]
      constructor
      · rintro ⟨⟨hm, hne⟩, hr⟩
        have := getLsbD_lt hm
        exact ⟨hm, by omega⟩
      · rintro ⟨hm, hr⟩
        exact ⟨⟨hm, by omega⟩, by omega⟩
    · rw [if_neg h, ih (by omega)]
      rw [isSet_eq] at h
      simp only [Nat.add_sub_cancel]
      constructor
      · rintro ⟨hm, hr⟩
        refine ⟨hm, ?_⟩
        intro hc
        by_cases hi : i = e - 1
        · subst hi; exact h hm
        · omega
      · rintro ⟨hm, hr⟩
        exact ⟨hm, by omega⟩

/-- within `ValidEvents` the loop of `PrettyString` leaves nothing -/
theorem rest_eq_zero {m : Mask} (h : m &&& ~~~valid = 0#32) : rest 14 1 m = 0#32 := by
  apply BitVec.eq_of_getLsbD_eq
  intro i _
  have hz : (0#32).getLsbD i = false := by simp
  rw [hz]
  apply Bool.eq_false_iff.mpr
  intro hr
  obtain ⟨hm, hn⟩ := (getLsbD_rest 14 (Nat.le_refl 1) m i).mp hr
  have h14 : 14 ≤ i := by omega
  rw [getLsbD_of_valid h (i := i) (by omega)] at hm
  cases hm

/-! ## strings -/

theorem toLower_append (a b : Str) : toLower (a ++ b) = toLower a ++ toLower b := by
  simp [toLower]

theorem toLower_joinWith (sep : Str) (xs : List Str) :
    toLower (joinWith sep xs) = joinWith (toLower sep) (xs.map toLower) := by
  induction xs with
  | nil => rfl
  | cons x rest ih =>
    cases rest with
    | nil => rfl
    | cons y ys =>
      simp only [joinWith, toLower_append, List.map_cons] at ih ⊢
      rw [ih]

theorem splitOnChar_ne_nil (c : Char) (s : Str) : splitOnChar c s ≠ [] := by
  induction s with
  | nil => simp [splitOnChar]
  | cons x xs ih =>
    unfold splitOnChar
    by_cases h : x = c
    · simp [h]
    · simp only [h, if_false]
      split <;> simp

theorem splitOnChar_cons_ne {c a : Char} (h : a ≠ c) {s p : Str} {ps : List Str}
    (hs : splitOnChar c s = p :: ps) : splitOnChar c (a :: s) = (a :: p) :: ps := by
  conv => lhs; unfold splitOnChar
  simp [h, hs]

theorem splitOnChar_of_not_mem (c : Char) (x : Str) (h : c ∉ x) : splitOnChar c x = [x] := by
  induction x with
  | nil => rfl
  | cons a as ih =>
    have ha : a ≠ c := fun hh => h (by simp [hh])
    have has : c ∉ as := fun hh => h (by simp [hh])
    unfold splitOnChar
    simp [ha, ih has]

theorem splitOnChar_append_sep (c : Char) (x rest : Str) (h : c ∉ x) :
    splitOnChar c (x ++ c :: rest) = x :: splitOnChar c rest := by
  induction x with
  | nil => simp [splitOnChar]
  | cons a as ih =>
    have ha : a ≠ c := fun hh => h (by simp [hh])
    have has : c ∉ as := fun hh => h (by simp [hh])
    simp only [List.cons_append]
    exact splitOnChar_cons_ne ha (ih has)

/-- `strings.Split(strings.Join(xs, ","), ",") = xs` for non-empty `xs` of comma-free strings -/
theorem splitOnChar_joinWith (c : Char) (xs : List Str) (hne : xs ≠ []) (h : ∀ x ∈ xs, c ∉ x) :
    splitOnChar c (joinWith [c] xs) = xs := by
  induction xs with
  | nil => exact absurd rfl hne
  | cons x rest ih =>
    cases rest with
    | nil => simpa [joinWith] using splitOnChar_of_not_mem c x (h x (by simp))
    | cons y ys =>
      have hx : c ∉ x := h x (by simp)
      have := ih (by simp) (fun z hz => h z (by simp [hz]))
      simp only [joinWith] at this ⊢
      rw [List.append_assoc, List.singleton_append, splitOnChar_append_sep c x _ hx, this]

/-! ## `ParseEventMask` on the printed names -/

/-- the lower-cased printed name of event `e` -/
def lcName (e : Nat) : Str := toLower (prettyName e)

/-- the thirteen name facts: a printed name, lower-cased, has no comma, is none of the group
    words, is left alone by `TrimSpace`, and is the parse-table key of the same event -/
theorem name_facts : ∀ e ∈ List.range' 1 13,
    ',' ∉ lcName e ∧ lcName e ≠ str "all" ∧ lcName e ≠ str "pod" ∧ lcName e ≠ str "podsandbox" ∧
    lcName e ≠ str "container" ∧ trim (lcName e) = lcName e ∧
    AList.lookup parseTable (lcName e) = some e := by
  decide

theorem parseName_lcName (acc : Mask) {e : Nat} (h1 : 1 ≤ e) (h13 : e ≤ 13) :
    parseName acc (lcName e) = some (set acc e) := by
  have hm : e ∈ List.range' 1 13 := by
    rw [List.mem_range'_1]; omega
  obtain ⟨_, f1, f2, f3, f4, f5, f6⟩ := name_facts e hm
  unfold parseName
  simp [f1, f2, f3, f4, f5, f6]

theorem foldlM_parseName (es : List Nat) (acc : Mask) (h : ∀ e ∈ es, 1 ≤ e ∧ e ≤ 13) :
    (es.map lcName).foldlM parseName acc = some (es.foldl set acc) := by
  induction es generalizing acc with
  | nil => rfl
  | cons e rest ih =>
    obtain ⟨h1, h13⟩ := h e (by simp)
    simp only [List.map_cons, List.foldlM_cons, List.foldl_cons, parseName_lcName acc h1 h13]
    exact ih _ (fun x hx => h x (by simp [hx]))


/-! ## assembling `PrettyString` for masks within `ValidEvents` -/

theorem pretty_eq_of_valid {m : Mask} (hv : m &&& ~~~valid = 0#32) :
    pretty m = joinWith [','] ((evs 14 1 m).map prettyName) := by
  unfold pretty
  rw [prettyLoop_eq]
  simp only [List.reverse_nil, List.nil_append, rest_eq_zero hv]
  have : str "," = [','] := by decide
  simp [this]

theorem evs_le_13 {m : Mask} (hv : m &&& ~~~valid = 0#32) : ∀ e ∈ evs 14 1 m, 1 ≤ e ∧ e ≤ 13 := by
  intro e he
  obtain ⟨h1, h2, h3⟩ := mem_evs he
  refine ⟨h1, ?_⟩
  rcases Nat.lt_or_ge e 14 with h | h
  · omega
  · have : e = 14 := by omega
    subst this
    rw [isSet_eq, getLsbD_of_valid hv (by omega)] at h3
    cases h3

theorem foldl_set_evs_valid {m : Mask} (hv : m &&& ~~~valid = 0#32) :
    (evs 14 1 m).foldl set 0#32 = m := by
  have := foldl_set_evs 14 1 m 0#32
  rw [rest_eq_zero hv] at this
  simpa using this

end Nri.Events
