/-
Helper lemmas for the model of the sample injector plugins (property C20).
-/
import NriModel.Plugins

namespace Nri.Plugins
open Nri

/-! ### keys -/

theorem deviceKey_eq : deviceKey = ['d','e','v','i','c','e','s','.','n','r','i','.','i','o'] := by decide
theorem mountKey_eq : mountKey = ['m','o','u','n','t','s','.','n','r','i','.','i','o'] := by decide
theorem cdiDeviceKey_eq : cdiDeviceKey =
    ['c','d','i','-','d','e','v','i','c','e','s','.','n','r','i','.','i','o'] := by decide
theorem ulimitKey_eq : ulimitKey =
    ['u','l','i','m','i','t','s','.','n','r','i','.','c','o','n','t','a','i','n','e','r','d','.','i','o'] := by
  decide
theorem containerSuffix_eq : containerSuffix = ['/','c','o','n','t','a','i','n','e','r','.'] := by decide
theorem podSuffix_eq : podSuffix = ['/','p','o','d'] := by decide

/-- the container-scoped key determines the container name: equality, not prefix -/
theorem containerKey_inj {m c c' : Str} (h : containerKey m c = containerKey m c') : c = c' := by
  unfold containerKey at h
  exact List.append_cancel_left (List.append_cancel_left h)

theorem containerKey_ne_podKey (m c : Str) : containerKey m c ≠ podKey m := by
  intro h
  unfold containerKey podKey at h
  have h' := List.append_cancel_left h
  rw [containerSuffix_eq, podSuffix_eq] at h'
  simp at h'

theorem containerKey_ne_main (m c : Str) : containerKey m c ≠ m := by
  intro h
  have := congrArg List.length h
  unfold containerKey at this
  rw [containerSuffix_eq] at this
  simp at this

theorem podKey_ne_main (m : Str) : podKey m ≠ m := by
  intro h
  have := congrArg List.length h
  unfold podKey at this
  rw [podSuffix_eq] at this
  simp at this

/-- the four main keys -/
def mainKeys : List Str := [deviceKey, cdiDeviceKey, mountKey, ulimitKey]

/-- every key either plugin ever looks up for container `ctr` -/
def relevantKeys (ctr : Str) : List Str :=
  [ containerKey deviceKey ctr, podKey deviceKey, deviceKey,
    containerKey cdiDeviceKey ctr, podKey cdiDeviceKey, cdiDeviceKey,
    containerKey mountKey ctr, podKey mountKey, mountKey,
    containerKey ulimitKey ctr ]

theorem head_append (m s : Str) (h : m ≠ []) : (m ++ s).head? = m.head? := by
  cases m with
  | nil => exact absurd rfl h
  | cons a t => rfl

/-- keys of different families differ (already in their first character) -/
theorem family_keys_ne {m m2 : Str} (hm : m ≠ []) (hm2 : m2 ≠ []) (hd : m.head? ≠ m2.head?)
    (c c' : Str) :
    containerKey m c' ≠ containerKey m2 c ∧ containerKey m c' ≠ podKey m2 ∧ containerKey m c' ≠ m2 := by
  refine ⟨?_, ?_, ?_⟩ <;> intro h <;> apply hd <;> have h' := congrArg List.head? h
  · unfold containerKey at h'
    rwa [head_append _ _ hm, head_append _ _ hm2] at h'
  · unfold containerKey podKey at h'
    rwa [head_append _ _ hm, head_append _ _ hm2] at h'
  · unfold containerKey at h'
    rwa [head_append _ _ hm] at h'

theorem mainKeys_nonempty {m : Str} (hm : m ∈ mainKeys) : m ≠ [] := by
  simp only [mainKeys, List.mem_cons, List.mem_nil_iff, or_false] at hm
  rcases hm with rfl | rfl | rfl | rfl
  · rw [deviceKey_eq]; simp
  · rw [cdiDeviceKey_eq]; simp
  · rw [mountKey_eq]; simp
  · rw [ulimitKey_eq]; simp

theorem mainKeys_head {m m2 : Str} (hm : m ∈ mainKeys) (hm2 : m2 ∈ mainKeys) :
    m = m2 ∨ m.head? ≠ m2.head? := by
  simp only [mainKeys, List.mem_cons, List.mem_nil_iff, or_false] at hm hm2
  rcases hm with h1 | h1 | h1 | h1 <;> rcases hm2 with h2 | h2 | h2 | h2 <;> rw [h1, h2]
  · exact Or.inl rfl
  · right; rw [deviceKey_eq, cdiDeviceKey_eq]; simp
  · right; rw [deviceKey_eq, mountKey_eq]; simp
  · right; rw [deviceKey_eq, ulimitKey_eq]; simp
  · right; rw [cdiDeviceKey_eq, deviceKey_eq]; simp
  · exact Or.inl rfl
  · right; rw [cdiDeviceKey_eq, mountKey_eq]; simp
  · right; rw [cdiDeviceKey_eq, ulimitKey_eq]; simp
  · right; rw [mountKey_eq, deviceKey_eq]; simp
  · right; rw [mountKey_eq, cdiDeviceKey_eq]; simp
  · exact Or.inl rfl
  · right; rw [mountKey_eq, ulimitKey_eq]; simp
  · right; rw [ulimitKey_eq, deviceKey_eq]; simp
  · right; rw [ulimitKey_eq, cdiDeviceKey_eq]; simp
  · right; rw [ulimitKey_eq, mountKey_eq]; simp
  · exact Or.inl rfl

/-- membership in `relevantKeys`, family by family -/
theorem mem_relevantKeys {k c : Str} (h : k ∈ relevantKeys c) :
    ∃ m2 ∈ mainKeys, k = containerKey m2 c ∨ k = podKey m2 ∨ k = m2 := by
  simp only [relevantKeys, List.mem_cons, List.mem_nil_iff, or_false] at h
  rcases h with h | h | h | h | h | h | h | h | h | h
  · exact ⟨deviceKey, by simp [mainKeys], Or.inl h⟩
  · exact ⟨deviceKey, by simp [mainKeys], Or.inr (Or.inl h)⟩
  · exact ⟨deviceKey, by simp [mainKeys], Or.inr (Or.inr h)⟩
  · exact ⟨cdiDeviceKey, by simp [mainKeys], Or.inl h⟩
  · exact ⟨cdiDeviceKey, by simp [mainKeys], Or.inr (Or.inl h)⟩
  · exact ⟨cdiDeviceKey, by simp [mainKeys], Or.inr (Or.inr h)⟩
  · exact ⟨mountKey, by simp [mainKeys], Or.inl h⟩
  · exact ⟨mountKey, by simp [mainKeys], Or.inr (Or.inl h)⟩
  · exact ⟨mountKey, by simp [mainKeys], Or.inr (Or.inr h)⟩
  · exact ⟨ulimitKey, by simp [mainKeys], Or.inl h⟩

/-- a key addressed to another container is none of the keys looked up for this one — also
    when one container name is a prefix of the other -/
theorem other_container_irrelevant {m c c' : Str} (hm : m ∈ mainKeys) (hne : c' ≠ c) :
    containerKey m c' ∉ relevantKeys c := by
  intro hin
  obtain ⟨m2, hm2, h⟩ := mem_relevantKeys hin
  rcases mainKeys_head hm hm2 with rfl | hd
  · rcases h with h | h | h
    · exact hne (containerKey_inj h)
    · exact containerKey_ne_podKey _ _ h
    · exact containerKey_ne_main _ _ h
  · have := family_keys_ne (mainKeys_nonempty hm) (mainKeys_nonempty hm2) hd c c'
    rcases h with h | h | h
    · exact this.1 h
    · exact this.2.1 h
    · exact this.2.2 h

/-! ### annotation lookup -/

theorem getAnnotation_eq_spec (ann : Annotations) (main ctr : Str) :
    getAnnotation ann main ctr = Spec.injectorAnnotation ann main ctr := by
  unfold getAnnotation Spec.injectorAnnotation firstPresent firstPresent firstPresent firstPresent
  cases AList.lookup ann (containerKey main ctr) <;>
  cases AList.lookup ann (podKey main) <;>
  cases AList.lookup ann main <;> rfl

theorem injectorAnnotation_congr {ann ann' : Annotations} {main ctr : Str}
    (h1 : AList.lookup ann (containerKey main ctr) = AList.lookup ann' (containerKey main ctr))
    (h2 : AList.lookup ann (podKey main) = AList.lookup ann' (podKey main))
    (h3 : AList.lookup ann main = AList.lookup ann' main) :
    Spec.injectorAnnotation ann main ctr = Spec.injectorAnnotation ann' main ctr := by
  unfold Spec.injectorAnnotation
  rw [h1, h2, h3]

/-! ### the injector in closed form -/

theorem injector_eq (Y : Yaml) (ann : Annotations) (ctr : Str) :
    injector Y ann ctr =
      match Spec.described Y.devices (Spec.injectorAnnotation ann deviceKey ctr) with
      | none => .error .badDevices
      | some ds =>
        match Spec.described Y.cdi (Spec.injectorAnnotation ann cdiDeviceKey ctr) with
        | none => .error .badCDI
        | some cs =>
          match Spec.described Y.mounts (Spec.injectorAnnotation ann mountKey ctr) with
          | none => .error .badMounts
          | some ms => .ok { devices := ds.map Device.toNRI, cdi := cs, mounts := ms } := by
  unfold injector injectDevices injectCDIDevices injectMounts parseDevices parseCDIDevices parseMounts
  simp only [getAnnotation_eq_spec]
  cases Spec.injectorAnnotation ann deviceKey ctr with
  | none =>
    cases Spec.injectorAnnotation ann cdiDeviceKey ctr with
    | none =>
      cases Spec.injectorAnnotation ann mountKey ctr with
      | none => simp [Spec.described]
      | some r3 => cases h3 : Y.mounts r3 <;> simp [Spec.described, h3]
    | some r2 =>
      cases h2 : Y.cdi r2 with
      | none => simp [Spec.described, h2]
      | some cs =>
        cases Spec.injectorAnnotation ann mountKey ctr with
        | none => simp [Spec.described, h2]
        | some r3 => cases h3 : Y.mounts r3 <;> simp [Spec.described, h2, h3]
  | some r1 =>
    cases h1 : Y.devices r1 with
    | none => simp [Spec.described, h1]
    | some ds =>
      cases Spec.injectorAnnotation ann cdiDeviceKey ctr with
      | none =>
        cases Spec.injectorAnnotation ann mountKey ctr with
        | none => simp [Spec.described, h1]
        | some r3 => cases h3 : Y.mounts r3 <;> simp [Spec.described, h1, h3]
      | some r2 =>
        cases h2 : Y.cdi r2 with
        | none => simp [Spec.described, h1, h2]
        | some cs =>
          cases Spec.injectorAnnotation ann mountKey ctr with
          | none => simp [Spec.described, h1, h2]
          | some r3 => cases h3 : Y.mounts r3 <;> simp [Spec.described, h1, h2, h3]

/-! ### the adjuster in closed form -/

/-- the two loops of the adjuster (validate every type, then check every hard ≥ soft) -/
def adjusterCore (us : List Ulimit) : Except Err (List Rlimit) :=
  match normaliseAll us with
  | .error e => .error e
  | .ok us' => adjustUlimits us'

theorem adjusterCore_cons (u : Ulimit) (rest : List Ulimit) :
    adjusterCore (u :: rest) =
      match normalise u.type with
      | none => .error .badType
      | some n =>
        match normaliseAll rest with
        | .error e => .error e
        | .ok rest' =>
          if u.hard < u.soft then .error .hardLtSoft
          else match adjustUlimits rest' with
            | .error e => .error e
            | .ok rs => .ok ({ type := n, hard := u.hard, soft := u.soft } :: rs) := by
  unfold adjusterCore
  simp only [normaliseAll]
  cases normalise u.type with
  | none => rfl
  | some n =>
    cases normaliseAll rest with
    | error e => rfl
    | ok rest' => simp only [adjustUlimits]; rfl

theorem adjusterCore_ok_iff (us : List Ulimit) (rs : List Rlimit) :
    adjusterCore us = .ok rs ↔ Spec.rlimitsOf us = some rs := by
  induction us generalizing rs with
  | nil => simp [adjusterCore, normaliseAll, adjustUlimits, Spec.rlimitsOf, eq_comm]
  | cons u rest ih =>
    rw [adjusterCore_cons]
    unfold Spec.rlimitsOf Spec.rlimitOf
    have ih' : ∀ rs, adjusterCore rest = .ok rs ↔ Spec.rlimitsOf rest = some rs := ih
    unfold adjusterCore at ih'
    cases hn : normalise u.type with
    | none => simp
    | some n =>
      cases hr : normaliseAll rest with
      | error e =>
        rw [hr] at ih'
        have : Spec.rlimitsOf rest = none := by
          cases h : Spec.rlimitsOf rest with
          | none => rfl
          | some x => exact absurd ((ih' x).mpr h) (by simp)
        simp [this]
      | ok rest' =>
        rw [hr] at ih'
        simp only at ih'
        by_cases hlt : u.hard < u.soft
        · simp [hlt]
        · simp only [hlt, if_false]
          cases ha : adjustUlimits rest' with
          | error e =>
            have : Spec.rlimitsOf rest = none := by
              cases h : Spec.rlimitsOf rest with
              | none => rfl
              | some x => exact absurd ((ih' x).mpr h) (by simp [ha])
            simp [this]
          | ok rs' =>
            have : Spec.rlimitsOf rest = some rs' := (ih' rs').mp ha
            simp [this, eq_comm]

theorem adjusterCore_error_iff (us : List Ulimit) :
    (∃ e, adjusterCore us = .error e) ↔ Spec.rlimitsOf us = none := by
  constructor
  · rintro ⟨e, he⟩
    cases h : Spec.rlimitsOf us with
    | none => rfl
    | some rs => rw [(adjusterCore_ok_iff us rs).mpr h] at he; cases he
  · intro h
    cases hc : adjusterCore us with
    | error e => exact ⟨e, rfl⟩
    | ok rs => rw [(adjusterCore_ok_iff us rs).mp hc] at h; cases h

theorem adjuster_eq (Y : Yaml) (ann : Annotations) (ctr : Str) :
    adjuster Y ann ctr =
      match Spec.described Y.ulimits (Spec.adjusterAnnotation ann ctr) with
      | none => .error .badUlimits
      | some us =>
        match adjusterCore us with
        | .error e => .error e
        | .ok rs => .ok { rlimits := rs } := by
  unfold adjuster parseUlimits Spec.adjusterAnnotation adjusterCore
  cases AList.lookup ann (containerKey ulimitKey ctr) with
  | none => simp [Spec.described, normaliseAll, adjustUlimits]
  | some raw =>
    cases h : Y.ulimits raw with
    | none => simp [Spec.described, h]
    | some us =>
      simp only [Spec.described, h]
      cases normaliseAll us <;> rfl

/-! ### the runtime's collector is the identity on plain adjustments -/

theorem filter_not_marked {α : Type} (f : α → Str) (l : List α)
    (h : (l.any fun x => marked (f x)) = false) : l.filter (fun x => !marked (f x)) = l := by
  rw [List.filter_eq_self]
  intro x hx
  have := List.any_eq_false.mp h x hx
  simpa using this

theorem mergeInjector_plain (a : Adjust)
    (h1 : (a.mounts.any fun m => marked m.destination) = false)
    (h2 : (a.devices.any fun d => marked d.path) = false)
    (h3 : hasDup (a.mounts.map (·.destination)) = false)
    (h4 : hasDup (a.devices.map (·.path)) = false)
    (h5 : hasDup a.cdi = false) : mergeInjector a = .ok a := by
  unfold mergeInjector
  simp only [filter_not_marked (fun m : Mount => m.destination) a.mounts h1,
    filter_not_marked (fun d : ApiDevice => d.path) a.devices h2, h3, h4, h5]
  simp

end Nri.Plugins

namespace Nri.Plugins
open Nri

/-! ### the whole request as a function of the four selected annotations -/

def injectorCore (Y : Yaml) (a1 a2 a3 : Option Str) : Except Err Adjust :=
  match Spec.described Y.devices a1 with
  | none => .error .badDevices
  | some ds =>
    match Spec.described Y.cdi a2 with
    | none => .error .badCDI
    | some cs =>
      match Spec.described Y.mounts a3 with
      | none => .error .badMounts
      | some ms => .ok { devices := ds.map Device.toNRI, cdi := cs, mounts := ms }

def adjusterOf (Y : Yaml) (a4 : Option Str) : Except Err Adjust :=
  match Spec.described Y.ulimits a4 with
  | none => .error .badUlimits
  | some us =>
    match adjusterCore us with
    | .error e => .error e
    | .ok rs => .ok { rlimits := rs }

def createCore (Y : Yaml) (a1 a2 a3 a4 : Option Str) : Except Err Adjust :=
  match injectorCore Y a1 a2 a3 with
  | .error e => .error e
  | .ok a =>
    match mergeInjector a with
    | .error e => .error e
    | .ok r1 =>
      match adjusterOf Y a4 with
      | .error e => .error e
      | .ok b => mergeAdjuster r1 b

def expectedCore (Y : Yaml) (a1 a2 a3 a4 : Option Str) : Option Adjust :=
  match Spec.described Y.devices a1, Spec.described Y.cdi a2, Spec.described Y.mounts a3,
        Spec.described Y.ulimits a4 with
  | some ds, some cs, some ms, some us =>
    match Spec.rlimitsOf us with
    | some rs => some { devices := ds.map Device.toNRI, cdi := cs, mounts := ms, rlimits := rs }
    | none => none
  | _, _, _, _ => none

theorem create_eq_core (Y : Yaml) (ann : Annotations) (ctr : Str) :
    create Y ann ctr =
      createCore Y (Spec.injectorAnnotation ann deviceKey ctr) (Spec.injectorAnnotation ann cdiDeviceKey ctr)
        (Spec.injectorAnnotation ann mountKey ctr) (Spec.adjusterAnnotation ann ctr) := by
  unfold create createCore
  rw [injector_eq, adjuster_eq]
  rfl

theorem expected_eq_core (Y : Yaml) (ann : Annotations) (ctr : Str) :
    Spec.expected Y ann ctr =
      expectedCore Y (Spec.injectorAnnotation ann deviceKey ctr) (Spec.injectorAnnotation ann cdiDeviceKey ctr)
        (Spec.injectorAnnotation ann mountKey ctr) (Spec.adjusterAnnotation ann ctr) := rfl

/-- what a successful request returns: the expected adjustment (minus entries carrying the
    removal marker, which the runtime does not treat as additions) -/
theorem createCore_ok {Y : Yaml} {a1 a2 a3 a4 : Option Str} {r : Adjust}
    (h : createCore Y a1 a2 a3 a4 = .ok r) :
    ∃ a, expectedCore Y a1 a2 a3 a4 = some a ∧ r.cdi = a.cdi ∧ r.rlimits = a.rlimits ∧
      r.mounts = a.mounts.filter (fun m => !marked m.destination) ∧
      r.devices = a.devices.filter (fun d => !marked d.path) := by
  unfold createCore injectorCore adjusterOf at h
  unfold expectedCore
  cases h1 : Spec.described Y.devices a1 with
  | none => simp [h1] at h
  | some ds =>
    cases h2 : Spec.described Y.cdi a2 with
    | none => simp [h1, h2] at h
    | some cs =>
      cases h3 : Spec.described Y.mounts a3 with
      | none => simp [h1, h2, h3] at h
      | some ms =>
        simp only [h1, h2, h3] at h
        cases hm : mergeInjector { devices := ds.map Device.toNRI, cdi := cs, mounts := ms } with
        | error e => simp [hm] at h
        | ok r1 =>
          simp only [hm] at h
          cases h4 : Spec.described Y.ulimits a4 with
          | none => simp [h4] at h
          | some us =>
            simp only [h4] at h
            cases hc : adjusterCore us with
            | error e => simp [hc] at h
            | ok rs =>
              simp only [hc] at h
              have hrs := (adjusterCore_ok_iff us rs).mp hc
              simp only [hrs]
              refine ⟨_, rfl, ?_⟩
              unfold mergeInjector at hm
              unfold mergeAdjuster at h
              simp only at hm h
              split at hm
              · cases hm
              · split at hm
                · cases hm
                · split at hm
                  · cases hm
                  · split at h
                    · cases h
                    · cases hm; cases h; simp

theorem createCore_of_expected {Y : Yaml} {a1 a2 a3 a4 : Option Str} {a : Adjust}
    (h : expectedCore Y a1 a2 a3 a4 = some a) (hp : Plain a = true) :
    createCore Y a1 a2 a3 a4 = .ok a := by
  unfold expectedCore at h
  unfold createCore injectorCore adjusterOf
  cases h1 : Spec.described Y.devices a1 with
  | none => simp [h1] at h
  | some ds =>
    cases h2 : Spec.described Y.cdi a2 with
    | none => simp [h1, h2] at h
    | some cs =>
      cases h3 : Spec.described Y.mounts a3 with
      | none => simp [h1, h2, h3] at h
      | some ms =>
        cases h4 : Spec.described Y.ulimits a4 with
        | none => simp [h1, h2, h3, h4] at h
        | some us =>
          simp only [h1, h2, h3, h4] at h
          cases hr : Spec.rlimitsOf us with
          | none => simp [hr] at h
          | some rs =>
            simp only [hr] at h
            have ha := Option.some.inj h
            subst ha
            simp only [Plain, Bool.and_eq_true, Bool.not_eq_true'] at hp
            obtain ⟨⟨⟨⟨⟨p1, p2⟩, p3⟩, p4⟩, p5⟩, p6⟩ := hp
            have hm := mergeInjector_plain
              { devices := ds.map Device.toNRI, cdi := cs, mounts := ms } p1 p2 p3 p4 p5
            simp only [hm, (adjusterCore_ok_iff us rs).mpr hr]
            unfold mergeAdjuster
            simp [p6]

theorem createCore_error_of_expected_none {Y : Yaml} {a1 a2 a3 a4 : Option Str}
    (h : expectedCore Y a1 a2 a3 a4 = none) : ∃ e, createCore Y a1 a2 a3 a4 = .error e := by
  cases hc : createCore Y a1 a2 a3 a4 with
  | error e => exact ⟨e, rfl⟩
  | ok r =>
    obtain ⟨a, ha, _⟩ := createCore_ok hc
    rw [ha] at h; cases h

/-- every acceptable list of ulimits yields exactly these rlimits -/
theorem rlimitsOf_of_all {us : List Ulimit}
    (h : ∀ u ∈ us, (normalise u.type).isSome ∧ u.soft ≤ u.hard) :
    Spec.rlimitsOf us = some (us.map fun u =>
      { type := rlimitPrefix ++ trimPrefix rlimitPrefix (toUpper u.type), hard := u.hard, soft := u.soft }) := by
  induction us with
  | nil => rfl
  | cons u rest ih =>
    have hu := h u (by simp)
    have ih' := ih (fun x hx => h x (by simp [hx]))
    unfold Spec.rlimitsOf Spec.rlimitOf
    rw [ih']
    obtain ⟨hs, hle⟩ := hu
    unfold normalise at hs ⊢
    simp only at hs ⊢
    split at hs
    · rename_i hv
      have : ¬ u.hard < u.soft := by omega
      simp [hv, this]
    · simp at hs

/-- an unacceptable entry anywhere makes the whole list unacceptable -/
theorem rlimitsOf_none_of_bad {us : List Ulimit} {u : Ulimit} (hu : u ∈ us)
    (hbad : normalise u.type = none ∨ u.hard < u.soft) : Spec.rlimitsOf us = none := by
  induction us with
  | nil => cases hu
  | cons x rest ih =>
    unfold Spec.rlimitsOf
    rcases List.mem_cons.mp hu with rfl | hin
    · have : Spec.rlimitOf u = none := by
        unfold Spec.rlimitOf
        rcases hbad with hb | hb
        · simp [hb]
        · cases normalise u.type <;> simp [hb]
      simp [this]
    · rw [ih hin]
      cases Spec.rlimitOf x <;> rfl

end Nri.Plugins
