/-
Bridges between the two models' vocabularies for the removal marker (`NApi.isMarked` returns
the pair, `Api.isMarked`/`Api.stripMarker` the components), what `keyOk` gives, and small list
lemmas shared by the keyed families of C03.  Core Lean only.
-/
import NriModel.Lemmas.ComposeSeq

namespace Nri.Compose
open Nri Nri.Generate

theorem isMarked_pair (k : Str) : NApi.isMarked k = (Api.stripMarker k, Api.isMarked k) := by
  cases k with
  | nil => rfl
  | cons c cs =>
    unfold NApi.isMarked Api.stripMarker Api.isMarked
    by_cases h : c = '-'
    · subst h; rfl
    · simp only [h, if_false]
      split <;> simp_all

@[simp] theorem isMarked_snd (k : Str) : (NApi.isMarked k).2 = Api.isMarked k := by rw [isMarked_pair]
@[simp] theorem isMarked_fst (k : Str) : (NApi.isMarked k).1 = Api.stripMarker k := by rw [isMarked_pair]

@[simp] theorem clearMarker_eq (k : Str) : NApi.clearMarker k = Api.stripMarker k := by
  cases k with
  | nil => rfl
  | cons c cs =>
    unfold NApi.clearMarker Api.stripMarker
    by_cases h : c = '-'
    · subst h; rfl
    · simp only [h, if_false]
      split <;> simp_all

theorem isMarked_iff (k : Str) : Api.isMarked k = true ↔ k = '-' :: Api.stripMarker k := by
  cases k with
  | nil => simp [Api.isMarked]
  | cons c cs =>
    by_cases h : c = '-'
    · subst h; simp [Api.isMarked, Api.stripMarker]
    · have : Api.isMarked (c :: cs) = false := by unfold Api.isMarked; split <;> simp_all
      rw [this]
      have : Api.stripMarker (c :: cs) = c :: cs := Api.strip_of_not_marked this
      rw [this]
      simp only [Bool.false_eq_true, List.cons.injEq, false_iff, not_and]
      intro hc; exact absurd hc h

theorem isMarked_cons_dash (k : Str) : Api.isMarked ('-' :: k) = true := rfl
theorem stripMarker_cons_dash (k : Str) : Api.stripMarker ('-' :: k) = k := rfl

/-- what the guard `keyOk` says in the generator's vocabulary -/
theorem keyOk_iff (k : Str) :
    keyOk k = true ↔ Api.isMarked (Api.stripMarker k) = false := by
  unfold keyOk
  rw [clearMarker_eq]
  cases h : Api.stripMarker k with
  | nil => simp [Api.isMarked]
  | cons c cs =>
    by_cases hc : c = '-'
    · subst hc; simp [Api.isMarked]
    · have : Api.isMarked (c :: cs) = false := by unfold Api.isMarked; split <;> simp_all
      simp [this, hc]

theorem keysOk_iff (keys : List Str) : keysOk keys = true ↔ ∀ k ∈ keys, keyOk k = true := by
  unfold keysOk; simp

theorem mem_delKeys (keys : List Str) (k : Str) :
    k ∈ Result.delKeys keys ↔ ∃ x ∈ keys, Api.isMarked x = true ∧ Api.stripMarker x = k := by
  rw [Result.mem_delKeys_iff]
  constructor
  · rintro ⟨x, hx, h⟩
    rw [isMarked_pair] at h
    simp only [Prod.mk.injEq] at h
    exact ⟨x, hx, h.2, h.1⟩
  · rintro ⟨x, hx, h1, h2⟩
    exact ⟨x, hx, by rw [isMarked_pair, h1, h2]⟩

theorem delKeys_contains (keys : List Str) (k : Str) :
    (Result.delKeys keys).contains k = keys.any (fun x => Api.isMarked x && Api.stripMarker x == k) := by
  rw [Bool.eq_iff_iff]
  simp only [List.contains_iff_mem, List.any_eq_true, Bool.and_eq_true, beq_iff_eq]
  rw [mem_delKeys]

/-- under `keyOk` a key marked for removal is itself not marked -/
theorem delKeys_unmarked (keys : List Str) (hk : ∀ k ∈ keys, keyOk k = true) (k : Str)
    (h : k ∈ Result.delKeys keys) : Api.isMarked k = false := by
  obtain ⟨x, hx, _, h2⟩ := (mem_delKeys keys k).1 h
  have := (keyOk_iff x).1 (hk x hx)
  rw [h2] at this
  exact this

theorem pick_const_any {ε β : Type} (q : ε → Bool) (L : List ε) (c : β) (d : Option β) :
    pick (lastMatch q L) (fun _ => c) d = if L.any q then some c else d := by
  cases h : lastMatch q L with
  | none =>
    have := (lastMatch_none_iff q L).1 h
    have h2 : L.any q = false := by
      rw [Bool.eq_false_iff]; intro h3
      obtain ⟨x, hx, hq⟩ := List.any_eq_true.1 h3
      rw [this x hx] at hq; cases hq
    simp [h2]
  | some e =>
    have := lastMatch_some h
    have h2 : L.any q = true := List.any_eq_true.2 ⟨e, this.1, this.2⟩
    simp [h2]

theorem lastMatch_congr {ε : Type} {q q' : ε → Bool} (L : List ε) (h : ∀ e ∈ L, q e = q' e) :
    lastMatch q L = lastMatch q' L := by
  induction L with
  | nil => rfl
  | cons e r ih =>
    simp only [lastMatch]
    rw [ih (fun x hx => h x (List.mem_cons_of_mem _ hx)), h e (by simp)]

theorem lastMatch_isSome_iff {ε : Type} (q : ε → Bool) (L : List ε) :
    (lastMatch q L).isSome = L.any q := by
  have := pick_const_any q L () none
  cases h : lastMatch q L <;> cases h2 : L.any q <;> simp_all

end Nri.Compose
