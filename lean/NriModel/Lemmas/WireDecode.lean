/-
Record-level lemmas for the wire model (C12): what the decoder does with one record the
encoder wrote; monotonicity of the decoder in its fuel.
-/
import NriModel.Lemmas.WireVarint

namespace Nri.Wire

/-! ### one record -/

theorem parseField_varint (num x : Nat) (rest : Bytes) (h1 : 1 ≤ num) (h2 : num < 536870912)
    (hx : x < 2 ^ 64) :
    parseField (tag num 0 ++ (encodeVarint x ++ rest)) = some (num, .varint x, rest) := by
  unfold parseField tag
  rw [decodeVarint_encodeVarint _ _ (by omega)]
  have e1 : (num * 8 + 0) / 8 = num := by omega
  have e2 : (num * 8 + 0) % 8 = 0 := by omega
  have e3 : ¬ (num = 0 ∨ 536870912 ≤ num) := by omega
  simp only [e1, e2, e3, if_false, if_true]
  rw [decodeVarint_encodeVarint _ _ hx]

theorem parseField_lenDelim (num : Nat) (p rest : Bytes) (h1 : 1 ≤ num) (h2 : num < 536870912)
    (hp : p.length < 2 ^ 64) :
    parseField (lenDelim num p ++ rest) = some (num, .len p, rest) := by
  unfold parseField lenDelim tag
  simp only [List.append_assoc]
  rw [decodeVarint_encodeVarint _ _ (by omega)]
  have e1 : (num * 8 + 2) / 8 = num := by omega
  have e2 : (num * 8 + 2) % 8 = 2 := by omega
  have e3 : ¬ (num = 0 ∨ 536870912 ≤ num) := by omega
  simp only [e1, e2, e3, if_false]
  rw [decodeVarint_encodeVarint _ _ hp]
  simp

/-- the record parser only ever hands out legal field numbers (1 … 2^29-1) -/
theorem parseField_num (bs : Bytes) (num : Nat) (it : Item) (rest : Bytes)
    (h : parseField bs = some (num, it, rest)) : 1 ≤ num ∧ num < 536870912 := by
  unfold parseField at h
  split at h
  · simp at h
  · rename_i t r _
    by_cases hc : t / 8 = 0 ∨ 536870912 ≤ t / 8
    · rw [if_pos hc] at h; simp at h
    · have hnum : num = t / 8 := by
        rw [if_neg hc] at h
        repeat' split at h
        all_goals first | (simp at h; exact h.1.symm) | (simp at h)
      omega

theorem parseField_nil : parseField [] = none := by
  simp [parseField, decodeVarint, decVarintAux]

theorem lenDelim_length (num : Nat) (p : Bytes) :
    (lenDelim num p).length = sizeLenDelim num p.length := by
  simp [lenDelim, tag, sizeLenDelim, encodeVarint_length]

theorem lenDelim_length_pos (num : Nat) (p : Bytes) : p.length + 2 ≤ (lenDelim num p).length := by
  rw [lenDelim_length]
  have := sizeVarint_pos (num * 8 + 2)
  have := sizeVarint_pos p.length
  unfold sizeLenDelim
  omega

/-! ### field lookup -/

theorem findField_not_mem (fs : List Field) (num : Nat) (h : num ∉ fs.map (·.num)) :
    findField fs num = none := by
  induction fs with
  | nil => rfl
  | cons f r ih =>
    simp only [List.map_cons, List.mem_cons, not_or] at h
    have : ¬ f.num = num := fun e => h.1 e.symm
    simp [findField, this, ih h.2]

/-- with distinct field numbers, looking a declared field up by its number finds it -/
theorem findField_append (pre : List Field) (f : Field) (post : List Field)
    (hnd : ((pre ++ f :: post).map (·.num)).Nodup) :
    findField (pre ++ f :: post) f.num = some (pre.length, f) := by
  induction pre with
  | nil => simp [findField]
  | cons g pre ih =>
    simp only [List.cons_append, List.map_cons, List.nodup_cons] at hnd
    have hne : ¬ g.num = f.num := by
      intro e
      apply hnd.1
      rw [e]
      simp
    simp [findField, hne, ih hnd.2]

/-! ### unfolding the loop by one record -/

theorem decMsg_step (S : Schema) (fuel m : Nat) (acc : List Val) (bs rest : Bytes) (num : Nat)
    (it : Item) (h : parseField bs = some (num, it, rest)) :
    decMsg S (fuel + 1) m acc bs =
      match applyItem S (decMsg S fuel) (S.fieldsOf m) acc num it with
      | none => none
      | some acc' => decMsg S fuel m acc' rest := by
  cases bs with
  | nil => simp [parseField_nil] at h
  | cons b t =>
    simp only [decMsg, h]
    cases applyItem S (decMsg S fuel) (S.fieldsOf m) acc num it <;> rfl

theorem decMsg_nil (S : Schema) (fuel m : Nat) (acc : List Val) :
    decMsg S fuel m acc [] = some acc := by
  cases fuel <;> simp [decMsg]

/-! ### more fuel never changes a successful result -/

theorem applyItem_mono (S : Schema) (r1 r2 : Nat → List Val → Bytes → Option (List Val))
    (hr : ∀ m acc bs out, r1 m acc bs = some out → r2 m acc bs = some out)
    (fields : List Field) (acc : List Val) (num : Nat) (it : Item) (out : List Val)
    (h : applyItem S r1 fields acc num it = some out) :
    applyItem S r2 fields acc num it = some out := by
  unfold applyItem at h ⊢
  cases hf : findField fields num with
  | none => simpa [hf] using h
  | some x =>
    obtain ⟨i, f⟩ := x
    simp only [hf] at h ⊢
    cases hty : f.ty <;> cases it <;> simp only [hty] at h ⊢ <;> try (first | exact h | simp at h)
    · rename_i m p
      cases hrec : r1 m (curMsg S m acc[i]?) p with
      | none => rw [hrec] at h; simp at h
      | some fs => rw [hr _ _ _ _ hrec]; rw [hrec] at h; exact h
    · rename_i m p
      cases hrec : r1 m (emptyMsg S m) p with
      | none => rw [hrec] at h; simp at h
      | some fs => rw [hr _ _ _ _ hrec]; rw [hrec] at h; exact h

theorem decMsg_mono1 (S : Schema) (fuel : Nat) : ∀ (m : Nat) (acc : List Val) (bs : Bytes)
    (out : List Val), decMsg S fuel m acc bs = some out → decMsg S (fuel + 1) m acc bs = some out := by
  induction fuel with
  | zero =>
    intro m acc bs out h
    cases bs with
    | nil => simpa [decMsg] using h
    | cons b t => simp [decMsg] at h
  | succ fuel ih =>
    intro m acc bs out h
    cases bs with
    | nil => simpa [decMsg] using h
    | cons b t =>
      cases hp : parseField (b :: t) with
      | none => simp [decMsg, hp] at h
      | some x =>
        obtain ⟨num, it, rest⟩ := x
        rw [decMsg_step S _ m acc _ rest num it hp] at h ⊢
        cases ha : applyItem S (decMsg S fuel) (S.fieldsOf m) acc num it with
        | none => simp [ha] at h
        | some acc' =>
          simp only [ha] at h
          rw [applyItem_mono S _ _ ih _ _ _ _ _ ha]
          exact ih _ _ _ _ h

theorem decMsg_mono (S : Schema) (fuel fuel' m : Nat) (acc : List Val) (bs : Bytes)
    (out : List Val) (hle : fuel ≤ fuel') (h : decMsg S fuel m acc bs = some out) :
    decMsg S fuel' m acc bs = some out := by
  induction hle with
  | refl => exact h
  | step _ ih => exact decMsg_mono1 S _ _ _ _ _ ih

/-! ### map entries -/

theorem encEntry_length (k v : Bytes) : (encEntry k v).length = sizeEntry k v := by
  simp [encEntry, sizeEntry, lenDelim_length]

theorem decEntry_encEntry (k v : Bytes) (hk : okStr k = true) (hv : okStr v = true)
    (hkl : k.length < 2 ^ 64) (hvl : v.length < 2 ^ 64) (k0 v0 : Bytes) :
    decEntry (encEntry k v).length k0 v0 (encEntry k v) = some (k, v) := by
  have h1 := lenDelim_length_pos 1 k
  have h2 := lenDelim_length_pos 2 v
  obtain ⟨n, hn⟩ : ∃ n, (encEntry k v).length = n + 2 := ⟨(encEntry k v).length - 2, by
    simp [encEntry]; omega⟩
  rw [hn]
  have p1 : parseField (encEntry k v) = some (1, .len k, lenDelim 2 v) := by
    have := parseField_lenDelim 1 k (lenDelim 2 v) (by omega) (by omega) hkl
    simpa [encEntry] using this
  have p2 : parseField (lenDelim 2 v) = some (2, .len v, []) := by
    have := parseField_lenDelim 2 v [] (by omega) (by omega) hvl
    simpa using this
  cases he : encEntry k v with
  | nil => rw [he] at p1; simp [parseField_nil] at p1
  | cons b t =>
    rw [he] at p1
    simp only [decEntry, p1, hk, if_true]
    cases hl : lenDelim 2 v with
    | nil => rw [hl] at p2; simp [parseField_nil] at p2
    | cons b' t' =>
      rw [hl] at p2
      cases n with
      | zero => simp [decEntry, p2, hv]
      | succ n => simp [decEntry, p2, hv]

/-! ### association lists: inserting fresh keys appends -/

theorem insert_fresh (l : List (Bytes × Bytes)) (k v : Bytes) (h : k ∉ l.map (·.1)) :
    AList.insert l k v = l ++ [(k, v)] := by
  induction l with
  | nil => rfl
  | cons e r ih =>
    obtain ⟨k', v'⟩ := e
    simp only [List.map_cons, List.mem_cons, not_or] at h
    have : ¬ k' = k := fun e => h.1 e.symm
    simp [AList.insert, this, ih h.2]

end Nri.Wire
